import Proofs.C09
import Generated.Guards

/-!
# The async guards of the model are the guards of the Rust source

`Generated/Guards.lean` is rewritten from `/repo/runtime/src/story/*.rs` on every run (translators/guards.py): every
public function of `Story` with the activity string of its `if_async_we_cant` call.  `model_guards` states, with the
activity strings LOOKED UP IN THAT TABLE, that the model's entry points refuse with exactly the message the Rust builds
from them while a time-limited continue is unfinished, and leave the story as it was: a guard that is removed from, or
reworded in, the Rust source makes the lookup give another string and the theorem fails.  `unguarded_reviewed` pins the
list of functions WITHOUT a guard: a new public `&mut self` entry point has to be reviewed here (and modelled).
-/

namespace Ink
namespace Guards

open Story

/-- the activity string the Rust source passes to `if_async_we_cant` in the named public function -/
def activity (fn : String) : String :=
  ((Generated.guardRows.find? (fun r => r.1 == fn)).map (fun r => r.2.2)).getD ""

/-- `Story::if_async_we_cant`'s message -/
def asyncMsg (a : String) : String :=
  "Can't " ++ a ++ ". Story is in the middle of a continue_async(). Make more continue_async() calls or a single cont() call beforehand."

/-- **The model's guards are the source's guards.** -/
theorem model_guards (st : Story) (ha : st.asyncActive = true) :
    st.continueMaximally = (.invalid (asyncMsg (activity "continue_maximally")), st)
    ∧ (∀ i, st.chooseChoiceIndex i = (.invalid (asyncMsg (activity "choose_choice_index")), st))
    ∧ (∀ p r a, st.choosePathString p r a = (.invalid (asyncMsg (activity "choose_path_string")), st))
    ∧ (∀ n a, st.evaluateFunction n a = (.invalid (asyncMsg (activity "evaluate_function")), st))
    ∧ (∀ n, st.switchFlow n = (.invalid (asyncMsg (activity "switch_flow")), st))
    ∧ (∀ n, st.removeFlow n = (.invalid (asyncMsg (activity "remove_flow")), st))
    ∧ (activity "switch_to_default_flow" = "<flag>" ∧ st.switchToDefaultFlow = st)
    ∧ (∀ n v, st.setVariable n v = (.invalid (asyncMsg (activity "set_variable")), st))
    ∧ (∀ n i, st.observeVariable n i = (.invalid (asyncMsg (activity "observe_variable")), st))
    ∧ (∀ i n, st.removeVariableObserver i n = (.invalid (asyncMsg (activity "remove_variable_observer")), st))
    ∧ (∀ n d, st.bindExternal n d = (.invalid (asyncMsg (activity "bind_external_function")), st))
    ∧ (∀ n, st.unbindExternal n = (.invalid (asyncMsg (activity "unbind_external_function")), st))
    ∧ (∀ s, st.resetState s = (.invalid (asyncMsg (activity "reset_state")), st))
    ∧ (∀ d, Save.loadState st d = (.invalid (asyncMsg (activity "load_state")), st))
    ∧ st.getCurrentText = .invalid (asyncMsg (activity "get_current_text"))
    ∧ st.getCurrentTags = .invalid (asyncMsg (activity "get_current_tags")) := by
  refine ⟨?_, ?_, ?_, ?_, ?_, ?_, ?_, ?_, ?_, ?_, ?_, ?_, ?_, ?_, ?_, ?_⟩
  · simp [Story.continueMaximally, Story.ifAsyncWeCant, ha, Out.invalid, asyncMsg, activity, Generated.guardRows]
  · intro i; simp [Story.chooseChoiceIndex, Story.ifAsyncWeCant, ha, Out.invalid, asyncMsg, activity, Generated.guardRows]
  · intro p r a; simp [Story.choosePathString, Story.ifAsyncWeCant, ha, Out.invalid, asyncMsg, activity, Generated.guardRows]
  · intro n a; simp [Story.evaluateFunction, Story.ifAsyncWeCant, ha, Out.invalid, asyncMsg, activity, Generated.guardRows]
  · intro n; simp [Story.switchFlow, Story.ifAsyncWeCant, ha, Out.invalid, asyncMsg, activity, Generated.guardRows]
  · intro n; simp [Story.removeFlow, Story.ifAsyncWeCant, ha, Out.invalid, asyncMsg, activity, Generated.guardRows]
  · simp [Story.switchToDefaultFlow, ha, activity, Generated.guardRows]
  · intro n v; simp [Story.setVariable, Story.ifAsyncWeCant, ha, Out.invalid, asyncMsg, activity, Generated.guardRows]
  · intro n i; simp [Story.observeVariable, Story.ifAsyncWeCant, ha, Out.invalid, asyncMsg, activity, Generated.guardRows]
  · intro i n; simp [Story.removeVariableObserver, Story.ifAsyncWeCant, ha, Out.invalid, asyncMsg, activity, Generated.guardRows]
  · intro n d; simp [Story.bindExternal, Story.ifAsyncWeCant, ha, Out.invalid, asyncMsg, activity, Generated.guardRows]
  · intro n; simp [Story.unbindExternal, Story.ifAsyncWeCant, ha, Out.invalid, asyncMsg, activity, Generated.guardRows]
  · intro s; simp [Story.resetState, Story.ifAsyncWeCant, ha, Out.invalid, asyncMsg, activity, Generated.guardRows]
  · intro d; simp [Save.loadState, Story.ifAsyncWeCant, ha, Out.invalid, asyncMsg, activity, Generated.guardRows]
  · simp [Story.getCurrentText, Story.ifAsyncWeCant, ha, Out.invalid, asyncMsg, activity, Generated.guardRows]
  · simp [Story.getCurrentTags, Story.ifAsyncWeCant, ha, Out.invalid, asyncMsg, activity, Generated.guardRows]

/-- The public functions WITHOUT an async guard, as reviewed: the two continue functions (they ARE the sliced
    continue), two configuration setters that touch no story state, and read-only accessors (`&self`). -/
theorem unguarded_reviewed :
    (Generated.guardRows.filter (fun r => r.2.2 == "")).map (fun r => (r.1, r.2.1)) =
      [("build_string_of_hierarchy", "ref"), ("can_continue", "ref"), ("cont", "mut"), ("continue_async", "mut"),
       ("get_current_choices", "ref"), ("get_current_errors", "ref"), ("get_current_path", "ref"),
       ("get_current_warnings", "ref"), ("get_global_tags", "ref"), ("get_variable", "ref"),
       ("get_visit_count_at_path_string", "ref"), ("has_error", "ref"), ("save_state", "ref"),
       ("set_allow_external_function_fallbacks", "mut"), ("set_error_handler", "mut"),
       ("tags_for_content_at_path", "ref")] := by
  simp [Generated.guardRows]

end Guards
end Ink
