/-
  Proofs/C06.lean — soundness of the executable reference check (`Ink/RefCheck.lean`)
  and of the executable well-formedness check (`wfNodeB` / `wfTreeB` in `Ink/Tree.lean`).

  * `refOk_spec`            : what `refOk` means.
  * `refsOkTree_sound`      : the recursive checker covers every reachable position.
  * `storyOk_sound`, `all_references_resolve` : the headline statement.
  * `wfNodeB_sound`, `wfTreeB_sound` : the boolean well-formedness check implies `WFNode`/`WFTree`.
  * non-vacuity examples.
-/
import Ink.RefCheck
import Proofs.Lemmas.TreeLemmas

namespace Ink
namespace C06

open RefCheck

/-! ### 1. meaning of `refOk` -/

theorem refOk_spec (root : Obj) (a : Addr) (o : Obj)
    (h : RefCheck.refOk root a o = true) :
    ∀ k p, Audit.refPath o = some (k, p) →
      ∃ sr, resolvePath root a p = some sr ∧ sr.approximate = false ∧
        (nodeAt root sr.addr).isSome = true := by
  intro k p hp
  unfold RefCheck.refOk at h
  rw [hp] at h
  simp only at h
  cases hr : resolvePath root a p with
  | none => rw [hr] at h; simp at h
  | some sr =>
    rw [hr] at h
    simp only [Bool.and_eq_true, Bool.not_eq_true'] at h
    exact ⟨sr, rfl, h.1, h.2⟩

/-- Converse of `refOk_spec`: `refOk` is exactly the declarative statement. -/
theorem refOk_complete (root : Obj) (a : Addr) (o : Obj)
    (h : ∀ k p, Audit.refPath o = some (k, p) →
      ∃ sr, resolvePath root a p = some sr ∧ sr.approximate = false ∧
        (nodeAt root sr.addr).isSome = true) :
    RefCheck.refOk root a o = true := by
  unfold RefCheck.refOk
  cases hp : Audit.refPath o with
  | none => rfl
  | some kp =>
    obtain ⟨k, p⟩ := kp
    obtain ⟨sr, hr, hap, hn⟩ := h k p hp
    simp [hr, hap, hn]

/-! ### 2. the recursive checker -/

/-- The three statements of the mutual induction, for one amount of fuel. -/
structure SoundAt (root : Obj) (fuel : Nat) : Prop where
  tree : ∀ (o : Obj) (a : Addr), RefCheck.refsOkTree root fuel o a = true →
    ∀ (b : Addr) (o' : Obj), nodeAt o b = some o' → RefCheck.refOk root (a ++ b) o' = true
  content : ∀ (cs : List Obj) (a : Addr) (i : Nat), RefCheck.refsOkContent root fuel cs a i = true →
    ∀ (j : Nat) (c : Obj), cs[j]? = some c →
    ∀ (b : Addr) (o' : Obj), nodeAt c b = some o' →
      RefCheck.refOk root (a ++ [.idx (i + j)] ++ b) o' = true
  named : ∀ (ns : List (String × Obj)) (a : Addr), RefCheck.refsOkNamed root fuel ns a = true →
    ∀ (k : String) (c : Obj), (k, c) ∈ ns →
    ∀ (b : Addr) (o' : Obj), nodeAt c b = some o' →
      RefCheck.refOk root (a ++ [.named k] ++ b) o' = true

theorem soundAt (root : Obj) : ∀ fuel, SoundAt root fuel := by
  intro fuel
  induction fuel with
  | zero =>
    refine ⟨?_, ?_, ?_⟩
    · intro o a h; simp [RefCheck.refsOkTree] at h
    · intro cs a i h; simp [RefCheck.refsOkContent] at h
    · intro ns a h; simp [RefCheck.refsOkNamed] at h
  | succ fuel ih =>
    refine ⟨?_, ?_, ?_⟩
    · intro o a h b o' hb
      simp only [RefCheck.refsOkTree, Bool.and_eq_true] at h
      obtain ⟨⟨h0, hc⟩, hn⟩ := h
      cases b with
      | nil =>
        simp only [nodeAt, Option.some.injEq] at hb
        subst hb
        simpa using h0
      | cons s rest =>
        simp only [nodeAt] at hb
        cases hch : o.child s with
        | none => rw [hch] at hb; cases hb
        | some c =>
          rw [hch] at hb
          simp only at hb
          cases s with
          | idx j =>
            simp only [Obj.child] at hch
            have := ih.content o.content a 0 hc j c hch rest o' hb
            simpa using this
          | named k =>
            simp only [Obj.child] at hch
            cases hf : o.namedOnly.find? (fun kv => kv.1 == k) with
            | none => rw [hf] at hch; cases hch
            | some kv =>
              rw [hf] at hch
              simp only [Option.map_some, Option.some.injEq] at hch
              have hmem := List.mem_of_find?_eq_some hf
              have hkey : kv.1 = k := by
                have := List.find?_some hf
                simpa using this
              have hmem' : (k, c) ∈ o.namedOnly := by
                rw [← hkey, ← hch]; exact hmem
              have := ih.named o.namedOnly a hn k c hmem' rest o' hb
              simpa using this
    · intro cs a i h j c hj b o' hb
      cases cs with
      | nil => simp at hj
      | cons c0 rest =>
        simp only [RefCheck.refsOkContent, Bool.and_eq_true] at h
        obtain ⟨h0, hr⟩ := h
        cases j with
        | zero =>
          simp only [List.getElem?_cons_zero, Option.some.injEq] at hj
          subst hj
          have := ih.tree c0 (a ++ [.idx i]) h0 b o' hb
          simpa using this
        | succ j =>
          simp only [List.getElem?_cons_succ] at hj
          have := ih.content rest a (i + 1) hr j c hj b o' hb
          have e : i + 1 + j = i + (j + 1) := by omega
          rw [e] at this
          exact this
    · intro ns a h k c hm b o' hb
      cases ns with
      | nil => simp at hm
      | cons kc rest =>
        obtain ⟨k0, c0⟩ := kc
        simp only [RefCheck.refsOkNamed, Bool.and_eq_true] at h
        obtain ⟨h0, hr⟩ := h
        rcases List.mem_cons.mp hm with he | hm'
        · simp only [Prod.mk.injEq] at he
          obtain ⟨hk, hc⟩ := he
          subst hk; subst hc
          have := ih.tree c (a ++ [.named k]) h0 b o' hb
          simpa using this
        · exact ih.named rest a hr k c hm' b o' hb

theorem refsOkTree_sound (root : Obj) (fuel : Nat) (o : Obj) (a : Addr)
    (h : RefCheck.refsOkTree root fuel o a = true) :
    ∀ b o', nodeAt o b = some o' → RefCheck.refOk root (a ++ b) o' = true :=
  (soundAt root fuel).tree o a h

theorem refsOkContent_sound (root : Obj) (fuel : Nat) (cs : List Obj) (a : Addr) (i : Nat)
    (h : RefCheck.refsOkContent root fuel cs a i = true) :
    ∀ j c, cs[j]? = some c → ∀ b o', nodeAt c b = some o' →
      RefCheck.refOk root (a ++ [.idx (i + j)] ++ b) o' = true :=
  (soundAt root fuel).content cs a i h

theorem refsOkNamed_sound (root : Obj) (fuel : Nat) (ns : List (String × Obj)) (a : Addr)
    (h : RefCheck.refsOkNamed root fuel ns a = true) :
    ∀ k c, (k, c) ∈ ns → ∀ b o', nodeAt c b = some o' →
      RefCheck.refOk root (a ++ [.named k] ++ b) o' = true :=
  (soundAt root fuel).named ns a h

/-! ### 3. the whole story -/

theorem storyOk_sound (root : Obj) (fuel : Nat) (h : RefCheck.storyOk root fuel = true) :
    ∀ a o, nodeAt root a = some o → RefCheck.refOk root a o = true := by
  intro a o ha
  have := refsOkTree_sound root fuel root [] h a o ha
  simpa using this

/-- Headline: if the check passes, every reference carried by any object reachable from the
    root resolves, from that object's position, to existing content without approximation. -/
theorem all_references_resolve (root : Obj) (fuel : Nat) (h : RefCheck.storyOk root fuel = true) :
    ∀ a o k p, nodeAt root a = some o → Audit.refPath o = some (k, p) →
      ∃ sr, resolvePath root a p = some sr ∧ sr.approximate = false ∧
        (nodeAt root sr.addr).isSome = true := by
  intro a o k p ha hp
  exact refOk_spec root a o (storyOk_sound root fuel h a o ha) k p hp

/-! ### 4. well-formedness -/

theorem wfNodeB_sound (o : Obj) (h : wfNodeB o = true) : WFNode o := by
  unfold wfNodeB at h
  simp only [Bool.and_eq_true, List.all_eq_true, List.mem_range] at h
  obtain ⟨hc, hn⟩ := h
  constructor
  · intro i c n hi hv
    have hlt : i < o.content.length := by
      rcases Nat.lt_or_ge i o.content.length with h | h
      · exact h
      · rw [List.getElem?_eq_none h] at hi; cases hi
    have := hc i hlt
    rw [hi] at this
    simp only [hv, Bool.and_eq_true, bne_iff_ne, ne_eq, beq_iff_eq] at this
    exact this
  · intro k c hf
    cases hfind : o.namedOnly.find? (fun kv => kv.1 == k) with
    | none => rw [hfind] at hf; cases hf
    | some kv =>
      rw [hfind] at hf
      simp only [Option.map_some, Option.some.injEq] at hf
      have hmem := List.mem_of_find?_eq_some hfind
      have hkey : kv.1 = k := by
        have := List.find?_some hfind
        simpa using this
      have := hn kv hmem
      simp only [bne_iff_ne, ne_eq, beq_iff_eq] at this
      obtain ⟨⟨⟨h1, h2⟩, h3⟩, _⟩ := this
      rw [hf, hkey] at h1
      rw [hkey] at h2 h3
      exact ⟨h1, h2, h3⟩

/-- The two statements of the mutual induction for `wfTreeB` / `wfListB`. -/
structure WFAt (fuel : Nat) : Prop where
  tree : ∀ (o : Obj), wfTreeB fuel o = true → ∀ (a : Addr) (o' : Obj), nodeAt o a = some o' → WFNode o'
  list : ∀ (l : List Obj), wfListB fuel l = true → ∀ c ∈ l,
    ∀ (a : Addr) (o' : Obj), nodeAt c a = some o' → WFNode o'

theorem wfAt : ∀ fuel, WFAt fuel := by
  intro fuel
  induction fuel with
  | zero =>
    refine ⟨?_, ?_⟩
    · intro o h; simp [wfTreeB] at h
    · intro l h; simp [wfListB] at h
  | succ fuel ih =>
    refine ⟨?_, ?_⟩
    · intro o h a o' ha
      simp only [wfTreeB, Bool.and_eq_true] at h
      obtain ⟨⟨h0, hc⟩, hn⟩ := h
      cases a with
      | nil =>
        simp only [nodeAt, Option.some.injEq] at ha
        subst ha
        exact wfNodeB_sound _ h0
      | cons s rest =>
        simp only [nodeAt] at ha
        cases hch : o.child s with
        | none => rw [hch] at ha; cases ha
        | some c =>
          rw [hch] at ha
          simp only at ha
          cases s with
          | idx j =>
            simp only [Obj.child] at hch
            exact ih.list o.content hc c (List.mem_of_getElem? hch) rest o' ha
          | named k =>
            simp only [Obj.child] at hch
            cases hf : o.namedOnly.find? (fun kv => kv.1 == k) with
            | none => rw [hf] at hch; cases hch
            | some kv =>
              rw [hf] at hch
              simp only [Option.map_some, Option.some.injEq] at hch
              have hmem := List.mem_of_find?_eq_some hf
              have hmem' : c ∈ o.namedOnly.map (·.2) := by
                rw [← hch]; exact List.mem_map_of_mem hmem
              exact ih.list _ hn c hmem' rest o' ha
    · intro l h c hm a o' ha
      cases l with
      | nil => simp at hm
      | cons c0 rest =>
        simp only [wfListB, Bool.and_eq_true] at h
        obtain ⟨h0, hr⟩ := h
        rcases List.mem_cons.mp hm with he | hm'
        · subst he
          exact ih.tree c h0 a o' ha
        · exact ih.list rest hr c hm' a o' ha

theorem wfTreeB_sound (fuel : Nat) (root : Obj) (h : wfTreeB fuel root = true) : WFTree root :=
  fun a o ha => (wfAt fuel).tree root h a o ha

/-! ### 5. non-vacuity -/

/-- A root container with one content child (a divert to `knot`) and a named-only child `knot`. -/
def goodRoot : Obj :=
  .container none 0
    [ .divert { pushes := false, pushType := .function, external := false, exArgs := 0,
                conditional := false, varName := none,
                target := some { comps := [.name "knot".toList], rel := false } } ]
    [ ("knot", .container (some "knot") 0 [ .val (.str "hello") ] []) ]

/-- The same with a divert to a name that does not exist. -/
def danglingRoot : Obj :=
  .container none 0
    [ .divert { pushes := false, pushType := .function, external := false, exArgs := 0,
                conditional := false, varName := none,
                target := some { comps := [.name "nowhere".toList], rel := false } } ]
    [ ("knot", .container (some "knot") 0 [ .val (.str "hello") ] []) ]

example : RefCheck.storyOk goodRoot 100 = true := by decide
example : RefCheck.storyOk danglingRoot 100 = false := by decide

/-- The headline theorem applied to the concrete tree: the divert at position `[idx 0]`
    resolves exactly to the named-only child `knot`. -/
example : ∃ sr, resolvePath goodRoot [.idx 0] { comps := [.name "knot".toList], rel := false } = some sr
    ∧ sr.approximate = false ∧ (nodeAt goodRoot sr.addr).isSome = true :=
  all_references_resolve goodRoot 100 (by decide) [.idx 0] _ "divert" _ rfl rfl

/-- A relative reference (`.^.knot` from the divert: parent of the divert, then `knot`). -/
def relRoot : Obj :=
  .container none 0
    [ .divert { pushes := false, pushType := .function, external := false, exArgs := 0,
                conditional := false, varName := none,
                target := some { comps := [.name ['^'], .name "knot".toList], rel := true } } ]
    [ ("knot", .container (some "knot") 0 [ .val (.str "hello") ] []) ]

example : RefCheck.storyOk relRoot 100 = true := by decide

/-- Running out of fuel makes the check fail (never pass vacuously). -/
example : RefCheck.storyOk goodRoot 2 = false := by decide

/-- The well-formedness check passes on the concrete tree, … -/
example : wfTreeB 100 goodRoot = true := by decide
example : WFTree goodRoot := wfTreeB_sound 100 goodRoot (by decide)

/-- … and fails when a named-only child does not carry its key as name. -/
example : wfTreeB 100 (.container none 0 [] [("knot", .container (some "other") 0 [] [])]) = false := by
  decide

/-- `wfNodeB` is strictly stronger than `WFNode`: it checks EVERY named-only entry (and that keys
    are unique), whereas `WFNode.namedKeys` only speaks about the first entry of each key (the one
    `Obj.child` can reach).  A shadowed second entry with a wrong name is rejected by `wfNodeB`
    although `WFNode` holds. -/
def shadowed : Obj :=
  .container none 0 []
    [ ("k", .container (some "k") 0 [] []), ("k", .container (some "other") 0 [] []) ]

example : wfNodeB shadowed = false := by decide

example : WFNode shadowed := by
  constructor
  · intro i c n hi; simp [shadowed, Obj.content] at hi
  · intro k c hf
    by_cases hk : k = "k"
    · subst hk
      simp only [shadowed, Obj.namedOnly, List.find?, beq_self_eq_true, Option.map_some,
        Option.some.injEq] at hf
      subst hf
      decide
    · have h1 : ("k" == k) = false := by
        simp only [beq_eq_false_iff_ne, ne_eq]; exact fun e => hk e.symm
      simp [shadowed, Obj.namedOnly, List.find?, h1] at hf

end C06
end Ink

#print axioms Ink.C06.refOk_spec
#print axioms Ink.C06.refsOkTree_sound
#print axioms Ink.C06.refsOkContent_sound
#print axioms Ink.C06.refsOkNamed_sound
#print axioms Ink.C06.storyOk_sound
#print axioms Ink.C06.all_references_resolve
#print axioms Ink.C06.wfNodeB_sound
#print axioms Ink.C06.wfTreeB_sound
