/-
  C15 — Malformed input is rejected with an error, never a panic.
  * the story loader (`Load.loadStory` and every helper returning an `Out`)
    and the save loader (`Save.loadState`, `readObj` … `loadStateObj`) end in
    `ok` or `err` for EVERY JSON value and for text that is not JSON;
  * a load replaces nothing but the story state, so a reset after a (failed)
    load is the reset before it, i.e. the freshly constructed story (C17);
  * the JSON parser accepts only completely read documents.
-/
import Proofs.C17
import Ink.Save

namespace Ink
namespace C15

open Json (get?)

/-- An outcome that is not a panic, in computable form. -/
theorem np_iff {α : Type} (x : Out α) : x.isPanic = false ↔ ∀ site, x ≠ .panic site := by
  cases x <;> simp [Out.isPanic]

theorem np_elim {α : Type} {x : Out α} {s : String} (h : x.isPanic = false) (heq : x = .panic s) : False := by
  subst heq; cases h

/-! ### 1. The story loader -/

/-- The leaf cases of `tokenToObj` (everything but the array case). -/
theorem tokenToObj_succ_np (fuel : Nat) (tok : Json) (name : Option String)
    (h : ∀ xs name, (Load.arrayToContainer fuel xs name).isPanic = false) :
    (Load.tokenToObj (fuel+1) tok name).isPanic = false := by
  unfold Load.tokenToObj
  simp only []
  repeat' (first | rfl | exact h _ _ | split)
  all_goals
    rename_i heq
    revert heq
    repeat' (first | (intro h'; cases h'; done) | split)

theorem arrayToContainer_succ_np (fuel : Nat) (xs : List Json) (name : Option String)
    (hT : ∀ kvs name flags named, (Load.termObj fuel kvs name flags named).isPanic = false)
    (hL : ∀ xs, (Load.objList fuel xs).isPanic = false) :
    (Load.arrayToContainer (fuel+1) xs name).isPanic = false := by
  unfold Load.arrayToContainer
  repeat' (first | rfl | split)
  · next heq => exact (np_elim (hL _) heq).elim
  · next heq => exact (np_elim (hT _ _ _ _) heq).elim

theorem termObj_succ_np (fuel : Nat) (kvs : List (String × Json)) (name : Option String) (flags : Int)
    (named : List (String × Obj))
    (hT : ∀ kvs name flags named, (Load.termObj fuel kvs name flags named).isPanic = false)
    (hO : ∀ tok name, (Load.tokenToObj fuel tok name).isPanic = false) :
    (Load.termObj (fuel+1) kvs name flags named).isPanic = false := by
  unfold Load.termObj
  repeat' (first | rfl | exact hT _ _ _ _ | split)
  next heq => exact (np_elim (hO _ _) heq).elim

theorem objList_succ_np (fuel : Nat) (xs : List Json)
    (hL : ∀ xs, (Load.objList fuel xs).isPanic = false)
    (hO : ∀ tok name, (Load.tokenToObj fuel tok name).isPanic = false) :
    (Load.objList (fuel+1) xs).isPanic = false := by
  unfold Load.objList
  repeat' (first | rfl | split)
  · next heq => exact (np_elim (hL _) heq).elim
  · next heq => exact (np_elim (hO _ _) heq).elim

/-- The four mutually recursive loader functions never panic (joint induction on fuel). -/
theorem load_mutual_np (fuel : Nat) :
    (∀ tok name, (Load.tokenToObj fuel tok name).isPanic = false)
    ∧ (∀ xs name, (Load.arrayToContainer fuel xs name).isPanic = false)
    ∧ (∀ kvs name flags named, (Load.termObj fuel kvs name flags named).isPanic = false)
    ∧ (∀ xs, (Load.objList fuel xs).isPanic = false) := by
  induction fuel with
  | zero =>
    refine ⟨?_, ?_, ?_, ?_⟩
    · intro tok name; unfold Load.tokenToObj; rfl
    · intro xs name; unfold Load.arrayToContainer; rfl
    · intro kvs name flags named; unfold Load.termObj; rfl
    · intro xs; unfold Load.objList; rfl
  | succ fuel ih =>
    obtain ⟨hO, hA, hT, hL⟩ := ih
    exact ⟨fun tok name => tokenToObj_succ_np fuel tok name hA,
           fun xs name => arrayToContainer_succ_np fuel xs name hT hL,
           fun kvs name flags named => termObj_succ_np fuel kvs name flags named hT hO,
           fun xs => objList_succ_np fuel xs hL hO⟩


theorem tokenToObj_np (fuel : Nat) (tok : Json) (name : Option String) :
    ∀ site, Load.tokenToObj fuel tok name ≠ .panic site :=
  (np_iff _).1 ((load_mutual_np fuel).1 tok name)

theorem arrayToContainer_np (fuel : Nat) (xs : List Json) (name : Option String) :
    ∀ site, Load.arrayToContainer fuel xs name ≠ .panic site :=
  (np_iff _).1 ((load_mutual_np fuel).2.1 xs name)

theorem termObj_np (fuel : Nat) (kvs : List (String × Json)) (name : Option String) (flags : Int)
    (named : List (String × Obj)) :
    ∀ site, Load.termObj fuel kvs name flags named ≠ .panic site :=
  (np_iff _).1 ((load_mutual_np fuel).2.2.1 kvs name flags named)

theorem objList_np (fuel : Nat) (xs : List Json) :
    ∀ site, Load.objList fuel xs ≠ .panic site :=
  (np_iff _).1 ((load_mutual_np fuel).2.2.2 xs)

theorem listDefs_go_np (l : List (String × Json)) (acc : List (String × List (String × Int))) :
    (Load.listDefs.go l acc).isPanic = false := by
  induction l generalizing acc with
  | nil => unfold Load.listDefs.go; rfl
  | cons x rest ih =>
    obtain ⟨name, lj⟩ := x
    unfold Load.listDefs.go
    repeat' (first | rfl | exact ih _ | split)

theorem listDefs_isPanic (d : Json) : (Load.listDefs d).isPanic = false := by
  unfold Load.listDefs
  split
  · rfl
  · exact listDefs_go_np _ _

theorem listDefs_np (d : Json) : ∀ site, Load.listDefs d ≠ .panic site :=
  (np_iff _).1 (listDefs_isPanic d)

theorem loadStory_isPanic (fuel : Nat) (doc : Option Json) : (Load.loadStory fuel doc).isPanic = false := by
  unfold Load.loadStory
  repeat' (first | rfl | split)
  · next heq => exact (np_elim ((load_mutual_np fuel).1 _ _) heq).elim
  · next heq => exact (np_elim (listDefs_isPanic _) heq).elim

/-- **loadStory_no_panic.** Whatever the document (any JSON value, or text that
    is not JSON at all), the story loader ends in `ok` or in an error. -/
theorem loadStory_no_panic (fuel : Nat) (doc : Option Json) :
    ∀ site, Load.loadStory fuel doc ≠ .panic site :=
  (np_iff _).1 (loadStory_isPanic fuel doc)


/-! #### Error kinds of the story loader -/

/-- The error kinds the story loader can report. -/
def KindOK {α : Type} (x : Out α) : Prop :=
  ∀ k m, x = .err k m → k = "BadJson" ∨ k = "Fuel" ∨ k = "Unsupported"

theorem kind_ok {α : Type} (a : α) : KindOK (Out.ok a) := by intro k m h; cases h
theorem kind_panic {α : Type} (s : String) : KindOK (Out.panic s : Out α) := by intro k m h; cases h
theorem kind_bad {α : Type} (t : String) : KindOK (Out.badJson t : Out α) := by
  intro k m h; cases h; exact Or.inl rfl
theorem kind_fuel {α : Type} (t : String) : KindOK (Out.err "Fuel" t : Out α) := by
  intro k m h; cases h; exact Or.inr (Or.inl rfl)
theorem kind_unsup {α : Type} (t : String) : KindOK (Out.err "Unsupported" t : Out α) := by
  intro k m h; cases h; exact Or.inr (Or.inr rfl)
theorem kind_of_eq {α β : Type} {x : Out α} {k m : String} (h : KindOK x) (heq : x = .err k m) :
    KindOK (Out.err k m : Out β) := by
  intro k' m' h'; cases h'; exact h k m heq

macro "kind_leaf" : tactic =>
  `(tactic| first | exact kind_ok _ | exact kind_bad _ | exact kind_fuel _ | exact kind_unsup _
                  | exact kind_panic _)

theorem tokenToObj_succ_kind (fuel : Nat) (tok : Json) (name : Option String)
    (h : ∀ xs name, KindOK (Load.arrayToContainer fuel xs name)) :
    KindOK (Load.tokenToObj (fuel+1) tok name) := by
  unfold Load.tokenToObj
  simp only []
  repeat' (first | kind_leaf | exact h _ _ | split)
  all_goals
    rename_i heq
    refine kind_of_eq ?_ heq
    repeat' (first | kind_leaf | split)

theorem load_mutual_kind (fuel : Nat) :
    (∀ tok name, KindOK (Load.tokenToObj fuel tok name))
    ∧ (∀ xs name, KindOK (Load.arrayToContainer fuel xs name))
    ∧ (∀ kvs name flags named, KindOK (Load.termObj fuel kvs name flags named))
    ∧ (∀ xs, KindOK (Load.objList fuel xs)) := by
  induction fuel with
  | zero =>
    refine ⟨?_, ?_, ?_, ?_⟩
    · intro tok name; unfold Load.tokenToObj; kind_leaf
    · intro xs name; unfold Load.arrayToContainer; kind_leaf
    · intro kvs name flags named; unfold Load.termObj; kind_leaf
    · intro xs; unfold Load.objList; kind_leaf
  | succ fuel ih =>
    obtain ⟨hO, hA, hT, hL⟩ := ih
    refine ⟨fun tok name => tokenToObj_succ_kind fuel tok name hA, ?_, ?_, ?_⟩
    · intro xs name
      unfold Load.arrayToContainer
      repeat' (first | kind_leaf | split)
      · next heq => exact kind_of_eq (hL _) heq
      · next heq => exact kind_of_eq (hT _ _ _ _) heq
    · intro kvs name flags named
      unfold Load.termObj
      repeat' (first | kind_leaf | exact hT _ _ _ _ | split)
      next heq => exact kind_of_eq (hO _ _) heq
    · intro xs
      unfold Load.objList
      repeat' (first | kind_leaf | split)
      · next heq => exact kind_of_eq (hL _) heq
      · next heq => exact kind_of_eq (hO _ _) heq

theorem listDefs_go_kind (l : List (String × Json)) (acc : List (String × List (String × Int))) :
    KindOK (Load.listDefs.go l acc) := by
  induction l generalizing acc with
  | nil => unfold Load.listDefs.go; kind_leaf
  | cons x rest ih =>
    obtain ⟨name, lj⟩ := x
    unfold Load.listDefs.go
    repeat' (first | kind_leaf | exact ih _ | split)

theorem listDefs_kind (d : Json) : KindOK (Load.listDefs d) := by
  unfold Load.listDefs
  split
  · kind_leaf
  · exact listDefs_go_kind _ _

theorem loadStory_kind (fuel : Nat) (doc : Option Json) : KindOK (Load.loadStory fuel doc) := by
  unfold Load.loadStory
  repeat' (first | kind_leaf | split)
  · next heq => exact kind_of_eq ((load_mutual_kind fuel).1 _ _) heq
  · next heq => exact kind_of_eq (listDefs_kind _) heq

/-- **loadStory_err_kind** (strongest correct form).  The requested statement
    `k = "BadJson"` is false of the model (two checked counterexamples below): the
    loader model also reports `Fuel` (model recursion budget exhausted; no Rust
    counterpart) and `Unsupported` (a choice object in content, which the model
    does not cover). -/
theorem loadStory_err_kind (fuel : Nat) (doc : Option Json) (k m : String)
    (h : Load.loadStory fuel doc = .err k m) :
    k = "BadJson" ∨ k = "Fuel" ∨ k = "Unsupported" :=
  loadStory_kind fuel doc k m h


/-- `loadStory_err_kind` with `k = "BadJson"` alone is false: model fuel. -/
example : Load.loadStory 0 (some (.obj [("inkVersion", .num 21), ("root", .arr [.null]), ("listDefs", .obj [])]))
    = .err "Fuel" "loader fuel" := rfl

/-- … and a choice object in content (with any amount of fuel). -/
example : Load.loadStory 100 (some (.obj [("inkVersion", .num 21),
      ("root", .obj [("originalChoicePath", .str "x")]), ("listDefs", .obj [])]))
    = .err "Unsupported" "choice object in content" := rfl

/-! ### 2. The save loader -/

open Save

theorem mapOut_np {α β : Type} (f : α → Out β) (l : List α) (h : ∀ x, (f x).isPanic = false) :
    (mapOut f l).isPanic = false := by
  induction l with
  | nil => rfl
  | cons x xs ih =>
    unfold mapOut
    repeat' (first | rfl | split)
    · next heq => exact (np_elim ih heq).elim
    · next heq => exact (np_elim (h _) heq).elim

theorem readObj_np (tok : Json) : (readObj tok).isPanic = false :=
  (load_mutual_np 64).1 tok none

theorem readObjs_np (toks : List Json) : (readObjs toks).isPanic = false :=
  mapOut_np _ _ readObj_np

theorem readChoice_np (tok : Json) : (readChoice tok).isPanic = false := by
  unfold readChoice
  repeat' (first | rfl | split)
  next heq => exact (np_elim (readObj_np _) heq).elim

theorem pushPopOfCode_np (n : Int) : (pushPopOfCode n).isPanic = false := by
  unfold pushPopOfCode
  repeat' (first | rfl | split)

theorem pointerAtPath_np (root : Obj) (p : Path) : (pointerAtPath root p).isPanic = false := by
  unfold pointerAtPath
  repeat' (first | rfl | split)

theorem tempEntry_np (kv : String × Json) :
    (match readObj kv.snd with
      | Out.ok (Obj.val v) => Out.ok (kv.fst, v)
      | Out.ok _ => (bad "a variable (not a value)" : Out (String × Val))
      | Out.err k m => Out.err k m
      | Out.panic p => Out.panic p).isPanic = false := by
  split
  · rfl
  · rfl
  · rfl
  · next heq => exact (np_elim (readObj_np _) heq).elim

theorem readThread_np (root : Obj) (tok : Json) : (readThread root tok).isPanic = false := by
  unfold readThread
  split
  · rfl
  · simp only []
    generalize hr : mapOut _ _ = r
    have hnp : r.isPanic = false := by
      rw [← hr]
      apply mapOut_np
      intro e
      split
      · rfl
      · split
        · repeat' (first | rfl | split)
          · next heq =>
              revert heq
              repeat' (first | (intro h'; cases h'; done) | split)
          · next heq _ _ =>
              split at heq
              · exact (np_elim (mapOut_np _ _ tempEntry_np) heq).elim
              · cases heq
        · rfl
        · next heq => exact (np_elim (pushPopOfCode_np _) heq).elim
    clear hr
    repeat' (first | rfl | exact hnp | split)
    next heq =>
      split at heq
      · exact (np_elim (pointerAtPath_np _ _) heq).elim
      · cases heq

theorem readCallStack_np (root : Obj) (tok : Json) : (readCallStack root tok).isPanic = false := by
  unfold readCallStack
  repeat' (first | rfl | split)
  all_goals (next heq => exact (np_elim (mapOut_np _ _ (readThread_np root)) heq).elim)

theorem readIntDict_np (tok : Json) (what : String) : (readIntDict tok what).isPanic = false := by
  unfold readIntDict
  repeat' (first | rfl | split)

theorem readFlow_np (root : Obj) (name : String) (tok : Json) : (readFlow root name tok).isPanic = false := by
  unfold readFlow
  repeat' (first | rfl | split)
  · simp only []
    generalize hr : mapOut _ _ = r
    have hnp : r.isPanic = false := by
      rw [← hr]
      apply mapOut_np
      intro c
      repeat' (first | rfl | split)
      next heq => exact (np_elim (readThread_np _ _) heq).elim
    clear hr
    repeat' (first | rfl | exact hnp | split)
  · next heq => exact (np_elim (readCallStack_np _ _) heq).elim
  · next heq => exact (np_elim (mapOut_np _ _ readChoice_np) heq).elim
  · next heq => exact (np_elim (readObjs_np _) heq).elim

theorem andThen_np (r : Out Unit × StoryState) (f : StoryState → Out Unit × StoryState)
    (hr : r.1.isPanic = false) (hf : ∀ s, (f s).1.isPanic = false) : (andThen r f).1.isPanic = false := by
  unfold andThen
  split
  · exact hf _
  · exact hr

theorem loadStateObj_go_np (root : Obj) (single : Bool) (l : List (String × Json)) (st : StoryState) :
    (loadStateObj.go root single l st).1.isPanic = false := by
  induction l generalizing st with
  | nil => unfold loadStateObj.go; rfl
  | cons x rest ih =>
    obtain ⟨name, ftok⟩ := x
    unfold loadStateObj.go
    repeat' (first | rfl | exact ih _ | split)
    next heq => exact (np_elim (readFlow_np _ _ _) heq).elim

theorem loadStateObj_np (root : Obj) (s : StoryState) (j : Json) : (loadStateObj root s j).1.isPanic = false := by
  unfold loadStateObj
  split
  · rfl
  · simp only []
    repeat' (first | rfl | (apply andThen_np) | intro _ | exact loadStateObj_go_np _ _ _ _ | split)
    all_goals
      rename_i heq
      first
      | exact (np_elim (readObjs_np _) heq).elim
      | exact (np_elim (readIntDict_np _ _) heq).elim
      | exact (np_elim (pointerAtPath_np _ _) heq).elim
      | (refine (np_elim (mapOut_np _ _ ?_) heq).elim
         intro kv
         repeat' (first | rfl | split)
         next h => exact (np_elim (readObj_np _) h).elim)

theorem loadState_isPanic (st : Story) (doc : Option Json) : (loadState st doc).1.isPanic = false := by
  unfold loadState Story.ifAsyncWeCant
  split
  · rfl
  · next heq => split at heq <;> cases heq
  · split
    · rfl
    · exact loadStateObj_np _ _ _

/-- **loadState_no_panic.** Whatever the save document (any JSON value, or text
    that is not JSON), loading it into any story ends in `ok` or in an error. -/
theorem loadState_no_panic (st : Story) (doc : Option Json) :
    ∀ site, (loadState st doc).1 ≠ .panic site :=
  (np_iff _).1 (loadState_isPanic st doc)

/-- The helpers of the save loader in `≠ .panic` form. -/
theorem save_helpers_no_panic (root : Obj) (site : String) :
    (∀ tok, readObj tok ≠ .panic site) ∧ (∀ toks, readObjs toks ≠ .panic site)
    ∧ (∀ tok, readChoice tok ≠ .panic site) ∧ (∀ n, pushPopOfCode n ≠ .panic site)
    ∧ (∀ tok, readThread root tok ≠ .panic site) ∧ (∀ tok, readCallStack root tok ≠ .panic site)
    ∧ (∀ name tok, readFlow root name tok ≠ .panic site) ∧ (∀ tok what, readIntDict tok what ≠ .panic site)
    ∧ (∀ s j, (loadStateObj root s j).1 ≠ .panic site) :=
  ⟨fun t => (np_iff _).1 (readObj_np t) site, fun t => (np_iff _).1 (readObjs_np t) site,
   fun t => (np_iff _).1 (readChoice_np t) site, fun n => (np_iff _).1 (pushPopOfCode_np n) site,
   fun t => (np_iff _).1 (readThread_np root t) site, fun t => (np_iff _).1 (readCallStack_np root t) site,
   fun n t => (np_iff _).1 (readFlow_np root n t) site, fun t w => (np_iff _).1 (readIntDict_np t w) site,
   fun s j => (np_iff _).1 (loadStateObj_np root s j) site⟩

/-! ### 3. A load touches nothing but the story state -/

/-- **loadState_touches_only_state.** -/
theorem loadState_touches_only_state (st : Story) (doc : Option Json) :
    (loadState st doc).2 = { st with state := (loadState st doc).2.state } := by
  unfold loadState
  repeat' (first | rfl | split)

/-- Load then reset = reset, for every story (no hypothesis needed: when a
    `continue_async` is in progress both the load and the reset are refused and
    leave the story alone). -/
theorem load_then_reset (st : Story) (doc : Option Json) (seed : Int) :
    ((loadState st doc).2).resetState seed = st.resetState seed := by
  cases h : st.asyncActive with
  | true =>
    have hsame : (loadState st doc).2 = st := by
      simp [loadState, Story.ifAsyncWeCant, h, Out.invalid]
    rw [hsame]
  | false =>
    rw [loadState_touches_only_state]
    simp only [Story.resetState, Story.ifAsyncWeCant, h, Bool.false_eq_true, if_false]

/-- **failed_load_then_reset_is_fresh.** Whatever a (failed or successful) load
    did, resetting afterwards gives what resetting before would have given. -/
theorem failed_load_then_reset_is_fresh (st : Story) (doc : Option Json) (seed : Int)
    (_hq : C17.Quiescent st) :
    ((loadState st doc).2).resetState seed = st.resetState seed :=
  load_then_reset st doc seed

/-- … which is the freshly constructed story. -/
theorem failed_load_then_reset_eq_blank (st : Story) (doc : Option Json) (seed : Int)
    (hq : C17.Quiescent st) :
    ((loadState st doc).2).resetState seed = (C17.blankWith st seed).resetGlobals := by
  rw [failed_load_then_reset_is_fresh st doc seed hq, C17.reset_eq_fresh st seed hq]

/-! ### 4. The JSON parser -/

section Parser
open Json

/-- `r` is what is left of `inp` after a non-empty prefix was consumed. -/
def Consumed (inp r : List Char) : Prop := r <:+ inp ∧ r.length < inp.length

theorem suf_cons {r l : List Char} (a : Char) (h : r <:+ l) : r <:+ a :: l :=
  h.trans (List.suffix_cons a l)

theorem skipWs_suffix (l : List Char) : skipWs l <:+ l := by
  induction l with
  | nil => simp [skipWs]
  | cons c cs ih =>
    simp only [skipWs]
    split
    · exact suf_cons c ih
    · exact List.suffix_refl _

theorem skipWs_nil (l : List Char) (h : skipWs l = []) : ∀ c ∈ l, isWs c = true := by
  induction l with
  | nil => simp
  | cons c cs ih =>
    simp only [skipWs] at h
    split at h
    · intro x hx
      rcases List.mem_cons.1 hx with rfl | hx
      · assumption
      · exact ih h x hx
    · cases h

theorem takeDigits_suffix (l : List Char) : (takeDigits l).2 <:+ l := by
  induction l with
  | nil => simp [takeDigits]
  | cons c cs ih =>
    simp only [takeDigits]
    split
    · exact suf_cons c ih
    · exact List.suffix_refl _

theorem takeDigits_suffix_of_eq {l d r : List Char} (h : takeDigits l = (d, r)) : r <:+ l := by
  have hs := takeDigits_suffix l
  rw [h] at hs
  exact hs

theorem takeDigits_len (l : List Char) : (takeDigits l).1.length + (takeDigits l).2.length = l.length := by
  induction l with
  | nil => simp [takeDigits]
  | cons c cs ih =>
    simp only [takeDigits]
    split
    · simp; omega
    · simp

theorem consumed_cons (a : Char) (r : List Char) : Consumed (a :: r) r :=
  ⟨List.suffix_cons a r, by simp⟩

theorem consumed_weaken {l r : List Char} (a : Char) (h : Consumed l r) : Consumed (a :: l) r :=
  ⟨suf_cons a h.1, by have := h.2; simp; omega⟩

theorem consumed_of_suffix {l l' r : List Char} (h : Consumed l r) (hs : l <:+ l') : Consumed l' r :=
  ⟨h.1.trans hs, Nat.lt_of_lt_of_le h.2 hs.length_le⟩

theorem consumed_trans {l m r : List Char} (h1 : Consumed l m) (h2 : Consumed m r) : Consumed l r :=
  ⟨h2.1.trans h1.1, Nat.lt_trans h2.2 h1.2⟩

theorem consumed_suffix {l m r : List Char} (h1 : Consumed l m) (h2 : r <:+ m) : Consumed l r :=
  ⟨h2.trans h1.1, Nat.lt_of_le_of_lt h2.length_le h1.2⟩

theorem parseStrBody_consumed (fuel : Nat) : ∀ (inp acc s r : List Char),
    parseStrBody fuel inp acc = some (s, r) → Consumed inp r := by
  induction fuel with
  | zero => intro inp acc s r h; simp [parseStrBody] at h
  | succ fuel ih =>
    intro inp acc s r h
    unfold parseStrBody at h
    repeat' (first | (cases h; done) | split at h)
    all_goals
      first
      | (cases h; exact consumed_cons _ _)
      | (have hc := ih _ _ _ _ h
         repeat (first | exact hc | apply consumed_weaken))

theorem parseNumber_consumed (inp : List Char) (j : Json) (r : List Char)
    (h : parseNumber inp = some (j, r)) : Consumed inp r := by
  unfold parseNumber at h
  repeat' (first | (cases h; done) | split at h)
  all_goals
    rename_i x3 neg r0 h3 x2 d2 r2 h2 hne hz x1 d1 r1 h1 hf x0 d rr h0 he hfe hneg
    have hA : r0 <:+ inp := by
      split at h3 <;> cases h3
      · exact List.suffix_cons _ _
      · exact List.suffix_refl _
    have hB : Consumed r0 r2 := by
      have hs := takeDigits_suffix r0
      have hl := takeDigits_len r0
      rw [h2] at hs hl
      simp only at hs hl
      refine ⟨hs, ?_⟩
      have : d2.length ≠ 0 := by
        intro hd; apply hne; simp [List.length_eq_zero_iff.1 hd]
      omega
    have hC : r1 <:+ r2 := by
      split at h1
      · split at h1
        next heq =>
          cases h1
          exact suf_cons _ (takeDigits_suffix_of_eq heq)
      · cases h1; exact List.suffix_refl _
    have hD : rr <:+ r1 := by
      repeat' (first | (cases h0; done) | split at h0)
      all_goals
        first
        | (cases h0; exact List.suffix_refl _)
        | (rename_i _ _ _ hsgn _ _ _ hd _
           cases h0
           refine suf_cons _ ((takeDigits_suffix_of_eq hd).trans ?_)
           split at hsgn <;> cases hsgn <;> first | exact List.suffix_cons _ _ | exact List.suffix_refl _)
    have hr : rr = r := by
      simp at h; exact h.2
    subst hr
    exact consumed_suffix (consumed_of_suffix hB hA) (hD.trans hC)

theorem skipWs_cons_consumed {l r : List Char} {a : Char} (h : skipWs l = a :: r) : Consumed l r :=
  consumed_of_suffix (h ▸ consumed_cons a r : Consumed (skipWs l) r) (skipWs_suffix l)

theorem parseValue_succ_consumed (fuel : Nat)
    (hE : ∀ inp acc j r, parseElems fuel inp acc = some (j, r) → Consumed inp r)
    (hM : ∀ inp acc j r, parseMembers fuel inp acc = some (j, r) → Consumed inp r)
    (inp : List Char) (j : Json) (r : List Char)
    (h : parseValue (fuel + 1) inp = some (j, r)) : Consumed inp r := by
  unfold parseValue at h
  refine consumed_of_suffix ?_ (skipWs_suffix inp)
  generalize skipWs inp = w at h
  repeat' (first | (cases h; done) | split at h)
  all_goals
    first
    | exact parseNumber_consumed _ _ _ h
    | exact consumed_weaken _ (hE _ _ _ _ h)
    | exact consumed_weaken _ (hM _ _ _ _ h)
    | (next heq => cases h; exact consumed_weaken _ (parseStrBody_consumed _ _ _ _ _ heq))
    | (next heq => cases h; exact consumed_weaken _ (skipWs_cons_consumed heq))
    | (cases h; repeat (first | exact consumed_cons _ _ | apply consumed_weaken))

theorem parse_mutual_consumed (fuel : Nat) :
    (∀ inp j r, parseValue fuel inp = some (j, r) → Consumed inp r)
    ∧ (∀ inp acc j r, parseElems fuel inp acc = some (j, r) → Consumed inp r)
    ∧ (∀ inp acc j r, parseMembers fuel inp acc = some (j, r) → Consumed inp r) := by
  induction fuel with
  | zero =>
    refine ⟨?_, ?_, ?_⟩
    · intro inp j r h; unfold parseValue at h; cases h
    · intro inp acc j r h; unfold parseElems at h; cases h
    · intro inp acc j r h; unfold parseMembers at h; cases h
  | succ fuel ih =>
    obtain ⟨hV, hE, hM⟩ := ih
    refine ⟨parseValue_succ_consumed fuel hE hM, ?_, ?_⟩
    · intro inp acc j r h
      unfold parseElems at h
      repeat' (first | (cases h; done) | split at h)
      · next hv _ _ hw =>
          exact consumed_trans (consumed_trans (hV _ _ _ hv) (skipWs_cons_consumed hw)) (hE _ _ _ _ h)
      · next hv _ _ hw =>
          cases h
          exact consumed_trans (hV _ _ _ hv) (skipWs_cons_consumed hw)
    · intro inp acc j r h
      unfold parseMembers at h
      repeat' (first | (cases h; done) | split at h)
      · next hq _ _ _ hs _ _ hc _ _ _ hv _ _ hw =>
          exact consumed_trans (consumed_trans (consumed_trans (consumed_trans (consumed_trans
            (skipWs_cons_consumed hq) (parseStrBody_consumed _ _ _ _ _ hs)) (skipWs_cons_consumed hc))
            (hV _ _ _ hv)) (skipWs_cons_consumed hw)) (hM _ _ _ _ h)
      · next hq _ _ _ hs _ _ hc _ _ _ hv _ _ hw =>
          cases h
          exact consumed_trans (consumed_trans (consumed_trans (consumed_trans
            (skipWs_cons_consumed hq) (parseStrBody_consumed _ _ _ _ _ hs)) (skipWs_cons_consumed hc))
            (hV _ _ _ hv)) (skipWs_cons_consumed hw)

/-- **parse_total** (robustness of the JSON parser).  `Json.parse` is total by
    construction (explicit fuel); what it accepts is a document that was read
    completely: a non-empty prefix of the input is one JSON value, and what
    follows it is white space only.  In particular no input with trailing
    garbage and no empty / blank input is accepted. -/
theorem parse_total (inp : List Char) :
    Json.parse inp = none ∨
    ∃ j pre rest, Json.parse inp = some j ∧ inp = pre ++ rest ∧ pre ≠ []
      ∧ (∀ c ∈ rest, isWs c = true)
      ∧ parseValue (2 * inp.length + 2) inp = some (j, rest) := by
  unfold Json.parse
  split
  · next v r hv =>
      split
      · next hws =>
          right
          obtain ⟨⟨pre, hpre⟩, hlen⟩ := (parse_mutual_consumed _).1 _ _ _ hv
          refine ⟨v, pre, r, rfl, hpre.symm, ?_, skipWs_nil r (by simpa using hws), hv⟩
          intro hp; subst hp; simp at hpre; subst hpre; omega
      · left; rfl
  · left; rfl

theorem skipWs_all (l : List Char) (h : ∀ c ∈ l, isWs c = true) : skipWs l = [] := by
  induction l with
  | nil => rfl
  | cons c cs ih =>
    simp only [skipWs, h c (List.mem_cons_self), if_true]
    exact ih (fun x hx => h x (List.mem_cons_of_mem _ hx))

/-- Empty and blank inputs are rejected. -/
theorem parse_blank (inp : List Char) (h : ∀ c ∈ inp, isWs c = true) : Json.parse inp = none := by
  unfold Json.parse
  rw [show 2 * inp.length + 2 = (2 * inp.length + 1) + 1 from rfl]
  unfold parseValue
  rw [skipWs_all inp h]

/-- Trailing garbage is rejected: when the value read from the front of the
    input is followed by anything that is not white space, the document is
    rejected (contrapositive reading of `parse_total`). -/
theorem parse_trailing (inp : List Char) (j : Json) (rest : List Char)
    (hv : parseValue (2 * inp.length + 2) inp = some (j, rest)) (c : Char) (hc : c ∈ rest)
    (hnw : isWs c = false) : Json.parse inp = none := by
  rcases parse_total inp with h0 | ⟨j', pre, rest', _, _, _, hws, hv'⟩
  · exact h0
  · rw [hv] at hv'
    cases hv'
    have := hws c hc
    rw [hnw] at this
    cases this

end Parser

/-! ### 5. Non-vacuity -/

example : Load.loadStory 100 none = .err "BadJson" "Story not in JSON format." := rfl

example : Load.loadStory 100 (some (.obj []))
    = .err "BadJson" "ink version number not found. Are you sure it's a valid .ink.json file?" := rfl

/-- A concrete (empty) story. -/
def demoStory : Story :=
  { root := .container none 0 [] [], defs := [], state := StoryState.fresh 0, snapshot := none,
    recCount := 0, asyncActive := false, sawUnsafe := false, validated := false,
    allowFallbacks := false, handler := false, observers := [], externals := [], events := [],
    lines := 0, fuel := none, stepClock := false }

example : (loadState demoStory (some (.obj []))).1
    = .err "BadJson" "ink save format incorrect, can't load." := rfl

example : (loadState demoStory none).1 = .err "BadJson" "State not in JSON format." := rfl

/-- … and for every story that is not in the middle of an asynchronous continue. -/
example (st : Story) (h : st.asyncActive = false) :
    (loadState st (some (.obj []))).1 = .err "BadJson" "ink save format incorrect, can't load." := by
  simp [loadState, Story.ifAsyncWeCant, h, loadStateObj, Json.get?, bad, Out.badJson]

/-- A save with a wrong-typed field deep inside is rejected with an error too. -/
example : (loadState demoStory (some (.obj [("inkSaveVersion", .num 10),
      ("flows", .obj [("DEFAULT_FLOW", .obj [("outputStream", .arr [.null])])])]))).1
    = .err "BadJson" "Failed to convert token to runtime RTObject: null" := rfl

example : C17.Quiescent demoStory := ⟨rfl, rfl, rfl, rfl⟩

example : Json.parse "".toList = none := parse_blank _ (by simp)
example : Json.parse ['[', '1', ']', ' ', 'x'] = none := by rfl
example : Json.parse ['[', '1', ',', ' ', 'n', 'u', 'l', 'l', ']', ' '] = some (.arr [.num 1, .null]) := by rfl

end C15
end Ink

#print axioms Ink.C15.loadStory_no_panic
#print axioms Ink.C15.loadStory_err_kind
#print axioms Ink.C15.loadState_no_panic
#print axioms Ink.C15.save_helpers_no_panic
#print axioms Ink.C15.loadState_touches_only_state
#print axioms Ink.C15.failed_load_then_reset_is_fresh
#print axioms Ink.C15.failed_load_then_reset_eq_blank
#print axioms Ink.C15.parse_total
