import Ink.Save
namespace Ink
namespace C15
end C15
end Ink
