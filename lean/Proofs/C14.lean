import Ink.Stream
namespace Ink.C14
open Ink

theorem char_le_iff (a b : Char) : a ≤ b ↔ a.toNat ≤ b.toNat := by
  rw [Char.le_def, UInt32.le_iff_toNat_le]; rfl

theorem toDigit16_eq_hexVal (c : Char) : Stream.toDigit16 c = Json.hexVal c := by
  unfold Stream.toDigit16 Json.hexVal
  have h0 : '0'.toNat = 48 := by decide
  have ha : 'a'.toNat = 97 := by decide
  have hA : 'A'.toNat = 65 := by decide
  rw [h0, ha, hA]
  split
  · rfl
  · split
    · rename_i h
      have := (char_le_iff 'a' c).1 h.1
      rw [ha] at this
      congr 1; omega
    · split
      · rename_i h
        have := (char_le_iff 'A' c).1 h.1
        rw [hA] at this
        congr 1; omega
      · rfl

theorem readHexN_succ (n code : Nat) (c : Char) (r : List Char) :
    Stream.readHexN (n + 1) code (c :: r) =
      match Json.hexVal c with
      | some d => Stream.readHexN n (code * 16 + d) r
      | none => none := by
  rw [Stream.readHexN, toDigit16_eq_hexVal]
  cases Json.hexVal c <;> rfl

theorem readHex4_eq (a b c d : Char) (rest : List Char) :
    Stream.readHex4 (a :: b :: c :: d :: rest) = (Json.hex4 a b c d).map (fun n => (n, rest)) := by
  unfold Stream.readHex4 Json.hex4
  rw [readHexN_succ]
  cases Json.hexVal a with
  | none => rfl
  | some x =>
    simp only [readHexN_succ]
    cases Json.hexVal b with
    | none => rfl
    | some y =>
      cases Json.hexVal c with
      | none => rfl
      | some z =>
        cases Json.hexVal d with
        | none => rfl
        | some w => simp [Stream.readHexN]

theorem readHexN_short (n code : Nat) (inp : List Char) (h : inp.length < n) :
    Stream.readHexN n code inp = none := by
  induction n generalizing code inp with
  | zero => omega
  | succ n ih =>
    cases inp with
    | nil => rfl
    | cons c r =>
      rw [Stream.readHexN]
      cases Stream.toDigit16 c with
      | none => rfl
      | some d => exact ih _ _ (by simpa using h)

theorem readHex4_short (inp : List Char) (h : inp.length < 4) : Stream.readHex4 inp = none :=
  readHexN_short 4 0 inp h


/-! ### 3. the streaming reader equals the reference parser -/

theorem len4 (l : List Char) : l.length < 4 ∨ ∃ a b c d r, l = a :: b :: c :: d :: r := by
  rcases l with _ | ⟨a, _ | ⟨b, _ | ⟨c, _ | ⟨d, r⟩⟩⟩⟩
  · left; simp
  · left; simp
  · left; simp
  · left; simp
  · right; exact ⟨a, b, c, d, r, rfl⟩

theorem parseStrBody_nil (fuel : Nat) (acc : List Char) : Json.parseStrBody fuel [] acc = none := by
  cases fuel <;> rfl

theorem shift10 (n : Nat) : n <<< 10 = n * 0x400 := by
  rw [Nat.shiftLeft_eq]

/-- `\u` followed by fewer than four characters: the reference parser falls through to its
    "unknown escape" arm. -/
theorem parse_u_short (fuel : Nat) (rest acc : List Char) (h : rest.length < 4) :
    Json.parseStrBody (fuel + 1) ('\\' :: 'u' :: rest) acc = none := by
  apply Json.parseStrBody.eq_13
  · intro a b c d r _ hr; subst hr; simp only [List.length_cons] at h; omega
  all_goals decide

/-- The second half of a surrogate pair, as the streaming reader sees it. -/
def lowHalf (code : Nat) (r1 : List Char) : Option (Char × List Char) :=
  match r1 with
  | c1 :: c2 :: r2 =>
    if c1 = '\\' ∧ c2 = 'u' then
      match Stream.readHex4 r2 with
      | some (low, r3) =>
        if 0xDC00 ≤ low ∧ low ≤ 0xDFFF then
          some (Char.ofNat (0x10000 + ((code - 0xD800) <<< 10) + (low - 0xDC00)), r3)
        else none
      | none => none
    else none
  | _ => none

theorem lowHalf_pair (code : Nat) (a b c d : Char) (r : List Char) :
    lowHalf code ('\\' :: 'u' :: a :: b :: c :: d :: r) =
      match Json.hex4 a b c d with
      | some lo =>
        if 0xDC00 ≤ lo ∧ lo ≤ 0xDFFF then
          some (Char.ofNat (0x10000 + (code - 0xD800) * 0x400 + (lo - 0xDC00)), r)
        else none
      | none => none := by
  simp only [lowHalf, and_self, if_true, readHex4_eq, shift10]
  cases Json.hex4 a b c d <;> rfl

theorem lowHalf_other (code : Nat) (r1 : List Char)
    (h : ∀ a b c d r, r1 = '\\' :: 'u' :: a :: b :: c :: d :: r → False) :
    lowHalf code r1 = none := by
  rcases r1 with _ | ⟨c1, _ | ⟨c2, r2⟩⟩
  · rfl
  · rfl
  · simp only [lowHalf]
    split
    · rename_i hc
      obtain ⟨h1, h2⟩ := hc
      subst h1; subst h2
      rcases len4 r2 with hs | ⟨a, b, c, d, r, hr⟩
      · rw [readHex4_short _ hs]
      · exact (h a b c d r (by rw [hr])).elim
    · rfl


/-- `readEscape` with the surrogate continuation named. -/
theorem readEscape_u (r : List Char) :
    Stream.readEscape ('u' :: r) =
      match Stream.readHex4 r with
      | none => none
      | some (code, r1) =>
        if 0xD800 ≤ code ∧ code ≤ 0xDBFF then lowHalf code r1
        else if 0xDC00 ≤ code ∧ code ≤ 0xDFFF then none
        else some (Char.ofNat code, r1) := by
  rw [Stream.readEscape]
  simp only [show ¬ ('u' = '"') by decide, show ¬ ('u' = '\\') by decide, show ¬ ('u' = '/') by decide,
    show ¬ ('u' = 'b') by decide, show ¬ ('u' = 'f') by decide, show ¬ ('u' = 'n') by decide,
    show ¬ ('u' = 'r') by decide, show ¬ ('u' = 't') by decide, if_false, if_true]
  cases Stream.readHex4 r with
  | none => rfl
  | some p =>
    obtain ⟨code, r1⟩ := p
    simp only []
    split
    · unfold lowHalf; rfl
    · rfl

/-- One `\u` escape with its four hex digits present. -/
theorem parse_u_long (fuel : Nat) (a b c d : Char) (rest acc : List Char) :
    Json.parseStrBody (fuel + 1) ('\\' :: 'u' :: a :: b :: c :: d :: rest) acc =
      match Stream.readEscape ('u' :: a :: b :: c :: d :: rest) with
      | some (ch, r') => Json.parseStrBody fuel r' (ch :: acc)
      | none => none := by
  rw [Json.parseStrBody.eq_4, readEscape_u, readHex4_eq]
  cases Json.hex4 a b c d with
  | none => rfl
  | some hi =>
    simp only [Option.map_some]
    split
    · -- high surrogate
      split
      · rw [lowHalf_pair]
        rename_i a' b' c' d' rest'
        cases Json.hex4 a' b' c' d' with
        | none => rfl
        | some lo =>
          simp only []
          split <;> rfl
      · rename_i hne
        rw [lowHalf_other _ _ hne]
    · split <;> rfl


/-- One backslash escape: the reference parser does what `readEscape` does. -/
theorem parse_backslash (fuel : Nat) (r acc : List Char) :
    Json.parseStrBody (fuel + 1) ('\\' :: r) acc =
      match Stream.readEscape r with
      | some (ch, r') => Json.parseStrBody fuel r' (ch :: acc)
      | none => none := by
  cases r with
  | nil =>
    rw [Json.parseStrBody.eq_14]
    · simp only [Stream.readEscape, parseStrBody_nil]; split <;> rfl
    · decide
    · intro a b c d r _ hr; cases hr
    · intro c r _ hr; cases hr
  | cons c rest =>
    by_cases hu : c = 'u'
    · subst hu
      rcases len4 rest with hs | ⟨a, b, c, d, r, hr⟩
      · rw [parse_u_short _ _ _ hs, readEscape_u, readHex4_short _ hs]
      · subst hr; exact parse_u_long fuel a b c d r acc
    · rw [Stream.readEscape]
      by_cases h1 : c = '"'
      · subst h1; rw [Json.parseStrBody.eq_5]; rfl
      by_cases h2 : c = '\\'
      · subst h2; rw [Json.parseStrBody.eq_6]; rfl
      by_cases h3 : c = '/'
      · subst h3; rw [Json.parseStrBody.eq_7]; rfl
      by_cases h4 : c = 'b'
      · subst h4; rw [Json.parseStrBody.eq_8]; rfl
      by_cases h5 : c = 'f'
      · subst h5; rw [Json.parseStrBody.eq_9]; rfl
      by_cases h6 : c = 'n'
      · subst h6; rw [Json.parseStrBody.eq_10]; rfl
      by_cases h7 : c = 'r'
      · subst h7; rw [Json.parseStrBody.eq_11]; rfl
      by_cases h8 : c = 't'
      · subst h8; rw [Json.parseStrBody.eq_12]; rfl
      rw [Json.parseStrBody.eq_13 acc fuel c rest (fun _ _ _ _ _ h _ => hu h) h1 h2 h3 h4 h5 h6 h7 h8]
      simp only [h1, h2, h3, h4, h5, h6, h7, h8, hu, if_false]

/-- THE MAIN THEOREM: the streaming reader and the reference parser are the same function. -/
theorem readStringContent_eq_parseStrBody (fuel : Nat) (inp acc : List Char) :
    Stream.readStringContent fuel inp acc = Json.parseStrBody fuel inp acc := by
  induction fuel generalizing inp acc with
  | zero => rfl
  | succ fuel ih =>
    cases inp with
    | nil => rfl
    | cons c r =>
      rw [Stream.readStringContent]
      by_cases hq : c = '"'
      · subst hq; rfl
      by_cases hb : c = '\\'
      · subst hb
        rw [parse_backslash]
        simp only [hq, if_false, if_true]
        cases Stream.readEscape r with
        | none => rfl
        | some p => obtain ⟨d, r'⟩ := p; exact ih r' (d :: acc)
      · rw [Json.parseStrBody.eq_14 acc fuel c r hq (fun _ _ _ _ _ h _ => hb h) (fun _ _ h _ => hb h)]
        simp only [hq, hb, if_false, ih]


/-! ### 4. decoding inverts the compact serialisation -/

theorem hexVal_hexDigit : ∀ n, n < 16 → Json.hexVal (Json.hexDigit n) = some n := by decide

theorem hex4_hexDigit (p q r s : Nat) (hp : p < 16) (hq : q < 16) (hr : r < 16) (hs : s < 16) :
    Json.hex4 (Json.hexDigit p) (Json.hexDigit q) (Json.hexDigit r) (Json.hexDigit s) =
      some (((p * 16 + q) * 16 + r) * 16 + s) := by
  simp only [Json.hex4, hexVal_hexDigit _ hp, hexVal_hexDigit _ hq, hexVal_hexDigit _ hr,
    hexVal_hexDigit _ hs, Option.bind_eq_bind, Option.bind_some, Option.pure_def]

theorem hexDigit_zero : '0' = Json.hexDigit 0 := by decide

/-- An ordinary character: one step, pushed as it is. -/
theorem parse_plain (fuel : Nat) (c : Char) (tail acc : List Char)
    (hq : c ≠ '"') (hb : c ≠ '\\') (h20 : ¬ c.toNat < 0x20) :
    Json.parseStrBody (fuel + 1) (c :: tail) acc = Json.parseStrBody fuel tail (c :: acc) := by
  rw [Json.parseStrBody.eq_14 acc fuel c tail hq (fun _ _ _ _ _ h _ => hb h) (fun _ _ h _ => hb h)]
  simp only [h20, if_false]

theorem toNat_eq {c : Char} {n : Nat} (h : c.toNat = n) : c = Char.ofNat n := by
  rw [← h, Char.ofNat_toNat]

/-- One character of the compact form costs one step and yields the character. -/
theorem parse_escapeChar (fuel : Nat) (c : Char) (tail acc : List Char) :
    Json.parseStrBody (fuel + 1) (Json.escapeChar c ++ tail) acc =
      Json.parseStrBody fuel tail (c :: acc) := by
  unfold Json.escapeChar
  split
  · rename_i h; subst h; exact Json.parseStrBody.eq_5 ..
  split
  · rename_i h; subst h; exact Json.parseStrBody.eq_6 ..
  split
  · rename_i h; subst h; exact Json.parseStrBody.eq_10 ..
  split
  · rename_i h; subst h; exact Json.parseStrBody.eq_11 ..
  split
  · rename_i h; subst h; exact Json.parseStrBody.eq_12 ..
  split
  · rename_i h; rw [toNat_eq h]; exact Json.parseStrBody.eq_8 ..
  split
  · rename_i h; rw [toNat_eq h]; exact Json.parseStrBody.eq_9 ..
  split
  · rename_i h
    have h1 : c.toNat / 16 < 16 := by omega
    have h2 : c.toNat % 16 < 16 := by omega
    simp only [List.cons_append, List.nil_append]
    rw [Json.parseStrBody.eq_4, hexDigit_zero, hex4_hexDigit 0 0 _ _ (by omega) (by omega) h1 h2]
    have h3 : ((0 * 16 + 0) * 16 + c.toNat / 16) * 16 + c.toNat % 16 = c.toNat := by omega
    simp only [h3, Char.ofNat_toNat]
    rw [if_neg (by omega), if_neg (by omega)]
  · rename_i hq hb _ _ _ _ _ h20
    exact parse_plain fuel c tail acc hq hb h20

theorem escapeChar_length_pos (c : Char) : 0 < (Json.escapeChar c).length := by
  unfold Json.escapeChar
  repeat' split
  all_goals simp

theorem parse_escapeChars (s rest acc : List Char) (fuel : Nat)
    (h : fuel > (Json.escapeChars s).length) :
    Json.parseStrBody fuel (Json.escapeChars s ++ '"' :: rest) acc = some (acc.reverse ++ s, rest) := by
  induction s generalizing fuel acc with
  | nil =>
    cases fuel with
    | zero => omega
    | succ f => simp [Json.escapeChars, Json.parseStrBody.eq_3]
  | cons c s ih =>
    have hl := escapeChar_length_pos c
    have hcons : Json.escapeChars (c :: s) = Json.escapeChar c ++ Json.escapeChars s := by
      simp [Json.escapeChars]
    rw [hcons, List.length_append] at h
    cases fuel with
    | zero => omega
    | succ f =>
      rw [hcons, List.append_assoc, parse_escapeChar, ih _ _ (by omega)]
      simp

theorem parse_escapeChars' (s rest : List Char) (fuel : Nat)
    (h : fuel > (Json.escapeChars s).length) :
    Json.parseStrBody fuel (Json.escapeChars s ++ '"' :: rest) [] = some (s, rest) := by
  simpa using parse_escapeChars s rest [] fuel h

theorem stream_escapeChars (s rest : List Char) (fuel : Nat)
    (h : fuel > (Json.escapeChars s).length) :
    Stream.readStringContent fuel (Json.escapeChars s ++ '"' :: rest) [] = some (s, rest) := by
  rw [readStringContent_eq_parseStrBody]; exact parse_escapeChars' s rest fuel h


/-! ### 5. decoding inverts the all-ASCII serialisation -/

/-- A `Char` is never a surrogate. -/
theorem char_not_surrogate (c : Char) :
    c.toNat < 0xD800 ∨ (0xDFFF < c.toNat ∧ c.toNat < 0x110000) := c.valid

theorem hex4_hex4Digits (n : Nat) (h : n < 65536) (tail : List Char) :
    ∃ a b c d, Stream.hex4Digits n ++ tail = a :: b :: c :: d :: tail ∧ Json.hex4 a b c d = some n := by
  refine ⟨_, _, _, _, rfl, ?_⟩
  rw [hex4_hexDigit _ _ _ _ (by omega) (by omega) (by omega) (by omega)]
  congr 1; omega

/-- A single `\uXXXX` that is not a surrogate. -/
theorem parse_single (fuel n : Nat) (a b c d : Char) (tail acc : List Char)
    (h1 : Json.hex4 a b c d = some n) (hns : n < 0xD800 ∨ 0xDFFF < n) :
    Json.parseStrBody (fuel + 1) ('\\' :: 'u' :: a :: b :: c :: d :: tail) acc =
      Json.parseStrBody fuel tail (Char.ofNat n :: acc) := by
  rw [Json.parseStrBody.eq_4, h1]
  simp only []
  rw [if_neg (by omega), if_neg (by omega)]

/-- A surrogate pair `\uD8xx\uDCxx`. -/
theorem parse_pair (fuel hi lo : Nat) (a b c d a' b' c' d' : Char) (tail acc : List Char)
    (h1 : Json.hex4 a b c d = some hi) (h2 : Json.hex4 a' b' c' d' = some lo)
    (hhi : 0xD800 ≤ hi ∧ hi ≤ 0xDBFF) (hlo : 0xDC00 ≤ lo ∧ lo ≤ 0xDFFF) :
    Json.parseStrBody (fuel + 1)
        ('\\' :: 'u' :: a :: b :: c :: d :: '\\' :: 'u' :: a' :: b' :: c' :: d' :: tail) acc =
      Json.parseStrBody fuel tail
        (Char.ofNat (0x10000 + (hi - 0xD800) * 0x400 + (lo - 0xDC00)) :: acc) := by
  rw [Json.parseStrBody.eq_4, h1]
  simp only []
  rw [if_pos hhi]
  simp only [h2]
  rw [if_pos hlo]

/-- One character of the all-ASCII form costs one step and yields the character. -/
theorem parse_escapeCharAscii (fuel : Nat) (c : Char) (tail acc : List Char) :
    Json.parseStrBody (fuel + 1) (Stream.escapeCharAscii c ++ tail) acc =
      Json.parseStrBody fuel tail (c :: acc) := by
  have hv := char_not_surrogate c
  unfold Stream.escapeCharAscii
  split
  · rename_i h; subst h; exact Json.parseStrBody.eq_5 ..
  split
  · rename_i h; subst h; exact Json.parseStrBody.eq_6 ..
  split
  · rename_i hq hb h
    exact parse_plain fuel c tail acc hq hb (by omega)
  split
  · rename_i h
    obtain ⟨a, b, c', d, he, hh⟩ := hex4_hex4Digits c.toNat h tail
    rw [List.cons_append, List.cons_append, he, parse_single fuel c.toNat a b c' d tail acc hh (by omega),
      Char.ofNat_toNat]
  · rename_i h
    simp only []
    obtain ⟨a', b', c', d', he', hh'⟩ :=
      hex4_hex4Digits (0xDC00 + (c.toNat - 0x10000) % 0x400) (by omega) tail
    obtain ⟨a, b, c'', d, he, hh⟩ :=
      hex4_hex4Digits (0xD800 + (c.toNat - 0x10000) / 0x400) (by omega)
        ('\\' :: 'u' :: a' :: b' :: c' :: d' :: tail)
    rw [List.append_assoc, List.cons_append, List.cons_append, List.cons_append, List.cons_append, he', he,
      parse_pair fuel _ _ a b c'' d a' b' c' d' tail acc hh hh' (by omega) (by omega)]
    have : 0x10000 + (0xD800 + (c.toNat - 0x10000) / 0x400 - 0xD800) * 0x400 +
        (0xDC00 + (c.toNat - 0x10000) % 0x400 - 0xDC00) = c.toNat := by omega
    rw [this, Char.ofNat_toNat]

theorem escapeCharAscii_length_pos (c : Char) : 0 < (Stream.escapeCharAscii c).length := by
  unfold Stream.escapeCharAscii
  repeat' split
  all_goals simp

theorem parse_escapeAscii_acc (s rest acc : List Char) (fuel : Nat)
    (h : fuel > (Stream.escapeAscii s).length) :
    Json.parseStrBody fuel (Stream.escapeAscii s ++ '"' :: rest) acc = some (acc.reverse ++ s, rest) := by
  induction s generalizing fuel acc with
  | nil =>
    cases fuel with
    | zero => omega
    | succ f => simp [Stream.escapeAscii, Json.parseStrBody.eq_3]
  | cons c s ih =>
    have hl := escapeCharAscii_length_pos c
    have hcons : Stream.escapeAscii (c :: s) = Stream.escapeCharAscii c ++ Stream.escapeAscii s := by
      simp [Stream.escapeAscii]
    rw [hcons, List.length_append] at h
    cases fuel with
    | zero => omega
    | succ f =>
      rw [hcons, List.append_assoc, parse_escapeCharAscii, ih _ _ (by omega)]
      simp

theorem parse_escapeAscii (s rest : List Char) (fuel : Nat)
    (h : fuel > (Stream.escapeAscii s).length) :
    Json.parseStrBody fuel (Stream.escapeAscii s ++ '"' :: rest) [] = some (s, rest) := by
  simpa using parse_escapeAscii_acc s rest [] fuel h

theorem stream_escapeAscii (s rest : List Char) (fuel : Nat)
    (h : fuel > (Stream.escapeAscii s).length) :
    Stream.readStringContent fuel (Stream.escapeAscii s ++ '"' :: rest) [] = some (s, rest) := by
  rw [readStringContent_eq_parseStrBody]; exact parse_escapeAscii s rest fuel h


/-! ### 6. the headline -/

/-- With the fuel the document loader actually passes (`r.length + 1`, see `Json.parseValue`). -/
theorem loader_fuel_escapeChars (s rest : List Char) :
    let r := Json.escapeChars s ++ '"' :: rest
    Json.parseStrBody (r.length + 1) r [] = some (s, rest) ∧
    Stream.readStringContent (r.length + 1) r [] = some (s, rest) := by
  intro r
  have h : r.length + 1 > (Json.escapeChars s).length := by
    simp only [r, List.length_append]; omega
  exact ⟨parse_escapeChars' s rest _ h, stream_escapeChars s rest _ h⟩

theorem loader_fuel_escapeAscii (s rest : List Char) :
    let r := Stream.escapeAscii s ++ '"' :: rest
    Json.parseStrBody (r.length + 1) r [] = some (s, rest) ∧
    Stream.readStringContent (r.length + 1) r [] = some (s, rest) := by
  intro r
  have h : r.length + 1 > (Stream.escapeAscii s).length := by
    simp only [r, List.length_append]; omega
  exact ⟨parse_escapeAscii s rest _ h, stream_escapeAscii s rest _ h⟩

theorem both_loaders_read_the_same_text :
    -- (a) agreement on every input (accepted text, rest, and rejection)
    (∀ (fuel : Nat) (inp : List Char),
      Stream.readStringContent fuel inp [] = Json.parseStrBody fuel inp []) ∧
    -- (b) both read every string back from its compact form
    (∀ (s rest : List Char) (fuel : Nat), fuel > (Json.escapeChars s).length →
      Json.parseStrBody fuel (Json.escapeChars s ++ '"' :: rest) [] = some (s, rest) ∧
      Stream.readStringContent fuel (Json.escapeChars s ++ '"' :: rest) [] = some (s, rest)) ∧
    -- (c) both read every string back from its all-ASCII form
    (∀ (s rest : List Char) (fuel : Nat), fuel > (Stream.escapeAscii s).length →
      Json.parseStrBody fuel (Stream.escapeAscii s ++ '"' :: rest) [] = some (s, rest) ∧
      Stream.readStringContent fuel (Stream.escapeAscii s ++ '"' :: rest) [] = some (s, rest)) :=
  ⟨fun fuel inp => readStringContent_eq_parseStrBody fuel inp [],
   fun s rest fuel h => ⟨parse_escapeChars' s rest fuel h, stream_escapeChars s rest fuel h⟩,
   fun s rest fuel h => ⟨parse_escapeAscii s rest fuel h, stream_escapeAscii s rest fuel h⟩⟩

/-! ### 7. non-vacuity -/

/-- tab, quote, é, €, 😀 -/
def sample : List Char := ['\t', '"', 'é', '€', Char.ofNat 0x1F600]

example : '😀' = Char.ofNat 0x1F600 ∧ '😀'.toNat = 0x1F600 := by decide

example : Json.escapeChars sample = ['\\', 't', '\\', '"', 'é', '€', Char.ofNat 0x1F600] := by decide
example : Stream.escapeAscii sample =
    "\\u0009\\\"\\u00e9\\u20ac\\ud83d\\ude00".toList := by decide

example : Json.parseStrBody 20 (Json.escapeChars sample ++ '"' :: ['x']) [] = some (sample, ['x']) := by
  decide
example : Stream.readStringContent 20 (Json.escapeChars sample ++ '"' :: ['x']) [] = some (sample, ['x']) := by
  decide
example : Json.parseStrBody 40 (Stream.escapeAscii sample ++ '"' :: ['x']) [] = some (sample, ['x']) := by
  decide
example : Stream.readStringContent 40 (Stream.escapeAscii sample ++ '"' :: ['x']) [] = some (sample, ['x']) := by
  decide

-- each character on its own, both forms, both readers
example : ∀ c ∈ sample,
    Json.parseStrBody 20 (Json.escapeChars [c] ++ ['"']) [] = some ([c], []) ∧
    Stream.readStringContent 20 (Json.escapeChars [c] ++ ['"']) [] = some ([c], []) ∧
    Json.parseStrBody 20 (Stream.escapeAscii [c] ++ ['"']) [] = some ([c], []) ∧
    Stream.readStringContent 20 (Stream.escapeAscii [c] ++ ['"']) [] = some ([c], []) := by decide

-- a lone high surrogate is rejected by both; so is a reversed pair, a lone low one, a raw
-- control character, an unknown escape, a bad hex digit and an unterminated string
example : Json.parseStrBody 20 ['\\', 'u', 'd', '8', '3', 'd', '"'] [] = none := by decide
example : Stream.readStringContent 20 ['\\', 'u', 'd', '8', '3', 'd', '"'] [] = none := by decide
example : Json.parseStrBody 20 "\\ude00\\ud83d\"".toList [] = none := by decide
example : Stream.readStringContent 20 "\\ude00\\ud83d\"".toList [] = none := by decide
example : Json.parseStrBody 20 "\\ud83dx\"".toList [] = none := by decide
example : Stream.readStringContent 20 "\\ud83dx\"".toList [] = none := by decide
example : Json.parseStrBody 20 ['a', '\t', '"'] [] = none := by decide
example : Stream.readStringContent 20 ['a', '\t', '"'] [] = none := by decide
example : Json.parseStrBody 20 "\\q\"".toList [] = none := by decide
example : Stream.readStringContent 20 "\\q\"".toList [] = none := by decide
example : Json.parseStrBody 20 "\\u00g0\"".toList [] = none := by decide
example : Stream.readStringContent 20 "\\u00g0\"".toList [] = none := by decide
example : Json.parseStrBody 20 "abc".toList [] = none := by decide
example : Stream.readStringContent 20 "abc\\".toList [] = none := by decide
-- upper-case hex digits are accepted by both
example : Json.parseStrBody 20 "\\u00E9\\uD83D\\uDE00\"".toList [] = some (['é', Char.ofNat 0x1F600], []) := by
  decide
example : Stream.readStringContent 20 "\\u00E9\\uD83D\\uDE00\"".toList [] = some (['é', Char.ofNat 0x1F600], []) := by
  decide

end Ink.C14
