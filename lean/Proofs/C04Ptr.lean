/-
  C04Ptr — the residual panic sites of one interpreter step, continued.

  `Proofs/C04.lean` leaves eight site tags for `Ink.step` (any state), `Proofs/C04Inv.lean`
  removes the three call-stack sites under the call-stack invariant `StWF` and leaves six
  (`stepSitesWF`).  This file removes all six:

    * `progress.rs:increment_content_pointer`, `story/mod.rs:shuffle_container`,
      `control_logic.rs:visit_index_container`, `object.rs:get_path`
        — for ANY state and ANY tree, by the control flow of `step` itself: where these sites
          are evaluated the current pointer has just been tested (`if pointer.is_null()`), or
          the address whose path is asked for has just been reached in the tree of the step
          (the object the pointer resolves to, its container, the result of a path search).
          In particular `object.rs:get_path` is unreachable also from states that point into
          another tree: no invariant on the pointers of the state is needed;
    * `object.rs:resolve_path`           — if the root of the tree is a container,
    * `divert.rs:get_target_path_string` — if every divert of the tree has a target path or a
                                            variable target,
      which is the invariant `TreeOK` of the tree that the story loader establishes
      (`load_treeOK`) and that every public operation keeps (`reachableOver_root`).

  Results: `step_panic_sites_any` (any state, any tree: four sites instead of eight),
  `step_panic_sites_ptr` / `step_never_panics` (`StWF` and `TreeOK`: no site at all, `stepSitesPtr
  = []`), one `no_panic_*` theorem per site, `continueSingleStep_never_panics`,
  `reachable_step_panic_sites`, `loaded_reachable_never_panics`.

  Method: a Hoare logic `K S J J' m Q` for the step monad ("run from a core satisfying `J`:
  if `m` returns `a` then `Q a` and the new core satisfies `J'`; if `m` panics, the site is
  in `S`"), pushed through every `do` block of `Ink/Step.lean` by the head-symbol driven
  tactic `k_step` (the scheme of `np_step` / `t_step`).  The invariants `J` used are properties
  of the current pointer (`PInv`): "it is `p`" (`JP`), "it is not null" (`JN`), "its container
  is a node of the tree" (`JV`), or nothing (`Top`).  The site list `S` is a parameter
  (`Sites root S`), so that the same proof gives the statement for any tree and the one for
  trees with `TreeOK`.
-/
import Lean.Elab.Tactic
import Proofs.C04Inv

namespace Ink
namespace C04

section PtrA

open M

/-! ### 1. Addresses of the tree -/

theorem compOfChild_isSome (c : Obj) (s : Step) : ∃ k, compOfChild c s = some k := by
  unfold compOfChild
  cases c.validName with
  | some n => exact ⟨_, rfl⟩
  | none => cases s <;> exact ⟨_, rfl⟩

/-- `Object::get_path` is total on the nodes of the tree. -/
theorem compsOf_of_nodeAt : ∀ (a : Addr) (root o : Obj), nodeAt root a = some o → ∃ cs, compsOf root a = some cs := by
  intro a
  induction a with
  | nil => intro _ _ _; exact ⟨[], rfl⟩
  | cons s rest ih =>
    intro root o h
    simp only [nodeAt] at h
    cases hc : root.child s with
    | none => simp [hc] at h
    | some c =>
      rw [hc] at h
      obtain ⟨ks, hks⟩ := ih c o h
      obtain ⟨k, hk⟩ := compOfChild_isSome c s
      exact ⟨k :: ks, by simp [compsOf, hc, hk, hks]⟩

theorem pathOf_of_nodeAt {root : Obj} {a : Addr} (h : ∃ o, nodeAt root a = some o) : ∃ p, pathOf root a = some p := by
  obtain ⟨o, ho⟩ := h
  obtain ⟨cs, hcs⟩ := compsOf_of_nodeAt a root o ho
  exact ⟨{ comps := cs, rel := false }, by simp [pathOf, hcs]⟩

/-- … and conversely: `get_path` fails exactly on the addresses that name no node. -/
theorem pathOf_eq_none_iff (root : Obj) (a : Addr) : pathOf root a = none ↔ nodeAt root a = none := by
  constructor
  · intro h
    cases hn : nodeAt root a with
    | none => rfl
    | some o =>
      obtain ⟨p, hp⟩ := pathOf_of_nodeAt ⟨o, hn⟩
      rw [hp] at h; cases h
  · intro h
    induction a generalizing root with
    | nil => cases h
    | cons s rest ih =>
      simp only [nodeAt] at h
      simp only [pathOf, compsOf]
      cases hc : root.child s with
      | none => rfl
      | some c =>
        rw [hc] at h
        have := ih c h
        simp only [pathOf, Option.map_eq_none_iff] at this
        simp [this]

theorem nodeAt_snoc {root o : Obj} {a : Addr} (h : nodeAt root a = some o) (s : Step) :
    nodeAt root (a ++ [s]) = o.child s := by
  rw [nodeAt_append, h]
  simp only [Option.bind_some, nodeAt]
  cases o.child s <;> rfl

/-- What `Pointer::resolve` returns is a node, and so is the container of the pointer. -/
theorem resolve_nodeAt {root : Obj} {p : Ptr} {r : Addr} (h : p.resolve root = some r) :
    (∃ o, nodeAt root r = some o) ∧ (∃ c o, p.container = some c ∧ nodeAt root c = some o) := by
  unfold Ptr.resolve at h
  split at h
  · cases h
  · rename_i a ha
    split at h
    · cases h
    · rename_i o ho
      refine ⟨?_, a, o, ha, ho⟩
      split at h
      · cases h; exact ⟨o, ho⟩
      · split at h
        · rename_i hlt
          cases h
          rw [nodeAt_snoc ho]
          exact ⟨o.content[p.index.toNat], by simp [Obj.child, List.getElem?_eq_getElem hlt]⟩
        · cases h

/-- `Object::resolve_path` fails only on a root that is not a container. -/
theorem resolvePath_eq_none {root : Obj} {a : Addr} {p : Path} (h : resolvePath root a p = none) :
    root.isContainer = false := by
  unfold resolvePath at h
  split at h
  · split at h
    · cases h
    · rename_i hc
      split at h
      · rename_i he
        have : a = [] := by simpa using he
        subst this
        simpa [isContainerAt, nodeAt] using hc
      · cases h
  · cases h

theorem resolvePath_isSome {root : Obj} (hr : root.isContainer = true) (a : Addr) (p : Path) :
    (resolvePath root a p).isSome = true := by
  cases h : resolvePath root a p with
  | some _ => rfl
  | none => rw [resolvePath_eq_none h] at hr; cases hr

theorem nodeAt_dropLast {root o : Obj} {a : Addr} (h : nodeAt root a = some o) : ∃ o', nodeAt root a.dropLast = some o' := by
  cases ha : a.getLast? with
  | none =>
    have : a = [] := List.getLast?_eq_none_iff.mp ha
    subst this
    exact ⟨o, h⟩
  | some l =>
    have hsplit : a = a.dropLast ++ [l] := by
      obtain ⟨ys, hys⟩ := List.getLast?_eq_some_iff.mp ha
      rw [hys]; simp
    rw [hsplit, nodeAt_append] at h
    cases hd : nodeAt root a.dropLast with
    | none => rw [hd] at h; cases h
    | some o' => exact ⟨o', rfl⟩

theorem lastNamedIdx_lt (n : String) : ∀ (cs : List Obj) (i : Nat) (best : Option Nat) (j : Nat),
    Obj.lastNamedIdx cs n i best = some j → best = some j ∨ (i ≤ j ∧ j < i + cs.length) := by
  intro cs
  induction cs with
  | nil => intro i best j h; simp only [Obj.lastNamedIdx] at h; exact Or.inl h
  | cons c rest ih =>
    intro i best j h
    simp only [Obj.lastNamedIdx] at h
    rcases ih _ _ _ h with h1 | h1
    · split at h1
      · simp only [Option.some.injEq] at h1
        subst h1
        exact Or.inr ⟨Nat.le_refl _, by simp⟩
      · exact Or.inl h1
    · refine Or.inr ⟨by omega, ?_⟩
      simp only [List.length_cons]; omega

theorem lookupName_child {o : Obj} {n : String} {st : Step} (h : o.lookupName n = some st) : ∃ c, o.child st = some c := by
  unfold Obj.lookupName at h
  split at h
  · rename_i i hi
    cases h
    rcases lastNamedIdx_lt n _ _ _ _ hi with h1 | h1
    · cases h1
    · have hlt : i < o.content.length := by omega
      exact ⟨o.content[i], by simp [Obj.child, List.getElem?_eq_getElem hlt]⟩
  · split at h
    · rename_i hany
      cases h
      simp only [Obj.child]
      cases hf : o.namedOnly.find? (fun kv => kv.1 == n) with
      | some kv => exact ⟨kv.2, rfl⟩
      | none =>
        rw [List.find?_eq_none] at hf
        rw [List.any_eq_true] at hany
        obtain ⟨kv, hkv, hk⟩ := hany
        exact absurd hk (hf kv hkv)
    · cases h

theorem withComponent_node {root : Obj} {cur found : Addr} {c : Comp} (h : withComponent root cur c = some found) :
    ∃ o, nodeAt root found = some o := by
  unfold withComponent at h
  split at h
  · cases h
  · rename_i o ho
    split at h
    · split at h
      · rename_i i hlt
        cases h
        rw [nodeAt_snoc ho]
        exact ⟨o.content[i], by simp [Obj.child, List.getElem?_eq_getElem hlt]⟩
      · cases h
    · split at h
      · split at h
        · cases h
        · cases h
          exact nodeAt_dropLast ho
      · simp only [Option.map_eq_some_iff] at h
        obtain ⟨st, hst, rfl⟩ := h
        rw [nodeAt_snoc ho]
        exact lookupName_child hst

theorem contentLoop_node (root : Obj) : ∀ (comps : List Comp) (cur : Addr) (isC : Bool),
    (∃ o, nodeAt root cur = some o) → ∃ o, nodeAt root (contentLoop root cur isC comps).addr = some o := by
  intro comps
  induction comps with
  | nil => intro cur isC h; exact h
  | cons c rest ih =>
    intro cur isC h
    unfold contentLoop
    split
    · exact h
    · split
      · exact h
      · rename_i found hf
        simp only
        split
        · exact h
        · exact ih _ _ (withComponent_node hf)

/-- What `Object::resolve_path` finds from a node of the tree is a node of the tree. -/
theorem resolvePath_node {root : Obj} {a : Addr} {p : Path} {sr : SearchResult}
    (h : resolvePath root a p = some sr) (ha : ∃ o, nodeAt root a = some o) : ∃ o, nodeAt root sr.addr = some o := by
  unfold resolvePath at h
  split at h
  · split at h
    · cases h
      exact contentLoop_node root _ _ _ ha
    · split at h
      · cases h
      · cases h
        obtain ⟨o, ho⟩ := ha
        exact contentLoop_node root _ _ _ (nodeAt_dropLast ho)
  · cases h
    exact contentLoop_node root _ _ _ ⟨root, rfl⟩

/-! ### 2. The two invariants of the tree -/

/-- Every divert of the tree has a target path or a variable target
    (`divert.rs:get_target_path_string`). -/
def DivertsOK (root : Obj) : Prop :=
  ∀ (a : Addr) (d : DivertData), nodeAt root a = some (.divert d) → d.target.isSome = true ∨ d.varName.isSome = true

/-- The invariants of the story tree behind `object.rs:resolve_path` (an object that is not a
    container has a parent: the root is a container) and `divert.rs:get_target_path_string`. -/
structure TreeOK (root : Obj) : Prop where
  rootContainer : root.isContainer = true
  diverts : DivertsOK root

/-- The site lists `S` the logic is run with: the two call-stack sites (handled by
    `Proofs/C04Inv.lean`), and each of the two tree sites unless the tree has the invariant
    that excludes it. -/
structure Sites (root : Obj) (S : List String) : Prop where
  push : "callstack.rs:push" ∈ S
  fork : "callstack.rs:fork_thread" ∈ S
  resolve : "object.rs:resolve_path" ∈ S ∨ root.isContainer = true
  target : "divert.rs:get_target_path_string" ∈ S ∨ DivertsOK root

/-- the sites of a step in any tree -/
def stepSitesAny : List String :=
  ["callstack.rs:push", "callstack.rs:fork_thread", "object.rs:resolve_path", "divert.rs:get_target_path_string"]

/-- the sites of a step in a tree with `TreeOK` -/
def stepSitesTree : List String := ["callstack.rs:push", "callstack.rs:fork_thread"]

theorem sites_any (root : Obj) : Sites root stepSitesAny :=
  ⟨by decide, by decide, Or.inl (by decide), Or.inl (by decide)⟩

theorem sites_tree {root : Obj} (h : TreeOK root) : Sites root stepSitesTree :=
  ⟨by decide, by decide, Or.inr h.rootContainer, Or.inr h.diverts⟩

theorem Sites.resolve_or {root : Obj} {S : List String} (hS : Sites root S) (a : Addr) (p : Path) :
    "object.rs:resolve_path" ∈ S ∨ (resolvePath root a p).isSome = true := by
  rcases hS.resolve with h | h
  · exact Or.inl h
  · exact Or.inr (resolvePath_isSome h a p)

theorem Sites.target_or {root : Obj} {S : List String} (hS : Sites root S) {a : Addr} {d : DivertData}
    (ha : nodeAt root a = some (.divert d)) (hv : d.varName = none) :
    "divert.rs:get_target_path_string" ∈ S ∨ d.target.isSome = true := by
  rcases hS.target with h | h
  · exact Or.inl h
  · rcases h a d ha with h1 | h1
    · exact Or.inr h1
    · rw [hv] at h1; cases h1

/-! ### 3. core level: what the lifted functions can panic with -/

theorem visitCountFor_np {root : Obj} {s : Core} {a : Addr} {site : String} (ha : ∃ o, nodeAt root a = some o) :
    s.visitCountFor root a ≠ .panic site := by
  obtain ⟨o, ho⟩ := ha
  obtain ⟨p, hp⟩ := pathOf_of_nodeAt ⟨o, ho⟩
  unfold Core.visitCountFor
  rw [ho, hp]
  simp only
  split <;> (intro h; cases h)

theorem incrementVisitCount_np {root : Obj} {s : Core} {a : Addr} {site : String} (ha : ∃ o, nodeAt root a = some o) :
    s.incrementVisitCount root a ≠ .panic site := by
  obtain ⟨p, hp⟩ := pathOf_of_nodeAt ha
  unfold Core.incrementVisitCount
  rw [hp]
  intro h; cases h

theorem recordTurnIndexVisit_np {root : Obj} {s : Core} {a : Addr} {site : String} (ha : ∃ o, nodeAt root a = some o) :
    s.recordTurnIndexVisit root a ≠ .panic site := by
  obtain ⟨p, hp⟩ := pathOf_of_nodeAt ha
  unfold Core.recordTurnIndexVisit
  rw [hp]
  intro h; cases h

theorem targetPointerOf_site {root : Obj} {S : List String} (hS : Sites root S) {a : Addr} {t : Path} {site : String}
    (h : targetPointerOf root a t = .panic site) : site ∈ S := by
  unfold targetPointerOf at h
  split at h
  · cases h
  · split at h
    · rename_i hn
      cases h
      rcases hS.resolve_or a t with h1 | h1
      · exact h1
      · rw [hn] at h1; cases h1
    · split at h
      · cases h
      · split at h <;> cases h

theorem divertTargetPath_site {root : Obj} {S : List String} (hS : Sites root S) {a : Addr} {t : Path} {site : String}
    (h : divertTargetPath root a t = .panic site) : site ∈ S := by
  unfold divertTargetPath at h
  split at h
  · split at h
    · split at h
      · rename_i r hr
        split at h
        · cases h
        · rename_i hn
          obtain ⟨p, hp⟩ := pathOf_of_nodeAt (resolve_nodeAt hr).1
          rw [hp] at hn; cases hn
      · cases h
    · cases h
    · rename_i s heq
      cases h
      exact targetPointerOf_site hS heq
  · cases h

end PtrA

section PtrB

open M

/-! ### 4. The logic -/

/-- Run from a core satisfying `J`: if `m` returns `a`, then `Q a` and the new core satisfies
    `J'`; if `m` ends in `panic site`, then `site ∈ S`. -/
def K (S : List String) (J J' : Core → Prop) {α : Type} (m : M α) (Q : α → Prop) : Prop :=
  ∀ st : St, J st.s →
    (∀ a st', m st = (.ok a, st') → J' st'.s ∧ Q a) ∧ (∀ site st', m st = (.panic site, st') → site ∈ S)

/-- no condition on the core -/
abbrev Top : Core → Prop := fun _ => True

variable {S : List String} {J J' J1 : Core → Prop} {α β : Type}

theorem K_weaken {m : M α} {Q Q' : α → Prop} {J0 J2 : Core → Prop} (h : K S J J' m Q)
    (hpre : ∀ s, J0 s → J s) (hpost : ∀ s, J' s → J2 s) (hq : ∀ a, Q a → Q' a) : K S J0 J2 m Q' := by
  intro st hst
  obtain ⟨h1, h2⟩ := h st (hpre _ hst)
  exact ⟨fun a st' e => ⟨hpost _ (h1 a st' e).1, hq _ (h1 a st' e).2⟩, h2⟩

theorem K_pre {m : M α} {Q : α → Prop} {J0 : Core → Prop} (hpre : ∀ s, J0 s → J s) (h : K S J J' m Q) :
    K S J0 J' m Q := K_weaken h hpre (fun _ h => h) (fun _ h => h)

/-- forget the postconditions -/
theorem K_post {m : M α} {Q : α → Prop} (h : K S J J' m Q) : K S J Top m (fun _ => True) :=
  K_weaken h (fun _ h => h) (fun _ _ => trivial) (fun _ _ => trivial)

theorem K_true {m : M α} {Q : α → Prop} (h : K S J J' m Q) : K S J J' m (fun _ => True) :=
  K_weaken h (fun _ h => h) (fun _ h => h) (fun _ _ => trivial)

theorem K_of_false {m : M α} {Q : α → Prop} (h : False) : K S J J' m Q := h.elim

theorem K_pure {a : α} {Q : α → Prop} (hJ : ∀ s, J s → J' s) (h : Q a) : K S J J' (pure a : M α) Q := by
  intro st hst
  refine ⟨?_, ?_⟩
  · intro b st' e; cases e; exact ⟨hJ _ hst, h⟩
  · intro site st' e; cases e

theorem K_bind {x : M α} {f : α → M β} {Q : α → Prop} {R : β → Prop}
    (hx : K S J J1 x Q) (hf : ∀ a, Q a → K S J1 J' (f a) R) : K S J J' (x >>= f) R := by
  intro st hst
  obtain ⟨h1, h2⟩ := hx st hst
  show (∀ b st', (M.bind' x f) st = (.ok b, st') → _) ∧ (∀ site st', (M.bind' x f) st = (.panic site, st') → _)
  unfold M.bind'
  split
  · rename_i a st1 heq
    obtain ⟨hj, hq⟩ := h1 a st1 heq
    exact hf a hq st1 hj
  · exact ⟨fun _ _ e => (by cases e), fun _ _ e => (by cases e)⟩
  · rename_i p st1 heq
    refine ⟨fun _ _ e => (by cases e), fun site st' e => ?_⟩
    cases e
    exact h2 _ _ heq

/-- `bind` keeping the invariant over the first action -/
theorem K_bindJ {x : M α} {f : α → M β} {Q : α → Prop} {R : β → Prop}
    (hx : K S J J x Q) (hf : ∀ a, Q a → K S J J' (f a) R) : K S J J' (x >>= f) R := K_bind hx hf

theorem K_bind_pure {a : α} {f : α → M β} {R : β → Prop} (hf : K S J J' (f a) R) :
    K S J J' ((pure a : M α) >>= f) R :=
  K_bind (Q := fun x => x = a) (K_pure (fun _ h => h) rfl) (fun x hx => by subst hx; exact hf)

theorem K_get : K S J J M.get J := by
  intro st hst
  exact ⟨fun a st' e => (by cases e; exact ⟨hst, hst⟩), fun _ _ e => (by cases e)⟩

/-- `get`, remembering that the core read is the current one -/
theorem K_get_bind {f : Core → M β} {R : β → Prop}
    (hf : ∀ s, J s → K S (fun s' => s' = s) J' (f s) R) : K S J J' (M.get >>= f) R := by
  intro st hst
  exact hf st.s hst st rfl

theorem K_getSt : K S J J M.getSt (fun st => J st.s) := by
  intro st hst
  exact ⟨fun a st' e => (by cases e; exact ⟨hst, hst⟩), fun _ _ e => (by cases e)⟩

theorem K_set {s : Core} {Q : Unit → Prop} (h : J' s) (hq : Q ()) : K S J J' (M.set s) Q := by
  intro st _
  exact ⟨fun a st' e => (by cases e; exact ⟨h, hq⟩), fun _ _ e => (by cases e)⟩

theorem K_setSt {st0 : St} {Q : Unit → Prop} (h : J' st0.s) (hq : Q ()) : K S J J' (M.setSt st0) Q := by
  intro st _
  exact ⟨fun a st' e => (by cases e; exact ⟨h, hq⟩), fun _ _ e => (by cases e)⟩

theorem K_modify {f : Core → Core} {Q : Unit → Prop} (h : ∀ s, J s → J' (f s)) (hq : Q ()) :
    K S J J' (M.modify f) Q := by
  intro st hst
  exact ⟨fun a st' e => (by cases e; exact ⟨h _ hst, hq⟩), fun _ _ e => (by cases e)⟩

theorem K_liftS {f : Core → Out Core} {Q : Unit → Prop}
    (h : ∀ s s', J s → f s = .ok s' → J' s')
    (hp : ∀ s site, J s → f s = .panic site → site ∈ S) (hq : Q ()) : K S J J' (M.liftS f) Q := by
  intro st hst
  unfold M.liftS
  split
  · rename_i s' heq
    exact ⟨fun a st' e => (by cases e; exact ⟨h _ _ hst heq, hq⟩), fun _ _ e => (by cases e)⟩
  · exact ⟨fun _ _ e => (by cases e), fun _ _ e => (by cases e)⟩
  · rename_i p heq
    refine ⟨fun _ _ e => (by cases e), fun site st' e => ?_⟩
    cases e
    exact hp _ _ hst heq

theorem K_fail {k m : String} {Q : α → Prop} : K S J J' (M.fail k m : M α) Q := by
  intro st _
  exact ⟨fun _ _ e => (by cases e), fun _ _ e => (by cases e)⟩

theorem K_invalid {m : String} {Q : α → Prop} : K S J J' (M.invalid m : M α) Q := K_fail

theorem K_crash {p : String} {Q : α → Prop} (hp : p ∈ S) : K S J J' (M.crash p : M α) Q := by
  intro st _
  refine ⟨fun _ _ e => (by cases e), fun site st' e => ?_⟩
  simp only [M.crash, Prod.mk.injEq, Out.panic.injEq] at e
  obtain ⟨rfl, _⟩ := e
  exact hp

theorem K_lift {o : Out α} (hp : ∀ site, o = .panic site → site ∈ S) : K S J J (M.lift o) (fun a => o = .ok a) := by
  intro st hst
  refine ⟨fun a st' e => ?_, fun site st' e => ?_⟩
  · simp only [M.lift, Prod.mk.injEq] at e
    obtain ⟨e1, rfl⟩ := e
    exact ⟨hst, e1⟩
  · simp only [M.lift, Prod.mk.injEq] at e
    exact hp _ e.1

/-- `unwrap` at a site of `S`, or of a value that is there. -/
theorem K_unwrap {site : String} {o : Option α} (h : site ∈ S ∨ o.isSome = true) :
    K S J J (M.unwrap site o) (fun a => o = some a) := by
  cases o with
  | none =>
    rcases h with h | h
    · exact K_crash h
    · cases h
  | some a => exact K_pure (fun _ h => h) rfl

theorem K_bind_fail {k m : String} {f : α → M β} {R : β → Prop} : K S J J' ((M.fail k m : M α) >>= f) R :=
  K_bind (J1 := J) (Q := fun _ => False) K_fail (fun _ h => h.elim)

theorem K_bind_invalid {m : String} {f : α → M β} {R : β → Prop} : K S J J' ((M.invalid m : M α) >>= f) R :=
  K_bind_fail

theorem K_bind_crash {p : String} {f : α → M β} {R : β → Prop} (hp : p ∈ S) :
    K S J J' ((M.crash p : M α) >>= f) R :=
  K_bind (J1 := J) (Q := fun _ => False) (K_crash hp) (fun _ h => h.elim)

/-! #### properties of the current pointer -/

/-- `J` is a property of the current pointer of the core. -/
class PInv (J : Core → Prop) : Prop where
  stable : ∀ s s' : Core, s'.currentPtr = s.currentPtr → J s → J s'

instance : PInv Top := ⟨fun _ _ _ _ => trivial⟩

/-- the current pointer is `p` -/
def JP (p : Ptr) : Core → Prop := fun s => s.currentPtr = p

instance (p : Ptr) : PInv (JP p) := ⟨fun s s' h hs => by unfold JP at *; rw [h, hs]⟩

/-- the current pointer is not null -/
def JN : Core → Prop := fun s => s.currentPtr.isNull = false

instance : PInv JN := ⟨fun s s' h hs => by unfold JN at *; rw [h, hs]⟩

/-- the container of the current pointer is a node of the tree -/
def JV (root : Obj) : Core → Prop := fun s => ∃ c o, s.currentPtr.container = some c ∧ nodeAt root c = some o

instance (root : Obj) : PInv (JV root) := ⟨fun s s' h hs => by unfold JV at *; rw [h]; exact hs⟩

/-- A statement about all the invariants `JP p` is one about every property of the pointer. -/
theorem K_of_JP {m : M α} {Q : α → Prop} [hJ : PInv J] (h : ∀ p, K S (JP p) (JP p) m Q) : K S J J m Q := by
  intro st hst
  obtain ⟨h1, h2⟩ := h st.s.currentPtr st rfl
  refine ⟨fun a st' e => ?_, h2⟩
  obtain ⟨hp, hq⟩ := h1 a st' e
  exact ⟨hJ.stable _ _ hp hst, hq⟩

end PtrB

section PtrC

open M

/-! ### 5. What keeps the current pointer -/

theorem currentElement_eq (cs : CallStack) :
    cs.currentElement = cs.threads.getLast?.bind (fun t => t.callstack.getLast?) := by
  unfold CallStack.currentElement CallStack.currentThread
  cases cs.threads.getLast? <;> rfl

theorem mapCurrentThread_currentElement (cs : CallStack) (f : Thread → Thread) :
    (cs.mapCurrentThread f).currentElement = cs.threads.getLast?.bind (fun t => (f t).callstack.getLast?) := by
  rw [currentElement_eq]
  unfold CallStack.mapCurrentThread
  cases h : cs.threads.getLast? with
  | none => simp [h]
  | some t => simp

theorem currentPtr_congr {s s' : Core} (h : s'.callstack.currentElement = s.callstack.currentElement) :
    s'.currentPtr = s.currentPtr := by
  unfold Core.currentPtr; rw [h]

theorem currentPtr_mapCurrentThread {s : Core} {f : Thread → Thread}
    (hf : ∀ t, ((f t).callstack.getLast?).map (·.ptr) = (t.callstack.getLast?).map (·.ptr)) :
    (s.mapCallstack (fun cs => cs.mapCurrentThread f)).currentPtr = s.currentPtr := by
  have h1 : (s.mapCallstack (fun cs => cs.mapCurrentThread f)).callstack = s.callstack.mapCurrentThread f := rfl
  unfold Core.currentPtr
  rw [h1, mapCurrentThread_currentElement, currentElement_eq]
  cases s.callstack.threads.getLast? with
  | none => rfl
  | some t =>
    have := hf t
    simp only [Option.bind_some]
    cases h2 : (f t).callstack.getLast? <;> cases h3 : t.callstack.getLast? <;> simp [h2, h3] at this ⊢
    exact this

theorem setPrevPtr_ptr (s : Core) (p : Ptr) : (s.setPrevPtr p).currentPtr = s.currentPtr :=
  currentPtr_mapCurrentThread (fun _ => rfl)

theorem setCurrentPtr_ptr {s : Core} {p : Ptr} (h : s.currentPtr.isNull = false) : (s.setCurrentPtr p).currentPtr = p := by
  have h1 : (s.setCurrentPtr p).callstack = s.callstack.mapCurrentElement (fun e => { e with ptr := p }) := rfl
  have h0 : s.currentPtr.isNull = false := h
  unfold Core.currentPtr at h ⊢
  rw [h1]
  unfold CallStack.mapCurrentElement
  rw [mapCurrentThread_currentElement]
  rw [currentElement_eq] at h
  cases ht : s.callstack.threads.getLast? with
  | none => rw [ht] at h; simp [Ptr.null, Ptr.isNull] at h
  | some t =>
    rw [ht] at h
    simp only [Option.bind_some] at h ⊢
    cases he : t.callstack.getLast? with
    | none => rw [he] at h; simp [Ptr.null, Ptr.isNull] at h
    | some e => simp

theorem pushEval_ptr {defs : ListDefs} {s s' : Core} {o : Obj} (h : s.pushEval defs o = .ok s') :
    s'.currentPtr = s.currentPtr := by
  unfold Core.pushEval at h
  split at h
  · split at h
    · cases h
    · cases h; rfl
  · cases h; rfl

theorem popEval_ptr {s s' : Core} {o : Obj} (h : s.popEval = .ok (o, s')) : s'.currentPtr = s.currentPtr := by
  unfold Core.popEval at h
  split at h
  · cases h; rfl
  · cases h

theorem incrementVisitCount_ptr {root : Obj} {s s' : Core} {a : Addr} (h : s.incrementVisitCount root a = .ok s') :
    s'.currentPtr = s.currentPtr := by
  unfold Core.incrementVisitCount at h
  split at h
  · cases h; rfl
  · cases h

theorem recordTurnIndexVisit_ptr {root : Obj} {s s' : Core} {a : Addr} (h : s.recordTurnIndexVisit root a = .ok s') :
    s'.currentPtr = s.currentPtr := by
  unfold Core.recordTurnIndexVisit at h
  split at h
  · cases h; rfl
  · cases h

theorem fork_ptr {s : Core} {cs : CallStack} {th : Thread} (h : s.callstack.forkThread = some (cs, th)) :
    (s.setCallstack cs).currentPtr = s.currentPtr := by
  unfold CallStack.forkThread at h
  split at h
  · simp only [Option.some.injEq, Prod.mk.injEq] at h
    obtain ⟨rfl, _⟩ := h
    rfl
  · cases h

theorem clear_head (l : List Element) :
    ((Core.pushIndividual.clear l).head?).map (·.ptr) = (l.head?).map (·.ptr) := by
  cases l with
  | nil => rfl
  | cons e rest =>
    unfold Core.pushIndividual.clear
    split <;> rfl

theorem ite_ptr {c : Prop} [Decidable c] {a b : Core} {p : Ptr} (ha : a.currentPtr = p) (hb : b.currentPtr = p) :
    (if c then a else b).currentPtr = p := by split <;> assumption

theorem setOutput_ptr {x : Core} {o : List Obj} {p : Ptr} (hx : x.currentPtr = p) : (x.setOutput o).currentPtr = p := hx

theorem mapClear_ptr {x : Core} {p : Ptr} (hx : x.currentPtr = p) :
    (x.mapCallstack (fun cs => cs.mapCurrentThread (fun th =>
      { th with callstack := (Core.pushIndividual.clear th.callstack.reverse).reverse }))).currentPtr = p := by
  rw [← hx]
  apply currentPtr_mapCurrentThread
  intro t
  simp only [List.getLast?_reverse]
  rw [clear_head]
  simp

theorem pushIndividual_ptr (s : Core) (o : Obj) : (s.pushIndividual o).currentPtr = s.currentPtr := by
  unfold Core.pushIndividual
  split
  · rfl
  · simp only
    repeat' first
      | rfl
      | apply ite_ptr
      | apply setOutput_ptr
      | apply mapClear_ptr
      | split
  · rfl

theorem foldl_ptr {β : Type} (f : Core → β → Core) (hf : ∀ c b, (f c b).currentPtr = c.currentPtr)
    (l : List β) (c : Core) : (l.foldl f c).currentPtr = c.currentPtr := by
  induction l generalizing c with
  | nil => rfl
  | cons x xs ih => exact (ih _).trans (hf _ _)

theorem pushToOutput_ptr (s : Core) (o : Obj) : (s.pushToOutput o).currentPtr = s.currentPtr := by
  unfold Core.pushToOutput
  split
  · split
    · exact foldl_ptr _ (fun c b => pushIndividual_ptr c _) _ _
    · exact pushIndividual_ptr _ _
  · exact pushIndividual_ptr _ _

end PtrC

section PtrD

open M

/-! ### 6. The tactic -/

theorem pathOf_isSome {root : Obj} {a : Addr} (h : ∃ o, nodeAt root a = some o) : (pathOf root a).isSome = true := by
  obtain ⟨p, hp⟩ := pathOf_of_nodeAt h
  rw [hp]; rfl

theorem nodeAt_isSome {root : Obj} {a : Addr} (h : ∃ o, nodeAt root a = some o) : (nodeAt root a).isSome = true := by
  obtain ⟨p, hp⟩ := h
  rw [hp]; rfl

theorem compact_isSome' (own other : Path) : (Path.compact own other).isSome = true := by
  obtain ⟨t, ht⟩ := compact_isSome own other
  rw [ht]; rfl

theorem node_of_not_not {root : Obj} {a : Addr} (h : ¬ (!isContainerAt root a) = true) : ∃ o, nodeAt root a = some o := by
  apply isContainerAt_nodeAt
  simpa using h

theorem node_of_and {root : Obj} {a : Addr} {b : Bool} (h : (b && isContainerAt root a) = true) :
    ∃ o, nodeAt root a = some o := by
  simp only [Bool.and_eq_true] at h
  exact isContainerAt_nodeAt h.2

theorem jv_node {root : Obj} {s : Core} {c : Addr} (h : JV root s) (hc : s.currentPtr.container = some c) :
    ∃ o, nodeAt root c = some o := by
  obtain ⟨c', o, h1, h2⟩ := h
  rw [h1] at hc; cases hc
  exact ⟨o, h2⟩

theorem jv_container {root : Obj} {s : Core} (h : JV root s) : s.currentPtr.container.isSome = true := by
  obtain ⟨c', o, h1, h2⟩ := h
  rw [h1]; rfl

/-- goal `s'.currentPtr = s.currentPtr` -/
macro "k_ptr" : tactic => `(tactic| first
  | rfl
  | exact pushEval_ptr (by assumption)
  | exact popEval_ptr (by assumption)
  | exact incrementVisitCount_ptr (by assumption)
  | exact recordTurnIndexVisit_ptr (by assumption)
  | exact fork_ptr (by assumption)
  | exact pushToOutput_ptr _ _
  | exact setPrevPtr_ptr _ _
  | fail "k_ptr: no rule")

open Lean Elab Tactic Meta in
/-- goal `J e` for a property `J` of the current pointer: some `J s` of the context, with
    `e.currentPtr = s.currentPtr` -/
elab "k_stable" : tactic => withMainContext do
  for d in (← getLCtx) do
    if d.isImplementationDetail then continue
    let saved ← saveState
    try
      let h ← Term.exprToSyntax d.toExpr
      evalTactic (← `(tactic| exact PInv.stable _ _ (by k_ptr) $h))
      return
    catch _ => saved.restore
  throwError "k_stable: no hypothesis"

/-- goal `J' e` -/
macro "k_inv" : tactic => `(tactic| first
  | trivial
  | assumption
  | k_stable
  | fail "k_inv: no rule")

/-- "this address names a node of the tree" -/
macro "k_node" : tactic => `(tactic| first
  | assumption
  | exact ⟨_, by assumption⟩
  | exact isContainerAt_nodeAt (by assumption)
  | exact node_of_not_not (by assumption)
  | exact node_of_and (by assumption)
  | exact nodeAt_of_guard (by assumption)
  | exact (resolve_nodeAt (by assumption)).1
  | exact jv_node (by assumption) (by assumption)
  | exact resolvePath_node (by assumption) (by assumption)
  | exact resolvePath_node (by assumption) ⟨_, by assumption⟩
  | fail "k_node: no rule")

/-- side conditions of `lift` / `liftS`: the lifted function panics with a site of `S` only -/
macro "k_side" : tactic => `(tactic| first
  | exact absurd (by assumption) (isTruthyObj_no_panic _ _)
  | exact absurd (by assumption) (pushEval_no_panic _ _ _ _)
  | exact absurd (by assumption) (assign_no_panic _ _ _ _ _ _ _)
  | exact absurd (by assumption) (popCallstack_no_panic _ _ _)
  | exact absurd (by assumption) (pointerAtPath_no_panic _ _ _)
  | exact absurd (by assumption) (visitCountFor_np (by k_node))
  | exact absurd (by assumption) (incrementVisitCount_np (by k_node))
  | exact absurd (by assumption) (recordTurnIndexVisit_np (by k_node))
  | exact divertTargetPath_site (by assumption) (by assumption)
  | exact targetPointerOf_site (by assumption) (by assumption)
  | exact absurd (by assumption) (popThreadLift_no_panic _ _)
  | exact absurd (by assumption) (native_call_never_panics _ _ _ _)
  | fail "k_side: no rule")

/-- side condition of an `unwrap`: the site is in `S`, or the value is there -/
macro "k_unwrap" : tactic => `(tactic| first
  | exact Or.inl (Sites.push (by assumption))
  | exact Or.inl (Sites.fork (by assumption))
  | exact Sites.resolve_or (by assumption) _ _
  | exact Sites.target_or (by assumption) (by assumption) (by assumption)
  | exact Or.inr (pathOf_isSome (by k_node))
  | exact Or.inr (nodeAt_isSome (by k_node))
  | exact Or.inr (compact_isSome' _ _)
  | exact Or.inr (jv_container (by assumption))
  | exact Or.inl (by assumption)
  | fail "k_unwrap: no rule")

theorem jn_absurd {s : Core} (h : JN s) (hc : s.currentPtr.container = none) : False := by
  unfold JN Ptr.isNull at h
  rw [hc] at h; cases h

theorem jn_absurd' {s : Core} (h : JN s) (hc : s.currentPtr.isNull = true) : False := by
  unfold JN at h
  rw [hc] at h; cases h

theorem jn_of_jp {p : Ptr} {s : Core} (h : JP p s) (hp : p.isNull = false) : JN s := by
  unfold JN; rw [h]; exact hp

/-- membership of a call-stack site in `S` -/
macro "k_mem" : tactic => `(tactic| first
  | exact Sites.push (by assumption)
  | exact Sites.fork (by assumption)
  | assumption
  | fail "k_mem: no rule")

/-- a `crash` that is not reached -/
macro "k_absurd" : tactic => `(tactic| first
  | exact jn_absurd (by assumption) (by assumption)
  | exact jn_absurd' (by assumption) (by assumption)
  | (apply shuffle_pick_ne_none <;> assumption)
  | (apply listRandom_index_ne_none <;> assumption)
  | (apply popNames_absurd _ PushPop.function (by decide) <;> assumption)
  | (apply popNames_absurd _ PushPop.tunnel (by decide) <;> assumption)
  | (simp at *; done))

open Lean Elab Tactic Meta in
/-- One decomposition step of a goal `K S J J' m Q`, chosen by the head symbol of `m`. -/
elab "k_step" jpm:("jp")? topm:("top")? : tactic => withMainContext do
  let g ← getMainGoal
  let tgt := (← instantiateMVars (← g.getType)).consumeMData
  let args := tgt.getAppArgs
  unless tgt.getAppFn.isConstOf ``Ink.C04.K && args.size == 6 do
    throwError "k_step: not a K goal"
  -- S J J' α m Q
  let m0 := args[4]!
  let m := m0.consumeMData.headBeta
  if m.isLet then
    let ty := m.letType!
    let v := m.letValue!
    let b := m.letBody!
    let α := args[3]!
    let isJp ← forallTelescope ty fun xs r => do
      if xs.size == 0 then return false
      unless r.isAppOfArity ``Ink.M 1 do return false
      isDefEq r.appArg! α
    if isJp && jpm.isSome then
      -- `jp top`: the join point is entered from cores about which nothing is known
      let argsH := if topm.isSome then args.set! 1 (mkConst ``Ink.C04.Top) else args
      let mkH (f : Expr) : MetaM Expr := forallTelescope ty fun xs _ => do
        mkForallFVars xs (mkAppN tgt.getAppFn (argsH.set! 4 (mkAppN f xs).headBeta))
      let g1Ty ← mkH v
      let g2Ty ← withLocalDeclD m.letName! ty fun jp => do
        let h ← mkH jp
        mkForallFVars #[jp] (← mkArrow h (mkAppN tgt.getAppFn (args.set! 4 (b.instantiate1 jp))))
      let g1 ← mkFreshExprSyntheticOpaqueMVar g1Ty
      let g2 ← mkFreshExprSyntheticOpaqueMVar g2Ty
      g.assign (mkApp2 g2 v g1)
      let (_, g1') ← g1.mvarId!.intros
      let (_, g2') ← g2.mvarId!.introN 2
      replaceMainGoal [g1', g2']
      return
    let m' := (m.letBody!.instantiate1 m.letValue!).headBeta
    let g' ← g.change (mkAppN tgt.getAppFn (args.set! 4 m'))
    replaceMainGoal [g']
    return
  if m != m0 then
    let g' ← g.change (mkAppN tgt.getAppFn (args.set! 4 m))
    replaceMainGoal [g']
    return
  let run (t : TSyntax `tactic) : TacticM Unit := evalTactic t
  let headName (e : Expr) : Option Name := e.consumeMData.headBeta.getAppFn.constName?
  let lemmaFor (c : Name) : Name := `Ink.C04 ++ Name.mkSimple ("K_" ++ c.getString!)
  let callLemma (c : Name) : TacticM Bool := do
    let l := lemmaFor c
    if (← getEnv).contains l then
      let id := mkIdent l
      run (← `(tactic| first
        | exact $id | exact $id (by assumption) | exact $id (by k_node) | exact $id (by assumption) (by k_node)
        | exact K_post $id | exact K_post ($id (by assumption)) | exact K_post ($id (by k_node))
        | exact K_post ($id (by assumption) (by k_node))
        | fail "k_step: lemma does not apply"))
      return true
    else return false
  match headName m with
  | some ``Bind.bind =>
    let x := m.getAppArgs[4]!
    match headName x with
    | some ``Pure.pure => run (← `(tactic| refine K_bind_pure ?_))
    | some ``Ink.M.get => run (← `(tactic| (refine K_bindJ K_get ?_; intro s hs)))
    | some ``Ink.M.getSt => run (← `(tactic| (refine K_bindJ K_getSt ?_; intro st hst)))
    | some ``Ink.M.fail => run (← `(tactic| exact K_bind_fail))
    | some ``Ink.M.invalid => run (← `(tactic| exact K_bind_invalid))
    | some ``Ink.M.crash => run (← `(tactic| first | (refine K_bind_crash ?_; k_mem) | exact K_of_false (by k_absurd)))
    | some ``Ink.M.unwrap => run (← `(tactic| (refine K_bindJ (K_unwrap ?_) (fun a ha => ?_); first | k_unwrap | skip)))
    | some ``Ink.M.lift => run (← `(tactic| (refine K_bindJ (K_lift (fun site hsite => ?_)) (fun a ha => ?_); first | k_side | skip)))
    | some ``Ink.nextContent =>
      -- `next_content` needs a current pointer that is not null, and leaves any
      let nc := mkIdent `Ink.C04.K_nextContent
      run (← `(tactic| (refine K_bind (J1 := Top) (K_pre ?_ $nc) (fun _ _ => ?_)
                        · first | exact fun _ h => h | (intro s hs; exact jn_of_jp hs (by assumption)) | skip)))
    | _ => run (← `(tactic| refine K_bindJ (Q := fun _ => True) ?_ (fun _ _ => ?_)))
  | some ``Pure.pure => run (← `(tactic| first
      | exact K_pure (fun _ h => h) trivial | exact K_pure (fun _ _ => trivial) trivial
      | (refine K_pure (fun _ h => h) ?_; assumption)))
  | some ``panic => run (← `(tactic| exact K_of_false (popEvalMultiple_no_panic _ _ _ (by assumption))))
  | some ``ite => run (← `(tactic| split))
  | some ``dite => run (← `(tactic| split))
  | some ``Ink.M.get => run (← `(tactic| first | exact K_true K_get | exact K_post K_get))
  | some ``Ink.M.getSt => run (← `(tactic| first | exact K_true K_getSt | exact K_post K_getSt))
  | some ``Ink.M.set => run (← `(tactic| (refine K_set ?_ trivial; first | k_inv | skip)))
  | some ``Ink.M.setSt => run (← `(tactic| (refine K_setSt ?_ trivial; first | k_inv | skip)))
  | some ``Ink.M.modify => run (← `(tactic| (refine K_modify (fun s hs => ?_) trivial; first | k_inv | skip)))
  | some ``Ink.M.liftS => run (← `(tactic| (refine K_liftS (fun s s' hs heq => ?_) (fun s site hs hsite => ?_) trivial
                                            · first | k_inv | skip
                                            · first | k_side | skip)))
  | some ``Ink.M.lift => run (← `(tactic| first
      | (refine K_true (K_lift (fun site hsite => ?_)); first | k_side | skip)
      | (refine K_post (K_lift (fun site hsite => ?_)); first | k_side | skip)))
  | some ``Ink.M.fail => run (← `(tactic| exact K_fail))
  | some ``Ink.M.invalid => run (← `(tactic| exact K_invalid))
  | some ``Ink.M.crash => run (← `(tactic| first | (refine K_crash ?_; k_mem) | exact K_of_false (by k_absurd)))
  | some ``Ink.M.unwrap => run (← `(tactic| first
      | (refine K_true (K_unwrap ?_); first | k_unwrap | skip)
      | (refine K_post (K_unwrap ?_); first | k_unwrap | skip)))
  | some c =>
    if (← isMatcher c) then run (← `(tactic| split))
    else
      if !(← callLemma c) then
        run (← `(tactic| first | assumption | apply_assumption | exact K_post (by assumption) | (refine K_post ?_; apply_assumption)))
  | none =>
    if m.getAppFn.isFVar then
      run (← `(tactic| first | assumption | (apply_assumption) | exact K_post (by assumption) | (refine K_post ?_; apply_assumption)))
    else throwError "k_step: stuck at {m}"

/-! ### 7. The functions of `Ink/Step.lean` -/

variable {S : List String} {J : Core → Prop}

theorem K_popEvalM [PInv J] : K S J J popEvalM (fun _ => True) := by
  intro st hst
  unfold Ink.popEvalM
  split
  · rename_i o s' heq
    exact ⟨fun a st' e => (by cases e; exact ⟨PInv.stable _ _ (popEval_ptr heq) hst, trivial⟩), fun _ _ e => (by cases e)⟩
  · exact ⟨fun _ _ e => (by cases e), fun _ _ e => (by cases e)⟩
  · rename_i p heq
    exact absurd heq (popEval_no_panic _ _)

theorem K_pushEvalM [PInv J] {env : Env} {o : Obj} : K S J J (pushEvalM env o) (fun _ => True) :=
  K_liftS (fun _ _ hs h => PInv.stable _ _ (pushEval_ptr h) hs) (fun _ _ _ h => absurd h (pushEval_no_panic _ _ _ _)) trivial

theorem K_addErrorM {root : Obj} {m : String} {w : Bool} : K S Top Top (addErrorM root m w) (fun _ => True) := by
  intro st _
  unfold Ink.addErrorM
  split
  · exact ⟨fun _ _ e => (by cases e; exact ⟨trivial, trivial⟩), fun _ _ e => (by cases e)⟩
  · exact ⟨fun _ _ e => (by cases e; exact ⟨trivial, trivial⟩), fun _ _ e => (by cases e)⟩

theorem K_pointerAtPathM {env : Env} {p : Path} : K S J J (pointerAtPathM env p) (fun _ => True) :=
  K_true (K_lift (fun _ h => absurd h (pointerAtPath_no_panic _ _ _)))

theorem K_divertTargetPointer {env : Env} (hS : Sites env.root S) {a : Addr} {t : Path} :
    K S J J (divertTargetPointer env a t) (fun _ => True) :=
  K_true (K_lift (fun _ h => targetPointerOf_site hS h))

theorem K_visitContainer [PInv J] {env : Env} {a : Addr} {b : Bool} (ha : ∃ o, nodeAt env.root a = some o) :
    K S J J (visitContainer env a b) (fun _ => True) := by
  unfold Ink.visitContainer
  split
  · rename_i heq
    obtain ⟨o, ho⟩ := ha
    rw [ho] at heq; cases heq
  · repeat' k_step

theorem K_loop_aux [PInv J] {env : Env} {prev : List Addr} (fuel : Nat) :
    ∀ (child : Addr) (b : Bool), K S J J (visitChangedContainersDueToDivert.loop env prev fuel child b) (fun _ => True) := by
  induction fuel with
  | zero => intro child b; unfold visitChangedContainersDueToDivert.loop; repeat' k_step
  | succ fuel ih =>
    intro child b
    unfold visitChangedContainersDueToDivert.loop
    repeat' k_step

theorem K_loop [PInv J] {env : Env} {prev : List Addr} {fuel : Nat} {child : Addr} {b : Bool} :
    K S J J (visitChangedContainersDueToDivert.loop env prev fuel child b) (fun _ => True) := K_loop_aux fuel child b

theorem K_visitChangedContainersDueToDivert [PInv J] {env : Env} :
    K S J J (visitChangedContainersDueToDivert env) (fun _ => True) := by
  unfold Ink.visitChangedContainersDueToDivert
  repeat' k_step

theorem K_incrementContentPointer {env : Env} : K S JN Top (incrementContentPointer env) (fun _ => True) := by
  unfold Ink.incrementContentPointer
  refine K_bindJ K_get ?_
  intro s hs
  k_step
  split
  · exact K_of_false (by k_absurd)
  · refine K_pre (J := Top) (fun _ _ => trivial) ?_
    repeat' k_step

theorem K_nextSequenceShuffleIndex {env : Env} :
    K S (JV env.root) (JV env.root) (nextSequenceShuffleIndex env) (fun _ => True) := by
  unfold Ink.nextSequenceShuffleIndex
  repeat' k_step

theorem K_choosePath {env : Env} {p : Path} {b : Bool} : K S Top Top (choosePath env p b) (fun _ => True) := by
  unfold Ink.choosePath
  repeat' k_step

theorem K_tryFollowDefaultInvisibleChoice {env : Env} (hfk : "callstack.rs:fork_thread" ∈ S)
    (hth : "choices.rs:thread_at_generation" ∈ S) :
    K S Top Top (tryFollowDefaultInvisibleChoice env) (fun _ => True) := by
  unfold Ink.tryFollowDefaultInvisibleChoice
  repeat' k_step

theorem K_popArgs_aux {f : String} (k : Nat) :
    ∀ (acc : List Val), K S Top Top (callExternalFunction.popArgs f k acc) (fun _ => True) := by
  induction k with
  | zero => intro acc; unfold callExternalFunction.popArgs; repeat' k_step
  | succ k ih =>
    intro acc
    unfold callExternalFunction.popArgs
    repeat' k_step

theorem K_popArgs {f : String} {k : Nat} {acc : List Val} :
    K S Top Top (callExternalFunction.popArgs f k acc) (fun _ => True) := K_popArgs_aux k acc

theorem K_callExternalFunction {env : Env} (hS : Sites env.root S) {f : String} {k : Nat} :
    K S Top Top (callExternalFunction env f k) (fun _ => True) := by
  unfold Ink.callExternalFunction
  repeat' k_step

theorem K_popTags_aux [PInv J] (k : Nat) :
    ∀ (tags : List String), K S J J (popChoiceStringAndTags.popTags k tags) (fun _ => True) := by
  induction k with
  | zero => intro acc; unfold popChoiceStringAndTags.popTags; repeat' k_step
  | succ k ih =>
    intro acc
    unfold popChoiceStringAndTags.popTags
    repeat' k_step

theorem K_popTags [PInv J] {k : Nat} {tags : List String} :
    K S J J (popChoiceStringAndTags.popTags k tags) (fun _ => True) := K_popTags_aux k tags

theorem K_popChoiceStringAndTags [PInv J] {tags : List String} :
    K S J J (popChoiceStringAndTags tags) (fun _ => True) := by
  unfold Ink.popChoiceStringAndTags
  repeat' k_step

theorem K_processChoice [PInv J] {env : Env} (hS : Sites env.root S) {a : Addr} {flags : Int} {p : Path}
    (ha : ∃ o, nodeAt env.root a = some o) :
    K S J J (processChoice env a flags p) (fun _ => True) := by
  unfold Ink.processChoice
  repeat' k_step jp

end PtrD

section PtrE

open M

variable {S : List String} {J : Core → Prop}

theorem K_plfc_divert {env : Env} (hS : Sites env.root S) {a : Addr} {d : DivertData}
    (ha : nodeAt env.root a = some (.divert d)) :
    K S Top Top (performLogicAndFlowControl env a (.divert d)) (fun _ => True) := by
  unfold Ink.performLogicAndFlowControl
  simp only
  repeat' k_step

theorem K_plfc_native {env : Env} {a : Addr} {op : Op} :
    K S Top Top (performLogicAndFlowControl env a (.native op)) (fun _ => True) := by
  unfold Ink.performLogicAndFlowControl
  simp only
  repeat' k_step

theorem K_plfc_cmd {env : Env} {a : Addr} {c : Cmd} :
    K S (JV env.root) Top (performLogicAndFlowControl env a (.cmd c)) (fun _ => True) := by
  cases c
  case visitIndex =>
    unfold Ink.performLogicAndFlowControl
    simp only
    repeat' k_step
  case sequenceShuffleIndex =>
    unfold Ink.performLogicAndFlowControl
    simp only
    repeat' k_step
  all_goals
    refine K_pre (J := Top) (fun _ _ => trivial) ?_
    unfold Ink.performLogicAndFlowControl
    simp only
    repeat' k_step

theorem K_performLogicAndFlowControl {env : Env} (hS : Sites env.root S) {a : Addr} {o : Obj}
    (ha : nodeAt env.root a = some o) :
    K S (JV env.root) Top (performLogicAndFlowControl env a o) (fun _ => True) := by
  cases o
  case divert d => exact K_pre (fun _ _ => trivial) (K_plfc_divert hS ha)
  case cmd c => exact K_plfc_cmd
  case native op => exact K_pre (fun _ _ => trivial) K_plfc_native
  all_goals
    refine K_pre (J := Top) (fun _ _ => trivial) ?_
    unfold Ink.performLogicAndFlowControl
    simp only
    repeat' k_step

theorem jn_of_and {d : Bool} {s : Core} (h : (d && !s.currentPtr.isNull) = true) : JN s := by
  simp only [Bool.and_eq_true, Bool.not_eq_true'] at h
  exact h.2

theorem jn_set_diverted {s x : Core} (hs : JN s) (hx : x.currentPtr = s.currentPtr) (hd : (!s.divertedPtr.isNull) = true) :
    JN (x.setCurrentPtr s.divertedPtr) := by
  have hx' : x.currentPtr.isNull = false := by rw [hx]; exact hs
  unfold JN
  rw [setCurrentPtr_ptr hx']
  simpa using hd

theorem K_nextContent_aux {env : Env} (fuel : Nat) : K S JN Top (nextContent env fuel) (fun _ => True) := by
  induction fuel with
  | zero => unfold Ink.nextContent; repeat' k_step
  | succ fuel ih =>
    unfold Ink.nextContent
    k_step
    k_step
    k_step
    k_step jp
    · -- the join point: `increment_content_pointer` and what follows
      k_step
      k_step jp
      · refine K_bind (J1 := Top) K_incrementContentPointer (fun ok _ => ?_)
        split
        · k_step
          k_step
          k_step jp
          · -- the recursive call: the pointer has just been tested
            refine K_get_bind ?_
            intro s _
            split
            · rename_i hc
              refine K_pre ?_ ih
              intro s' hs'
              subst hs'
              exact jn_of_and hc
            · exact K_pure (fun _ _ => trivial) trivial
          · repeat' k_step jp
        · repeat' k_step
      · repeat' k_step
    · repeat' k_step
      exact jn_set_diverted (by assumption) rfl (by assumption)

theorem K_nextContent {env : Env} {fuel : Nat} : K S JN Top (nextContent env fuel) (fun _ => True) :=
  K_nextContent_aux fuel

end PtrE

section PtrF

open M

variable {S : List String} {J : Core → Prop}

theorem K_descend_aux [PInv J] {env : Env} (fuel : Nat) :
    ∀ (p : Ptr), K S J J (step.descend env fuel p) (fun _ => True) := by
  induction fuel with
  | zero => intro p; unfold step.descend; repeat' k_step
  | succ fuel ih =>
    intro p
    unfold step.descend
    repeat' k_step

theorem K_descend [PInv J] {env : Env} {fuel : Nat} {p : Ptr} : K S J J (step.descend env fuel p) (fun _ => True) :=
  K_descend_aux fuel p

theorem jv_of_jp {root : Obj} {p : Ptr} {a : Addr} (h : p.resolve root = some a) : ∀ s, JP p s → JV root s := by
  intro s hs
  obtain ⟨c, o, h1, h2⟩ := (resolve_nodeAt h).2
  exact ⟨c, o, by rw [hs]; exact h1, h2⟩

theorem K_step {env : Env} (hS : Sites env.root S) : K S Top Top (step env) (fun _ => True) := by
  unfold Ink.step
  refine K_get_bind ?_
  intro s _
  k_step
  split
  · exact K_pure (fun _ _ => trivial) trivial
  · rename_i hnn
    refine K_pre (J := JN) (by intro s' hs'; subst hs'; simpa [JN] using hnn) ?_
    k_step
    refine K_bindJ (Q := fun _ => True) K_descend ?_
    intro pointer _
    refine K_bind (J1 := JP pointer) (Q := fun _ => True) (K_modify (fun s hs => setCurrentPtr_ptr hs) trivial) (fun _ _ => ?_)
    k_step
    k_step
    k_step jp top
    · -- after the logic: the pointer is tested again
      refine K_get_bind ?_
      intro s _
      split
      · exact K_pure (fun _ _ => trivial) trivial
      · rename_i hnn
        have hp : s.currentPtr.isNull = false := by simpa using hnn
        refine K_pre (J := JP s.currentPtr) (by intro s' hs'; subst hs'; rfl) ?_
        generalize s.currentPtr = p at hp
        repeat' k_step jp
    · -- the logic is run on the object the pointer resolves to
      rename_i hjp
      split
      · rename_i a o h1 h2
        have ha : nodeAt env.root a = some o := by rw [h1] at h2; exact h2
        exact K_bind (J1 := Top) (K_pre (jv_of_jp h1) (K_performLogicAndFlowControl hS ha)) (fun isLogic _ => hjp isLogic)
      · exact K_bind_pure (K_pre (fun _ _ => trivial) (hjp false))

end PtrF

section PtrG

/-! ### 9. The story loader establishes `TreeOK` -/

theorem child_none_of_not_container {o : Obj} (hc : o.isContainer = false) (s : Step) : o.child s = none := by
  cases o <;> first | (cases hc; done) | (cases s <;> rfl)

theorem divertsOK_of_not_container {o : Obj} (hc : o.isContainer = false)
    (hd : ∀ d, o = .divert d → d.target.isSome = true ∨ d.varName.isSome = true) : DivertsOK o := by
  intro a d h
  cases a with
  | nil =>
    simp only [nodeAt, Option.some.injEq] at h
    exact hd d h
  | cons s rest =>
    simp only [nodeAt, child_none_of_not_container hc] at h
    cases h

theorem divertsOK_container {n : Option String} {f : Int} {content : List Obj} {named : List (String × Obj)}
    (h1 : ∀ c ∈ content, DivertsOK c) (h2 : ∀ kv ∈ named, DivertsOK kv.2) :
    DivertsOK (.container n f content named) := by
  intro a d h
  cases a with
  | nil => simp only [nodeAt, Option.some.injEq] at h; cases h
  | cons s rest =>
    simp only [nodeAt] at h
    cases s with
    | idx i =>
      simp only [Obj.child, Obj.content] at h
      cases hc : content[i]? with
      | none => rw [hc] at h; cases h
      | some c =>
        rw [hc] at h
        exact h1 c (List.mem_of_getElem? hc) rest d h
    | named k =>
      simp only [Obj.child, Obj.namedOnly] at h
      cases hc : named.find? (fun kv => kv.1 == k) with
      | none => rw [hc] at h; cases h
      | some kv =>
        rw [hc] at h
        exact h2 kv (List.mem_of_find?_eq_some hc) rest d h

theorem tokenToObj_succ_ok (fuel : Nat) (tok : Json) (name : Option String)
    (hA : ∀ xs name o, Load.arrayToContainer fuel xs name = .ok o → DivertsOK o) :
    ∀ o, Load.tokenToObj (fuel + 1) tok name = .ok o → DivertsOK o := by
  intro o h
  unfold Load.tokenToObj at h
  simp only [] at h
  repeat' split at h
  all_goals first
    | (cases h; done)
    | exact hA _ _ _ h
    | (cases h
       refine divertsOK_of_not_container rfl (fun d hd => ?_)
       cases hd
       done)
    | (cases h
       refine divertsOK_of_not_container rfl (fun d hd => ?_)
       cases hd
       first | (right; rfl) | (left; rfl))

theorem arrayToContainer_succ_ok (fuel : Nat) (xs : List Json) (name : Option String)
    (hT : ∀ kvs name flags named r, Load.termObj fuel kvs name flags named = .ok r →
      (∀ kv ∈ named, DivertsOK kv.2) → ∀ kv ∈ r.2.2, DivertsOK kv.2)
    (hL : ∀ xs os, Load.objList fuel xs = .ok os → ∀ o ∈ os, DivertsOK o) :
    ∀ o, Load.arrayToContainer (fuel + 1) xs name = .ok o → DivertsOK o := by
  intro o h
  unfold Load.arrayToContainer at h
  split at h
  · cases h
  · split at h
    · rename_i name' flags named hterm
      split at h
      · rename_i content hcont
        cases h
        exact divertsOK_container (hL _ _ hcont) (hT _ _ _ _ _ hterm (fun _ hkv => nomatch hkv))
      · cases h
      · cases h
    · cases h
    · cases h

theorem termObj_succ_ok (fuel : Nat) (kvs : List (String × Json)) (name : Option String) (flags : Int)
    (named : List (String × Obj))
    (hT : ∀ kvs name flags named r, Load.termObj fuel kvs name flags named = .ok r →
      (∀ kv ∈ named, DivertsOK kv.2) → ∀ kv ∈ r.2.2, DivertsOK kv.2)
    (hO : ∀ tok name o, Load.tokenToObj fuel tok name = .ok o → DivertsOK o) :
    ∀ r, Load.termObj (fuel + 1) kvs name flags named = .ok r →
      (∀ kv ∈ named, DivertsOK kv.2) → ∀ kv ∈ r.2.2, DivertsOK kv.2 := by
  intro r h hn
  unfold Load.termObj at h
  split at h
  · cases h
    intro kv hkv
    exact hn kv (List.mem_reverse.mp hkv)
  · rename_i k v rest
    split at h
    · split at h
      · split at h
        · exact hT _ _ _ _ _ h hn
        · cases h
      · cases h
    · split at h
      · split at h
        · exact hT _ _ _ _ _ h hn
        · cases h
      · split at h
        · rename_i o ho
          split at h
          · refine hT _ _ _ _ _ h ?_
            intro kv hkv
            rcases List.mem_cons.mp hkv with rfl | hkv
            · exact hO _ _ _ ho
            · exact hn kv hkv
          · cases h
        · cases h
        · cases h

theorem objList_succ_ok (fuel : Nat) (xs : List Json)
    (hL : ∀ xs os, Load.objList fuel xs = .ok os → ∀ o ∈ os, DivertsOK o)
    (hO : ∀ tok name o, Load.tokenToObj fuel tok name = .ok o → DivertsOK o) :
    ∀ os, Load.objList (fuel + 1) xs = .ok os → ∀ o ∈ os, DivertsOK o := by
  intro os h
  unfold Load.objList at h
  split at h
  · cases h; intro o ho; cases ho
  · split at h
    · rename_i o ho
      split at h
      · rename_i os' hos
        cases h
        intro x hx
        rcases List.mem_cons.mp hx with rfl | hx
        · exact hO _ _ _ ho
        · exact hL _ _ hos x hx
      · cases h
      · cases h
    · cases h
    · cases h

/-- The four mutually recursive loader functions build diverts with a target only (joint
    induction on the fuel). -/
theorem load_mutual_ok (fuel : Nat) :
    (∀ tok name o, Load.tokenToObj fuel tok name = .ok o → DivertsOK o)
    ∧ (∀ xs name o, Load.arrayToContainer fuel xs name = .ok o → DivertsOK o)
    ∧ (∀ kvs name flags named r, Load.termObj fuel kvs name flags named = .ok r →
        (∀ kv ∈ named, DivertsOK kv.2) → ∀ kv ∈ r.2.2, DivertsOK kv.2)
    ∧ (∀ xs os, Load.objList fuel xs = .ok os → ∀ o ∈ os, DivertsOK o) := by
  induction fuel with
  | zero =>
    refine ⟨?_, ?_, ?_, ?_⟩
    · intro tok name o h; unfold Load.tokenToObj at h; cases h
    · intro xs name o h; unfold Load.arrayToContainer at h; cases h
    · intro kvs name flags named r h; unfold Load.termObj at h; cases h
    · intro xs os h; unfold Load.objList at h; cases h
  | succ fuel ih =>
    obtain ⟨hO, hA, hT, hL⟩ := ih
    exact ⟨fun tok name => tokenToObj_succ_ok fuel tok name hA,
           fun xs name => arrayToContainer_succ_ok fuel xs name hT hL,
           fun kvs name flags named => termObj_succ_ok fuel kvs name flags named hT hO,
           fun xs => objList_succ_ok fuel xs hL hO⟩

/-- **load_treeOK.**  The tree of a loaded story: its root is a container, and every divert
    has a target path or a variable target. -/
theorem load_treeOK (fuel : Nat) (doc : Option Json) (ld : Load.Loaded)
    (h : Load.loadStory fuel doc = .ok ld) : TreeOK ld.root := by
  unfold Load.loadStory at h
  repeat' split at h
  all_goals first
    | (cases h; done)
    | (rename_i o ho hc
       cases h
       exact ⟨hc, (load_mutual_ok fuel).1 _ _ _ ho⟩)

end PtrG

section PtrH

open M Story

/-! ### 10. The sites of a step -/

theorem NP_of_K {S : List String} {α : Type} {m : M α} {Q : α → Prop} (h : K S Top Top m Q) : NP S m :=
  fun st site st' hp => (h st trivial).2 site st' hp

/-- the step, for any state and any tree (`NP_step` with four sites instead of eight) -/
theorem NP_step_any {env : Env} : NP stepSitesAny (step env) := NP_of_K (K_step (sites_any env.root))

/-- the step in a tree with `TreeOK`, for any state -/
theorem NP_step_tree {env : Env} (hT : TreeOK env.root) : NP stepSitesTree (step env) := NP_of_K (K_step (sites_tree hT))

/-- **step_panic_sites_any.**  For ANY state and ANY tree, the step can end in `panic` with
    four sites only: the two call-stack sites (excluded by `StWF`) and the two tree sites
    (excluded by `TreeOK`). -/
theorem step_panic_sites_any (env : Env) (st : St) (site : String) (st' : St)
    (h : step env st = (.panic site, st')) :
    site ∈ ["callstack.rs:push", "callstack.rs:fork_thread", "object.rs:resolve_path",
            "divert.rs:get_target_path_string"] :=
  NP_step_any st site st' h

theorem step_panic_sites_tree (env : Env) (st : St) (hT : TreeOK env.root) (site : String) (st' : St)
    (h : step env st = (.panic site, st')) : site ∈ ["callstack.rs:push", "callstack.rs:fork_thread"] :=
  NP_step_tree hT st site st' h

/-- What remains of `stepSitesWF` under `TreeOK`: nothing. -/
def stepSitesPtr : List String := []

/-- **step_panic_sites_ptr.**  From a state with the call-stack invariant, in a tree whose root
    is a container and whose diverts have targets, one interpreter step does not panic.
    (No invariant on the pointers of the state is needed.) -/
theorem step_panic_sites_ptr (env : Env) (st : St) (h : StWF st) (hT : TreeOK env.root) (site : String) (st' : St)
    (hp : step env st = (.panic site, st')) : site ∈ stepSitesPtr := by
  have h1 := step_panic_sites_tree env st hT site st' hp
  have h2 : site ∉ badSites := T_no_bad T_step hp h
  simp only [List.mem_cons, List.not_mem_nil, or_false] at h1
  rcases h1 with rfl | rfl <;> exact absurd (by decide) h2

theorem step_never_panics (env : Env) (st : St) (h : StWF st) (hT : TreeOK env.root) (site : String) (st' : St) :
    step env st ≠ (.panic site, st') :=
  fun hp => nomatch step_panic_sites_ptr env st h hT site st' hp

/-! #### one theorem per site -/

/-- `increment_content_pointer` is reached with a pointer that was just tested (any state, any tree). -/
theorem no_panic_increment_content_pointer (env : Env) (st st' : St) :
    step env st ≠ (.panic "progress.rs:increment_content_pointer", st') :=
  fun h => absurd (step_panic_sites_any env st _ st' h) (by decide)

/-- the shuffle command is run on the object the current pointer resolves to (any state, any tree) -/
theorem no_panic_shuffle_container (env : Env) (st st' : St) :
    step env st ≠ (.panic "story/mod.rs:shuffle_container", st') :=
  fun h => absurd (step_panic_sites_any env st _ st' h) (by decide)

theorem no_panic_visit_index_container (env : Env) (st st' : St) :
    step env st ≠ (.panic "control_logic.rs:visit_index_container", st') :=
  fun h => absurd (step_panic_sites_any env st _ st' h) (by decide)

/-- `Object::get_path` is only asked for objects that were reached in the tree of the step
    (the object the pointer resolves to, its container, the result of a path search): any
    state, any tree — also for states that point into another tree. -/
theorem no_panic_get_path (env : Env) (st st' : St) :
    step env st ≠ (.panic "object.rs:get_path", st') :=
  fun h => absurd (step_panic_sites_any env st _ st' h) (by decide)

/-- `Object::resolve_path` needs a parent for objects that are not containers: the root is one. -/
theorem no_panic_resolve_path (env : Env) (st st' : St) (hr : env.root.isContainer = true) :
    step env st ≠ (.panic "object.rs:resolve_path", st') := by
  have hS : Sites env.root ["callstack.rs:push", "callstack.rs:fork_thread", "divert.rs:get_target_path_string"] :=
    ⟨by decide, by decide, Or.inr hr, Or.inl (by decide)⟩
  exact fun h => absurd (NP_of_K (K_step hS) st _ st' h) (by decide)

theorem no_panic_get_target_path_string (env : Env) (st st' : St) (hd : DivertsOK env.root) :
    step env st ≠ (.panic "divert.rs:get_target_path_string", st') := by
  have hS : Sites env.root ["callstack.rs:push", "callstack.rs:fork_thread", "object.rs:resolve_path"] :=
    ⟨by decide, by decide, Or.inl (by decide), Or.inr hd⟩
  exact fun h => absurd (NP_of_K (K_step hS) st _ st' h) (by decide)

/-! ### 11. `continue_single_step` -/

theorem runM_root {α : Type} (st : Story) (m : M α) : (st.runM m).2.root = st.root := rfl

/-- `try_follow_default_invisible_choice`, for any state and any tree -/
theorem NP_tryFollow_any {env : Env} :
    NP ["callstack.rs:fork_thread", "choices.rs:thread_at_generation"] (tryFollowDefaultInvisibleChoice env) :=
  NP_of_K (K_tryFollowDefaultInvisibleChoice (by decide) (by decide))

/-- **continueSingleStep_panic_sites_tree.**  `continue_single_step` of ANY story whose tree has
    `TreeOK`: the three call-stack sites of `Proofs/C04Inv.lean` are all that is left. -/
theorem continueSingleStep_panic_sites_tree (st : Story) (hT : TreeOK st.root) (site : String) (st1 : Story)
    (h : st.continueSingleStep = (.panic site, st1)) : site ∈ badSites := by
  unfold Story.continueSingleStep at h
  split at h
  · cases h
  · rename_i p st1' heq
    simp only [Prod.mk.injEq, Out.panic.injEq] at h
    obtain ⟨rfl, _⟩ := h
    obtain ⟨st', hst'⟩ := runM_panic _ _ _ _ heq
    have := NP_step_tree (env := st.env) hT _ _ _ hst'
    simp only [stepSitesTree, List.mem_cons, List.not_mem_nil, or_false] at this
    rcases this with rfl | rfl <;> decide
  · simp only at h
    split at h
    · cases h
    · rename_i p st2' heq2
      simp only [Prod.mk.injEq, Out.panic.injEq] at h
      obtain ⟨rfl, _⟩ := h
      split at heq2
      · obtain ⟨st', hst'⟩ := runM_panic _ _ _ _ heq2
        have := NP_tryFollow_any _ _ _ hst'
        simp only [List.mem_cons, List.not_mem_nil, or_false] at this
        rcases this with rfl | rfl <;> decide
      · cases heq2
    · exfalso
      split at h
      · cases h
      · split at h
        · cases h
        · split at h
          · split at h <;> cases h
          · cases h

/-- `continue_single_step` of a well-formed story over a tree with `TreeOK` does not panic. -/
theorem continueSingleStep_never_panics (st : Story) (hwf : StoryWF st) (hT : TreeOK st.root) (site : String)
    (st1 : Story) : st.continueSingleStep ≠ (.panic site, st1) :=
  fun h => continueSingleStep_no_bad st hwf site st1 h (continueSingleStep_panic_sites_tree st hT site st1 h)

/-- **reachable_step_panic_sites.**  In a story reached through the public operations
    (`Reachable` of `Proofs/C04Inv.lean`) whose tree has the two invariants of the loader
    (`load_treeOK`), `continue_single_step` ends in `panic site` only for `site ∈ stepSitesPtr`,
    that is: never. -/
theorem reachable_step_panic_sites (st : Story) (h : Reachable st) (hT : TreeOK st.root) (site : String)
    (st' : Story) (hp : st.continueSingleStep = (.panic site, st')) : site ∈ stepSitesPtr :=
  absurd hp (continueSingleStep_never_panics st (reachable_wf h) hT site st')

end PtrH

section PtrI

open M Story

/-! ### 12. Non-vacuity -/

/-- executable form of `DivertsOK` -/
def divertsOKB : Nat → Obj → Bool
  | 0, _ => false
  | fuel + 1, o =>
    match o with
    | .divert d => d.target.isSome || d.varName.isSome
    | .container _ _ content named => content.all (divertsOKB fuel) && named.all (fun kv => divertsOKB fuel kv.2)
    | _ => true

theorem divertsOKB_sound : ∀ (fuel : Nat) (o : Obj), divertsOKB fuel o = true → DivertsOK o := by
  intro fuel
  induction fuel with
  | zero => intro o h; cases h
  | succ fuel ih =>
    intro o h
    cases o with
    | divert d =>
      refine divertsOK_of_not_container rfl (fun d' hd => ?_)
      cases hd
      simpa [divertsOKB] using h
    | container n f content named =>
      simp only [divertsOKB, Bool.and_eq_true, List.all_eq_true] at h
      exact divertsOK_container (fun c hc => ih c (h.1 c hc)) (fun kv hkv => ih kv.2 (h.2 kv hkv))
    | _ => exact divertsOK_of_not_container rfl (fun d hd => nomatch hd)

def treeOKB (fuel : Nat) (o : Obj) : Bool := o.isContainer && divertsOKB fuel o

theorem treeOKB_sound (fuel : Nat) (o : Obj) (h : treeOKB fuel o = true) : TreeOK o := by
  simp only [treeOKB, Bool.and_eq_true] at h
  exact ⟨h.1, divertsOKB_sound fuel o h.2⟩

-- the trees of the example stories
theorem exRoot_treeOK : TreeOK C02.exRoot := treeOKB_sound 10 _ (by decide)
theorem frameRoot_treeOK : TreeOK C10.frameRoot := treeOKB_sound 10 _ (by decide)

-- a story in the middle of a game, and a fresh one: the step does not panic
example (site : String) (st' : St) : step C02.exStory.env (stOf C02.exStory) ≠ (.panic site, st') :=
  step_never_panics _ _ (stWF_of_story exStory_wf) exRoot_treeOK site st'

example (site : String) (st' : Story) : C10.frameStory.continueSingleStep ≠ (.panic site, st') :=
  continueSingleStep_never_panics _ frameStory_wf frameRoot_treeOK site st'

/-- a document with a conditional divert, a tunnel and a variable divert -/
def exDoc : Json :=
  .obj [("inkVersion", .num 21),
        ("root", .arr [.str "^hi", .obj [("->", .str "0.0"), ("c", .bool true)], .obj [("->t->", .str "k")],
                       .obj [("->", .str "x"), ("var", .bool true)], .str "done",
                       .obj [("k", .arr [.str "^k", .str "->->", .null])]]),
        ("listDefs", .obj [])]

-- the loader accepts it, so its tree has `TreeOK` …
theorem isOk_elim {α : Type} {x : Out α} (h : x.isOk = true) : ∃ a, x = .ok a := by
  cases x with
  | ok a => exact ⟨a, rfl⟩
  | err k m => cases h
  | panic p => cases h

example : ∃ ld, Load.loadStory 100 (some exDoc) = .ok ld ∧ TreeOK ld.root := by
  obtain ⟨ld, hl⟩ := isOk_elim (x := Load.loadStory 100 (some exDoc)) (by decide +kernel)
  exact ⟨ld, hl, load_treeOK 100 _ ld hl⟩

-- … and every story reached from it keeps the call-stack invariant: no step of it panics
example (ld : Load.Loaded) (h : Load.loadStory 100 (some exDoc) = .ok ld) (seed : Int) (st : Story)
    (hc : Story.create ld seed = .ok st) (hroot : st.root = ld.root) (site : String) (st' : Story) :
    st.continueSingleStep ≠ (.panic site, st') :=
  continueSingleStep_never_panics st (reachable_wf (.create ld seed st hc)) (hroot ▸ load_treeOK 100 _ ld h) site st'

/-! #### the hypotheses are needed -/

-- `TreeOK`, second part: the story of `Proofs/C04.lean` whose first instruction is an external
-- divert without target
example : ¬ TreeOK exBadDivertRoot := by
  intro h
  rcases h.diverts [.idx 0] _ rfl with h1 | h1 <;> cases h1

example : StoryWF exBadDivert := ⟨stateWF_fresh 0, fun sn h => by cases h⟩

example : ∃ st1, exBadDivert.continueSingleStep = (.panic "divert.rs:get_target_path_string", st1) := ⟨_, rfl⟩

/-- `TreeOK`, first part: a "tree" that is a single read-count reference with a relative path
    (no loader builds it: the root of a loaded story is a container). -/
def exLeafRoot : Obj := .varRef "" (some { comps := [.idx 0], rel := true })
def exLeafStory : Story := { exStory with root := exLeafRoot }

example : ¬ TreeOK exLeafRoot := fun h => nomatch h.rootContainer
example : DivertsOK exLeafRoot := divertsOKB_sound 3 _ (by decide)
example : StoryWF exLeafStory := ⟨stateWF_fresh 0, fun sn h => by cases h⟩
example : ∃ st1, exLeafStory.continueSingleStep = (.panic "object.rs:resolve_path", st1) := ⟨_, rfl⟩

/-! #### … and no hypothesis on the pointers of the state -/

/-- A state whose current pointer addresses no node of the tree (it points into another tree). -/
def exStrayStory : Story :=
  { C10.frameStory with
    state := { (StoryState.fresh 0) with
      core := (Core.fresh 0).setCurrentPtr { container := some [.idx 7, .named "nowhere"], index := 3 } } }

example : nodeAt exStrayStory.root [.idx 7, .named "nowhere"] = none := rfl
example : pathOf exStrayStory.root [.idx 7, .named "nowhere"] = none := rfl
-- `Object::get_path` is never asked for it: the step is a story error
example : ∃ st1, exStrayStory.continueSingleStep
    = (.err "InvalidStoryState" "The current content pointer does not address any content.", st1) := ⟨_, rfl⟩

end PtrI

section PtrJ

open M Story Save

/-! ### 13. The public operations keep the tree -/

/-- `b` has the tree of `a`. -/
def SameRoot (a b : Story) : Prop := b.root = a.root

theorem SameRoot.refl (a : Story) : SameRoot a a := rfl
theorem SameRoot.trans {a b c : Story} (h1 : SameRoot a b) (h2 : SameRoot b c) : SameRoot a c := Eq.trans h2 h1

theorem SameRoot.root_eq {a b : Story} {r : Obj} (h : SameRoot a b) (ha : a.root = r) : b.root = r := Eq.trans h ha

theorem runM_sameRoot {α : Type} (st : Story) (m : M α) : SameRoot st (st.runM m).2 := rfl

theorem restoreSnapshot_sameRoot (st : Story) : SameRoot st st.restoreSnapshot := by
  unfold Story.restoreSnapshot
  split <;> rfl

theorem discardSnapshot_sameRoot (st : Story) : SameRoot st st.discardSnapshot := rfl

theorem stateSnapshot_sameRoot (st : Story) : SameRoot st st.stateSnapshot := rfl

theorem addError_sameRoot (st : Story) (m : String) (w : Bool) : SameRoot st (st.addError m w) := by
  unfold Story.addError
  split <;> rfl

theorem continueSingleStep_sameRoot (st : Story) : SameRoot st (st.continueSingleStep).2 := by
  unfold Story.continueSingleStep
  have h1 := runM_sameRoot st (step st.env)
  have hdef : ∀ s : Story, SameRoot s (s.runM (tryFollowDefaultInvisibleChoice s.env)).2 :=
    fun s => runM_sameRoot s _
  split
  · rename_i heq; rw [heq] at h1; exact h1
  · rename_i heq; rw [heq] at h1; exact h1
  · rename_i st1 heq
    have h1' : SameRoot st st1 := by rw [heq] at h1; exact h1
    simp only
    split
    · rename_i k m st2 heq2
      split at heq2
      · have := hdef st1
        rw [heq2] at this; exact h1'.trans this
      · cases heq2
    · rename_i p st2 heq2
      split at heq2
      · have := hdef st1
        rw [heq2] at this; exact h1'.trans this
      · cases heq2
    · rename_i st2 heq2
      have h2 : SameRoot st st2 := by
        split at heq2
        · have := hdef st1
          rw [heq2] at this; exact h1'.trans this
        · cases heq2; exact h1'
      split
      · exact h2
      · split
        · rename_i hnone
          exact h2.trans (restoreSnapshot_sameRoot st2)
        · rename_i st3 hsome
          have h3 : SameRoot st st3 := by
            split at hsome
            · split at hsome
              · cases hsome
              · split at hsome
                · cases hsome; exact h2.trans (discardSnapshot_sameRoot st2)
                · cases hsome; exact h2
            · cases hsome; exact h2
          split
          · split
            · split
              · exact h3.trans (stateSnapshot_sameRoot st3)
              · exact h3
            · exact h3.trans (discardSnapshot_sameRoot st3)
          · exact h3

theorem stepLoop_sameRoot (b : Option Nat) (fuel steps : Nat) (st : Story) : SameRoot st (stepLoop b fuel steps st).2 := by
  induction fuel generalizing steps st with
  | zero => unfold stepLoop; exact SameRoot.refl st
  | succ fuel ih =>
    unfold stepLoop
    simp only
    have hf : SameRoot st { st with fuel := st.fuel.map (· - 1) } := rfl
    have hcs := hf.trans (continueSingleStep_sameRoot { st with fuel := st.fuel.map (· - 1) })
    split
    · exact addError_sameRoot st _ _
    · split
      · rename_i p st1 heq
        rw [heq] at hcs; exact hcs
      · rename_i k m st1 heq
        rw [heq] at hcs; exact hcs.trans (addError_sameRoot st1 _ _)
      · rename_i st1 heq
        rw [heq] at hcs; exact hcs
      · rename_i st1 heq
        rw [heq] at hcs
        cases b with
        | none =>
          simp only [Bool.false_eq_true, if_false]
          split
          · exact hcs
          · exact hcs.trans (ih _ _)
        | some n =>
          simp only
          split
          · exact hcs
          · split
            · exact hcs
            · exact hcs.trans (ih _ _)

theorem beginContinue_sameRoot (st : Story) (b : Bool) : SameRoot st (st.beginContinue b) := by
  unfold Story.beginContinue
  simp only
  repeat' split
  all_goals rfl

theorem endChecks_sameRoot (st : Story) : SameRoot st st.endChecks := by
  unfold Story.endChecks
  simp only
  have key : ∀ (s : Story) (m : String), SameRoot s (s.addError m false) := fun s m => addError_sameRoot s m false
  split
  · split
    · split
      · exact (key _ _).trans (key _ _)
      · split
        · exact (key _ _).trans (key _ _)
        · split
          · exact (key _ _).trans (key _ _)
          · exact (key _ _).trans (key _ _)
    · exact key _ _
  · split
    · split
      · exact key _ _
      · split
        · exact key _ _
        · split
          · exact key _ _
          · exact key _ _
    · exact SameRoot.refl _

theorem prepareFinish_sameRoot (st : Story) : SameRoot st st.prepareFinish := by
  unfold Story.prepareFinish
  simp only
  have h2 : SameRoot st (if st.snapshot.isSome then st.restoreSnapshot else st) := by
    split
    · exact restoreSnapshot_sameRoot st
    · exact SameRoot.refl _
  have h3 : ∀ s : Story, SameRoot s (if !s.canContinue then s.endChecks else s) := by
    intro s
    split
    · exact endChecks_sameRoot s
    · exact SameRoot.refl _
  exact (h2.trans (h3 _)).trans rfl

theorem closeObservation_sameRoot (st st' : Story) (changed : List (String × Val))
    (h : st.closeObservation = some (st', changed)) : SameRoot st st' := by
  unfold Story.closeObservation at h
  split at h
  · simp only at h
    split at h
    · simp only [Option.some.injEq, Prod.mk.injEq] at h
      rw [← h.1]
      rfl
    · cases h
  · simp only [Option.some.injEq, Prod.mk.injEq] at h
    rw [← h.1]
    exact SameRoot.refl _

theorem finishContinue_sameRoot (st st' : Story) (changed : List (String × Val))
    (h : st.finishContinue = some (st', changed)) : SameRoot st st' :=
  (prepareFinish_sameRoot st).trans (closeObservation_sameRoot _ _ _ h)

theorem deliver_sameRoot (st : Story) : SameRoot st st.deliver.2 := by
  unfold Story.deliver
  split
  · split
    · rfl
    · split
      · exact SameRoot.refl _
      · exact SameRoot.refl _
  · exact SameRoot.refl _

theorem notify_sameRoot (st : Story) (changed : List (String × Val)) : SameRoot st (st.notify changed) := rfl

theorem continueInternal_sameRoot (st : Story) (b : Option Nat) (f : Nat) : SameRoot st (st.continueInternal b f).2 := by
  unfold Story.continueInternal
  split
  · exact SameRoot.refl _
  · simp only
    have h0 := beginContinue_sameRoot st b.isSome
    have hl := stepLoop_sameRoot (if (st.beginContinue b.isSome).asyncActive then b else none) f 0
      (st.beginContinue b.isSome)
    split
    · rename_i heq; rw [heq] at hl; exact h0.trans hl
    · rename_i heq; rw [heq] at hl; exact h0.trans hl
    · rename_i heq; rw [heq] at hl; exact h0.trans hl
    · rename_i why st1 _ heq
      rw [heq] at hl
      have h1 := h0.trans hl
      split
      · exact h1
      · rename_i st5 changed hfin
        have h5 : SameRoot st1 st5 := by
          split at hfin
          · exact finishContinue_sameRoot _ _ _ hfin
          · cases hfin; exact SameRoot.refl _
        have h6 : SameRoot st5 { st5 with recCount := st5.recCount - 1 } := rfl
        have h7 := deliver_sameRoot { st5 with recCount := st5.recCount - 1 }
        have h17 := ((h1.trans h5).trans h6).trans h7
        split
        · rename_i st7 hd
          rw [hd] at h17
          exact h17.trans (notify_sameRoot _ _)
        · exact h17

theorem validateExternalBindings_sameRoot (st : Story) : SameRoot st st.validateExternalBindings.2 := by
  unfold Story.validateExternalBindings
  simp only
  split
  · exact SameRoot.refl _
  · split
    · rfl
    · exact SameRoot.refl _

theorem continueAsync_sameRoot (st : Story) (b : Option Nat) : SameRoot st (st.continueAsync b).2 := by
  unfold Story.continueAsync
  have hv : SameRoot st (if !st.validated then st.validateExternalBindings else (.ok (), st)).2 := by
    split
    · exact validateExternalBindings_sameRoot st
    · exact SameRoot.refl _
  generalize (if !st.validated then st.validateExternalBindings else (Out.ok (), st)) = p at hv ⊢
  obtain ⟨v, st1⟩ := p
  simp only at hv ⊢
  split
  · exact hv.trans (continueInternal_sameRoot st1 b callFuel)
  · exact hv

theorem cont_sameRoot (st : Story) : SameRoot st st.cont.2 := by
  unfold Story.cont
  have h := continueAsync_sameRoot st none
  split <;> (rename_i heq; rw [heq] at h; exact h)

theorem continueMaximally_loop_sameRoot (fuel : Nat) (st : Story) (acc : String) :
    SameRoot st (continueMaximally.loop fuel st acc).2 := by
  induction fuel generalizing st acc with
  | zero => unfold continueMaximally.loop; exact SameRoot.refl _
  | succ fuel ih =>
    unfold continueMaximally.loop
    split
    · have h := cont_sameRoot st
      split
      · rename_i t st1 heq
        rw [heq] at h
        exact h.trans (ih _ _)
      · exact h
    · exact SameRoot.refl _

theorem continueMaximally_sameRoot (st : Story) : SameRoot st st.continueMaximally.2 := by
  unfold Story.continueMaximally
  split
  · exact SameRoot.refl _
  · exact SameRoot.refl _
  · exact continueMaximally_loop_sameRoot _ _ _

theorem currentChoices_sameRoot (st : Story) : SameRoot st st.currentChoices.2 := by
  unfold Story.currentChoices
  split
  · exact SameRoot.refl _
  · rfl

theorem setCurrentThread_sameRoot (st : Story) (th : Thread) :
    SameRoot st (st.mapCore (fun c => c.mapCallstack (fun cs => cs.setCurrentThread th))) := rfl

theorem chooseChoiceIndex_sameRoot (st : Story) (i : Nat) : SameRoot st (st.chooseChoiceIndex i).2 := by
  unfold Story.chooseChoiceIndex
  split
  · exact SameRoot.refl _
  · exact SameRoot.refl _
  · have hc := currentChoices_sameRoot st
    generalize st.currentChoices = p at hc ⊢
    obtain ⟨choices, st1⟩ := p
    simp only at hc ⊢
    split
    · exact hc
    · split
      · exact hc
      · exact hc.trans ((setCurrentThread_sameRoot st1 _).trans (runM_sameRoot _ _))

theorem passArguments_sameRoot (st : Story) (args : List Val) : SameRoot st (st.passArguments args).2 := by
  unfold Story.passArguments
  exact runM_sameRoot _ _

theorem forceEnd_sameRoot (st : Story) : SameRoot st (st.mapCore Core.forceEnd) := rfl

theorem choosePathString_sameRoot (st : Story) (path : String) (reset : Bool) (args : List (Option Val)) :
    SameRoot st (st.choosePathString path reset args).2 := by
  unfold Story.choosePathString
  split
  · exact SameRoot.refl _
  · exact SameRoot.refl _
  · split
    · exact SameRoot.refl _
    · exact SameRoot.refl _
    · simp only
      split
      · exact SameRoot.refl _
      · exact SameRoot.refl _
      · rename_i argv _ _ _ _
        have hpre : SameRoot st
            (if reset then ((.ok () : Out Unit), st.mapCore Core.forceEnd)
             else match st.core.callstack.currentElement with
              | some e =>
                if e.kind == .function then
                  (.invalid ("Story was running a function when you called ChoosePathString(" ++ path
                    ++ ") - this is almost certainly not what you want!"), st)
                else (.ok (), st)
              | none => (.panic "callstack.rs:get_current_element", st)).2 := by
          split
          · exact forceEnd_sameRoot st
          · split
            · split
              · exact SameRoot.refl _
              · exact SameRoot.refl _
            · exact SameRoot.refl _
        generalize (if reset then ((.ok () : Out Unit), st.mapCore Core.forceEnd)
             else match st.core.callstack.currentElement with
              | some e =>
                if e.kind == .function then
                  (.invalid ("Story was running a function when you called ChoosePathString(" ++ path
                    ++ ") - this is almost certainly not what you want!"), st)
                else (.ok (), st)
              | none => (.panic "callstack.rs:get_current_element", st)) = p at hpre ⊢
        obtain ⟨v, st1⟩ := p
        simp only at hpre ⊢
        split
        · rename_i st1' heq1
          cases heq1
          have h2 := passArguments_sameRoot st1 argv
          split
          · rename_i st2 heq
            rw [heq] at h2
            exact (hpre.trans h2).trans (runM_sameRoot _ _)
          · exact hpre.trans h2
        · exact hpre

theorem switchFlow_sameRoot (st : Story) (name : String) : SameRoot st (st.switchFlow name).2 := by
  unfold Story.switchFlow
  split
  · rfl
  · exact SameRoot.refl _
  · exact SameRoot.refl _

theorem switchToDefaultFlow_sameRoot (st : Story) : SameRoot st st.switchToDefaultFlow := by
  unfold Story.switchToDefaultFlow
  split
  · exact SameRoot.refl _
  · rfl

theorem removeFlow_sameRoot (st : Story) (name : String) : SameRoot st (st.removeFlow name).2 := by
  unfold Story.removeFlow
  split
  · exact SameRoot.refl _
  · exact SameRoot.refl _
  · split
    · exact SameRoot.refl _
    · rfl

theorem mapCore_sameRoot (st : Story) (f : Core → Core) : SameRoot st (st.mapCore f) := rfl

theorem resetGlobals_sameRoot (st : Story) : SameRoot st st.resetGlobals.2 := by
  unfold Story.resetGlobals
  have hr : SameRoot st (if (st.root.lookupName "global decl").isSome then
      (match st.runM (choosePath st.env (Path.parse "global decl".toList) false) with
      | (.ok (), st1) =>
        (match st1.continueInternal none callFuel with
        | (.ok (), st2) => ((.ok () : Out Unit), st2.mapCore (fun c => c.setCurrentPtr st.core.currentPtr))
        | other => other)
      | other => other)
    else (.ok (), st)).2 := by
    split
    · have h1 := runM_sameRoot st (choosePath st.env (Path.parse "global decl".toList) false)
      split
      · rename_i st1 heq
        rw [heq] at h1
        have h2 := continueInternal_sameRoot st1 none callFuel
        split
        · rename_i st2 heq2
          rw [heq2] at h2
          exact (h1.trans h2).trans (mapCore_sameRoot _ _)
        · exact h1.trans h2
      · exact h1
    · exact SameRoot.refl _
  simp only
  generalize (if (st.root.lookupName "global decl").isSome then
      (match st.runM (choosePath st.env (Path.parse "global decl".toList) false) with
      | (.ok (), st1) =>
        (match st1.continueInternal none callFuel with
        | (.ok (), st2) => ((.ok () : Out Unit), st2.mapCore (fun c => c.setCurrentPtr st.core.currentPtr))
        | other => other)
      | other => other)
    else (.ok (), st)) = p at hr ⊢
  obtain ⟨v, st1⟩ := p
  simp only at hr ⊢
  split
  · rename_i st1' heq
    cases heq
    exact hr.trans (mapCore_sameRoot _ _)
  · exact hr

theorem resetState_sameRoot (st : Story) (seed : Int) : SameRoot st (st.resetState seed).2 := by
  unfold Story.resetState
  split
  · exact SameRoot.refl _
  · exact SameRoot.refl _
  · have h0 : SameRoot st { st with state := StoryState.fresh seed } := rfl
    exact h0.trans (resetGlobals_sameRoot _)

theorem evalLoop_sameRoot (fuel : Nat) (st : Story) (acc : String) : SameRoot st (evalLoop fuel st acc).2 := by
  induction fuel generalizing st acc with
  | zero => unfold evalLoop; exact SameRoot.refl _
  | succ fuel ih =>
    unfold evalLoop
    split
    · have h := cont_sameRoot st
      split
      · rename_i t st1 heq
        rw [heq] at h
        exact h.trans (ih _ _)
      · exact h
    · exact SameRoot.refl _

theorem setCore_sameRoot (st : Story) (c : Core) : SameRoot st (st.setCore c) := rfl

theorem completeFunctionEvaluation_sameRoot (st : Story) (ob : List Obj) (pb : Ptr) (text : String) :
    SameRoot st (st.completeFunctionEvaluation ob pb text).2 := by
  unfold Story.completeFunctionEvaluation
  simp only
  split
  · exact SameRoot.refl _
  · split
    · exact setCore_sameRoot _ _
    · split
      · exact setCore_sameRoot _ _
      · exact setCore_sameRoot _ _
      · exact setCore_sameRoot _ _

theorem evaluateFunction_sameRoot (st : Story) (name : String) (args : List (Option Val)) :
    SameRoot st (st.evaluateFunction name args).2 := by
  unfold Story.evaluateFunction
  split
  · exact SameRoot.refl _
  · exact SameRoot.refl _
  · split
    · exact SameRoot.refl _
    · split
      · exact SameRoot.refl _
      · split
        · exact SameRoot.refl _
        · exact SameRoot.refl _
        · rename_i _ stp _ _ argv _
          simp only
          split
          · exact SameRoot.refl _
          · rename_i cs hpush
            have h1 : SameRoot st (st.setCore (((st.core.resetOutput none).setCallstack cs).setCurrentPtr
                (Ptr.startOf [stp]))) :=
              setCore_sameRoot _ _
            have h2 := h1.trans (passArguments_sameRoot _ argv)
            split
            · rename_i heq; rw [heq] at h2; exact h2
            · rename_i heq; rw [heq] at h2; exact h2
            · rename_i st2 heq
              rw [heq] at h2
              have h3 := h2.trans (evalLoop_sameRoot 100000 st2 "")
              split
              · rename_i heq3; rw [heq3] at h3; exact h3
              · rename_i heq3; rw [heq3] at h3; exact h3
              · rename_i text st3 heq3
                rw [heq3] at h3
                exact h3.trans (completeFunctionEvaluation_sameRoot _ _ _ _)

theorem setVariable_sameRoot (st : Story) (name : String) (v : Val) : SameRoot st (st.setVariable name v).2 := by
  unfold Story.setVariable
  split
  · exact SameRoot.refl _
  · exact SameRoot.refl _
  · split
    · exact SameRoot.refl _
    · simp only
      split
      · rfl
      · rfl

theorem observeVariable_sameRoot (st : Story) (name id : String) : SameRoot st (st.observeVariable name id).2 := by
  unfold Story.observeVariable
  split
  · exact SameRoot.refl _
  · exact SameRoot.refl _
  · split
    · exact SameRoot.refl _
    · rfl

theorem removeVariableObserver_sameRoot (st : Story) (id : String) (name : Option String) :
    SameRoot st (st.removeVariableObserver id name).2 := by
  unfold Story.removeVariableObserver
  split
  · exact SameRoot.refl _
  · exact SameRoot.refl _
  · rfl

theorem bindExternal_sameRoot (st : Story) (name : String) (d : ExtDef) : SameRoot st (st.bindExternal name d).2 := by
  unfold Story.bindExternal
  split
  · exact SameRoot.refl _
  · exact SameRoot.refl _
  · split
    · exact SameRoot.refl _
    · rfl

theorem unbindExternal_sameRoot (st : Story) (name : String) : SameRoot st (st.unbindExternal name).2 := by
  unfold Story.unbindExternal
  split
  · exact SameRoot.refl _
  · exact SameRoot.refl _
  · split
    · exact SameRoot.refl _
    · rfl

theorem loadState_sameRoot (st : Story) (doc : Option Json) : SameRoot st (loadState st doc).2 := by
  unfold loadState
  split
  · exact SameRoot.refl _
  · exact SameRoot.refl _
  · split
    · exact SameRoot.refl _
    · split
      rfl

theorem create_root (ld : Load.Loaded) (seed : Int) (st : Story) (h : Story.create ld seed = .ok st) :
    st.root = ld.root := by
  unfold Story.create at h
  simp only at h
  have h1 := resetGlobals_sameRoot (newBlank ld seed)
  split at h
  · rename_i st1 heq
    have heq' : (newBlank ld seed).resetGlobals = (.ok (), st1) := heq
    rw [heq'] at h1
    simp only [Out.ok.injEq] at h
    rw [← h]
    split
    · exact (h1.trans (addError_sameRoot _ _ _))
    · exact h1
  · cases h
  · cases h

/-- The stories a host can reach over the tree `root`: construction from a loaded document
    with that tree, then any sequence of public operations (`Reachable` of
    `Proofs/C04Inv.lean`, with host settings that leave the tree alone). -/
inductive ReachableOver (root : Obj) : Story → Prop
  | create (ld : Load.Loaded) (seed : Int) (st : Story) :
      ld.root = root → Story.create ld seed = .ok st → ReachableOver root st
  | cont (st : Story) : ReachableOver root st → ReachableOver root st.cont.2
  | continueAsync (st : Story) (b : Option Nat) : ReachableOver root st → ReachableOver root (st.continueAsync b).2
  | continueMaximally (st : Story) : ReachableOver root st → ReachableOver root st.continueMaximally.2
  | continueSingleStep (st : Story) : ReachableOver root st → ReachableOver root st.continueSingleStep.2
  | currentChoices (st : Story) : ReachableOver root st → ReachableOver root st.currentChoices.2
  | chooseChoiceIndex (st : Story) (i : Nat) : ReachableOver root st → ReachableOver root (st.chooseChoiceIndex i).2
  | choosePathString (st : Story) (path : String) (reset : Bool) (args : List (Option Val)) :
      ReachableOver root st → ReachableOver root (st.choosePathString path reset args).2
  | evaluateFunction (st : Story) (name : String) (args : List (Option Val)) :
      ReachableOver root st → ReachableOver root (st.evaluateFunction name args).2
  | switchFlow (st : Story) (name : String) : ReachableOver root st → ReachableOver root (st.switchFlow name).2
  | switchToDefaultFlow (st : Story) : ReachableOver root st → ReachableOver root st.switchToDefaultFlow
  | removeFlow (st : Story) (name : String) : ReachableOver root st → ReachableOver root (st.removeFlow name).2
  | resetState (st : Story) (seed : Int) : ReachableOver root st → ReachableOver root (st.resetState seed).2
  | loadState (st : Story) (doc : Option Json) : ReachableOver root st → ReachableOver root (Save.loadState st doc).2
  | setVariable (st : Story) (name : String) (v : Val) : ReachableOver root st → ReachableOver root (st.setVariable name v).2
  | observeVariable (st : Story) (name id : String) :
      ReachableOver root st → ReachableOver root (st.observeVariable name id).2
  | removeVariableObserver (st : Story) (id : String) (name : Option String) :
      ReachableOver root st → ReachableOver root (st.removeVariableObserver id name).2
  | bindExternal (st : Story) (name : String) (d : ExtDef) :
      ReachableOver root st → ReachableOver root (st.bindExternal name d).2
  | unbindExternal (st : Story) (name : String) : ReachableOver root st → ReachableOver root (st.unbindExternal name).2
  | configure (st st' : Story) : ReachableOver root st → st'.state = st.state → st'.snapshot = st.snapshot →
      st'.root = st.root → ReachableOver root st'

theorem reachableOver_reachable {root : Obj} {st : Story} (h : ReachableOver root st) : Reachable st := by
  induction h with
  | create ld seed st _ h => exact .create ld seed st h
  | cont st _ ih => exact .cont st ih
  | continueAsync st b _ ih => exact .continueAsync st b ih
  | continueMaximally st _ ih => exact .continueMaximally st ih
  | continueSingleStep st _ ih => exact .continueSingleStep st ih
  | currentChoices st _ ih => exact .currentChoices st ih
  | chooseChoiceIndex st i _ ih => exact .chooseChoiceIndex st i ih
  | choosePathString st path reset args _ ih => exact .choosePathString st path reset args ih
  | evaluateFunction st name args _ ih => exact .evaluateFunction st name args ih
  | switchFlow st name _ ih => exact .switchFlow st name ih
  | switchToDefaultFlow st _ ih => exact .switchToDefaultFlow st ih
  | removeFlow st name _ ih => exact .removeFlow st name ih
  | resetState st seed _ ih => exact .resetState st seed ih
  | loadState st doc _ ih => exact .loadState st doc ih
  | setVariable st name v _ ih => exact .setVariable st name v ih
  | observeVariable st name id _ ih => exact .observeVariable st name id ih
  | removeVariableObserver st id name _ ih => exact .removeVariableObserver st id name ih
  | bindExternal st name d _ ih => exact .bindExternal st name d ih
  | unbindExternal st name _ ih => exact .unbindExternal st name ih
  | configure st st' _ h1 h2 _ ih => exact .configure st st' ih h1 h2

/-- Every public operation keeps the tree. -/
theorem reachableOver_root {root : Obj} {st : Story} (h : ReachableOver root st) : st.root = root := by
  induction h with
  | create ld seed st hr h => exact (create_root ld seed st h).trans hr
  | cont st _ ih => exact (cont_sameRoot st).root_eq ih
  | continueAsync st b _ ih => exact (continueAsync_sameRoot st b).root_eq ih
  | continueMaximally st _ ih => exact (continueMaximally_sameRoot st).root_eq ih
  | continueSingleStep st _ ih => exact (continueSingleStep_sameRoot st).root_eq ih
  | currentChoices st _ ih => exact (currentChoices_sameRoot st).root_eq ih
  | chooseChoiceIndex st i _ ih => exact (chooseChoiceIndex_sameRoot st i).root_eq ih
  | choosePathString st path reset args _ ih => exact (choosePathString_sameRoot st path reset args).root_eq ih
  | evaluateFunction st name args _ ih => exact (evaluateFunction_sameRoot st name args).root_eq ih
  | switchFlow st name _ ih => exact (switchFlow_sameRoot st name).root_eq ih
  | switchToDefaultFlow st _ ih => exact (switchToDefaultFlow_sameRoot st).root_eq ih
  | removeFlow st name _ ih => exact (removeFlow_sameRoot st name).root_eq ih
  | resetState st seed _ ih => exact (resetState_sameRoot st seed).root_eq ih
  | loadState st doc _ ih => exact (loadState_sameRoot st doc).root_eq ih
  | setVariable st name v _ ih => exact (setVariable_sameRoot st name v).root_eq ih
  | observeVariable st name id _ ih => exact (observeVariable_sameRoot st name id).root_eq ih
  | removeVariableObserver st id name _ ih => exact (removeVariableObserver_sameRoot st id name).root_eq ih
  | bindExternal st name d _ ih => exact (bindExternal_sameRoot st name d).root_eq ih
  | unbindExternal st name _ ih => exact (unbindExternal_sameRoot st name).root_eq ih
  | configure st st' _ _ _ h3 ih => exact h3.trans ih

/-- **loaded_reachable_never_panics.**  Load a story document, construct the story, apply any
    sequence of public operations (loading saves included): `continue_single_step` of the
    story reached does not end in `panic`. -/
theorem loaded_reachable_never_panics (fuel : Nat) (doc : Option Json) (ld : Load.Loaded)
    (hl : Load.loadStory fuel doc = .ok ld) (st : Story) (h : ReachableOver ld.root st) (site : String) (st' : Story) :
    st.continueSingleStep ≠ (.panic site, st') := by
  have hT : TreeOK st.root := by rw [reachableOver_root h]; exact load_treeOK fuel doc ld hl
  exact continueSingleStep_never_panics st (reachable_wf (reachableOver_reachable h)) hT site st'

-- the stories built from a loaded document are reachable over its tree, and so are their successors
example (fuel : Nat) (doc : Option Json) (ld : Load.Loaded) (seed : Int) (st : Story) (j : Option Json)
    (hl : Load.loadStory fuel doc = .ok ld) (hc : Story.create ld seed = .ok st) (site : String) (st' : Story) :
    (Save.loadState (st.cont.2.chooseChoiceIndex 0).2 j).2.continueSingleStep ≠ (.panic site, st') :=
  loaded_reachable_never_panics fuel doc ld hl _
    (.loadState _ _ (.chooseChoiceIndex _ _ (.cont _ (.create ld seed st rfl hc)))) site st'

end PtrJ

end C04
end Ink
