/-
  C19 — Every piece of story content is addressable by its own path.
  Property theorems only; helper lemmas are in Proofs/Lemmas/.
-/
import Proofs.Lemmas.PathLemmas
import Proofs.Lemmas.TreeLemmas

namespace Ink
namespace C19

/-- A well-formed component's text parses back to the component. -/
theorem compOfText_toText (c : Comp) (h : c.WF) : Path.compOfText c.toText = c := by
  cases c with
  | idx n =>
    simp only [Comp.WF] at h
    simp [Path.compOfText, Comp.toText, parseUsize_decimal n h]
  | name s =>
    simp only [Comp.WF] at h
    simp [Path.compOfText, Comp.toText, h.1]

theorem toText_no_dot (c : Comp) (h : c.WF) : '.' ∉ c.toText := by
  cases c with
  | idx n => exact decimal_no_dot n
  | name s => exact h.2

/-- **parse_toString.** Converting a well-formed path to text and parsing it
    back gives an equal path; relative paths stay relative. -/
theorem parse_toText (p : Path) (h : p.WF) : Path.parse p.toText = p := by
  obtain ⟨comps, rel⟩ := p
  have hsplit : comps ≠ [] →
      (splitDot (joinDot (comps.map Comp.toText))).map Path.compOfText = comps := by
    intro hne
    rw [splitDot_joinDot _ (by simpa using hne)]
    · rw [List.map_map]
      calc comps.map (Path.compOfText ∘ Comp.toText) = comps.map id := by
            apply List.map_congr_left
            intro c hc
            exact compOfText_toText c (h.comps c hc)
        _ = comps := by simp
    · intro t ht
      obtain ⟨c, hc, rfl⟩ := List.mem_map.mp ht
      exact toText_no_dot c (h.comps c hc)
  cases rel with
  | true =>
    have hne : comps ≠ [] := h.relNonempty rfl
    simp only [Path.toText, if_true, List.singleton_append, Path.parse]
    rw [hsplit hne]
  | false =>
    cases comps with
    | nil => simp [Path.toText, joinDot, Path.parse, Path.empty]
    | cons c cs =>
      have hc0 : c.toText ≠ [] := h.absHead rfl c rfl
      obtain ⟨x, r, hx⟩ : ∃ x r, c.toText = x :: r := by
        cases hct : c.toText with
        | nil => exact absurd hct hc0
        | cons x r => exact ⟨x, r, rfl⟩
      have hxdot : x ≠ '.' := by
        intro hd
        apply toText_no_dot c (h.comps c (by simp))
        rw [hx, hd]; simp
      obtain ⟨r', hj⟩ := joinDot_cons_head c.toText (cs.map Comp.toText) x r hx
      have hs := hsplit (by simp)
      simp only [List.map_cons] at hs
      simp only [Path.toText, List.map_cons, Bool.false_eq_true, if_false, List.nil_append]
      rw [hj] at hs ⊢
      unfold Path.parse
      split
      · rename_i heq; cases heq
      · rename_i rest heq
        simp only [List.cons.injEq] at heq
        exact absurd heq.1 hxdot
      · rw [hs]

/-- **eq_hash.** Equal paths hash equally (the hash is taken over the text,
    which is a function of components and the relative flag only). -/
theorem eq_hash (p q : Path) (h : p = q) : p.hashKey = q.hashKey := by rw [h]

/-- A path that went through text hashes like the original. -/
theorem hash_parse_toText (p : Path) (h : p.WF) : (Path.parse p.toText).hashKey = p.hashKey := by
  rw [parse_toText p h]

/-- **relative_roundtrip.** For absolute `own` and `target` sharing at least one
    leading component, where `target` has no parent component after the shared
    prefix: appending the relative form to `own` gives `target` back. -/
theorem relative_roundtrip (own target : Path)
    (hshare : Path.sharedPrefix own.comps target.comps > 0)
    (hnp : ∀ c ∈ target.comps, c.isParent = false) :
    Path.appendPath own (Path.toRelative own target) = some { comps := target.comps, rel := false }
    ∧ (Path.toRelative own target).rel = true := by
  exact relative_roundtrip_aux own target hshare hnp

/-- With no shared leading component the engine keeps the absolute path. -/
theorem relative_noshare (own target : Path) (h : Path.sharedPrefix own.comps target.comps = 0) :
    Path.toRelative own target = target := by
  simp [Path.toRelative, h]

/-- **resolve_pathOf.** In a well-formed tree, the path reported for the object
    at any position resolves from the root back to that very position, without
    approximation. -/
theorem resolve_pathOf (root : Obj) (hwf : WFTree root) (a : Addr) (o : Obj)
    (ha : nodeAt root a = some o) :
    ∃ p, pathOf root a = some p ∧
      contentAtPath root [] p.comps = { addr := a, approximate := false } := by
  exact resolve_pathOf_aux root hwf a o ha

/-! ### Non-vacuity -/

example : Path.WF { comps := [.name "knot".toList, .idx 0, .name "g-0".toList], rel := false } :=
  ⟨by intro c hc; simp at hc; rcases hc with rfl | rfl | rfl <;> simp [Comp.WF] <;> decide,
   by simp, by intro _ c hc; simp at hc; subst hc; simp [Comp.toText]⟩

example : Path.WF { comps := [.name "^".toList, .name "^".toList, .idx 3], rel := true } :=
  ⟨by intro c hc; simp at hc; rcases hc with rfl | rfl <;> simp [Comp.WF] <;> decide,
   by simp, by simp⟩

example : Path.parse ".^.^.3".toList = { comps := [.name ['^'], .name ['^'], .idx 3], rel := true } := by
  decide

end C19
end Ink
