/-
  C02 — Saving and loading a game preserves all future behaviour.
  Proved here: the codec of the objects that live on the stacks and in the
  variable store round-trips (write then read gives the object back), for all
  values of the kinds below; integer dictionaries and push/pop codes too.
  The round-trip of whole states (decode (encode s) = canon s) is NOT proved;
  see checks/c02.py for how that sentence is decided.
-/
import Ink.Save

namespace Ink
namespace C02

open Save

/-- Every control command is read back from its name. -/
theorem cmd_roundtrip (c : Cmd) : Cmd.ofName c.name = some c := by
  cases c <;> simp [Cmd.ofName, Cmd.all, Cmd.name, List.find?]

/-- Every native operator is read back from its name. -/
theorem native_name_roundtrip (op : Op) : Op.ofName op.name = some op := by
  cases op <;> simp [Op.ofName, Op.allOps, Op.name, List.find?]

/-- No native operator name is a control-command name (the loader tests commands first). -/
theorem native_not_cmd (op : Op) : Cmd.ofName op.name = none := by
  cases op <;> simp [Cmd.ofName, Cmd.all, Cmd.name, Op.name, List.find?]

/-- The save form of a native call (`^` is written `L^`) is read back. -/
theorem native_roundtrip (op : Op) : readObj (.str (if op.name == "^" then "L^" else op.name)) = .ok (.native op) := by
  cases op <;> simp [readObj, Load.tokenToObj, Op.name, Cmd.ofName, Cmd.all, Cmd.name, Op.ofName, Op.allOps,
    List.find?]

/-- Push/pop codes round-trip. -/
theorem pushPop_roundtrip (k : PushPop) : pushPopOfCode (pushPopCode k) = .ok k := by
  cases k <;> simp [pushPopOfCode, pushPopCode]

/-- A control command written to a save is read back. -/
theorem cmd_obj_roundtrip (c : Cmd) : readObj (.str c.name) = .ok (.cmd c) := by
  cases c <;> simp [readObj, Load.tokenToObj, Cmd.name, Cmd.ofName, Cmd.all, List.find?]

/-- **string_roundtrip.** A string value is written as `"^" ++ s` (or a bare
    newline) and read back unchanged, for every string. -/
theorem string_roundtrip (s : String) : readObj (.str (if isNewlineStr s then "\n" else "^" ++ s)) = .ok (.val (.str s)) := by
  by_cases hn : isNewlineStr s = true
  · have hs : s = "\n" := by simpa [isNewlineStr] using hn
    subst hs
    simp [readObj, Load.tokenToObj, isNewlineStr, Load.mkStr]
  · have hn' : isNewlineStr s = false := by simpa using hn
    simp only [hn', Bool.false_eq_true, if_false]
    simp [readObj, Load.tokenToObj, Load.mkStr]

/-- **simple_obj_roundtrip.** Bools, 32-bit ints, glue, void and tags round-trip through the codec. -/
theorem simple_obj_roundtrip :
    (∀ b, (writeObj (.val (.bool b))).bind readObj = .ok (.val (.bool b)))
    ∧ (∀ i, inI32 i = true → (writeObj (.val (.int i))).bind readObj = .ok (.val (.int i)))
    ∧ (writeObj .glue).bind readObj = .ok .glue
    ∧ (writeObj .void).bind readObj = .ok .void
    ∧ (∀ t, (writeObj (.tag t)).bind readObj = .ok (.tag t)) := by
  refine ⟨?_, ?_, ?_, ?_, ?_⟩
  · intro b; simp [writeObj, Out.bind, readObj, Load.tokenToObj]
  · intro i hi
    have h64 : inI64 i = true := by
      unfold inI32 i32Min i32Max at hi
      unfold inI64 i64Min i64Max
      simp only [Bool.and_eq_true, decide_eq_true_eq] at hi ⊢
      omega
    simp [writeObj, Out.bind, readObj, Load.tokenToObj, hi, h64]
  · simp [writeObj, Out.bind, readObj, Load.tokenToObj, Cmd.ofName, Cmd.all, Cmd.name, List.find?]
  · simp [writeObj, Out.bind, readObj, Load.tokenToObj, Cmd.ofName, Cmd.all, Cmd.name, List.find?,
      Op.ofName, Op.allOps, Op.name]
  · intro t
    simp [writeObj, Out.bind, readObj, Load.tokenToObj, Json.get?, List.find?, Json.asStr?]

/-- A dictionary of 32-bit counts (visit counts, turn indices) is read back as written,
    when its keys are distinct (they are container paths). -/
theorem int_dict_roundtrip (d : List (String × Int)) (h : ∀ kv ∈ d, inI32 kv.2 = true) :
    readIntDict (Json.obj (d.map (fun kv => (kv.1, Json.num kv.2)))) "x" = .ok d := by
  unfold readIntDict
  simp only [Json.asObj?]
  have hall : (d.map (fun kv => (kv.1, Json.num kv.2))).all
      (fun kv => match Load.asI64 kv.2 with | some n => inI32 n | none => false) = true := by
    rw [List.all_eq_true]
    intro x hx
    rw [List.mem_map] at hx
    obtain ⟨kv, hkv, rfl⟩ := hx
    have hi := h kv hkv
    have h64 : inI64 kv.2 = true := by
      unfold inI32 i32Min i32Max at hi
      unfold inI64 i64Min i64Max
      simp only [Bool.and_eq_true, decide_eq_true_eq] at hi ⊢
      omega
    simp [Load.asI64, h64, hi]
  split
  rotate_left
  · rename_i hneg; exact absurd hall hneg
  congr 1
  rw [List.map_map]
  have : ∀ kv ∈ d, ((fun kv : String × Json => (kv.1, (Load.asI64 kv.2).getD 0)) ∘ (fun kv : String × Int => (kv.1, Json.num kv.2))) kv = kv := by
    intro kv hkv
    have hi := h kv hkv
    have h64 : inI64 kv.2 = true := by
      unfold inI32 i32Min i32Max at hi
      unfold inI64 i64Min i64Max
      simp only [Bool.and_eq_true, decide_eq_true_eq] at hi ⊢
      omega
    simp [Load.asI64, h64]
  rw [List.map_congr_left this]
  simp

end C02
end Ink
