/-
  C17 — Resetting a story is equivalent to constructing it afresh.
  The content is the quiescence invariant: whenever a continue has completed,
  no look-ahead snapshot, recursion count, async flag or unsafe-function flag
  is left behind; `reset_state` then rebuilds the state exactly as the
  constructor does.
-/
import Proofs.Lemmas.LoopLemmas
import Ink.Save

namespace Ink
namespace C17

open Story

/-- Nothing of a continue is left behind. -/
structure Quiescent (st : Story) : Prop where
  snapshot : st.snapshot = none
  recCount : st.recCount = 0
  asyncActive : st.asyncActive = false
  sawUnsafe : st.sawUnsafe = false

theorem deliver_fields (st : Story) (r : Out Unit) (st' : Story) (h : st.deliver = (r, st')) :
    (st.snapshot = none → st'.snapshot = none) ∧ st'.sawUnsafe = st.sawUnsafe
    ∧ st'.asyncActive = st.asyncActive ∧ st'.recCount = st.recCount := by
  unfold Story.deliver at h
  split at h
  · split at h
    · simp only [Prod.mk.injEq] at h
      rw [← h.2]
      refine ⟨?_, rfl, rfl, rfl⟩
      intro hs; simp [hs]
    · split at h <;> (simp only [Prod.mk.injEq] at h; rw [← h.2]; exact ⟨id, rfl, rfl, rfl⟩)
  · simp only [Prod.mk.injEq] at h; rw [← h.2]; exact ⟨id, rfl, rfl, rfl⟩

/-- **quiescent_invariant** (continue): a blocking continue that returns (with
    a value or with an error, not a model panic / fuel exhaustion) leaves the
    story quiescent — whether it started from a quiescent story or finished a
    paused time-limited continue ("it always becomes usable again"). -/
theorem continue_completes (st : Story) (fuel : Nat) (r : Out Unit) (st' : Story)
    (h0 : st.recCount = 0)
    (hgo : st.asyncActive = true ∨ st.canContinue = true)
    (h : st.continueInternal none fuel = (r, st'))
    (hnp : ∀ p, r ≠ .panic p) (hnf : ∀ m, r ≠ .err "ModelFuel" m)
    (hloop : ∀ k m s1, stepLoop none fuel 0 (st.beginContinue false) ≠ (.err k m, s1)) :
    Quiescent st' := by
  unfold Story.continueInternal at h
  have hrej : ¬((!st.asyncActive && !st.canContinue) = true) := by
    rcases hgo with ha | hc
    · simp [ha]
    · simp [hc]
  simp only [hrej, Option.isSome_none] at h
  have hb_async : (st.beginContinue false).asyncActive = false := by
    unfold Story.beginContinue
    simp only
    split <;> simp
  have hb_rec : (st.beginContinue false).recCount = 1 := by
    unfold Story.beginContinue
    simp only
    split <;> simp [h0, Story.setCore]
  simp only [hb_async, Bool.false_eq_true, if_false] at h
  split at h
  · rename_i p s1 _
    simp only [Prod.mk.injEq] at h
    exact absurd h.1.symm (hnp p)
  · rename_i k m s1 heq
    exact absurd heq (hloop k m s1)
  · simp only [Prod.mk.injEq] at h
    exact absurd h.1.symm (hnf _)
  · rename_i why s1 hne heq
    have hsame := stepLoop_same none fuel 0 _ _ _ heq
    have hend := stepLoop_blocking_end fuel 0 _ why s1 heq
    have hfin : (why == LoopEnd.newline || !s1.canContinue) = true := by
      rcases hend with hw | hw | hc
      · exact absurd hw (by intro hw'; exact hne (by rw [hw']))
      · simp [hw]
      · simp [hc]
    simp only [hfin, if_true] at h
    split at h
    · simp only [Prod.mk.injEq] at h
      exact absurd h.1.symm (hnp _)
    · rename_i st5 changed hf
      obtain ⟨f1, f2, f3, f4, _⟩ := finishContinue_fields s1 st5 changed hf
      have hrec5 : st5.recCount = 1 := by rw [f4, hsame.recCount, hb_rec]
      split at h
      · rename_i st7 hd
        obtain ⟨d1, d2, d3, d4⟩ := deliver_fields _ _ _ hd
        simp only [Prod.mk.injEq] at h
        rw [← h.2]
        unfold Story.notify
        exact ⟨d1 f1, by simpa [hrec5] using d4, by simpa [f3] using d3, by simpa [f2] using d2⟩
      · rename_i other hd
        cases hdv : ({ st5 with recCount := st5.recCount - 1 } : Story).deliver with
        | mk r7 st7 =>
          obtain ⟨d1, d2, d3, d4⟩ := deliver_fields _ _ _ hdv
          rw [hdv] at h
          simp only [Prod.mk.injEq] at h
          rw [← h.2]
          exact ⟨d1 f1, by simpa [hrec5] using d4, by simpa [f3] using d3, by simpa [f2] using d2⟩

/-- The loop never fabricates an `err` outcome of its own (errors of a step are
    recorded in the story and end the loop with `ok error`). -/
theorem stepLoop_no_err (b : Option Nat) (fuel steps : Nat) (st : Story) (k m : String) (s1 : Story) :
    stepLoop b fuel steps st ≠ (.err k m, s1) := by
  induction fuel generalizing steps st with
  | zero => unfold stepLoop; intro h; cases h
  | succ fuel ih =>
    unfold stepLoop
    simp only
    intro h
    split at h
    · cases h
    · split at h
      · cases h
      · cases h
      · cases h
      · cases b with
        | none =>
          simp only [Bool.false_eq_true, if_false] at h
          split at h
          · cases h
          · exact ih _ _ h
        | some n =>
          simp only at h
          split at h
          · cases h
          · split at h
            · cases h
            · exact ih _ _ h

/-- **quiescent_invariant**, packaged: from a story with no continue in
    progress (`recCount = 0`) a blocking continue leaves a quiescent story. -/
theorem quiescent_after_continue (st : Story) (fuel : Nat) (r : Out Unit) (st' : Story)
    (h0 : st.recCount = 0) (hgo : st.asyncActive = true ∨ st.canContinue = true)
    (h : st.continueInternal none fuel = (r, st'))
    (hnp : ∀ p, r ≠ .panic p) (hnf : ∀ m, r ≠ .err "ModelFuel" m) : Quiescent st' :=
  continue_completes st fuel r st' h0 hgo h hnp hnf (fun k m s1 => stepLoop_no_err none fuel 0 _ k m s1)

/-- The host configuration of a story: everything `reset_state` keeps. -/
def blankWith (st : Story) (seed : Int) : Story :=
  { root := st.root, defs := st.defs, state := StoryState.fresh seed, snapshot := none,
    recCount := 0, asyncActive := false, sawUnsafe := false, validated := st.validated,
    allowFallbacks := st.allowFallbacks, handler := st.handler, observers := st.observers,
    externals := st.externals, events := st.events, lines := st.lines, fuel := st.fuel,
    stepClock := st.stepClock }

/-- **reset_eq_fresh.** Resetting a quiescent story gives exactly the story that
    construction gives for the same program, seed and host configuration
    (bindings, observers, handler): both run `reset_globals` on the blank state. -/
theorem reset_eq_fresh (st : Story) (seed : Int) (hq : Quiescent st) :
    st.resetState seed = (blankWith st seed).resetGlobals := by
  unfold Story.resetState blankWith
  simp only [Story.ifAsyncWeCant, hq.asyncActive, Bool.false_eq_true, if_false]
  congr 1
  obtain ⟨h1, h2, h3, h4⟩ := hq
  cases st
  simp only at h1 h2 h3 h4
  subst h1 h2 h3 h4
  rfl

/-- Construction is `reset_globals` on the blank configuration (plus the version warning). -/
theorem create_is_resetGlobals (ld : Load.Loaded) (seed : Int) (st1 : Story)
    (h : ({ root := ld.root, defs := ld.listDefs, state := StoryState.fresh seed, snapshot := none,
            recCount := 0, asyncActive := false, sawUnsafe := false, validated := false,
            allowFallbacks := false, handler := false, observers := [], externals := [], events := [],
            lines := 0, fuel := none, stepClock := false } : Story).resetGlobals = (.ok (), st1)) :
    Story.create ld seed = .ok (if ld.version != 21 then st1.addError (inkVersionWarning ld.version) true else st1) := by
  unfold Story.create
  simp only [h]

/-! ### Non-vacuity -/

example (st : Story) : Quiescent (blankWith st 0) := ⟨rfl, rfl, rfl, rfl⟩

end C17
end Ink
