/-
  Proofs/C01Linear.lean — property C01, second sentence:

    "Effects written after a line end (assignments, visit and turn counting,
     choice generation) happen exactly once, however far the engine looked
     ahead to decide where the line ends."

  Refinement "look-ahead execution = linear execution".

  The LINEAR machine (section 1) has no snapshot and never rewinds.  Its state
  is the story state proper (`LState`: the `Core` and the warning list, i.e.
  the `StoryState` without the two fields no step reads: `namedFlows`, which a
  continue never touches, and the overlay flag `patching`).  Its transitions
  (`Act`) are the raw actions of the runtime, each a *function* of the state:

    * `step h`     — `Story::step` (Ink.step) run on the state; if it fails the error is
                     recorded with `add_error`, as the loop of `continue_internal` does;
    * `follow h`   — `try_follow_default_invisible_choice`, enabled exactly when
                     `continue_single_step` calls it;
    * `fuelError`  — the verification hook H2 (`VERIF_FUEL` error);
    * `begin obs`  — prologue of `continue_internal` (output reset, `did_safe_exit`
                     cleared, observation batch opened by the outermost call);
    * `finish obs` — epilogue (the "ran out of content" diagnostics, `did_safe_exit`
                     cleared, observation batch closed by the outermost call);
    * `deliver`    — errors and warnings handed to the error handler are forgotten.

  `h : Host` is what a step reads or writes OUTSIDE the story state: the table
  of bound external functions (with their call counters), the callback event
  log, the `saw_lookahead_unsafe_function_after_new_line` flag, the line
  counter of the harness, and the flag "a snapshot is held" that `step` and
  `try_follow_default_invisible_choice` read.  None of it is saved or restored
  with the state by the Rust code, so it is the environment of the linear
  machine, not part of its state.

  Main results (section 4, 5, 6):
    * `cont_is_linear_prefix`     — the state returned by a blocking continue is
        `begin · (step|follow|fuelError)^k · finish · deliver?` applied to the state
        before: it lies ON the linear trajectory; what the look-ahead executed
        beyond the k-th action is gone, nothing before it is lost or repeated.
    * `conts_are_one_linear_run`  — n continues (with host choices in between) are
        ONE linear run, cut at the line ends.
    * `effect_log_eq`             — the effect log (globals, visit counts, turn indices,
        turn index, choices after every action) of the calls, concatenated, is the
        effect log of the single linear run.

  Limits (what is NOT claimed / proved here):
    * The actions `step h` / `follow h` carry the host environment `h` of the moment they
      were executed, including the flag `h.lookahead`.  Actions that were executed while a
      snapshot was held and SURVIVE (the snapshot was discarded: the newline was removed by
      glue, or the story ran out at the newline) were executed with `lookahead = true`.
      The flag changes what the action does in two places (both in the Rust code):
      `try_follow_default_invisible_choice` forks the thread first, and a look-ahead-unsafe
      external function is not called (but then `sawUnsafe` is raised and the step is
      rewound: `C08.unsafeConsumed`).  So the linear run is a run of the engine's own
      actions, not of a hypothetical engine without any look-ahead flag: the thread fork of a
      surviving default-choice follow stays in the state (thread index / counter).
    * `externals` (call counters) and `events` are not part of the state: calls of
      look-ahead-SAFE external functions made while looking ahead are not undone by the
      rewind and are made again by the next call (by design of the runtime).
    * The fields `namedFlows` and `patching` of `StoryState` are not covered by `lin`
      (no step reads them); that a continue leaves `namedFlows` alone and ends with
      `patching = false` is not proved in this file.
    * `Piece` in `conts_are_one_linear_run` does not record which piece belongs to a
      continue and which to a host call (the proof constructs them in order: see
      `session_cuts`).
-/
import Proofs.C01

namespace Ink
namespace C01Linear

open Story

/-! ## 1. The linear machine -/

/-- The fixed part of a story: content, list definitions, the fallback switch. -/
structure Prog where
  root : Obj
  defs : ListDefs
  allowFallbacks : Bool

/-- What a step reads or writes outside the story state (never saved / restored). -/
structure Host where
  externals : List (String × ExtDef)
  events : List Json
  sawUnsafe : Bool
  lines : Nat
  /-- `state_snapshot_at_last_new_line.is_some()` as read by `step` -/
  lookahead : Bool

/-- State of the linear machine: the story state proper. -/
structure LState where
  core : Core
  warnings : List String

def lin (s : StoryState) : LState := ⟨s.core, s.warnings⟩
def progOf (a : Story) : Prog := ⟨a.root, a.defs, a.allowFallbacks⟩
def hostOf (a : Story) : Host := ⟨a.externals, a.events, a.sawUnsafe, a.lines, a.snapshot.isSome⟩

def Host.env (P : Prog) (h : Host) : Env :=
  { root := P.root, defs := P.defs, snapshotActive := h.lookahead,
    allowFallbacks := P.allowFallbacks, lines := h.lines }

/-- Run a step-level action on a linear state in the host environment `h`
    (`Story.runM` without the wrapper). -/
def runOn {α : Type} (h : Host) (l : LState) (m : M α) : Out α × LState :=
  let r := m { s := l.core, externals := h.externals, events := h.events,
               sawUnsafe := h.sawUnsafe, newWarnings := [] }
  (r.1, ⟨r.2.s, l.warnings ++ r.2.newWarnings⟩)

/-- `add_error(msg, false)` -/
def addErrL (P : Prog) (l : LState) (msg : String) : LState :=
  { l with core := addErrorCore P.root l.core msg }

/-- What the loop of `continue_internal` makes of the outcome of an action: an
    error is recorded in the state; a panic is no transition. -/
def recorded (P : Prog) : Out Unit × LState → Option LState
  | (.ok _, l) => some l
  | (.err _ m, l) => some (addErrL P l m)
  | (.panic _, _) => none

/-- The guard of `try_follow_default_invisible_choice` in `continue_single_step`. -/
def followDue (l : LState) : Bool :=
  !l.core.canContinue && !l.core.callstack.elementIsEvaluateFromGame

/-- `Story.endChecks` on the core. -/
def endChecksCore (root : Obj) (c : Core) : Core :=
  let c1 :=
    if c.callstack.canPopThread then
      addErrorCore root c "Thread available to pop, threads should always be flat by the end of evaluation?"
    else c
  if c1.flow.choices.isEmpty && !c1.didSafeExit then
    let cs := c1.callstack
    if cs.canPopType (some .tunnel) then
      addErrorCore root c1 "unexpectedly reached end of content. Do you need a '->->' to return from a tunnel?"
    else if cs.canPopType (some .function) then
      addErrorCore root c1 "unexpectedly reached end of content. Do you need a '~ return'?"
    else if !cs.canPop then
      addErrorCore root c1 "ran out of content. Do you need a '-> DONE' or '-> END'?"
    else addErrorCore root c1 "unexpectedly reached end of content for unknown reason. Please debug compiler!"
  else c1

/-- prologue of `continue_internal` on the core -/
def beginCore (obs : Bool) (c : Core) : Core :=
  let c1 := ({ c with didSafeExit := false }).resetOutput none
  if obs then { c1 with vars := c1.vars.startObservation } else c1

/-- epilogue of `continue_internal` on the core, first half: the "ran out of content"
    diagnostics, `did_safe_exit` cleared -/
def finishCore1 (root : Obj) (c : Core) : Core :=
  { (if !c.canContinue then endChecksCore root c else c) with didSafeExit := false }

/-- second half: the outermost call closes the observation batch (`none`: the panic of
    `complete_variable_observation`) -/
def closeCore (obs : Bool) (c2 : Core) : Option Core :=
  if obs then
    let (names, vars') := c2.vars.completeObservation
    if names.all (fun n => (vars'.get n).isSome) then some { c2 with vars := vars' } else none
  else some c2

/-- epilogue of `continue_internal` on the core -/
def finishCore (root : Obj) (obs : Bool) (c : Core) : Option Core :=
  closeCore obs (finishCore1 root c)

/-- Transitions of the linear machine. -/
inductive Act where
  | step (h : Host)
  | follow (h : Host)
  | fuelError
  | begin (obs : Bool)
  | finish (obs : Bool)
  | deliver
  /-- a host call between two continues (section 5), given by its effect on the state -/
  | host (f : LState → LState)

/-- the actions of the stepping loop -/
def Act.isBody : Act → Bool
  | .step _ | .follow _ | .fuelError => true
  | _ => false

/-- the raw steps proper -/
def Act.isStep : Act → Bool
  | .step _ => true
  | _ => false

def Act.apply (P : Prog) : Act → LState → Option LState
  | .step h, l => recorded P (runOn h l (Ink.step (h.env P)))
  | .follow h, l =>
    if followDue l then recorded P (runOn h l (tryFollowDefaultInvisibleChoice (h.env P))) else none
  | .fuelError, l => some (addErrL P l "VERIF_FUEL")
  | .begin obs, l => some { l with core := beginCore obs l.core }
  | .finish obs, l => (finishCore P.root obs l.core).map (fun c => { l with core := c })
  | .deliver, l => some ⟨{ l.core with errors := [] }, []⟩
  | .host f, l => some (f l)

/-- The linear execution: the actions one after the other, each on the state the
    previous one left.  No snapshot, no rewinding. -/
def run (P : Prog) : List Act → LState → Option LState
  | [], l => some l
  | a :: T, l => (a.apply P l).bind (run P T)

theorem run_append (P : Prog) (T1 T2 : List Act) (l : LState) :
    run P (T1 ++ T2) l = (run P T1 l).bind (run P T2) := by
  induction T1 generalizing l with
  | nil => rfl
  | cons a T ih =>
    simp only [List.cons_append, run]
    cases a.apply P l with
    | none => rfl
    | some l' => exact ih l'

theorem run_snoc (P : Prog) (T : List Act) (a : Act) (l l1 l2 : LState)
    (h1 : run P T l = some l1) (h2 : a.apply P l1 = some l2) : run P (T ++ [a]) l = some l2 := by
  rw [run_append, h1]
  simp only [Option.bind_some, run, h2]

/-- `Reach P l l'`: the stepping loop's actions lead from `l` to `l'`. -/
def Reach (P : Prog) (l l' : LState) : Prop :=
  ∃ T : List Act, (∀ a ∈ T, a.isBody = true) ∧ run P T l = some l'

theorem Reach.refl (P : Prog) (l : LState) : Reach P l l := ⟨[], by simp, rfl⟩

theorem Reach.snoc {P : Prog} {l l1 l2 : LState} (h : Reach P l l1) (a : Act) (ha : a.isBody = true)
    (h2 : a.apply P l1 = some l2) : Reach P l l2 := by
  obtain ⟨T, hb, hr⟩ := h
  refine ⟨T ++ [a], ?_, run_snoc P T a l l1 l2 hr h2⟩
  intro x hx
  rcases List.mem_append.mp hx with hx | hx
  · exact hb x hx
  · rw [List.mem_singleton.mp hx]; exact ha

/-! ## 2. The wrapper operations, seen from the linear machine -/

theorem runM_lin {α : Type} (a : Story) (m : M α) :
    (a.runM m).1 = (runOn (hostOf a) (lin a.state) m).1
    ∧ lin (a.runM m).2.state = (runOn (hostOf a) (lin a.state) m).2 := ⟨rfl, rfl⟩

theorem env_lin (a : Story) : a.env = (hostOf a).env (progOf a) := rfl

theorem progOf_of_same {a b : Story} (h : SameWrapper a b) : progOf b = progOf a := by
  unfold progOf
  rw [h.root, h.defs, h.allowFallbacks]

theorem addError_lin (a : Story) (m : String) :
    lin (a.addError m false).state = addErrL (progOf a) (lin a.state) m := rfl

/-! ## 3. The look-ahead invariant

  `Inv P l0 a`: the state the look-ahead engine holds in `a` is on the linear
  trajectory from `l0`; if a snapshot is held, the snapshot is on the linear
  trajectory from `l0` too, and the present state is on the linear trajectory
  *from the snapshot* (looking ahead is running the same linear machine further). -/

def Inv (P : Prog) (l0 : LState) (a : Story) : Prop :=
  progOf a = P ∧ Reach P l0 (lin a.state)
  ∧ ∀ snap, a.snapshot = some snap → Reach P l0 (lin snap) ∧ Reach P (lin snap) (lin a.state)

/-- One more action of the loop on the present state. -/
theorem Inv.ext {P : Prog} {l0 : LState} {a a' : Story} (h : Inv P l0 a)
    (hp : progOf a' = progOf a) (hs : a'.snapshot = a.snapshot)
    (act : Act) (hb : act.isBody = true) (happ : act.apply P (lin a.state) = some (lin a'.state)) :
    Inv P l0 a' := by
  obtain ⟨h1, h2, h3⟩ := h
  refine ⟨hp.trans h1, h2.snoc act hb happ, ?_⟩
  intro snap hsn
  rw [hs] at hsn
  exact ⟨(h3 snap hsn).1, (h3 snap hsn).2.snoc act hb happ⟩

/-- Rewinding: the present state becomes the snapshot — a point of the linear trajectory. -/
theorem Inv.restore {P : Prog} {l0 : LState} {a : Story} (h : Inv P l0 a) : Inv P l0 a.restoreSnapshot := by
  obtain ⟨h1, h2, h3⟩ := h
  unfold Story.restoreSnapshot
  split
  · rename_i snap hs
    refine ⟨h1, (h3 snap hs).1, ?_⟩
    intro s' hs'
    cases hs'
  · exact ⟨h1, h2, h3⟩

/-- Dropping the snapshot: the present state (further along the trajectory) is kept. -/
theorem Inv.discard {P : Prog} {l0 : LState} {a : Story} (h : Inv P l0 a) : Inv P l0 a.discardSnapshot := by
  obtain ⟨h1, h2, _⟩ := h
  refine ⟨h1, h2, ?_⟩
  intro s' hs'
  cases hs'

/-- Taking a snapshot: of a point of the trajectory. -/
theorem Inv.snapshot {P : Prog} {l0 : LState} {a : Story} (h : Inv P l0 a) : Inv P l0 a.stateSnapshot := by
  obtain ⟨h1, h2, _⟩ := h
  refine ⟨h1, h2, ?_⟩
  intro s' hs'
  have : s' = a.state := by
    simp only [Story.stateSnapshot, Option.some.injEq] at hs'
    exact hs'.symm
  subst this
  exact ⟨h2, Reach.refl _ _⟩

theorem Inv.addError {P : Prog} {l0 : LState} {a : Story} (h : Inv P l0 a) (act : Act) (hb : act.isBody = true)
    (m : String) (happ : act.apply P (lin a.state) = some (addErrL P (lin a.state) m)) :
    Inv P l0 (a.addError m false) := by
  refine h.ext (progOf_of_same (addError_same a m false)) (addError_snapshot a m false) act hb ?_
  rw [happ, addError_lin, h.1]

theorem cssEnd_inv {P : Prog} {l0 : LState} {a : Story} (h : Inv P l0 a) : Inv P l0 (C08.cssEnd a).2 := by
  unfold C08.cssEnd
  split
  · split
    · split
      · exact h.snapshot
      · exact h
    · exact h.discard
  · exact h

theorem cssTail_inv {P : Prog} {l0 : LState} {a : Story} (h : Inv P l0 a) : Inv P l0 (C08.cssTail a).2 := by
  rw [C08.cssTail_eq]
  split
  · exact h
  · split
    · split
      · exact h.restore
      · split
        · exact cssEnd_inv h.discard
        · exact cssEnd_inv h
    · exact cssEnd_inv h

/-- What the loop keeps of the outcome of a step-level action / of `continue_single_step`. -/
def Kept {β : Type} (P : Prog) (l0 : LState) (x : Out β × Story) : Prop :=
  match x.1 with
  | .ok _ => Inv P l0 x.2
  | .err _ m => Inv P l0 (x.2.addError m false)
  | .panic _ => True

/-- A step-level action run by the wrapper is the action of the linear machine. -/
theorem runM_kept {P : Prog} {l0 : LState} {a : Story} (h : Inv P l0 a) (m : M Unit)
    (act : Act) (hb : act.isBody = true)
    (happ : act.apply P (lin a.state) = recorded P (runOn (hostOf a) (lin a.state) m)) :
    Kept P l0 (a.runM m) := by
  obtain ⟨e1, e2⟩ := runM_lin a m
  have hp := progOf_of_same (runM_same a m)
  have hs := runM_snapshot a m
  rcases hr : a.runM m with ⟨r, a1⟩
  rw [hr] at e1 e2 hp hs
  simp only at e1 e2 hp hs
  have hrun : runOn (hostOf a) (lin a.state) m = (r, lin a1.state) := Prod.ext e1.symm e2.symm
  rw [hrun] at happ
  unfold Kept
  cases r with
  | ok u => exact h.ext hp hs act hb happ
  | panic p => trivial
  | err k msg =>
    refine h.ext ((progOf_of_same (addError_same a1 msg false)).trans hp)
      ((addError_snapshot a1 msg false).trans hs) act hb ?_
    rw [happ, addError_lin, hp, h.1]
    rfl

theorem cssTail_fst_ok (a : Story) : ∃ b, (C08.cssTail a).1 = .ok b := by
  rw [C08.cssTail_eq]
  split
  · exact ⟨false, rfl⟩
  · split
    · split
      · exact ⟨true, rfl⟩
      · split
        · exact ⟨false, C01.cssEnd_fst _⟩
        · exact ⟨false, C01.cssEnd_fst _⟩
    · exact ⟨false, C01.cssEnd_fst _⟩

theorem cssTail_kept {P : Prog} {l0 : LState} {a : Story} (h : Inv P l0 a) :
    Kept P l0 (C08.cssTail a) := by
  obtain ⟨b, hb⟩ := cssTail_fst_ok a
  unfold Kept
  rw [hb]
  exact cssTail_inv h

/-- **One `continue_single_step`** keeps the invariant: the step proper and the default-choice
    attempt are actions of the linear machine; the snapshot handling only moves between points
    of the trajectory. -/
theorem css_kept {P : Prog} {l0 : LState} {a : Story} (h : Inv P l0 a) :
    Kept P l0 a.continueSingleStep := by
  rw [C08.css_eq]
  have k1 : Kept P l0 (a.runM (Ink.step a.env)) := by
    refine runM_kept h _ (.step (hostOf a)) rfl ?_
    rw [env_lin, h.1]
    rfl
  rcases hr : a.runM (Ink.step a.env) with ⟨r, a1⟩
  rw [hr] at k1
  cases r with
  | err k m => exact k1
  | panic p => trivial
  | ok u =>
    cases u
    have h1 : Inv P l0 a1 := k1
    show Kept P l0 (C08.cssMid a1)
    unfold C08.cssMid
    simp only
    by_cases hc : (!a1.canContinue && !a1.core.callstack.elementIsEvaluateFromGame) = true
    · rw [if_pos hc]
      have k2 : Kept P l0 (a1.runM (tryFollowDefaultInvisibleChoice a1.env)) := by
        refine runM_kept h1 _ (.follow (hostOf a1)) rfl ?_
        have hd : followDue (lin a1.state) = true := hc
        rw [env_lin, h1.1]
        simp only [Act.apply, hd, if_true]
      rcases hr2 : a1.runM (tryFollowDefaultInvisibleChoice a1.env) with ⟨r2, a2⟩
      rw [hr2] at k2
      cases r2 with
      | err k m => exact k2
      | panic p => trivial
      | ok u =>
        cases u
        have h2 : Inv P l0 a2 := k2
        exact cssTail_kept h2
    · rw [if_neg hc]
      exact cssTail_kept h1

/-! ## 4. The loop and the call -/

theorem Inv.decFuel {P : Prog} {l0 : LState} {a : Story} (h : Inv P l0 a) : Inv P l0 (C08.decFuel a) := h

/-- What one iteration of the loop of `continue_internal` keeps. -/
def IterPost (P : Prog) (l0 : LState) : C08.Iter → Prop
  | .done (.ok _) s => Inv P l0 s
  | .done _ _ => True
  | .more s => Inv P l0 s

theorem iter_inv {P : Prog} {l0 : LState} {a : Story} (h : Inv P l0 a) : IterPost P l0 (C08.iter a) := by
  unfold C08.iter
  by_cases hf : (a.fuel == some 0) = true
  · rw [if_pos hf]
    exact h.addError .fuelError rfl "VERIF_FUEL" rfl
  · rw [if_neg hf]
    have k := css_kept h.decFuel
    rcases hc : (C08.decFuel a).continueSingleStep with ⟨r, s⟩
    rw [hc] at k
    cases r with
    | panic p => trivial
    | err kk m => exact k
    | ok b =>
      cases b with
      | true => exact k
      | false => exact k

/-- **The stepping loop stays on the linear trajectory**, whatever the budget and however it ends. -/
theorem stepLoop_inv {P : Prog} {l0 : LState} (b : Option Nat) (F : Nat) :
    ∀ (k : Nat) (a : Story) (why : LoopEnd) (s : Story),
      stepLoop b F k a = (.ok why, s) → Inv P l0 a → Inv P l0 s := by
  induction F with
  | zero =>
    intro k a why s h hi
    rw [C08.stepLoop_zero] at h
    cases h; exact hi
  | succ F ih =>
    intro k a why s h hi
    rw [C08.stepLoop_succ] at h
    have ki := iter_inv hi
    cases hit : C08.iter a with
    | done r s' =>
      rw [hit] at h ki
      simp only [Prod.mk.injEq] at h
      obtain ⟨rfl, rfl⟩ := h
      exact ki
    | more a1 =>
      rw [hit] at h ki
      simp only at h ki
      split at h
      · cases h; exact ki
      · split at h
        · cases h; exact ki
        · exact ih _ _ _ _ h ki



def setC (a : Story) (c : Core) : Story := { a with state := { a.state with core := c } }
theorem setC_core (a : Story) (c : Core) : (setC a c).core = c := rfl
theorem setC_root (a : Story) (c : Core) : (setC a c).root = a.root := rfl
theorem setC_setC (a : Story) (c c' : Core) : setC (setC a c) c' = setC a c' := rfl
theorem setC_self (a : Story) : setC a a.core = a := rfl
theorem addError_false_eq (a : Story) (m : String) :
    a.addError m false = setC a (addErrorCore a.root a.core m) := rfl

theorem endChecks_eq (a : Story) : a.endChecks = setC a (endChecksCore a.root a.core) := by
  have key : ∀ (c : Core), (setC a c).endChecks = setC a (endChecksCore a.root c) := by
    intro c
    unfold Story.endChecks endChecksCore
    simp only [addError_false_eq, setC_core, setC_root, setC_setC]
    by_cases h1 : c.callstack.canPopThread = true
    · simp only [h1, if_true, setC_core, setC_root, setC_setC]
      split
      · split
        · rfl
        · split
          · rfl
          · split <;> rfl
      · rfl
    · simp only [h1, if_false, setC_core, setC_root, setC_setC, Bool.false_eq_true]
      split
      · split
        · rfl
        · split
          · rfl
          · split <;> rfl
      · rfl
  have := key a.core
  rw [setC_self] at this
  exact this

theorem beginContinue_eq (a : Story) (ha : a.asyncActive = false) :
    a.beginContinue false =
      { a with recCount := a.recCount + 1, sawUnsafe := false,
               state := { a.state with core := beginCore (a.recCount + 1 == 1) a.core } } := by
  unfold Story.beginContinue beginCore
  simp only [ha, Bool.not_false, if_true]
  split <;> rfl


/-- the story the epilogue works on: rewound to the snapshot, if one is held -/
def rewound (a : Story) : Story := if a.snapshot.isSome then a.restoreSnapshot else a

theorem prepareFinish_eq (a : Story) :
    a.prepareFinish = { setC (rewound a) (finishCore1 (rewound a).root (rewound a).core) with sawUnsafe := false } := by
  unfold Story.prepareFinish finishCore1
  show ({ ((if !(rewound a).canContinue then (rewound a).endChecks else (rewound a)).mapCore
      (fun c => { c with didSafeExit := false })) with sawUnsafe := false } : Story) = _
  rw [endChecks_eq]
  generalize rewound a = a2
  by_cases h : (!a2.canContinue) = true
  · have h' : (!a2.core.canContinue) = true := h
    rw [if_pos h, if_pos h']
    rfl
  · have h' : ¬ (!a2.core.canContinue) = true := h
    rw [if_neg h, if_neg h']
    rfl

theorem closeObservation_lin (b b' : Story) (ch : List (String × Val))
    (h : b.closeObservation = some (b', ch)) :
    closeCore (b.recCount == 1) b.core = some b'.core ∧ b' = { setC b b'.core with asyncActive := false } := by
  unfold Story.closeObservation at h
  unfold closeCore
  by_cases hr : (b.recCount == 1) = true
  · rw [if_pos hr] at h
    rw [if_pos hr]
    simp only at h ⊢
    split at h
    · rename_i hall
      rw [if_pos hall]
      simp only [Option.some.injEq, Prod.mk.injEq] at h
      rw [← h.1]
      exact ⟨rfl, rfl⟩
    · cases h
  · rw [if_neg hr] at h
    rw [if_neg hr]
    simp only [Option.some.injEq, Prod.mk.injEq] at h
    rw [← h.1]
    exact ⟨rfl, rfl⟩


theorem rewound_inv {P : Prog} {l0 : LState} {a : Story} (h : Inv P l0 a) : Inv P l0 (rewound a) := by
  unfold rewound
  split
  · exact h.restore
  · exact h

theorem rewound_fields (a : Story) : (rewound a).recCount = a.recCount ∧ (rewound a).snapshot = none := by
  unfold rewound
  split
  · exact ⟨(restoreSnapshot_same a).recCount, restoreSnapshot_snapshot a⟩
  · rename_i hn
    refine ⟨rfl, ?_⟩
    cases hs : a.snapshot with
    | none => rfl
    | some x => simp [hs] at hn

/-- The epilogue: rewind to the snapshot (a point of the trajectory), then the `finish` action. -/
theorem finishContinue_lin {P : Prog} {l0 : LState} {a b' : Story} {ch : List (String × Val)}
    (hI : Inv P l0 a) (h : a.finishContinue = some (b', ch)) :
    ∃ lr, Reach P l0 lr ∧ (Act.finish (a.recCount == 1)).apply P lr = some (lin b'.state)
      ∧ progOf b' = P ∧ b'.snapshot = none ∧ b'.asyncActive = false := by
  unfold Story.finishContinue at h
  rw [prepareFinish_eq] at h
  obtain ⟨e1, e2⟩ := closeObservation_lin _ _ _ h
  have hI2 := rewound_inv hI
  obtain ⟨r1, r2⟩ := rewound_fields a
  refine ⟨lin (rewound a).state, hI2.2.1, ?_, ?_, ?_, ?_⟩
  · have hroot : P.root = (rewound a).root := by rw [← hI2.1]; rfl
    simp only [Act.apply, finishCore, hroot]
    have e1' : closeCore (a.recCount == 1) (finishCore1 (rewound a).root (rewound a).core) = some b'.core := by
      rw [← r1]; exact e1
    show Option.map _ (closeCore (a.recCount == 1) (finishCore1 (rewound a).root (rewound a).core)) = _
    rw [e1', e2]
    rfl
  · rw [e2, ← hI2.1]; rfl
  · rw [e2]; exact r2
  · rw [e2]

theorem deliver_lin (d d' : Story) (h : d.deliver = (.ok (), d')) :
    (lin d'.state = lin d.state ∨ lin d'.state = ⟨{ (lin d.state).core with errors := [] }, []⟩)
    ∧ progOf d' = progOf d ∧ (d.snapshot = none → d'.snapshot = none)
    ∧ d'.asyncActive = d.asyncActive := by
  unfold Story.deliver at h
  split at h
  · split at h
    · simp only [Prod.mk.injEq, true_and] at h
      rw [← h]
      refine ⟨.inr rfl, rfl, ?_, rfl⟩
      intro hs; simp [hs]
    · split at h
      · cases h
      · cases h; exact ⟨.inl rfl, rfl, id, rfl⟩
  · cases h; exact ⟨.inl rfl, rfl, id, rfl⟩


/-- Quiescent: no look-ahead snapshot is held and no time-limited continue is under way. -/
def Quiet (st : Story) : Prop := st.snapshot = none ∧ st.asyncActive = false

/-- The shape of the linear run of one `continue`: prologue, `k` actions of the stepping loop
    (raw steps, default-choice follows, at most a fuel error), epilogue, and the delivery of
    errors / warnings to the handler if there is something to deliver. -/
def CallShape (T : List Act) : Prop :=
  ∃ (obs : Bool) (body tl : List Act), T = .begin obs :: (body ++ .finish obs :: tl)
    ∧ (∀ a ∈ body, a.isBody = true) ∧ (tl = [] ∨ tl = [.deliver])

/-- **cont_is_linear_prefix** (on `continue_internal`, any model fuel): the state a blocking
    continue returns is the state the LINEAR machine reaches from the state before by
    `begin · body · finish · deliver?`, where `body` consists of `k` actions of the stepping
    loop.  Whatever the look-ahead executed beyond these `k` actions has left no trace in the
    state, and every one of the `k` actions was applied exactly once, to the state its
    predecessor left. -/
theorem continueInternal_is_linear_prefix (st st' : Story) (F : Nat) (hq : Quiet st)
    (h : st.continueInternal none F = (.ok (), st')) :
    ∃ T, CallShape T ∧ run (progOf st) T (lin st.state) = some (lin st'.state)
      ∧ Quiet st' ∧ progOf st' = progOf st := by
  obtain ⟨hq1, hq2⟩ := hq
  by_cases hrej : C08.Refused st
  · rw [C08.continueInternal_refused _ _ _ hrej] at h; cases h
  · rw [C08.continueInternal_loopExit _ _ _ hrej, C08.loopExit_none] at h
    -- the prologue
    have hb0 := beginContinue_eq st hq2
    generalize hP : progOf st = P
    let l1 : LState := { lin st.state with core := beginCore (st.recCount + 1 == 1) (lin st.state).core }
    have hI0 : Inv P l1 (st.beginContinue false) := by
      rw [hb0]
      refine ⟨hP, Reach.refl _ _, ?_⟩
      intro snap hs
      have : st.snapshot = some snap := hs
      rw [hq1] at this; cases this
    have hrc : (st.beginContinue false).recCount = st.recCount + 1 := by rw [hb0]
    rcases hb : stepLoop none F 0 (st.beginContinue false) with ⟨rb, sb⟩
    rw [hb] at h
    cases rb with
    | panic p => cases h
    | err k m => cases h
    | ok why =>
      by_cases hw : why = .outOfFuel
      · subst hw; cases h
      · rw [C08.finishCall_finishing why sb hw (C08.blocking_finishing F 0 _ why sb hb hw)] at h
        have hIs : Inv P l1 sb := stepLoop_inv none F 0 _ why sb hb hI0
        have hrs : sb.recCount = st.recCount + 1 := ((stepLoop_same _ _ _ _ _ _ hb).recCount).trans hrc
        unfold C08.finishTail at h
        split at h
        · cases h
        · rename_i st5 changed hfin
          obtain ⟨lr, ⟨body, hbody, hrun⟩, hfinA, hP5, hs5, ha5⟩ := finishContinue_lin hIs hfin
          rw [hrs] at hfinA
          rcases hd : ({ st5 with recCount := st5.recCount - 1 } : Story).deliver with ⟨r7, st7⟩
          rw [hd] at h
          cases r7 with
          | err k m => cases h
          | panic p => cases h
          | ok u =>
            cases u
            simp only [Prod.mk.injEq, true_and] at h
            obtain ⟨hdl, hP7, hs7, ha7⟩ := deliver_lin _ _ hd
            have hst' : lin st'.state = lin st7.state := by rw [← h]; rfl
            have hquiet : Quiet st' ∧ progOf st' = P := by
              rw [← h]
              exact ⟨⟨hs7 hs5, ha7.trans ha5⟩, hP7.trans hP5⟩
            -- the run up to the epilogue
            have hrun2 : run P (.begin (st.recCount + 1 == 1) :: (body ++ [.finish (st.recCount + 1 == 1)]))
                (lin st.state) = some (lin st5.state) := by
              show (Option.some l1).bind (run P (body ++ [.finish (st.recCount + 1 == 1)])) = _
              exact run_snoc P body _ l1 lr _ hrun hfinA
            rcases hdl with hdl | hdl
            · refine ⟨.begin (st.recCount + 1 == 1) :: (body ++ .finish (st.recCount + 1 == 1) :: []),
                ⟨_, body, [], rfl, hbody, .inl rfl⟩, ?_, hquiet⟩
              rw [hst', hdl]
              exact hrun2
            · refine ⟨.begin (st.recCount + 1 == 1) :: (body ++ .finish (st.recCount + 1 == 1) :: [.deliver]),
                ⟨_, body, [.deliver], rfl, hbody, .inr rfl⟩, ?_, hquiet⟩
              rw [hst', hdl]
              have := run_snoc P _ .deliver (lin st.state) (lin st5.state) _ hrun2 rfl
              simp only [List.cons_append, List.append_assoc, List.nil_append] at this
              exact this

/-- validation of the external bindings does not touch the state -/
theorem validate_state (st : Story) :
    st.validateExternalBindings.2.state = st.state ∧ st.validateExternalBindings.2.snapshot = st.snapshot
    ∧ st.validateExternalBindings.2.asyncActive = st.asyncActive
    ∧ progOf st.validateExternalBindings.2 = progOf st := by
  unfold Story.validateExternalBindings
  simp only
  split
  · exact ⟨rfl, rfl, rfl, rfl⟩
  · split <;> exact ⟨rfl, rfl, rfl, rfl⟩

/-- **cont_is_linear_prefix**: the same for the host call `cont()` (the blocking continue of the
    API: `Story.cont` = `continue_async(0)` + `get_current_text`). -/
theorem cont_is_linear_prefix (st st' : Story) (text : String) (hq : Quiet st)
    (h : st.cont = (.ok text, st')) :
    ∃ T, CallShape T ∧ run (progOf st) T (lin st.state) = some (lin st'.state)
      ∧ Quiet st' ∧ progOf st' = progOf st := by
  unfold Story.cont at h
  rcases hc : st.continueAsync none with ⟨r, s1⟩
  rw [hc] at h
  cases r with
  | err k m => cases h
  | panic p => cases h
  | ok u =>
    cases u
    simp only [Prod.mk.injEq] at h
    obtain ⟨_, rfl⟩ := h
    unfold Story.continueAsync at hc
    obtain ⟨v1, v2, v3, v4⟩ := validate_state st
    have key : ∀ (p : Out Unit × Story), p.2.state = st.state → p.2.snapshot = st.snapshot →
        p.2.asyncActive = st.asyncActive → progOf p.2 = progOf st →
        (match p with
          | (v, st1) => match v with
            | .ok () => st1.continueInternal none callFuel
            | other => (other, st1)) = (.ok (), s1) →
        ∃ T, CallShape T ∧ run (progOf st) T (lin st.state) = some (lin s1.state)
          ∧ Quiet s1 ∧ progOf s1 = progOf st := by
      intro p e1 e2 e3 e4 hp
      rcases p with ⟨v, st1⟩
      simp only at e1 e2 e3 e4 hp
      cases v with
      | err k m => cases hp
      | panic q => cases hp
      | ok u =>
        cases u
        simp only at hp
        obtain ⟨T, hT, hr, hQ, hP⟩ :=
          continueInternal_is_linear_prefix st1 s1 callFuel ⟨e2.trans hq.1, e3.trans hq.2⟩ hp
        rw [e4, e1] at hr
        exact ⟨T, hT, hr, hQ, hP.trans e4⟩
    refine key (if !st.validated then st.validateExternalBindings else (.ok (), st)) ?_ ?_ ?_ ?_ hc
    · split
      · exact v1
      · rfl
    · split
      · exact v2
      · rfl
    · split
      · exact v3
      · rfl
    · split
      · exact v4
      · rfl



/-! ## 5. A whole session is ONE linear run -/

/-- A session of the host with the story: blocking continues, and between them host calls
    (choosing a choice, setting a variable, …: anything that leaves the story quiescent and
    its content unchanged).  `Session F st ss`: `ss` are the stories after each call. -/
inductive Session (F : Nat) : Story → List Story → Prop where
  | nil (st : Story) : Session F st []
  | cont {st st' : Story} {rest : List Story} :
      st.continueInternal none F = (.ok (), st') → Session F st' rest → Session F st (st' :: rest)
  | host {st st' : Story} {rest : List Story} :
      Quiet st' → progOf st' = progOf st → Session F st' rest → Session F st (st' :: rest)

/-- `Cuts P l Ts ls`: the run of `Ts.flatten` from `l`, cut after each piece of `Ts`, passes through
    the states `ls`, one after each piece. -/
def Cuts (P : Prog) : LState → List (List Act) → List LState → Prop
  | _, [], [] => True
  | l, T :: Ts, l' :: ls => run P T l = some l' ∧ Cuts P l' Ts ls
  | _, _, _ => False

theorem Cuts.length {P : Prog} : ∀ {l : LState} {Ts : List (List Act)} {ls : List LState},
    Cuts P l Ts ls → Ts.length = ls.length
  | _, [], [], _ => rfl
  | _, _ :: _, _ :: _, h => by
    simp only [List.length_cons, Nat.add_right_cancel_iff]; exact Cuts.length h.2
  | _, [], _ :: _, h => h.elim
  | _, _ :: _, [], h => h.elim

/-- the state after the `i+1` first pieces is the run of their concatenation -/
theorem Cuts.take {P : Prog} : ∀ {l : LState} {Ts : List (List Act)} {ls : List LState},
    Cuts P l Ts ls → ∀ i, i < ls.length → run P (Ts.take (i + 1)).flatten l = ls[i]?
  | _, [], [], _, i, hi => by simp at hi
  | _, [], _ :: _, h, _, _ => h.elim
  | _, _ :: _, [], h, _, _ => h.elim
  | l, T :: Ts, l' :: ls, h, i, hi => by
    simp only [List.take_succ_cons, List.flatten_cons]
    rw [run_append, h.1, Option.bind_some]
    cases i with
    | zero => simp [run]
    | succ j =>
      simp only [List.length_cons, Nat.add_lt_add_iff_right] at hi
      simp only [List.getElem?_cons_succ]
      exact Cuts.take h.2 j hi

/-- One piece of the linear run of a session: a continue, or a host call. -/
def Piece (T : List Act) : Prop := CallShape T ∨ ∃ f, T = [.host f]

theorem session_cuts (F : Nat) (st : Story) (ss : List Story) (hq : Quiet st) (h : Session F st ss) :
    ∃ Ts : List (List Act), (∀ T ∈ Ts, Piece T)
      ∧ Cuts (progOf st) (lin st.state) Ts (ss.map (fun s => lin s.state)) := by
  induction h with
  | nil st => exact ⟨[], by simp, trivial⟩
  | @cont st st' rest hc _ ih =>
    obtain ⟨T, hT, hr, hq', hP⟩ := continueInternal_is_linear_prefix st st' F hq hc
    obtain ⟨Ts, hTs, hcuts⟩ := ih hq'
    rw [hP] at hcuts
    refine ⟨T :: Ts, ?_, ⟨hr, hcuts⟩⟩
    intro T' hT'
    rcases List.mem_cons.mp hT' with rfl | hm
    · exact .inl hT
    · exact hTs T' hm
  | @host st st' rest hq' hP _ ih =>
    obtain ⟨Ts, hTs, hcuts⟩ := ih hq'
    rw [hP] at hcuts
    refine ⟨[.host (fun _ => lin st'.state)] :: Ts, ?_, ⟨rfl, hcuts⟩⟩
    intro T' hT'
    rcases List.mem_cons.mp hT' with rfl | hm
    · exact .inr ⟨_, rfl⟩
    · exact hTs T' hm

/-- **conts_are_one_linear_run**: the whole history of a session — `n` blocking continues with
    host calls in between — is ONE run of the linear machine, cut at the ends of the calls: the
    state after the `i`-th call is the state of the linear machine after the actions of the
    first `i` pieces (`k_1 + … + k_i` actions).  Every action of that run is applied once, to
    the state left by its predecessor, across the line ends: nothing the look-ahead of call
    `i` executed beyond the line end is kept (it is executed by call `i+1`, as part of the one
    run), nothing is lost. -/
theorem conts_are_one_linear_run (F : Nat) (st : Story) (ss : List Story) (hq : Quiet st)
    (h : Session F st ss) :
    ∃ Ts : List (List Act), Ts.length = ss.length ∧ (∀ T ∈ Ts, Piece T)
      ∧ ∀ i, i < ss.length →
          run (progOf st) (Ts.take (i + 1)).flatten (lin st.state) = (ss[i]?).map (fun s => lin s.state) := by
  obtain ⟨Ts, hTs, hcuts⟩ := session_cuts F st ss hq h
  refine ⟨Ts, by rw [hcuts.length, List.length_map], hTs, ?_⟩
  intro i hi
  have := hcuts.take i (by rw [List.length_map]; exact hi)
  rw [this, List.getElem?_map]



theorem currentChoices_fields (st : Story) :
    st.currentChoices.2.snapshot = st.snapshot ∧ st.currentChoices.2.asyncActive = st.asyncActive
    ∧ progOf st.currentChoices.2 = progOf st := by
  unfold Story.currentChoices
  split <;> exact ⟨rfl, rfl, rfl⟩

/-- `choose_choice_index` is a host call in the sense of `Session.host`. -/
theorem choose_is_host (st st' : Story) (i : Nat) (hq : Quiet st)
    (h : st.chooseChoiceIndex i = (.ok (), st')) : Quiet st' ∧ progOf st' = progOf st := by
  unfold Story.chooseChoiceIndex at h
  obtain ⟨c1, c2, c3⟩ := currentChoices_fields st
  split at h
  · cases h
  · cases h
  · rcases hcc : st.currentChoices with ⟨choices, st1⟩
    rw [hcc] at h c1 c2 c3
    simp only at h c1 c2 c3
    split at h
    · cases h
    · split at h
      · cases h
      · have key : ∀ (x : Story) (m : M Unit), x.runM m = (.ok (), st') →
            SameWrapper x st' ∧ st'.snapshot = x.snapshot := by
          intro x m hx
          have a := runM_same x m
          have b := runM_snapshot x m
          rw [hx] at a b
          exact ⟨a, b⟩
        obtain ⟨hs, hsn⟩ := key _ _ h
        refine ⟨⟨hsn.trans (c1.trans hq.1), hs.asyncActive.trans (c2.trans hq.2)⟩, ?_⟩
        exact (progOf_of_same hs).trans c3

/-! ## 6. The effect log -/

/-- The effects the property speaks of, as they stand in a state: the global variables
    (assignments), the visit counts, the turn indices and the turn counter, the generated
    choices — and the temporaries of the call stack (assignments to `temp`s). -/
structure Effect where
  globals : List (String × Val)
  visitCounts : List (String × Int)
  turnIndices : List (String × Int)
  turnIndex : Int
  choices : List Choice
  callstack : CallStack

def effectOf (l : LState) : Effect :=
  ⟨l.core.vars.globals, l.core.visitCounts, l.core.turnIndices, l.core.turnIndex,
   l.core.flow.choices, l.core.callstack⟩

/-- The effect log of a linear run: the effects after every action. -/
def effLog (P : Prog) : List Act → LState → List Effect
  | [], _ => []
  | a :: T, l =>
    match a.apply P l with
    | some l' => effectOf l' :: effLog P T l'
    | none => []

theorem effLog_append (P : Prog) (T1 T2 : List Act) (l l1 : LState) (h : run P T1 l = some l1) :
    effLog P (T1 ++ T2) l = effLog P T1 l ++ effLog P T2 l1 := by
  induction T1 generalizing l with
  | nil => cases h; rfl
  | cons a T ih =>
    simp only [List.cons_append, effLog]
    simp only [run] at h
    cases ha : a.apply P l with
    | none => rw [ha] at h; cases h
    | some l' =>
      rw [ha] at h
      simp only [List.cons_append, List.cons.injEq, true_and]
      exact ih l' h

/-- The log of the look-ahead execution of a session: for every call, the log of that call's
    piece of actions, started from the state the engine actually held when the call was made. -/
def callLogs (P : Prog) : List (List Act) → List LState → List Effect
  | T :: Ts, l :: ls => effLog P T l ++ callLogs P Ts ls
  | _, _ => []

theorem Cuts.effLog {P : Prog} : ∀ {l : LState} {Ts : List (List Act)} {ls : List LState},
    Cuts P l Ts ls → effLog P Ts.flatten l = callLogs P Ts (l :: ls)
  | _, [], [], _ => rfl
  | _, [], _ :: _, h => h.elim
  | _, _ :: _, [], h => h.elim
  | l, T :: Ts, l' :: ls, h => by
    simp only [List.flatten_cons, callLogs]
    rw [effLog_append P T _ l l' h.1, Cuts.effLog h.2]

/-- **effect_log_eq**: the effect log of the look-ahead execution of a session — the logs of the
    calls one after the other, each call's log taken from the state the engine really held
    at the start of that call (i.e. after the rewinding of the call before) — IS the effect
    log of the single linear run: no entry is missing, none occurs twice. -/
theorem effect_log_eq (F : Nat) (st : Story) (ss : List Story) (hq : Quiet st) (h : Session F st ss) :
    ∃ Ts : List (List Act), Ts.length = ss.length ∧ (∀ T ∈ Ts, Piece T)
      ∧ Cuts (progOf st) (lin st.state) Ts (ss.map (fun s => lin s.state))
      ∧ callLogs (progOf st) Ts ((st :: ss).map (fun s => lin s.state))
          = effLog (progOf st) Ts.flatten (lin st.state) := by
  obtain ⟨Ts, hTs, hcuts⟩ := session_cuts F st ss hq h
  refine ⟨Ts, by rw [hcuts.length, List.length_map], hTs, hcuts, ?_⟩
  rw [hcuts.effLog]
  rfl

/-- The log has one entry per action: the run did not get stuck. -/
theorem effLog_length (P : Prog) (T : List Act) (l l' : LState) (h : run P T l = some l') :
    (effLog P T l).length = T.length := by
  induction T generalizing l with
  | nil => rfl
  | cons a T ih =>
    simp only [run] at h
    simp only [effLog]
    cases ha : a.apply P l with
    | none => rw [ha] at h; cases h
    | some l1 =>
      rw [ha] at h
      simp only [List.length_cons, Nat.add_right_cancel_iff]
      exact ih l1 h



/-! ## 7. Non-vacuity -/

theorem cont_eq_of (st : Story) (t : String)
    (h : (match st.cont.1 with | .ok t' => t' == t | _ => false) = true) :
    st.cont = (.ok t, st.cont.2) := by
  generalize st.cont = x at *
  rcases x with ⟨r, s⟩
  cases r with
  | ok t' =>
    simp only [beq_iff_eq] at h
    rw [h]
  | err k m => cases h
  | panic p => cases h

/-- "a", line break, `~ temp x = 1`, "b", line break, done (`C01.exStory4`): to decide that the
    first line ends after "a", the engine looks ahead over the assignment up to "b". -/
def ex4 : Story := C01.exStory4
/-- the story after the first / the second `cont()` -/
def ex4a : Story := ex4.cont.2
def ex4b : Story := ex4a.cont.2

theorem ex4_quiet : Quiet ex4 := ⟨rfl, rfl⟩
theorem ex4_cont1 : ex4.cont = (.ok "a\n", ex4a) := cont_eq_of ex4 "a\n" (by decide +kernel)
theorem ex4_cont2 : ex4a.cont = (.ok "b\n", ex4b) := cont_eq_of ex4a "b\n" (by decide +kernel)

-- the look-ahead happens: six steps into the first call a snapshot is held and the assignment
-- has been executed (one temporary) …
example : (match stepLoop (some 6) 20 0 (ex4.beginContinue true) with
    | (.ok .outOfTime, s) => s.snapshot.isSome && C01.tempCounts s == [1]
    | _ => false) = true := by decide +kernel
-- … the call returns the state before the assignment; the second call executes it: once
example : C01.tempCounts ex4a = [0] ∧ C01.tempCounts ex4b = [1] := by
  constructor <;> decide +kernel

/-- the hypotheses of `cont_is_linear_prefix` hold for the first call … -/
example : ∃ T, CallShape T ∧ run (progOf ex4) T (lin ex4.state) = some (lin ex4a.state) := by
  obtain ⟨T, h1, h2, _⟩ := cont_is_linear_prefix ex4 ex4a "a\n" ex4_quiet ex4_cont1
  exact ⟨T, h1, h2⟩


theorem cont_internal (st st' : Story) (t : String) (hv : st.validated = true)
    (h : st.cont = (.ok t, st')) : st.continueInternal none callFuel = (.ok (), st') := by
  unfold Story.cont at h
  rw [C08.continueAsync_validated st none hv] at h
  rcases hc : st.continueInternal none callFuel with ⟨r, s1⟩
  rw [hc] at h
  cases r with
  | err k m => cases h
  | panic p => cases h
  | ok u =>
    cases u
    simp only [Prod.mk.injEq] at h
    rw [h.2]

/-- … and the two calls are a session, so the hypotheses of `conts_are_one_linear_run` and of
    `effect_log_eq` hold for it … -/
theorem ex4_session : Session callFuel ex4 [ex4a, ex4b] :=
  .cont (cont_internal ex4 ex4a _ rfl ex4_cont1)
    (.cont (cont_internal ex4a ex4b _ (by decide +kernel) ex4_cont2) (.nil _))

/-- Two calls, spelled out. -/
theorem two_calls (F : Nat) (s0 s1 s2 : Story) (hq : Quiet s0) (h : Session F s0 [s1, s2]) :
    ∃ T1 T2, Piece T1 ∧ Piece T2
    ∧ run (progOf s0) T1 (lin s0.state) = some (lin s1.state)
    ∧ run (progOf s0) (T1 ++ T2) (lin s0.state) = some (lin s2.state)
    ∧ effLog (progOf s0) T1 (lin s0.state) ++ effLog (progOf s0) T2 (lin s1.state)
        = effLog (progOf s0) (T1 ++ T2) (lin s0.state) := by
  obtain ⟨Ts, hlen, hP, hcuts, hlog⟩ := effect_log_eq F s0 _ hq h
  match Ts, hlen, hP, hcuts, hlog with
  | [T1, T2], _, hP, hcuts, hlog =>
    refine ⟨T1, T2, hP T1 (by simp), hP T2 (by simp), hcuts.1, ?_, ?_⟩
    · rw [run_append, hcuts.1]
      exact hcuts.2.1
    · simpa [callLogs] using hlog

/-- … the two lines of the example are one linear run in two pieces, whose effect log is the
    log of the first call followed by the log of the second (taken from the state the first
    call returned). -/
theorem ex4_two_calls : ∃ T1 T2, Piece T1 ∧ Piece T2
    ∧ run (progOf ex4) T1 (lin ex4.state) = some (lin ex4a.state)
    ∧ run (progOf ex4) (T1 ++ T2) (lin ex4.state) = some (lin ex4b.state)
    ∧ effLog (progOf ex4) T1 (lin ex4.state) ++ effLog (progOf ex4) T2 (lin ex4a.state)
        = effLog (progOf ex4) (T1 ++ T2) (lin ex4.state) :=
  two_calls callFuel ex4 ex4a ex4b ex4_quiet ex4_session

end C01Linear
end Ink
