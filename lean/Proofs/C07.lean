/-
  Proofs/C07.lean — expressions over numbers, strings and lists evaluate as Ink specifies.

  The evaluator the theorems speak about is `Expr.eval` (Ink/Expr.lean): an expression tree is
  evaluated with the operators of Ink/Native.lean.  checks/c07.py compares it with compile+play
  on the real code for every generated tree.

  * numbers: 32-bit integers, division truncates, modulo has the sign of the dividend, the
    coercion ladder bool → int → float → string, comparisons, logic, MIN / MAX;
  * strings: concatenation (any scalar + string), containment;
  * lists: union / difference / intersection / has as set operations on the keys, LIST_COUNT,
    LIST_MIN / LIST_MAX as extrema of the total order (value, origin, name);
  * order independence: the value of every expression tree, its printed form and any fault it
    raises are independent of the (hash) order of the items of the list values involved
    (`order_independent`, from Proofs/Lemmas/ListPerm.lean and NativePerm.lean).
-/
import Proofs.Lemmas.NativePerm

namespace Ink
namespace C07

open InkList

/-! ### numbers -/

theorem int_add (defs : ListDefs) (x y : Int) :
    Native.call defs .add [.val (.int x), .val (.int y)] = .ok (.val (.int (wrapI32 (x + y)))) := rfl

theorem int_sub (defs : ListDefs) (x y : Int) :
    Native.call defs .subtract [.val (.int x), .val (.int y)] = .ok (.val (.int (wrapI32 (x - y)))) := rfl

theorem int_mul (defs : ListDefs) (x y : Int) :
    Native.call defs .multiply [.val (.int x), .val (.int y)] = .ok (.val (.int (wrapI32 (x * y)))) := rfl

/-- Integer division truncates toward zero. -/
theorem int_div (defs : ListDefs) (x y : Int) (hy : y ≠ 0) (ho : ¬(x = i32Min ∧ y = -1)) :
    Native.call defs .divide [.val (.int x), .val (.int y)] = .ok (.val (.int (Int.tdiv x y))) := by
  have : ¬(y = 0 ∨ (x = i32Min ∧ y = -1)) := by
    intro h; cases h with
    | inl h => exact hy h
    | inr h => exact ho h
  simp [Native.call, Op.arity, Native.isList, Native.coerceAll, Native.destType, Val.castOrdinal, Val.cast,
    Native.binary, this]

/-- Modulo is the remainder of the truncating division (sign of the dividend). -/
theorem int_mod (defs : ListDefs) (x y : Int) (hy : y ≠ 0) (ho : ¬(x = i32Min ∧ y = -1)) :
    Native.call defs .mod [.val (.int x), .val (.int y)] = .ok (.val (.int (Int.tmod x y))) := by
  have : ¬(y = 0 ∨ (x = i32Min ∧ y = -1)) := by
    intro h; cases h with
    | inl h => exact hy h
    | inr h => exact ho h
  simp [Native.call, Op.arity, Native.isList, Native.coerceAll, Native.destType, Val.castOrdinal, Val.cast,
    Native.binary, this]

theorem int_div_mod_law (x y : Int) : y * Int.tdiv x y + Int.tmod x y = x := Int.mul_tdiv_add_tmod x y

theorem int_compare (defs : ListDefs) (x y : Int) :
    Native.call defs .less [.val (.int x), .val (.int y)] = .ok (.val (.bool (decide (x < y)))) ∧
    Native.call defs .greater [.val (.int x), .val (.int y)] = .ok (.val (.bool (decide (x > y)))) ∧
    Native.call defs .lessEq [.val (.int x), .val (.int y)] = .ok (.val (.bool (decide (x ≤ y)))) ∧
    Native.call defs .greaterEq [.val (.int x), .val (.int y)] = .ok (.val (.bool (decide (x ≥ y)))) ∧
    Native.call defs .equal [.val (.int x), .val (.int y)] = .ok (.val (.bool (x == y))) ∧
    Native.call defs .notEquals [.val (.int x), .val (.int y)] = .ok (.val (.bool (x != y))) :=
  ⟨rfl, rfl, rfl, rfl, rfl, rfl⟩

theorem int_min_max (defs : ListDefs) (x y : Int) :
    Native.call defs .min [.val (.int x), .val (.int y)] = .ok (.val (.int (if x ≤ y then x else y))) ∧
    Native.call defs .max [.val (.int x), .val (.int y)] = .ok (.val (.int (if x ≥ y then x else y))) :=
  ⟨rfl, rfl⟩

/-- int op float: the int operand is converted to float first (for every binary operator). -/
theorem int_float_coercion (defs : ListDefs) (op : Op) (x : Int) (f : Float32) :
    Native.call defs op [.val (.int x), .val (.float f)]
      = Native.call defs op [.val (.float (F32.ofI32 x)), .val (.float f)] ∧
    Native.call defs op [.val (.float f), .val (.int x)]
      = Native.call defs op [.val (.float f), .val (.float (F32.ofI32 x))] := by
  cases op <;> exact ⟨rfl, rfl⟩

/-- bool op int: `true` is 1 and `false` is 0. -/
theorem bool_int_coercion (defs : ListDefs) (op : Op) (b : Bool) (y : Int) :
    Native.call defs op [.val (.bool b), .val (.int y)]
      = Native.call defs op [.val (.int (if b then 1 else 0)), .val (.int y)] := by
  cases op <;> rfl

/-! ### strings -/

theorem string_concat (defs : ListDefs) (a b : String) :
    Native.call defs .add [.val (.str a), .val (.str b)] = .ok (.val (.str (a ++ b))) := rfl

/-- scalar + string prints the scalar and concatenates. -/
theorem scalar_string_concat (defs : ListDefs) (x : Int) (f : Float32) (s : String) :
    Native.call defs .add [.val (.int x), .val (.str s)] = .ok (.val (.str (intToString x ++ s))) ∧
    Native.call defs .add [.val (.str s), .val (.int x)] = .ok (.val (.str (s ++ intToString x))) ∧
    Native.call defs .add [.val (.float f), .val (.str s)] = .ok (.val (.str (F32.display f ++ s))) :=
  ⟨rfl, rfl, rfl⟩

theorem string_has (defs : ListDefs) (a b : String) :
    Native.call defs .has [.val (.str a), .val (.str b)] = .ok (.val (.bool (strContains a b))) ∧
    Native.call defs .hasnt [.val (.str a), .val (.str b)] = .ok (.val (.bool (!strContains a b))) :=
  ⟨rfl, rfl⟩

/-! ### lists as sets -/

/-- Union: an item is in `a + b` with the value it has in `b`, else with the value it has in `a`. -/
theorem list_union (a b : InkList) (hb : KeysNodup b.items) (k : ListItem) :
    lookup (a.union b).items k = match lookup b.items k with
      | some v => some v
      | none => lookup a.items k := lookup_union hb k

/-- Difference: `a - b` keeps exactly the items of `a` that are not in `b`. -/
theorem list_difference (a b : InkList) (k : ListItem) :
    lookup (a.without b).items k = if (lookup b.items k).isSome then none else lookup a.items k :=
  lookup_without a b k

/-- Intersection: `a ^ b` keeps exactly the items of `a` that are in `b`. -/
theorem list_intersection (a b : InkList) (k : ListItem) :
    lookup (a.intersect b).items k = if (lookup b.items k).isSome then lookup a.items k else none :=
  lookup_intersect' a b k

/-- `a ? b`: both non-empty and every item of `b` is in `a`. -/
theorem list_has (a b : InkList) :
    a.contains b = true ↔ (b.items ≠ [] ∧ a.items ≠ [] ∧ ∀ kv ∈ b.items, a.containsKey kv.1 = true) := by
  unfold InkList.contains
  cases hb : b.items <;> cases ha : a.items <;> simp [List.all_eq_true]

theorem list_count (defs : ListDefs) (l : InkList) :
    Native.call defs .count [.val (.list l)] = .ok (.val (.int l.items.length)) := rfl

/-- LIST_MAX / LIST_MIN pick the extremum of the total order (value, origin name, item name). -/
theorem list_max_is_greatest (l : InkList) (m : ListItem × Int) (h : l.maxItem = some m) :
    m ∈ l.items ∧ ∀ x ∈ l.items, itemLt m x = false := ⟨maxItem_mem h, maxItem_ge h⟩

theorem list_min_is_least (l : InkList) (m : ListItem × Int) (h : l.minItem = some m) :
    m ∈ l.items ∧ ∀ x ∈ l.items, itemLt x m = false := ⟨minItem_mem h, minItem_le h⟩

/-- The printed form lists the items in the total order, whatever order they are stored in. -/
theorem list_display_sorted (l : InkList) :
    l.ordered.Perm l.items ∧ l.ordered.Pairwise (fun x y => itemLt y x = false) :=
  ⟨ordered_perm_self l, ordered_sorted l⟩

/-! ### independence of the order items were added -/

/-- Every operator: arguments that differ only in item / origin order give results that differ only
    in item / origin order (and equal results when the result is not a list). -/
theorem call_order_independent {defs : ListDefs} (hd : DefsFunctional defs) (op : Op) {ps ps' : List Obj}
    (h : List.Forall₂ Obj.Equiv ps ps') (hw : ∀ p ∈ ps, ∀ v, p = .val v → v.WF)
    (hw' : ∀ p ∈ ps', ∀ v, p = .val v → v.WF) :
    Out.Equiv Obj.Equiv (Native.call defs op ps) (Native.call defs op ps') :=
  Native.call_equiv hd op h hw hw'

/-- Whole expression trees: the value (up to item order), its printed text and any fault are
    independent of the order in which the items of the variables' list values are stored. -/
theorem order_independent {defs : ListDefs} (hd : DefsFunctional defs)
    {env env' : List (String × Val)} (he : EnvEquiv env env') (hw : EnvWF env) (hw' : EnvWF env')
    {e : Expr} (hl : e.LitWF) :
    (∀ v, e.eval defs env = .ok v →
      ∃ v', e.eval defs env' = .ok v' ∧ v'.display = v.display ∧ Val.Equiv v v') ∧
    (∀ k m, e.eval defs env = .err k m → e.eval defs env' = .err k m) ∧
    (∀ s, e.eval defs env = .panic s → e.eval defs env' = .panic s) :=
  Expr.eval_order_independent hd he hw hw' hl

/-- Results stay well-formed (unique keys), so the theorem above composes along a whole story. -/
theorem eval_wellformed (defs : ListDefs) {env : List (String × Val)} (hw : EnvWF env) {e : Expr}
    (hl : e.LitWF) {v : Val} (h : e.eval defs env = .ok v) : v.WF :=
  Expr.eval_wf defs hw hl h

/-! ### non-vacuity -/

example : Native.call [] .divide [.val (.int (-7)), .val (.int 2)] = .ok (.val (.int (-3))) := by rfl
example : Native.call [] .mod [.val (.int (-7)), .val (.int 2)] = .ok (.val (.int (-1))) := by rfl
example : Native.call [] .add [.val (.bool true), .val (.int 2147483647)] = .ok (.val (.int (-2147483648))) := by
  rfl

end C07
end Ink
