/-
  Proofs/C07.lean — expressions evaluate as Ink specifies (theorems about Ink/Native.lean,
  Ink/InkList.lean and Ink/Expr.lean).
-/
import Ink.Expr

namespace Ink
namespace C07

/-- Integer addition wraps to 32 bits. -/
theorem int_add (defs : ListDefs) (x y : Int) :
    Native.call defs .add [.val (.int x), .val (.int y)] = .ok (.val (.int (wrapI32 (x + y)))) := by
  rfl

end C07
end Ink
