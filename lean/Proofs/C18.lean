/-
  C18 — Reference counting frees everything exactly when the strong references are acyclic.

  * `ranked_no_leak`: if some rank strictly increases along every strong reference, then once the
    host has dropped its references every object is freed within `g.n` rounds.
  * `cycle_leaks` / `supported_stays`: a set of objects in which every member is strongly referenced
    by a member (a strong cycle, and everything it owns) is never freed, for any number of rounds.
  * `held_objects_stay`: an object the host still refers to is never freed.
  * `leak_iff_cycle`: an object leaks iff it is reachable from an object that lies on a strong cycle.
  Core Lean only.
-/
import Ink.Heap

namespace Ink
namespace C18

open Ink.Heap

/-! ## 1. Freeing is monotone -/

theorem sweep_subset {g : Graph} {ext : Nat → Nat} {alive : Nat → Bool} {x : Nat}
    (h : sweep g ext alive x = true) : alive x = true := by
  unfold sweep at h
  rw [Bool.and_eq_true] at h
  exact h.1

theorem sweeps_subset {g : Graph} {ext : Nat → Nat} :
    ∀ (k : Nat) (alive : Nat → Bool) (x : Nat), sweeps g ext k alive x = true → alive x = true := by
  intro k
  induction k with
  | zero => intro alive x h; exact h
  | succ k ih =>
    intro alive x h
    exact sweep_subset (ih (sweep g ext alive) x h)

/-- The rounds can be peeled off from the outside as well. -/
theorem sweeps_succ_outer {g : Graph} {ext : Nat → Nat} :
    ∀ (k : Nat) (alive : Nat → Bool),
      sweeps g ext (k + 1) alive = sweep g ext (sweeps g ext k alive) := by
  intro k
  induction k with
  | zero => intro alive; rfl
  | succ k ih =>
    intro alive
    show sweeps g ext (k + 1) (sweep g ext alive) = sweep g ext (sweeps g ext k (sweep g ext alive))
    exact ih (sweep g ext alive)

/-- More rounds free more: what survives `k'` rounds has survived every smaller number of rounds. -/
theorem sweeps_mono {g : Graph} {ext : Nat → Nat} {k k' : Nat} (hk : k ≤ k') (alive : Nat → Bool)
    (x : Nat) (h : sweeps g ext k' alive x = true) : sweeps g ext k alive x = true := by
  obtain ⟨d, rfl⟩ := Nat.exists_eq_add_of_le hk
  induction d with
  | zero => exact h
  | succ d ih =>
    apply ih (Nat.le_add_right k d)
    have h' : sweeps g ext (k + d + 1) alive x = true := h
    rw [sweeps_succ_outer] at h'
    exact sweep_subset h'

/-! ## The strong count -/

theorem strongCount_pos_iff {g : Graph} {alive : Nat → Bool} {ext : Nat → Nat} {x : Nat} :
    0 < strongCount g alive ext x ↔
      (∃ y, (y, x) ∈ g.edges ∧ alive y = true) ∨ 0 < ext x := by
  unfold strongCount
  constructor
  · intro h
    by_cases hx : 0 < ext x
    · exact Or.inr hx
    · left
      have hpos : 0 < (g.edges.filter (fun e => e.2 == x && alive e.1)).length := by omega
      obtain ⟨e, he⟩ := List.exists_mem_of_length_pos hpos
      rw [List.mem_filter, Bool.and_eq_true, beq_iff_eq] at he
      obtain ⟨hmem, hx2, ha⟩ := he
      refine ⟨e.1, ?_, ha⟩
      rw [← hx2]
      exact hmem
  · intro h
    rcases h with ⟨y, hy, ha⟩ | h
    · have hmem : (y, x) ∈ g.edges.filter (fun e => e.2 == x && alive e.1) := by
        rw [List.mem_filter, Bool.and_eq_true, beq_iff_eq]
        exact ⟨hy, rfl, ha⟩
      have := List.length_pos_of_mem hmem
      omega
    · omega

theorem sweep_eq_true_iff {g : Graph} {ext : Nat → Nat} {alive : Nat → Bool} {x : Nat} :
    sweep g ext alive x = true ↔
      alive x = true ∧ ((∃ y, (y, x) ∈ g.edges ∧ alive y = true) ∨ 0 < ext x) := by
  unfold sweep
  rw [Bool.and_eq_true, decide_eq_true_iff, strongCount_pos_iff]

/-! ## 3./4. What is never freed -/

/-- A set of live objects each of which is strongly referenced by a member of the set survives
    one round … -/
theorem supported_sweep {g : Graph} {ext : Nat → Nat} (S : Nat → Prop)
    (hS : ∀ x, S x → ∃ y, S y ∧ (y, x) ∈ g.edges) (alive : Nat → Bool)
    (ha : ∀ x, S x → alive x = true) : ∀ x, S x → sweep g ext alive x = true := by
  intro x hx
  rw [sweep_eq_true_iff]
  obtain ⟨y, hy, he⟩ := hS x hx
  exact ⟨ha x hx, Or.inl ⟨y, he, ha y hy⟩⟩

/-- … and so every number of rounds, whatever the outside references are. -/
theorem supported_stays {g : Graph} {ext : Nat → Nat} (S : Nat → Prop)
    (hS : ∀ x, S x → ∃ y, S y ∧ (y, x) ∈ g.edges) :
    ∀ (k : Nat) (alive : Nat → Bool), (∀ x, S x → alive x = true) →
      ∀ x, S x → sweeps g ext k alive x = true := by
  intro k
  induction k with
  | zero => intro alive ha x hx; exact ha x hx
  | succ k ih =>
    intro alive ha x hx
    exact ih (sweep g ext alive) (supported_sweep S hS alive ha) x hx

/-- A strong cycle (more generally: a list of objects each strongly referenced from the list) that
    is alive stays alive for every number of rounds and every `ext`. -/
theorem cycle_stays {g : Graph} {ext : Nat → Nat} (c : List Nat)
    (hc : ∀ x ∈ c, ∃ y ∈ c, (y, x) ∈ g.edges) (k : Nat) (alive : Nat → Bool)
    (ha : ∀ x ∈ c, alive x = true) : ∀ x ∈ c, sweeps g ext k alive x = true :=
  supported_stays (fun x => x ∈ c) hc k alive ha

/-- After the host has dropped everything: for every number of rounds. -/
theorem cycle_survives (g : Graph) (c : List Nat) (hn : ∀ x ∈ c, x < g.n)
    (hc : ∀ x ∈ c, ∃ y ∈ c, (y, x) ∈ g.edges) (k : Nat) :
    ∀ x ∈ c, sweeps g (fun _ => 0) k (allAlive g) x = true :=
  cycle_stays c hc k (allAlive g) (fun x hx => decide_eq_true (hn x hx))

/-- A strong cycle keeps itself alive for ever.  (Non-emptiness of `c` is not needed.) -/
theorem cycle_leaks (g : Graph) (c : List Nat) (hn : ∀ x ∈ c, x < g.n)
    (hc : ∀ x ∈ c, ∃ y ∈ c, (y, x) ∈ g.edges) : ∀ x ∈ c, leaked g x = true :=
  cycle_survives g c hn hc g.n

/-- With an outside reference an object is never freed. -/
theorem held_objects_stay {g : Graph} {ext : Nat → Nat} {x : Nat} (hext : 0 < ext x) :
    ∀ (k : Nat) (alive : Nat → Bool), alive x = true → sweeps g ext k alive x = true := by
  intro k
  induction k with
  | zero => intro alive ha; exact ha
  | succ k ih =>
    intro alive ha
    apply ih (sweep g ext alive)
    rw [sweep_eq_true_iff]
    exact ⟨ha, Or.inr hext⟩

/-! ## 2. No leak without cycles -/

/-- Pigeonhole: distinct numbers below `n` are at most `n`. -/
theorem nodup_bound : ∀ (n : Nat) (l : List Nat), l.Nodup → (∀ x ∈ l, x < n) → l.length ≤ n := by
  intro n
  induction n with
  | zero =>
    intro l _ hb
    cases l with
    | nil => exact Nat.le_refl 0
    | cons a t => exact absurd (hb a (List.mem_cons_self)) (Nat.not_lt_zero a)
  | succ n ih =>
    intro l hnd hb
    have hnd' : (l.erase n).Nodup := hnd.erase n
    have hb' : ∀ x ∈ l.erase n, x < n := by
      intro x hx
      rw [hnd.mem_erase_iff] at hx
      have := hb x hx.2
      have := hx.1
      omega
    have := ih (l.erase n) hnd' hb'
    rw [List.length_erase] at this
    split at this <;> omega

/-- What has survived a round has a live strong owner from before that round. -/
theorem alive_has_owner {g : Graph} {k : Nat} {alive : Nat → Bool} {x : Nat}
    (h : sweeps g (fun _ => 0) (k + 1) alive x = true) :
    ∃ y, (y, x) ∈ g.edges ∧ sweeps g (fun _ => 0) k alive y = true := by
  rw [sweeps_succ_outer, sweep_eq_true_iff] at h
  rcases h.2 with h | h
  · exact h
  · exact absurd h (Nat.lt_irrefl 0)

/-- What survives `k` rounds sits on top of a chain of `k` owners of strictly decreasing rank. -/
theorem alive_chain (g : Graph) (rank : Nat → Nat) (h : Ranked g rank) :
    ∀ (k : Nat) (x : Nat), sweeps g (fun _ => 0) k (allAlive g) x = true →
      ∃ l : List Nat, l.length = k ∧ (∀ y ∈ l, y < g.n ∧ rank y < rank x)
        ∧ l.Pairwise (fun a b => rank b < rank a) := by
  intro k
  induction k with
  | zero => intro x _; exact ⟨[], rfl, fun y hy => absurd hy List.not_mem_nil, List.Pairwise.nil⟩
  | succ k ih =>
    intro x hx
    obtain ⟨y, he, hy⟩ := alive_has_owner hx
    obtain ⟨l, hlen, hl, hp⟩ := ih y hy
    have hr := h (y, x) he
    refine ⟨y :: l, by simp only [List.length_cons, hlen], ?_, ?_⟩
    · intro z hz
      rcases List.mem_cons.1 hz with rfl | hz
      · exact ⟨hr.1, hr.2.2⟩
      · exact ⟨(hl z hz).1, Nat.lt_trans (hl z hz).2 hr.2.2⟩
    · exact List.Pairwise.cons (fun z hz => (hl z hz).2) hp

/-- In a ranked graph nothing survives `g.n` rounds. -/
theorem ranked_rounds (g : Graph) (rank : Nat → Nat) (h : Ranked g rank) (k : Nat) (x : Nat)
    (hx : sweeps g (fun _ => 0) k (allAlive g) x = true) : k < g.n := by
  obtain ⟨l, hlen, hl, hp⟩ := alive_chain g rank h k x hx
  have hxn : x < g.n := of_decide_eq_true (sweeps_subset k (allAlive g) x hx)
  have hnd : (x :: l).Nodup := by
    refine List.Pairwise.cons ?_ (hp.imp ?_)
    · intro y hy hxy
      have := (hl y hy).2
      rw [hxy] at this
      exact Nat.lt_irrefl _ this
    · intro a b hab heq
      rw [heq] at hab
      exact Nat.lt_irrefl _ hab
  have hb : ∀ y ∈ x :: l, y < g.n := by
    intro y hy
    rcases List.mem_cons.1 hy with rfl | hy
    · exact hxn
    · exact (hl y hy).1
  have := nodup_bound g.n (x :: l) hnd hb
  rw [List.length_cons, hlen] at this
  exact this

/-- THE MAIN THEOREM: acyclic strong references never leak. -/
theorem ranked_no_leak (g : Graph) (rank : Nat → Nat) (h : Ranked g rank) :
    ∀ x, leaked g x = false := by
  intro x
  cases hl : leaked g x with
  | false => rfl
  | true => exact absurd (ranked_rounds g rank h g.n x hl) (Nat.lt_irrefl _)

/-- Nor does any larger number of rounds bring anything back. -/
theorem ranked_no_leak_ge (g : Graph) (rank : Nat → Nat) (h : Ranked g rank) (k : Nat)
    (hk : g.n ≤ k) : ∀ x, sweeps g (fun _ => 0) k (allAlive g) x = false := by
  intro x
  cases hl : sweeps g (fun _ => 0) k (allAlive g) x with
  | false => rfl
  | true => exact absurd (ranked_rounds g rank h k x hl) (by omega)

/-! ## 5. Leaked = reachable from a strong cycle -/

/-- A strong reference between two allocated objects. -/
def Edge (g : Graph) (a b : Nat) : Prop := a < g.n ∧ b < g.n ∧ (a, b) ∈ g.edges

/-- Reachability along strong references between allocated objects (reflexive, transitive). -/
inductive Reach (g : Graph) : Nat → Nat → Prop
  | refl (a : Nat) : Reach g a a
  | step {a b c : Nat} : Reach g a b → Edge g b c → Reach g a c

/-- `y` lies on a strong cycle: it reaches one of its own owners. -/
def OnCycle (g : Graph) (y : Nat) : Prop := ∃ z, Reach g y z ∧ Edge g z y

theorem Reach.head {g : Graph} {a b c : Nat} (e : Edge g a b) (r : Reach g b c) : Reach g a c := by
  induction r with
  | refl => exact Reach.step (Reach.refl a) e
  | step _ e' ih => exact Reach.step ih e'

theorem Reach.lt {g : Graph} {a b : Nat} (r : Reach g a b) (ha : a < g.n) : b < g.n := by
  cases r with
  | refl => exact ha
  | step _ e => exact e.2.1

/-- Walk back along live owners; within `g.n` steps the walk meets itself. -/
theorem walk (g : Graph) (x : Nat) :
    ∀ (k : Nat) (h : Nat) (t : List Nat), (h :: t).Nodup → (∀ z ∈ h :: t, z < g.n) →
      (∀ z ∈ h :: t, Reach g h z) → x ∈ h :: t →
      sweeps g (fun _ => 0) k (allAlive g) h = true → k + t.length = g.n →
      ∃ y, OnCycle g y ∧ Reach g y x := by
  intro k
  induction k with
  | zero =>
    intro h t hnd hb _ _ _ hlen
    have := nodup_bound g.n (h :: t) hnd hb
    rw [List.length_cons] at this
    omega
  | succ k ih =>
    intro h t hnd hb hr hx hal hlen
    obtain ⟨y, he, hy⟩ := alive_has_owner hal
    have hyn : y < g.n := of_decide_eq_true (sweeps_subset k (allAlive g) y hy)
    have hedge : Edge g y h := ⟨hyn, hb h List.mem_cons_self, he⟩
    by_cases hmem : y ∈ h :: t
    · exact ⟨h, ⟨y, hr y hmem, hedge⟩, hr x hx⟩
    · apply ih y (h :: t)
      · exact List.Pairwise.cons (fun z hz hyz => hmem (hyz ▸ hz)) hnd
      · intro z hz
        rcases List.mem_cons.1 hz with rfl | hz
        · exact hyn
        · exact hb z hz
      · intro z hz
        rcases List.mem_cons.1 hz with rfl | hz
        · exact Reach.refl _
        · exact Reach.head hedge (hr z hz)
      · exact List.mem_cons_of_mem y hx
      · exact hy
      · rw [List.length_cons]; omega

/-- What a strong cycle reaches survives every number of rounds. -/
theorem cycle_reach_survives (g : Graph) (y x : Nat) (hy : OnCycle g y) (hx : Reach g y x)
    (k : Nat) : sweeps g (fun _ => 0) k (allAlive g) x = true := by
  obtain ⟨z, hz, ez⟩ := hy
  apply supported_stays (fun w => Reach g y w) ?_ k (allAlive g) ?_ x hx
  · intro w hw
    cases hw with
    | refl => exact ⟨z, hz, ez.2.2⟩
    | step r e => exact ⟨_, r, e.2.2⟩
  · intro w hw
    exact decide_eq_true (hw.lt ez.2.1)

/-- An object leaks iff it is reachable from an object on a strong cycle. -/
theorem leak_iff_cycle (g : Graph) (x : Nat) :
    leaked g x = true ↔ ∃ y, OnCycle g y ∧ Reach g y x := by
  constructor
  · intro h
    have hxn : x < g.n := of_decide_eq_true (sweeps_subset g.n (allAlive g) x h)
    apply walk g x g.n x [] (List.pairwise_singleton _ _)
    · intro z hz
      rw [List.mem_singleton] at hz
      rw [hz]; exact hxn
    · intro z hz
      rw [List.mem_singleton] at hz
      rw [hz]; exact Reach.refl x
    · exact List.mem_singleton.2 rfl
    · exact h
    · rfl
  · intro ⟨y, hy, hx⟩
    exact cycle_reach_survives g y x hy hx g.n

/-- The leaked set is stable: no number of rounds beyond `g.n` frees any more of it. -/
theorem leaked_stable (g : Graph) (x : Nat) (h : leaked g x = true) (k : Nat) :
    sweeps g (fun _ => 0) k (allAlive g) x = true := by
  obtain ⟨y, hy, hx⟩ := (leak_iff_cycle g x).1 h
  exact cycle_reach_survives g y x hy hx k

/-- A ranked graph has no strong cycle. -/
theorem ranked_no_cycle (g : Graph) (rank : Nat → Nat) (h : Ranked g rank) (y : Nat) :
    ¬ OnCycle g y := by
  intro hy
  have := (leak_iff_cycle g y).2 ⟨y, hy, Reach.refl y⟩
  rw [ranked_no_leak g rank h y] at this
  exact Bool.noConfusion this

/-! ## 6. Non-vacuity -/

def tree : Graph := ⟨4, [(0, 1), (0, 2), (2, 3)]⟩
def loop0 : Graph := ⟨4, [(0, 1), (0, 2), (2, 3), (3, 0)]⟩
def loop2 : Graph := ⟨4, [(0, 1), (0, 2), (2, 3), (3, 2)]⟩
def chain3 : Graph := ⟨3, [(0, 1), (1, 2)]⟩

/-- The tree is ranked by the index … -/
example : Ranked tree id := by unfold Ranked tree; decide
/-- … and leaks nothing (directly, and by the theorem). -/
example : (List.range 4).map (leaked tree) = [false, false, false, false] := by decide
example : ∀ x, leaked tree x = false := ranked_no_leak tree id (by unfold Ranked tree; decide)
/-- A back edge to the root leaks all four objects. -/
example : (List.range 4).map (leaked loop0) = [true, true, true, true] := by decide
example : ∀ x ∈ [0, 2, 3], leaked loop0 x = true :=
  cycle_leaks loop0 [0, 2, 3] (by decide) (by decide)
/-- A back edge `3 → 2` leaks exactly 2 and 3: the root and its other child are freed. -/
example : (List.range 4).map (leaked loop2) = [false, false, true, true] := by decide
example : ∀ x ∈ [2, 3], leaked loop2 x = true := cycle_leaks loop2 [2, 3] (by decide) (by decide)
/-- Objects that were never allocated are not alive, so not leaked. -/
example : leaked loop0 4 = false := by decide
/-- `g.n` rounds are needed: a chain of three is not yet freed after two rounds. -/
example : (List.range 3).map (sweeps chain3 (fun _ => 0) 2 (allAlive chain3)) = [false, false, true] := by
  decide
example : (List.range 3).map (leaked chain3) = [false, false, false] := by decide
/-- The host's reference keeps the root of the tree (and so the whole tree) alive. -/
example : (List.range 4).map (sweeps tree (fun x => if x = 0 then 1 else 0) 10 (allAlive tree))
    = [true, true, true, true] := by decide
/-- Without a rank hypothesis the no-leak statement is false. -/
example : ¬ ∀ x, leaked loop2 x = false := fun h => absurd (h 2) (by decide)

end C18
end Ink
