import Ink.Native
import Ink.Save
import Ink.State
import Generated.Tables

/-!
# The model's tables are the tables of the Rust source

`Generated/Tables.lean` is rewritten from `/repo`'s Rust source on every run (translators/tables.py): the
variants of `Op`, `CommandType`, `PushPopType` and `ValueType` in declaration order, the JSON token of every
native function and control command (as read by `new_from_name` AND as written by `get_name`), the number of
parameters of every native function, the save code of every push/pop type.

The theorems below say that the hand-written tables of the model (Ink/Value.lean, Ink/Native.lean, Ink/Save.lean)
are exactly those rows.  They are closed facts, checked by the kernel each time the generated file changes: a
renamed token, a swapped arity, a reordered `ValueType` in the Rust source breaks them.  Everything proved about
the codec (C02), the operators (C07) and the loaders (C14, C15) rests on these tables.
-/

namespace Ink.Tables

/-- the model's native-function table, in the model's declaration order -/
def modelOpRows : List (String × String × Nat) :=
  Op.allOps.map (fun o => (Native.opVariantName o, o.name, o.arity))

/-- the model's control-command table -/
def modelCmdRows : List (String × String) :=
  Cmd.all.map (fun c => (Native.cmdVariantName c, c.name))

def modelPushPopRows : List (String × Int) :=
  [("Tunnel", Save.pushPopCode .tunnel), ("Function", Save.pushPopCode .function),
   ("FunctionEvaluationFromGame", Save.pushPopCode .functionEvaluationFromGame)]

/-- one representative of every value kind with its cast ordinal -/
def modelValueTypeRows : List (String × Nat) :=
  [("Bool", (Val.bool false).castOrdinal), ("Int", (Val.int 0).castOrdinal),
   ("Float", (Val.float 0).castOrdinal), ("List", (Val.list InkList.empty).castOrdinal),
   ("String", (Val.str "").castOrdinal), ("DivertTarget", (Val.dtarget default).castOrdinal),
   ("VariablePointer", (Val.varptr "" 0).castOrdinal)]

/-- every operator is in `allOps` (so the rows cover the whole type) -/
theorem allOps_complete (o : Op) : o ∈ Op.allOps := by cases o <;> simp [Op.allOps]

/-- every command is in `Cmd.all` -/
theorem allCmds_complete (c : Cmd) : c ∈ Cmd.all := by cases c <;> simp [Cmd.all]

/-- Native functions: variant names, JSON tokens and arities of the model = those of native_function_call.rs. -/
theorem op_table_matches : modelOpRows = Generated.opRows := by
  simp [modelOpRows, Generated.opRows, Op.allOps, Native.opVariantName, Op.name, Op.arity]

/-- Control commands: variant names and JSON tokens of the model = those of control_command.rs. -/
theorem cmd_table_matches : modelCmdRows = Generated.cmdRows := by
  simp [modelCmdRows, Generated.cmdRows, Cmd.all, Native.cmdVariantName, Cmd.name]

/-- Push/pop save codes of the model = `PushPopType::from_value`. -/
theorem pushPop_table_matches :
    modelPushPopRows = Generated.pushPopRows.map (fun r => (r.1, (r.2 : Int))) := by
  simp [modelPushPopRows, Generated.pushPopRows, Save.pushPopCode]

/-- The cast ordinal of the model = declaration order of `ValueType`. -/
theorem valueType_table_matches :
    modelValueTypeRows = Generated.valueTypeRows.zipIdx := by
  simp [modelValueTypeRows, Generated.valueTypeRows, Val.castOrdinal, List.zipIdx]

/-- Consequence used by the loaders: a token of the Rust table reads as the operator of the same row. -/
theorem op_ofName_row (o : Op) : Op.ofName o.name = some o := by
  cases o <;> simp [Op.ofName, Op.allOps, Op.name, List.find?]

/-- the tokens of the native functions are pairwise different (so `new_from_name`'s match order is irrelevant) -/
theorem op_names_nodup : (Generated.opRows.map (fun r => r.2.1)).Nodup := by
  simp [Generated.opRows]

/-- the tokens of the control commands are pairwise different -/
theorem cmd_names_nodup : (Generated.cmdRows.map (fun r => r.2)).Nodup := by
  simp [Generated.cmdRows]

/-- only `^` is a token of both tables' namespace clash handled by the loader (`L^` in saves): no native token is a
command token -/
theorem op_cmd_disjoint :
    ∀ n ∈ Generated.opRows.map (fun r => r.2.1), n ∉ Generated.cmdRows.map (fun r => r.2) := by
  simp [Generated.opRows, Generated.cmdRows]

/-! ### scalar constants -/

/-- the named numeric constants of the model, under the names of the Rust constants they copy -/
def modelNumConsts : List (String × Int) :=
  [("INK_SAVE_STATE_VERSION", Save.inkSaveStateVersion), ("MIN_COMPATIBLE_LOAD_VERSION", Save.minCompatibleLoadVersion),
   ("INK_VERSION_CURRENT", Load.inkVersionCurrent), ("INK_VERSION_MINIMUM_COMPATIBLE", Load.inkVersionMinimum),
   ("MAX_POINTER_CHAIN", (Core.maxPointerChain : Nat))]

def modelStrConsts : List (String × String) :=
  [("DEFAULT_FLOW_NAME", defaultFlowName), ("PARENT_ID", String.ofList Comp.parentId)]

/-- every named numeric constant of the model has the value the Rust source gives it -/
theorem num_consts_match :
    ∀ r ∈ modelNumConsts, (Generated.numConsts.lookup r.1).map Int.ofNat = some r.2 := by
  simp [modelNumConsts, Generated.numConsts, List.lookup, Save.inkSaveStateVersion, Save.minCompatibleLoadVersion,
    Load.inkVersionCurrent, Load.inkVersionMinimum, Core.maxPointerChain]

theorem str_consts_match : modelStrConsts = Generated.strConsts := by
  simp [modelStrConsts, Generated.strConsts, defaultFlowName, Comp.parentId]

/-- the bits the model tests for "visits counted / turns counted / count at start only" are the Rust flag values -/
theorem count_flags_match :
    (Generated.numConsts.lookup "COUNTFLAGS_VISITS", Generated.numConsts.lookup "COUNTFLAGS_TURNS",
     Generated.numConsts.lookup "COUNTFLAGS_COUNTSTARTONLY") = (some (2 ^ 0), some (2 ^ 1), some (2 ^ 2)) := by
  simp [Generated.numConsts, List.lookup]

end Ink.Tables
