import Ink.Cli
namespace Ink
namespace C20
end C20
end Ink
