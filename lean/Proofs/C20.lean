import Ink.Cli
import Proofs.C14
namespace Ink
namespace C20
open Ink Json

/-! ### 1. the tool's string escaping is inverted by the parser -/

theorem parse_escChar (fuel : Nat) (c : Char) (tail acc : List Char) :
    Json.parseStrBody (fuel + 1) (Cli.escChar c ++ tail) acc =
      Json.parseStrBody fuel tail (c :: acc) := by
  unfold Cli.escChar
  split
  · rename_i h; subst h; exact Json.parseStrBody.eq_5 ..
  split
  · rename_i h; subst h; exact Json.parseStrBody.eq_6 ..
  split
  · rename_i h; subst h; exact Json.parseStrBody.eq_10 ..
  split
  · rename_i h; subst h; exact Json.parseStrBody.eq_11 ..
  split
  · rename_i h; subst h; exact Json.parseStrBody.eq_12 ..
  split
  · rename_i h
    have h1 : c.toNat / 16 < 16 := by omega
    have h2 : c.toNat % 16 < 16 := by omega
    simp only [List.cons_append, List.nil_append]
    rw [Json.parseStrBody.eq_4, C14.hexDigit_zero,
      C14.hex4_hexDigit 0 0 _ _ (by omega) (by omega) h1 h2]
    have h3 : ((0 * 16 + 0) * 16 + c.toNat / 16) * 16 + c.toNat % 16 = c.toNat := by omega
    simp only [h3, Char.ofNat_toNat]
    rw [if_neg (by omega), if_neg (by omega)]
  · rename_i hq hb _ _ _ h20
    exact C14.parse_plain fuel c tail acc hq hb h20

theorem escChar_length_pos (c : Char) : 0 < (Cli.escChar c).length := by
  unfold Cli.escChar
  repeat' split
  all_goals simp

theorem esc_cons (c : Char) (s : List Char) : Cli.esc (c :: s) = Cli.escChar c ++ Cli.esc s := by
  simp [Cli.esc]

theorem esc_roundtrip_acc (s rest acc : List Char) (fuel : Nat) (h : fuel > (Cli.esc s).length) :
    Json.parseStrBody fuel (Cli.esc s ++ '"' :: rest) acc = some (acc.reverse ++ s, rest) := by
  induction s generalizing fuel acc with
  | nil =>
    cases fuel with
    | zero => omega
    | succ f => simp [Cli.esc, Json.parseStrBody.eq_3]
  | cons c s ih =>
    have hl := escChar_length_pos c
    rw [esc_cons, List.length_append] at h
    cases fuel with
    | zero => omega
    | succ f =>
      rw [esc_cons, List.append_assoc, parse_escChar, ih _ _ (by omega)]
      simp

/-- 1. Every string — control characters, quotes, backslashes, any Unicode — is read back from its
    escaped form. -/
theorem esc_roundtrip (s rest : List Char) (fuel : Nat) (h : fuel > (Cli.esc s).length) :
    Json.parseStrBody fuel (Cli.esc s ++ '"' :: rest) [] = some (s, rest) := by
  simpa using esc_roundtrip_acc s rest [] fuel h

/-! ### 2. compositional lemmas about the parser -/

theorem skipWs_space (inp : List Char) : skipWs (' ' :: inp) = skipWs inp := by
  simp [skipWs, isWs]

theorem parseValue_space (fuel : Nat) (inp : List Char) :
    parseValue fuel (' ' :: inp) = parseValue fuel inp := by
  cases fuel with
  | zero => simp [parseValue]
  | succ f => rw [parseValue, parseValue, skipWs_space]

theorem parseMembers_space (fuel : Nat) (inp : List Char) (acc) :
    parseMembers fuel (' ' :: inp) acc = parseMembers fuel inp acc := by
  cases fuel with
  | zero => simp [parseMembers]
  | succ f => rw [parseMembers, parseMembers, skipWs_space]

theorem skipWs_quote (r : List Char) : skipWs ('"' :: r) = '"' :: r := by
  simp [skipWs, isWs]

theorem parseValue_str (f : Nat) (s rest : List Char) :
    parseValue (f + 1) ('"' :: Cli.esc s ++ '"' :: rest) = some (.str (String.ofList s), rest) := by
  rw [parseValue]
  simp only [List.cons_append, skipWs_quote]
  rw [esc_roundtrip s rest _ (by simp; omega)]


/-! numbers: `toString n` for a natural number -/

theorem isDigit_iff (c : Char) : Json.isDigit c = c.isDigit := by
  simp only [Json.isDigit, Char.isDigit, C14.char_le_iff]
  have h0 : '0'.toNat = 48 := by decide
  have h9 : '9'.toNat = 57 := by decide
  rw [h0, h9]
  simp only [ge_iff_le, UInt32.le_iff_toNat_le]
  rfl

theorem takeDigits_append (ds rest : List Char) (h : ∀ c ∈ ds, Json.isDigit c = true)
    (hr : ∀ c r, rest = c :: r → Json.isDigit c = false) :
    takeDigits (ds ++ rest) = (ds, rest) := by
  induction ds with
  | nil =>
    cases rest with
    | nil => rfl
    | cons c r => simp [takeDigits, hr c r rfl]
  | cons d ds ih =>
    have hd := h d (by simp)
    simp only [List.cons_append, takeDigits, hd, if_true]
    rw [ih (fun c hc => h c (by simp [hc]))]

theorem digitsToNat_eq (ds : List Char) : Json.digitsToNat ds = Nat.ofDigitChars 10 ds 0 := by
  unfold Json.digitsToNat Nat.ofDigitChars
  congr 1
  funext n c
  omega

theorem head_toDigits (n : Nat) (hn : 0 < n) : (Nat.toDigits 10 n).head? ≠ some '0' := by
  induction n using Nat.strongRecOn with
  | _ n ih =>
    rw [Nat.toDigits_eq_if (by omega)]
    split
    · rename_i h
      have : ∀ m, m < 10 → 0 < m → [Nat.digitChar m].head? ≠ some '0' := by decide
      exact this n h hn
    · rename_i h
      have hne : Nat.toDigits 10 (n / 10) ≠ [] := Nat.toDigits_ne_nil
      have := ih (n / 10) (by omega) (by omega)
      cases hh : Nat.toDigits 10 (n / 10) with
      | nil => exact (hne hh).elim
      | cons x y => rw [hh] at this; exact this

theorem parseNumber_nat (n : Nat) (rest : List Char) :
    parseNumber (Nat.toDigits 10 n ++ '}' :: rest) = some (.num n, '}' :: rest) := by
  have hdig : ∀ c ∈ Nat.toDigits 10 n, Json.isDigit c = true := fun c hc => by
    rw [isDigit_iff]; exact Nat.isDigit_of_mem_toDigits (by omega) (by omega) hc
  have hne : Nat.toDigits 10 n ≠ [] := Nat.toDigits_ne_nil
  have htd : takeDigits (Nat.toDigits 10 n ++ '}' :: rest) = (Nat.toDigits 10 n, '}' :: rest) :=
    takeDigits_append _ _ hdig (fun c r h => by cases h; decide)
  have hval : Json.digitsToNat (Nat.toDigits 10 n) = n := by
    rw [digitsToNat_eq]; exact Nat.ofDigitChars_ten_toDigits
  have hlead : ¬ ((Nat.toDigits 10 n).length > 1 ∧ (Nat.toDigits 10 n).head? = some '0') := by
    intro ⟨h1, h2⟩
    rcases Nat.eq_zero_or_pos n with h0 | hp
    · subst h0; simp at h1
    · exact head_toDigits n hp h2
  obtain ⟨c, t, hct⟩ : ∃ c t, Nat.toDigits 10 n = c :: t := by
    cases h : Nat.toDigits 10 n with
    | nil => exact (hne h).elim
    | cons c t => exact ⟨c, t, rfl⟩
  have hc : c ≠ '-' := by
    intro h
    have := hdig c (by rw [hct]; simp)
    rw [h] at this; revert this; decide
  unfold parseNumber
  rw [hct] at htd hlead hval
  simp only [hct, List.cons_append] at htd ⊢
  have hm : parseNumber.match_1 (fun _ => Bool × List Char) (c :: (t ++ '}' :: rest))
      (fun r => (true, r)) (fun r => (false, r)) = (false, c :: (t ++ '}' :: rest)) := by
    split
    · rename_i h; cases h; exact (hc rfl).elim
    · rfl
  rw [hm]
  simp only [htd]
  rw [if_neg (by simp), if_neg hlead]
  simp [hval]


theorem parseValue_nat (f n : Nat) (rest : List Char) :
    parseValue (f + 1) (Nat.toDigits 10 n ++ '}' :: rest) = some (.num n, '}' :: rest) := by
  have hne : Nat.toDigits 10 n ≠ [] := Nat.toDigits_ne_nil
  obtain ⟨c, t, hct⟩ : ∃ c t, Nat.toDigits 10 n = c :: t := by
    cases h : Nat.toDigits 10 n with
    | nil => exact (hne h).elim
    | cons c t => exact ⟨c, t, rfl⟩
  have hd : Json.isDigit c = true := by
    rw [isDigit_iff]; exact Nat.isDigit_of_mem_toDigits (b := 10) (n := n) (by omega) (by omega) (by rw [hct]; simp)
  have hnum := parseNumber_nat n rest
  rw [hct] at hnum
  have hws : skipWs (c :: t ++ '}' :: rest) = c :: t ++ '}' :: rest := by
    have : isWs c = false := by
      have : ∀ c, Json.isDigit c = true → isWs c = false := by
        intro c h
        simp only [Json.isDigit, Bool.and_eq_true, decide_eq_true_eq, C14.char_le_iff] at h
        have h0 : '0'.toNat = 48 := by decide
        rw [h0] at h
        simp only [isWs, Bool.or_eq_false_iff, decide_eq_false_iff_not]
        refine ⟨⟨⟨?_, ?_⟩, ?_⟩, ?_⟩ <;> (intro hc; subst hc; revert h; decide)
      exact this c hd
    simp [skipWs, this]
  rw [hct, parseValue, hws]
  simp only [List.cons_append] at hnum ⊢
  split
  case h_1 => rename_i h; cases h
  case h_2 => rename_i h; injection h with h1 _; subst h1; exact absurd hd (by decide)
  case h_3 => rename_i h; injection h with h1 _; subst h1; exact absurd hd (by decide)
  case h_4 => rename_i h; injection h with h1 _; subst h1; exact absurd hd (by decide)
  case h_5 => rename_i h; injection h with h1 _; subst h1; exact absurd hd (by decide)
  case h_6 => rename_i h; injection h with h1 _; subst h1; exact absurd hd (by decide)
  case h_7 => rename_i h; injection h with h1 _; subst h1; exact absurd hd (by decide)
  case h_8 =>
    rename_i c' r' _ _ _ _ _ _ h
    injection h with h1 h2; subst h1; subst h2
    rw [if_pos (Or.inr hd)]; exact hnum

/-! values, lists of values, objects -/

/-- `txt` is a rendering of the value `v`: it starts with `"`, `{` or `[`, and the parser reads `v`
    from it, whatever follows, with fuel at least the length of the text. -/
def Parses (txt : List Char) (v : Json) : Prop :=
  (∃ c t, txt = c :: t ∧ (c = '"' ∨ c = '{' ∨ c = '[')) ∧
  ∀ fuel rest, fuel ≥ txt.length → parseValue fuel (txt ++ rest) = some (v, rest)

/-- the text of a quoted string, as a list of characters -/
def qL (s : List Char) : List Char := '"' :: Cli.esc s ++ ['"']

theorem Parses_str (s : List Char) : Parses (qL s) (.str (String.ofList s)) := by
  refine ⟨⟨'"', _, rfl, Or.inl rfl⟩, ?_⟩
  intro fuel rest hf
  cases fuel with
  | zero => simp [qL] at hf
  | succ f =>
    have := parseValue_str f s rest
    simpa [qL] using this

/-- items separated by `", "` -/
def sepL : List (List Char) → List Char
  | [] => []
  | [a] => a
  | a :: b :: l => a ++ ',' :: ' ' :: sepL (b :: l)

theorem skipWs_head (c : Char) (t : List Char) (h : c = '"' ∨ c = '{' ∨ c = '[' ∨ c = ',' ∨ c = ']' ∨ c = '}' ∨ c = ':') :
    skipWs (c :: t) = c :: t := by
  rcases h with h | h | h | h | h | h | h <;> subst h <;> simp [skipWs, isWs]

theorem parseElems_space (fuel : Nat) (inp : List Char) (acc) :
    parseElems fuel (' ' :: inp) acc = parseElems fuel inp acc := by
  cases fuel with
  | zero => simp [parseElems]
  | succ f => rw [parseElems, parseElems, parseValue_space]

theorem parseElems_sep (ps : List (List Char × Json)) (h : ∀ p ∈ ps, Parses p.1 p.2) (hne : ps ≠ [])
    (fuel : Nat) (rest : List Char) (acc : List Json)
    (hf : fuel ≥ (sepL (ps.map Prod.fst)).length + 1) :
    parseElems fuel (sepL (ps.map Prod.fst) ++ ']' :: rest) acc =
      some (.arr (acc.reverse ++ ps.map Prod.snd), rest) := by
  induction ps generalizing fuel acc with
  | nil => exact (hne rfl).elim
  | cons p ps ih =>
    cases fuel with
    | zero => omega
    | succ f =>
      have hp := (h p (by simp)).2
      cases ps with
      | nil =>
        simp only [List.map_cons, List.map_nil, sepL] at hf ⊢
        rw [parseElems, hp f _ (by omega)]
        simp only [skipWs_head ']' rest (by simp)]
        simp
      | cons p2 ps =>
        simp only [List.map_cons, sepL, List.length_append, List.length_cons] at hf ⊢
        rw [parseElems, List.append_assoc, hp f _ (by omega)]
        simp only [List.cons_append, skipWs_head ',' _ (by simp)]
        rw [parseElems_space]
        have := ih (fun q hq => h q (by simp [hq])) (by simp) f (p.2 :: acc)
          (by simp only [List.map_cons]; omega)
        simp only [List.map_cons] at this
        rw [this]
        simp

theorem sepL_head (ps : List (List Char × Json)) (h : ∀ p ∈ ps, Parses p.1 p.2) (hne : ps ≠ []) :
    ∃ c t, sepL (ps.map Prod.fst) = c :: t ∧ (c = '"' ∨ c = '{' ∨ c = '[') := by
  cases ps with
  | nil => exact (hne rfl).elim
  | cons p ps =>
    obtain ⟨c, t, hct, hc⟩ := (h p (by simp)).1
    cases ps with
    | nil => exact ⟨c, t, by simp [sepL, hct], hc⟩
    | cons p2 ps =>
      exact ⟨c, t ++ ',' :: ' ' :: sepL ((p2 :: ps).map Prod.fst), by simp [sepL, hct], hc⟩

theorem Parses_arr (ps : List (List Char × Json)) (h : ∀ p ∈ ps, Parses p.1 p.2) :
    Parses ('[' :: sepL (ps.map Prod.fst) ++ [']']) (.arr (ps.map Prod.snd)) := by
  refine ⟨⟨'[', _, rfl, Or.inr (Or.inr rfl)⟩, ?_⟩
  intro fuel rest hf
  cases fuel with
  | zero => simp at hf
  | succ f =>
    rw [parseValue]
    simp only [List.cons_append, skipWs_head '[' _ (by simp)]
    by_cases hne : ps = []
    · subst hne
      simp [sepL, skipWs_head ']' rest (by simp)]
    · obtain ⟨c, t, hct, hc⟩ := sepL_head ps h hne
      have hel := parseElems_sep ps h hne f rest [] (by simp at hf; omega)
      simp only [List.append_assoc, List.cons_append, List.nil_append]
      rw [hct] at hel ⊢
      simp only [List.cons_append] at hel ⊢
      rw [skipWs_head c _ (by rcases hc with h | h | h <;> simp [h])]
      rcases hc with hc | hc | hc <;> subst hc <;> simpa using hel

theorem members_step (f : Nat) (k t after : List Char) (v : Json) (acc : List (String × Json))
    (hv : parseValue f (t ++ after) = some (v, after)) :
    parseMembers (f + 1) (qL k ++ (':' :: ' ' :: (t ++ after))) acc =
      match skipWs after with
      | ',' :: r4 => parseMembers f r4 ((String.ofList k, v) :: acc)
      | '}' :: r4 => some (Json.obj (dedupKeys ((String.ofList k, v) :: acc).reverse), r4)
      | _ => none := by
  rw [parseMembers]
  simp only [qL, List.cons_append, List.append_assoc, List.nil_append, skipWs_quote]
  rw [esc_roundtrip k _ _ (by simp only [List.length_append]; omega)]
  simp only [skipWs_head ':' _ (by simp)]
  rw [parseValue_space, hv]
  rfl

theorem members_more (f : Nat) (k t more : List Char) (v : Json) (acc : List (String × Json))
    (hv : parseValue f (t ++ ',' :: ' ' :: more) = some (v, ',' :: ' ' :: more)) :
    parseMembers (f + 1) (qL k ++ (':' :: ' ' :: (t ++ ',' :: ' ' :: more))) acc =
      parseMembers f more ((String.ofList k, v) :: acc) := by
  rw [members_step f k t _ v acc hv, skipWs_head ',' _ (by simp)]
  simp only [parseMembers_space]

theorem members_last (f : Nat) (k t rest : List Char) (v : Json) (acc : List (String × Json))
    (hv : parseValue f (t ++ '}' :: rest) = some (v, '}' :: rest)) :
    parseMembers (f + 1) (qL k ++ (':' :: ' ' :: (t ++ '}' :: rest))) acc =
      some (Json.obj (dedupKeys ((String.ofList k, v) :: acc).reverse), rest) := by
  rw [members_step f k t _ v acc hv, skipWs_head '}' _ (by simp)]
  simp

theorem qL_length (k : List Char) : (qL k).length = (Cli.esc k).length + 2 := by simp [qL]

/-- `{"k": value}` -/
theorem Parses_obj1 (k t : List Char) (v : Json) (h : Parses t v) :
    Parses ('{' :: (qL k ++ (':' :: ' ' :: (t ++ ['}'])))) (.obj [(String.ofList k, v)]) := by
  refine ⟨⟨'{', _, rfl, Or.inr (Or.inl rfl)⟩, ?_⟩
  intro fuel rest hf
  simp only [List.length_cons, List.length_append, qL_length, List.length_nil] at hf
  obtain ⟨f, rfl⟩ : ∃ f, fuel = f + 2 := ⟨fuel - 2, by omega⟩
  rw [parseValue]
  simp only [List.cons_append, List.append_assoc, List.nil_append, skipWs_head '{' _ (by simp)]
  have := members_last f k t rest v [] (h.2 f _ (by omega))
  simp only [qL, List.cons_append, List.append_assoc, List.nil_append, skipWs_quote] at this ⊢
  rw [this]
  simp [dedupKeys, insertKey]


theorem Parses_list {α : Type} (xs : List α) (f : α → List Char) (g : α → Json)
    (h : ∀ x ∈ xs, Parses (f x) (g x)) :
    Parses ('[' :: sepL (xs.map f) ++ [']']) (.arr (xs.map g)) := by
  have := Parses_arr (xs.map (fun x => (f x, g x))) (by
    intro p hp
    obtain ⟨x, hx, rfl⟩ := List.mem_map.1 hp
    exact h x hx)
  simpa [List.map_map, Function.comp_def] using this

/-- the text of an array of strings -/
def strsL (ss : List (List Char)) : List Char := '[' :: sepL (ss.map qL) ++ [']']

theorem Parses_strs (ss : List (List Char)) :
    Parses (strsL ss) (.arr (ss.map (fun s => .str (String.ofList s)))) :=
  Parses_list ss qL _ (fun s _ => Parses_str s)

/-- the text of one choice -/
def choiceL (text : List Char) (tags : List (List Char)) : List Char :=
  if tags.isEmpty then '{' :: (qL "text".toList ++ (':' :: ' ' :: (qL text ++ ['}'])))
  else '{' :: (qL "text".toList ++ (':' :: ' ' :: (qL text ++ ',' :: ' ' ::
    (qL "tags".toList ++ (':' :: ' ' :: (strsL tags ++ ',' :: ' ' ::
      (qL "tag_count".toList ++ (':' :: ' ' :: (Nat.toDigits 10 tags.length ++ ['}'])))))))))

/-- the value of one choice -/
def choiceJson (c : String × List String) : Json :=
  if c.2.isEmpty then .obj [("text", .str c.1)]
  else .obj [("text", .str c.1), ("tags", .arr (c.2.map .str)), ("tag_count", .num c.2.length)]

theorem Parses_choice (text : String) (tags : List String) :
    Parses (choiceL text.toList (tags.map String.toList)) (choiceJson (text, tags)) := by
  unfold choiceL choiceJson
  by_cases he : tags = []
  · subst he
    simp only [List.map_nil, List.isEmpty_nil, if_true]
    have := Parses_obj1 "text".toList _ _ (Parses_str text.toList)
    simpa [String.ofList_toList] using this
  · have he' : (tags.map String.toList).isEmpty = false := by
      cases tags with
      | nil => exact (he rfl).elim
      | cons a b => rfl
    have he'' : tags.isEmpty = false := by
      cases tags with
      | nil => exact (he rfl).elim
      | cons a b => rfl
    simp only [he', he'', Bool.false_eq_true, if_false]
    refine ⟨⟨'{', _, rfl, Or.inr (Or.inl rfl)⟩, ?_⟩
    intro fuel rest hf
    simp only [List.length_cons, List.length_append, List.length_nil] at hf
    obtain ⟨f, rfl⟩ : ∃ f, fuel = f + 5 := ⟨fuel - 5, by omega⟩
    rw [parseValue]
    simp only [List.cons_append, List.append_assoc, List.nil_append, skipWs_head '{' _ (by simp)]
    have h1 := (Parses_str text.toList).2 (f + 3)
    have h2 := (Parses_strs (tags.map String.toList)).2 (f + 2)
    have h3 := parseValue_nat f (tags.map String.toList).length rest
    have m3 := members_last (f + 1) "tag_count".toList _ rest _
      [(String.ofList "tags".toList, Json.arr ((tags.map String.toList).map (fun s => .str (String.ofList s)))),
       (String.ofList "text".toList, .str (String.ofList text.toList))] h3
    have m2 := members_more (f + 2) "tags".toList (strsL (tags.map String.toList))
      (qL "tag_count".toList ++ (':' :: ' ' :: (Nat.toDigits 10 (tags.map String.toList).length ++ '}' :: rest)))
      _ [(String.ofList "text".toList, .str (String.ofList text.toList))] (h2 _ (by omega))
    have m1 := members_more (f + 3) "text".toList (qL text.toList)
      (qL "tags".toList ++ (':' :: ' ' :: (strsL (tags.map String.toList) ++ ',' :: ' ' ::
        (qL "tag_count".toList ++ (':' :: ' ' :: (Nat.toDigits 10 (tags.map String.toList).length ++ '}' :: rest))))))
      _ [] (h1 _ (by omega))
    rw [m2, m3] at m1
    have hq : ∀ r, skipWs (qL "text".toList ++ r) = qL "text".toList ++ r := by
      intro r; simp only [qL, List.cons_append, skipWs_quote]
    rw [hq]
    have hq2 : ∀ r, ∃ r', qL "text".toList ++ r = '"' :: r' := fun r => ⟨_, by simp only [qL, List.cons_append]; rfl⟩
    obtain ⟨r', hr'⟩ := hq2 (':' :: ' ' :: (qL text.toList ++ ',' :: ' ' :: (qL "tags".toList ++ ':' :: ' ' :: (strsL (List.map String.toList tags) ++ ',' :: ' ' :: (qL "tag_count".toList ++ ':' :: ' ' :: (Nat.toDigits 10 (List.map String.toList tags).length ++ '}' :: rest))))))
    rw [hr'] at m1 ⊢
    show parseMembers (f + 3 + 1) ('"' :: r') [] = _
    rw [m1]
    simp [dedupKeys, insertKey, String.ofList_toList]


/-! ### 3. from texts to the tool's strings, through the real `Json.parse` -/

theorem parse_of_Parses (txt : List Char) (v : Json) (h : Parses txt v) : Json.parse txt = some v := by
  have := h.2 (2 * txt.length + 2) [] (by omega)
  rw [List.append_nil] at this
  simp [Json.parse, this, skipWs]

theorem q_toList (s : String) : (Cli.q s).toList = qL s.toList := by
  simp [Cli.q, qL, String.toList_ofList]

theorem commaSep_toList (l : List String) : (Cli.commaSep l).toList = sepL (l.map String.toList) := by
  unfold Cli.commaSep
  induction l with
  | nil => simp [sepL]
  | cons a l ih =>
    cases l with
    | nil => simp [sepL]
    | cons b l =>
      rw [String.intercalate_cons_cons, String.toList_append, String.toList_append, ih]
      simp [sepL]

/-- 2. a quoted string is the JSON string with that content -/
theorem q_parses (s : String) : Json.parse (Cli.q s).toList = some (.str s) := by
  rw [q_toList]
  have := parse_of_Parses _ _ (Parses_str s.toList)
  simpa [String.ofList_toList] using this

theorem lit_text : "{\"text\": ".toList = '{' :: (qL "text".toList ++ [':', ' ']) := by decide
theorem lit_cmd : "{\"cmdOutput\": ".toList = '{' :: (qL "cmdOutput".toList ++ [':', ' ']) := by decide
theorem lit_close : "}".toList = ['}'] := by decide
theorem lit_tags : "{\"tags\": [".toList = '{' :: (qL "tags".toList ++ [':', ' ', '[']) := by decide
theorem lit_issues : "{\"issues\": [".toList = '{' :: (qL "issues".toList ++ [':', ' ', '[']) := by decide
theorem lit_choices : "{\"choices\": [".toList = '{' :: (qL "choices".toList ++ [':', ' ', '[']) := by decide
theorem lit_close2 : "]}".toList = [']', '}'] := by decide
theorem lit_tags2 : ", \"tags\": [".toList = ',' :: ' ' :: (qL "tags".toList ++ [':', ' ', '[']) := by decide
theorem lit_count : "], \"tag_count\": ".toList = ']' :: ',' :: ' ' :: (qL "tag_count".toList ++ [':', ' ']) := by decide

theorem fmtText_toList (t : String) :
    (Cli.fmtText t).toList = '{' :: (qL "text".toList ++ (':' :: ' ' :: (qL t.toList ++ ['}']))) := by
  simp only [Cli.fmtText, String.toList_append, q_toList, lit_text, lit_close, List.cons_append,
    List.append_assoc, List.nil_append]

theorem fmtText_parses (t : String) :
    Json.parse (Cli.fmtText t).toList = some (.obj [("text", .str t)]) := by
  rw [fmtText_toList]
  have := parse_of_Parses _ _ (Parses_obj1 "text".toList _ _ (Parses_str t.toList))
  simpa [String.ofList_toList] using this

theorem fmtCmdOutput_parses (m : String) :
    Json.parse (Cli.fmtCmdOutput m).toList = some (.obj [("cmdOutput", .str m)]) := by
  have h : (Cli.fmtCmdOutput m).toList =
      '{' :: (qL "cmdOutput".toList ++ (':' :: ' ' :: (qL m.toList ++ ['}']))) := by
    simp only [Cli.fmtCmdOutput, String.toList_append, q_toList, lit_cmd, lit_close, List.cons_append,
      List.append_assoc, List.nil_append]
  rw [h]
  have := parse_of_Parses _ _ (Parses_obj1 "cmdOutput".toList _ _ (Parses_str m.toList))
  simpa [String.ofList_toList] using this

theorem strs_toList (ss : List String) :
    '[' :: ((Cli.commaSep (ss.map Cli.q)).toList ++ [']']) = strsL (ss.map String.toList) := by
  simp only [commaSep_toList, strsL, List.map_map, List.cons_append]
  congr 3
  apply List.map_congr_left
  intro s _
  simp [q_toList]

theorem map_str (ss : List String) :
    (ss.map String.toList).map (fun s => Json.str (String.ofList s)) = ss.map Json.str := by
  simp [List.map_map, Function.comp_def, String.ofList_toList]

theorem fmtTags_parses (ts : List String) :
    Json.parse (Cli.fmtTags ts).toList = some (.obj [("tags", .arr (ts.map .str))]) := by
  have h : (Cli.fmtTags ts).toList =
      '{' :: (qL "tags".toList ++ (':' :: ' ' :: (strsL (ts.map String.toList) ++ ['}']))) := by
    rw [← strs_toList]
    simp only [Cli.fmtTags, String.toList_append, lit_tags, lit_close2, List.cons_append,
      List.append_assoc, List.nil_append]
  rw [h]
  have := parse_of_Parses _ _ (Parses_obj1 "tags".toList _ _ (Parses_strs (ts.map String.toList)))
  rw [map_str] at this
  simpa [String.ofList_toList] using this

theorem fmtIssues_parses (ms : List String) :
    Json.parse (Cli.fmtIssues ms).toList = some (.obj [("issues", .arr (ms.map .str))]) := by
  have h : (Cli.fmtIssues ms).toList =
      '{' :: (qL "issues".toList ++ (':' :: ' ' :: (strsL (ms.map String.toList) ++ ['}']))) := by
    rw [← strs_toList]
    simp only [Cli.fmtIssues, String.toList_append, lit_issues, lit_close2, List.cons_append,
      List.append_assoc, List.nil_append]
  rw [h]
  have := parse_of_Parses _ _ (Parses_obj1 "issues".toList _ _ (Parses_strs (ms.map String.toList)))
  rw [map_str] at this
  simpa [String.ofList_toList] using this

theorem fmtChoice_toList (text : String) (tags : List String) :
    (Cli.fmtChoice text tags).toList = choiceL text.toList (tags.map String.toList) := by
  unfold Cli.fmtChoice choiceL
  cases tags with
  | nil =>
    simp only [List.isEmpty_nil, if_true, List.map_nil, String.toList_append, q_toList, lit_text,
      lit_close, List.cons_append, List.append_assoc, List.nil_append]
  | cons a b =>
    simp only [List.isEmpty_cons, Bool.false_eq_true, if_false, List.map_cons]
    have := strs_toList (a :: b)
    simp only [List.map_cons] at this
    rw [← this]
    simp only [String.toList_append, q_toList, lit_text, lit_close, lit_tags2, lit_count,
      Nat.toString_eq_repr, Nat.toList_repr, List.cons_append, List.append_assoc, List.nil_append,
      List.length_cons, List.length_map]

theorem fmtChoices_parses (cs : List (String × List String)) :
    Json.parse (Cli.fmtChoices cs).toList = some (.obj [("choices", .arr (cs.map choiceJson))]) := by
  have h : (Cli.fmtChoices cs).toList =
      '{' :: (qL "choices".toList ++ (':' :: ' ' ::
        (('[' :: sepL (cs.map (fun c => choiceL c.1.toList (c.2.map String.toList))) ++ [']']) ++ ['}']))) := by
    simp only [Cli.fmtChoices, String.toList_append, lit_choices, lit_close2, commaSep_toList,
      List.map_map, Function.comp_def, fmtChoice_toList, List.cons_append,
      List.append_assoc, List.nil_append]
  rw [h]
  have := parse_of_Parses _ _ (Parses_obj1 "choices".toList _ _
    (Parses_list cs (fun c => choiceL c.1.toList (c.2.map String.toList)) choiceJson
      (fun c _ => Parses_choice c.1 c.2)))
  simpa [String.ofList_toList] using this

/-- (`Json` has `BEq` only, and evaluating `Json.parse` by `rfl`/`decide` on a literal does not terminate in
    reasonable time, so the three constants are evaluated by `simp`.) -/
theorem needInput_parses : Json.parse Cli.needInput.toList = some (.obj [("needInput", .bool true)]) := by
  simp [Cli.needInput, Json.parse, parseValue, parseMembers, skipWs, isWs, parseStrBody, dedupKeys, insertKey]
theorem endOfStory_parses : Json.parse Cli.endOfStory.toList = some (.obj [("end", .bool true)]) := by
  simp [Cli.endOfStory, Json.parse, parseValue, parseMembers, skipWs, isWs, parseStrBody, dedupKeys, insertKey]
theorem closed_parses : Json.parse Cli.closed.toList = some (.obj [("close", .bool true)]) := by
  simp [Cli.closed, Json.parse, parseValue, parseMembers, skipWs, isWs, parseStrBody, dedupKeys, insertKey]

/-! ### 4. every standard-output piece of a JSON-mode session is a well-formed line -/

/-- The documented line kinds (with the types of their values). -/
def DocumentedKind (j : Json) : Prop :=
  (∃ t : String, j = .obj [("text", .str t)]) ∨
  (∃ ts : List String, j = .obj [("tags", .arr (ts.map .str))]) ∨
  (∃ cs : List (String × List String), j = .obj [("choices", .arr (cs.map choiceJson))]) ∨
  j = .obj [("needInput", .bool true)] ∨
  (∃ ms : List String, j = .obj [("issues", .arr (ms.map .str))]) ∨
  (∃ m : String, j = .obj [("cmdOutput", .str m)]) ∨
  j = .obj [("end", .bool true)] ∨
  j = .obj [("close", .bool true)]

/-- a documented kind is an object with exactly one of the documented key sets -/
theorem DocumentedKind.keys {j : Json} (h : DocumentedKind j) :
    ∃ kvs, j = .obj kvs ∧ kvs.map Prod.fst ∈
      [["text"], ["tags"], ["choices"], ["needInput"], ["issues"], ["cmdOutput"], ["end"], ["close"]] := by
  rcases h with ⟨_, rfl⟩ | ⟨_, rfl⟩ | ⟨_, rfl⟩ | rfl | ⟨_, rfl⟩ | ⟨_, rfl⟩ | rfl | rfl <;>
    exact ⟨_, rfl, by simp⟩

def WellFormedLine (s : String) : Prop :=
  ∃ j, Json.parse s.toList = some j ∧ DocumentedKind j

def AllOut (ps : List Cli.Piece) : Prop := ∀ p ∈ ps, ∀ s, p = .out s → WellFormedLine s

theorem AllOut_nil : AllOut [] := by intro p hp; cases hp

theorem AllOut_append {a b : List Cli.Piece} (ha : AllOut a) (hb : AllOut b) : AllOut (a ++ b) := by
  intro p hp
  rcases List.mem_append.1 hp with h | h
  · exact ha p h
  · exact hb p h

theorem AllOut_out {s : String} (h : WellFormedLine s) : AllOut [.out s] := by
  intro p hp t ht
  simp only [List.mem_singleton] at hp
  subst hp; cases ht; exact h

theorem wf_text (t) : WellFormedLine (Cli.fmtText t) := ⟨_, fmtText_parses t, Or.inl ⟨t, rfl⟩⟩
theorem wf_tags (ts) : WellFormedLine (Cli.fmtTags ts) := ⟨_, fmtTags_parses ts, Or.inr (Or.inl ⟨ts, rfl⟩)⟩
theorem wf_choices (cs) : WellFormedLine (Cli.fmtChoices cs) :=
  ⟨_, fmtChoices_parses cs, Or.inr (Or.inr (Or.inl ⟨cs, rfl⟩))⟩
theorem wf_needInput : WellFormedLine Cli.needInput :=
  ⟨_, needInput_parses, Or.inr (Or.inr (Or.inr (Or.inl rfl)))⟩
theorem wf_issues (ms) : WellFormedLine (Cli.fmtIssues ms) :=
  ⟨_, fmtIssues_parses ms, Or.inr (Or.inr (Or.inr (Or.inr (Or.inl ⟨ms, rfl⟩))))⟩
theorem wf_cmdOutput (m) : WellFormedLine (Cli.fmtCmdOutput m) :=
  ⟨_, fmtCmdOutput_parses m, Or.inr (Or.inr (Or.inr (Or.inr (Or.inr (Or.inl ⟨m, rfl⟩)))))⟩
theorem wf_end : WellFormedLine Cli.endOfStory :=
  ⟨_, endOfStory_parses, Or.inr (Or.inr (Or.inr (Or.inr (Or.inr (Or.inr (Or.inl rfl))))))⟩
theorem wf_close : WellFormedLine Cli.closed :=
  ⟨_, closed_parses, Or.inr (Or.inr (Or.inr (Or.inr (Or.inr (Or.inr (Or.inr rfl))))))⟩

set_option linter.unusedSimpArgs false in
theorem evaluate_wf (o : Cli.Opts) (hj : o.json = true) (fuel : Nat) (st : Story) (acc : List Cli.Piece)
    (r : Story × List Cli.Piece) (hacc : AllOut acc) (h : Cli.evaluate o fuel st acc = .ok r) :
    AllOut r.2 := by
  induction fuel generalizing st acc with
  | zero => simp [Cli.evaluate] at h
  | succ fuel ih =>
    rw [Cli.evaluate] at h
    split at h
    · split at h
      · simp only [hj] at h
        refine ih _ _ ?_ h
        refine AllOut_append (AllOut_append (AllOut_append hacc (AllOut_out (wf_text _))) ?_) ?_
        · split
          · exact AllOut_nil
          · exact AllOut_out (wf_tags _)
        · split
          · exact AllOut_nil
          · exact AllOut_out (wf_issues _)
      · cases h
      · cases h
    · cases h; exact hacc

theorem AllOut_cons {p : Cli.Piece} {b : List Cli.Piece} (ha : AllOut [p]) (hb : AllOut b) :
    AllOut (p :: b) := AllOut_append ha hb

theorem inputLoop_wf (o : Cli.Opts) (hj : o.json = true) (n fuel : Nat) (st : Story) (inputs : List String)
    (acc : List Cli.Piece) (r : Option (Story × List String) × List Cli.Piece) (hacc : AllOut acc)
    (h : Cli.inputLoop o n fuel st inputs acc = .ok r) : AllOut r.2 := by
  have hp : AllOut [Cli.Piece.out Cli.needInput] := AllOut_out wf_needInput
  induction fuel generalizing st inputs acc with
  | zero => simp [Cli.inputLoop] at h
  | succ fuel ih =>
    unfold Cli.inputLoop at h
    simp only [hj] at h
    split at h
    · cases h
      exact AllOut_append hacc (AllOut_cons hp (AllOut_out wf_close))
    · split at h
      · exact ih _ _ _ (AllOut_append hacc hp) h
      · split at h
        · split at h
          · exact ih _ _ _ (AllOut_append (AllOut_append hacc hp) AllOut_nil) h
          · split at h
            · cases h; exact AllOut_append hacc hp
            · cases h
            · cases h
        · split at h
          · cases h; exact AllOut_append hacc hp
          · cases h; exact AllOut_append hacc (AllOut_cons hp (AllOut_out (wf_issues _)))
          · cases h
        · exact ih _ _ _ (AllOut_append hacc (AllOut_cons hp (AllOut_out (wf_cmdOutput _)))) h
        · cases h; exact AllOut_append hacc hp
        · exact ih _ _ _ (AllOut_append (AllOut_append hacc hp) AllOut_nil) h

theorem play_wf (o : Cli.Opts) (hj : o.json = true) (fuel : Nat) (st : Story) (inputs : List String)
    (acc : List Cli.Piece) (hacc : AllOut acc) : AllOut (Cli.play o fuel st inputs acc).1 := by
  induction fuel generalizing st inputs acc with
  | zero => simpa [Cli.play] using hacc
  | succ fuel ih =>
    rw [Cli.play]
    split
    · exact hacc
    · rename_i st1 ps hev
      have hps : AllOut ps := evaluate_wf o hj _ _ _ _ AllOut_nil hev
      simp only [hj, ↓reduceIte]
      split
      · refine AllOut_append (AllOut_append hacc hps) ?_
        split
        · exact AllOut_out wf_end
        · exact AllOut_nil
      · have hshown := AllOut_append (AllOut_append hacc hps)
          (AllOut_out (wf_choices (List.map (fun c => (c.text, c.tags)) st1.currentChoices.1)))
        split
        · exact hshown
        · rename_i ps2 hil
          exact AllOut_append hshown (inputLoop_wf o hj _ _ _ _ _ _ AllOut_nil hil)
        · rename_i st3 rest ps2 hil
          exact ih _ _ _ (AllOut_append hshown (inputLoop_wf o hj _ _ _ _ _ _ AllOut_nil hil))

/-- 4. Every standard-output piece of a whole JSON-mode session — for every story state, every input
    sequence and every fuel — is a well-formed line of a documented kind. -/
theorem session_pieces_wellformed (o : Cli.Opts) (st : Story) (inputs : List String) (fuel : Nat)
    (hj : o.json = true) :
    ∀ p ∈ (Cli.play o fuel st inputs []).1, ∀ s, p = .out s → WellFormedLine s :=
  play_wf o hj fuel st inputs [] AllOut_nil

theorem session_wellformed (o : Cli.Opts) (doc : String) (inputs : List String)
    (hj : o.json = true) :
    ∀ p ∈ (Cli.session o doc inputs).1, ∀ s, p = .out s → WellFormedLine s := by
  unfold Cli.session
  simp only []
  split
  · split
    · exact play_wf o hj _ _ _ [] AllOut_nil
    · exact AllOut_nil
    · exact AllOut_nil
  · exact AllOut_nil
  · exact AllOut_nil


/-! ### 5. non-vacuity -/
example : Json.parse (Cli.fmtText "a\"b\\c\n\t\u0007é😀").toList =
    some (.obj [("text", .str "a\"b\\c\n\t\u0007é😀")]) := by
  rw [show Cli.fmtText "a\"b\\c\n\t\u0007é😀" = "{\"text\": \"a\\\"b\\\\c\\n\\t\\u0007é😀\"}" by decide]
  simp [Json.parse, parseValue, parseMembers, skipWs, isWs, parseStrBody, dedupKeys, insertKey, hex4, hexVal]

example : Json.parse (Cli.fmtChoices [("x", []), ("y", ["t1", "t2"])]).toList =
    some (.obj [("choices", .arr [.obj [("text", .str "x")],
      .obj [("text", .str "y"), ("tags", .arr [.str "t1", .str "t2"]), ("tag_count", .num 2)]])]) := by
  rw [show Cli.fmtChoices [("x", []), ("y", ["t1", "t2"])] =
    "{\"choices\": [{\"text\": \"x\"}, {\"text\": \"y\", \"tags\": [\"t1\", \"t2\"], \"tag_count\": 2}]}" by decide]
  simp [Json.parse, parseValue, parseMembers, parseElems, skipWs, isWs, parseStrBody, dedupKeys, insertKey,
    parseNumber, takeDigits, Json.isDigit, digitsToNat]


end C20
end Ink
