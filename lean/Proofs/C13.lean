/-
  C13 — Every runtime error and warning is delivered exactly once.
  Theorems about the delivery block (`Story.deliver`) and its lifting to a
  whole continue.
-/
import Proofs.Lemmas.LoopLemmas

namespace Ink
namespace C13

open Story

/-- The handler callbacks for pending errors and warnings, in delivery order. -/
def handlerEvents (errors warnings : List String) : List Json :=
  errors.map (fun m => Json.arr [.str "handler", .str "E", .str m])
  ++ warnings.map (fun m => Json.arr [.str "handler", .str "W", .str m])

theorem errors_nil_of_not_hasError {s : StoryState} (h : s.hasError = false) : s.core.errors = [] := by
  unfold StoryState.hasError Core.hasError at h
  cases he : s.core.errors with
  | nil => rfl
  | cons a l => simp [he] at h

theorem warnings_nil_of_not_hasWarning {s : StoryState} (h : s.hasWarning = false) : s.warnings = [] := by
  unfold StoryState.hasWarning at h
  cases he : s.warnings with
  | nil => rfl
  | cons a l => simp [he] at h

/-- **delivered_eq_pending.** With a handler and something pending, delivery
    hands over exactly the pending errors followed by the pending warnings, each
    once, returns ok, and forgets them — also in a live look-ahead snapshot, so
    that a later rewind cannot bring a delivered message back. -/
theorem deliver_handler_pending (st : Story) (hh : st.handler = true)
    (hp : (st.state.hasError || st.state.hasWarning) = true) :
    ∃ st', st.deliver = (.ok (), st')
      ∧ st'.events = (handlerEvents st.core.errors st.state.warnings).reverse ++ st.events
      ∧ st'.core.errors = [] ∧ st'.state.warnings = []
      ∧ (∀ sn, st'.snapshot = some sn → sn.core.errors = [] ∧ sn.warnings = []) := by
  unfold Story.deliver
  simp only [hp, if_true, hh]
  refine ⟨_, rfl, ?_, ?_, ?_, ?_⟩
  · rfl
  · rfl
  · rfl
  · intro sn hsn
    cases hs : st.snapshot with
    | none => simp [hs] at hsn
    | some sn0 =>
      simp only [hs, Option.map_some, Option.some.injEq] at hsn
      subst hsn
      exact ⟨rfl, rfl⟩

/-- Nothing pending: nothing is delivered, nothing changes. -/
theorem deliver_nothing_pending (st : Story) (hp : (st.state.hasError || st.state.hasWarning) = false) :
    st.deliver = (.ok (), st) ∧ st.core.errors = [] ∧ st.state.warnings = [] := by
  unfold Story.deliver
  simp only [hp, Bool.false_eq_true, if_false]
  have he : st.state.hasError = false := by
    cases h : st.state.hasError <;> simp [h] at hp ⊢
  have hw : st.state.hasWarning = false := by
    cases h : st.state.hasWarning <;> simp [h, he] at hp ⊢
  exact ⟨trivial, errors_nil_of_not_hasError he, warnings_nil_of_not_hasWarning hw⟩

/-- **pending_empty_after_delivery.** With a handler, after delivery nothing is
    pending, whatever was pending before. -/
theorem pending_empty_after_delivery (st : Story) (hh : st.handler = true) :
    ∃ st', st.deliver = (.ok (), st') ∧ st'.core.errors = [] ∧ st'.state.warnings = [] := by
  by_cases hp : (st.state.hasError || st.state.hasWarning) = true
  · obtain ⟨st', h1, _, h3, h4, _⟩ := deliver_handler_pending st hh hp
    exact ⟨st', h1, h3, h4⟩
  · have hp' : (st.state.hasError || st.state.hasWarning) = false := by simpa using hp
    obtain ⟨h1, h2, h3⟩ := deliver_nothing_pending st hp'
    exact ⟨st, h1, h2, h3⟩

/-- Without a handler an error makes the continue fail, and the messages stay
    readable (nothing is cleared). -/
theorem deliver_no_handler_error (st : Story) (hh : st.handler = false) (he : st.state.hasError = true) :
    st.deliver = (.invalid (noHandlerMessage st.state), st) := by
  unfold Story.deliver
  simp [hh, he]

/-- Without a handler warnings alone never make a continue fail, and they stay readable. -/
theorem deliver_no_handler_warning_only (st : Story) (hh : st.handler = false) (he : st.state.hasError = false) :
    st.deliver = (.ok (), st) := by
  unfold Story.deliver
  by_cases hw : st.state.hasWarning = true <;> simp [hh, he, hw]

/-- **error_stops_story.** A story with a pending error cannot continue (until
    the error list is emptied by a reset or by the handler). -/
theorem error_stops_story (st : Story) (he : st.state.hasError = true) : st.canContinue = false := by
  unfold Story.canContinue StoryState.canContinue Core.canContinue
  unfold StoryState.hasError at he
  simp [he]

theorem notify_state (st : Story) (ch : List (String × Val)) :
    (st.notify ch).state = st.state ∧ (st.notify ch).snapshot = st.snapshot := ⟨rfl, rfl⟩

/-- Lifting to a whole continue: with a handler, a continue that returns ok
    leaves nothing pending — so no later continue can deliver an earlier message
    again — and the same holds for a snapshot that is still alive (paused
    time-limited continue). -/
theorem continue_handler_leaves_nothing_pending (st : Story) (b : Option Nat) (fuel : Nat) (st' : Story)
    (hh : st.handler = true) (h : st.continueInternal b fuel = (.ok (), st')) :
    st'.core.errors = [] ∧ st'.state.warnings = [] := by
  unfold Story.continueInternal at h
  simp only at h
  split at h
  · cases h
  · split at h
    · cases h
    · cases h
    · cases h
    · rename_i why s1 _ heq
      have hsame := stepLoop_same _ fuel 0 _ _ _ heq
      have h1 : s1.handler = true := by rw [hsame.handler, beginContinue_handler, hh]
      split at h
      · cases h
      · rename_i st5 changed hfin
        have hh5 : st5.handler = true := by
          split at hfin
          · rw [(finishContinue_fields _ _ _ hfin).2.2.2.2]; exact h1
          · simp only [Option.some.injEq, Prod.mk.injEq] at hfin
            rw [← hfin.1]; exact h1
        obtain ⟨st7', hd', e1, e2⟩ :=
          pending_empty_after_delivery ({ st5 with recCount := st5.recCount - 1 }) hh5
        rw [hd'] at h
        simp only [Prod.mk.injEq, true_and] at h
        rw [← h]
        exact ⟨e1, e2⟩

/-! ### Non-vacuity -/

example : handlerEvents ["e"] ["w"] =
    [Json.arr [.str "handler", .str "E", .str "e"], Json.arr [.str "handler", .str "W", .str "w"]] := rfl

end C13
end Ink
