/-
  C01 — The reference semantics (`Ink/Source.lean`) as a specification, and "exactly once".

  "For every Ink program in the supported core of the language, compiling it and playing it
  produces, along every sequence of player choices, exactly the lines of text, per-line tags,
  offered choices, end-of-story status, final global variable values and knot/stitch visit counts
  that the Ink language rules prescribe.  Effects written after a line end happen exactly once,
  however far the engine looked ahead to decide where the line ends."

  The equality of the compiled story's behaviour with `Source.play` is tested (differential
  oracle).  Proved here:

  A. Arithmetic of the specification: `wrap32_range`, `wrap32_id`, `wrap32_congr`, `intOp_range`,
     `intOp_div_zero`, `intOp_error_iff`, `wrap32_eq_wrapI32` (the spec's wrap-around IS the
     runtime model's).
  B. Output rules: `cleanText_idem`, `cleanText_no_edge_blanks`, `cleanText_no_double_blank`,
     `trimBlanks_idem`, `linesOf_no_empty_line`, `linesOf_texts_clean`, `linesOf_tags_clean`.
  C. Structure of a play: `play_turns_nonempty`, `play_turns_length`, `play_status_choice_iff`
     (and the short form `play_status_choice_iff'`), THE PREFIX THEOREM `play_prefix` (full
     prefix, the last turn included), `play_take`, `play_append_of_not_choice` (a finished play
     ignores further input: the whole transcript is equal), `play_extend` (a choice on offer
     gives exactly one more turn).
  D. Exactly once on the runtime model: `restoreSnapshot_state`, `discardSnapshot_keeps`,
     `stateSnapshot_saves`, `lookahead_undone`, `continueSingleStep_rewind` (a step reports a
     line end ONLY by rewinding to the snapshot), `continueSingleStep_snapshot` (looking ahead
     never alters the snapshot held), `stepLoop_newline` (the loop-level statement).
  E. Non-vacuity: a two-knot program with one choice (`demo`), and a runtime-model story that
     sets a temporary while looking ahead and rewinds over it (`exStory4`).
-/
import Ink.Source
import Proofs.C08Sliced

namespace Ink
namespace C01

section Spec
open Ink.Source

deriving instance DecidableEq for Source.Val, Source.Line, Source.Turn, Source.Status

/-! ## A. Arithmetic of the specification -/

/-- the 32-bit range -/
def InRange (n : Int) : Prop := -2147483648 ≤ n ∧ n ≤ 2147483647

theorem wrap32_range (n : Int) : -2147483648 ≤ wrap32 n ∧ wrap32 n ≤ 2147483647 := by
  unfold wrap32; omega

theorem wrap32_id {n : Int} (h1 : -2147483648 ≤ n) (h2 : n ≤ 2147483647) : wrap32 n = n := by
  unfold wrap32; omega

theorem wrap32_congr (n : Int) : ∃ k : Int, wrap32 n = n + k * 4294967296 := by
  refine ⟨-((n + 2147483648) / 4294967296), ?_⟩
  unfold wrap32; omega

theorem wrap32_idem (n : Int) : wrap32 (wrap32 n) = wrap32 n :=
  wrap32_id (wrap32_range n).1 (wrap32_range n).2

theorem wrap32_eq_wrapI32 : Source.wrap32 = Ink.wrapI32 := rfl

theorem tdiv_range {x y : Int} (hx : InRange x) (hy : InRange y) (h0 : y ≠ 0)
    (hov : ¬ (x = -2147483648 ∧ y = -1)) : InRange (Int.tdiv x y) := by
  unfold InRange at *
  by_cases hy1 : y = 1
  · subst hy1; rw [Int.tdiv_one]; exact hx
  by_cases hym : y = -1
  · subst hym
    have : Int.tdiv x (-1) = -x := by rw [Int.tdiv_neg, Int.tdiv_one]
    rw [this]; omega
  · have h := Int.natAbs_tdiv x y
    have h2 : y.natAbs ≥ 2 := by omega
    have h3 : x.natAbs.div y.natAbs ≤ x.natAbs / 2 := by
      show x.natAbs / y.natAbs ≤ x.natAbs / 2
      exact Nat.div_le_div_left h2 (by omega)
    omega

theorem tmod_range {x : Int} (y : Int) (hx : InRange x) : InRange (Int.tmod x y) := by
  unfold InRange at *
  have h := Int.natAbs_tmod x y
  have h2 : x.natAbs % y.natAbs ≤ x.natAbs := Nat.mod_le _ _
  by_cases h0 : 0 ≤ x
  · have := Int.tmod_nonneg y h0
    omega
  · have h3 : 0 ≤ (-x).tmod y := Int.tmod_nonneg y (by omega)
    rw [Int.neg_tmod] at h3
    omega

/-- Results of the integer operators stay in the 32-bit range. -/
theorem intOp_range {op : BinOp} {x y r : Int} (hx : InRange x) (hy : InRange y)
    (h : intOp op x y = .ok (.int r)) : InRange r := by
  cases op <;> simp only [intOp] at h
  case add => cases h; exact wrap32_range _
  case sub => cases h; exact wrap32_range _
  case mul => cases h; exact wrap32_range _
  case div =>
    split at h
    · cases h
    · rename_i hc
      cases h
      simp only [Bool.or_eq_true, Bool.and_eq_true, beq_iff_eq, not_or, not_and] at hc
      exact tdiv_range hx hy hc.1 (fun ⟨a, b⟩ => hc.2 a b)
  case mod =>
    split at h
    · cases h
    · cases h; exact tmod_range y hx
  all_goals cases h

/-- Division and modulo by zero are the story error `div_zero`. -/
theorem intOp_div_zero (x : Int) :
    intOp .div x 0 = .error "div_zero" ∧ intOp .mod x 0 = .error "div_zero" := by
  constructor <;> simp [intOp]

/-- ... and these, with the one quotient that does not fit, are the only errors of `intOp`. -/
theorem intOp_error_iff (op : BinOp) (x y : Int) (e : String) :
    intOp op x y = .error e ↔
      (op = .div ∨ op = .mod) ∧ (y = 0 ∨ (x = -2147483648 ∧ y = -1)) ∧ e = "div_zero" := by
  cases op <;> simp [intOp]
  all_goals
    constructor
    · intro h; split at h
      · rename_i hc; cases h; simpa using hc
      · cases h
    · rintro ⟨hc, rfl⟩
      rw [if_pos hc]

/-! ## B. Output rules -/

/-- What may follow a non-blank character in cleaned text. -/
inductive CleanTail : List Char → Prop where
  | nil : CleanTail []
  | char {c : Char} {cs : List Char} : isBlankChar c = false → CleanTail cs → CleanTail (c :: cs)
  | gap {c : Char} {cs : List Char} : isBlankChar c = false → CleanTail cs → CleanTail (' ' :: c :: cs)

/-- Cleaned text: empty, or a non-blank character followed by a clean tail. -/
inductive Clean : List Char → Prop where
  | nil : Clean []
  | cons {c : Char} {cs : List Char} : isBlankChar c = false → CleanTail cs → Clean (c :: cs)

theorem CleanTail.snoc {t : List Char} (h : CleanTail t) {c : Char} (hc : isBlankChar c = false) :
    CleanTail (t ++ [c]) := by
  induction h with
  | nil => exact .char hc .nil
  | char h1 _ ih => exact .char h1 ih
  | gap h1 _ ih => exact .gap h1 ih

theorem CleanTail.snocGap {t : List Char} (h : CleanTail t) {c : Char} (hc : isBlankChar c = false) :
    CleanTail (t ++ [' ', c]) := by
  induction h with
  | nil => exact .gap hc .nil
  | char h1 _ ih => exact .char h1 ih
  | gap h1 _ ih => exact .gap h1 ih

theorem Clean.snoc {l : List Char} (h : Clean l) {c : Char} (hc : isBlankChar c = false) :
    Clean (l ++ [c]) := by
  cases h with
  | nil => exact .cons hc .nil
  | cons h1 h2 => exact .cons h1 (h2.snoc hc)

theorem Clean.snocGap {l : List Char} (h : Clean l) (hne : l ≠ []) {c : Char} (hc : isBlankChar c = false) :
    Clean (l ++ [' ', c]) := by
  cases h with
  | nil => exact absurd rfl hne
  | cons h1 h2 => exact .cons h1 (h2.snocGap hc)

theorem go_clean (cs : List Char) : ∀ (p : Bool) (acc : List Char), Clean acc.reverse →
    Clean (cleanText.go cs p acc) := by
  induction cs with
  | nil => intro p acc h; simpa [cleanText.go] using h
  | cons c cs ih =>
    intro p acc h
    rw [cleanText.go]
    split
    · exact ih _ _ h
    · rename_i hb
      have hb : isBlankChar c = false := by simpa using hb
      split
      · rename_i hp
        apply ih
        have e : (c :: ' ' :: acc).reverse = acc.reverse ++ [' ', c] := by simp
        rw [e]
        refine h.snocGap ?_ hb
        intro h0
        have : acc = [] := by simpa using h0
        simp [this] at hp
      · apply ih
        rw [List.reverse_cons]
        exact h.snoc hb

/-- On clean text the collapse of blanks changes nothing. -/
theorem go_fix_tail {t : List Char} (h : CleanTail t) : ∀ (acc : List Char), acc ≠ [] →
    cleanText.go t false acc = acc.reverse ++ t := by
  induction h with
  | nil => intro acc _; simp [cleanText.go]
  | @char c cs h1 _ ih =>
    intro acc hne
    rw [cleanText.go]
    simp only [h1, Bool.false_eq_true, ↓reduceIte, Bool.false_and]
    rw [ih _ (by simp)]; simp
  | @gap c cs h1 _ ih =>
    intro acc hne
    have hs : isBlankChar ' ' = true := by decide
    rw [cleanText.go]
    simp only [hs, ↓reduceIte]
    rw [cleanText.go]
    have hne' : acc.isEmpty = false := by cases acc <;> simp_all
    simp only [h1, Bool.false_eq_true, ↓reduceIte, Bool.true_and, hne', Bool.not_false]
    rw [ih _ (by simp)]; simp

theorem go_fix {l : List Char} (h : Clean l) : cleanText.go l false [] = l := by
  cases h with
  | nil => simp [cleanText.go]
  | @cons c cs h1 h2 =>
    rw [cleanText.go]
    simp only [h1, Bool.false_eq_true, ↓reduceIte, Bool.false_and]
    rw [go_fix_tail h2 _ (by simp)]; simp

theorem cleanText_toList (s : String) : (cleanText s).toList = cleanText.go s.toList false [] := by
  unfold cleanText; exact String.toList_ofList

theorem cleanText_clean (s : String) : Clean (cleanText s).toList := by
  rw [cleanText_toList]; exact go_clean _ _ _ .nil

/-- Cleaning is idempotent. -/
theorem cleanText_idem (s : String) : cleanText (cleanText s) = cleanText s := by
  have h := go_fix (cleanText_clean s)
  show String.ofList (cleanText.go (cleanText s).toList false []) = cleanText s
  rw [h, String.ofList_toList]

theorem CleanTail.getLast {t : List Char} (h : CleanTail t) :
    ∀ c ∈ t.getLast?, isBlankChar c = false := by
  induction h with
  | nil => simp
  | @char c cs h1 h2 ih =>
    intro d hd
    cases cs with
    | nil => simp at hd; subst hd; exact h1
    | cons e es => rw [List.getLast?_cons_cons] at hd; exact ih d hd
  | @gap c cs h1 h2 ih =>
    intro d hd
    rw [List.getLast?_cons_cons] at hd
    cases cs with
    | nil => simp at hd; subst hd; exact h1
    | cons e es => rw [List.getLast?_cons_cons] at hd; exact ih d hd

/-- Cleaned text neither starts nor ends with a blank. -/
theorem cleanText_no_edge_blanks (s : String) :
    (∀ c, (cleanText s).toList.head? = some c → isBlankChar c = false)
    ∧ (∀ c, (cleanText s).toList.getLast? = some c → isBlankChar c = false) := by
  have h := cleanText_clean s
  generalize (cleanText s).toList = l at h
  cases h with
  | nil => simp
  | @cons c cs h1 h2 =>
    constructor
    · intro d hd; simp at hd; subst hd; exact h1
    · intro d hd
      cases cs with
      | nil => simp at hd; subst hd; exact h1
      | cons e es => rw [List.getLast?_cons_cons] at hd; exact h2.getLast d hd

theorem CleanTail.no_double {t : List Char} (h : CleanTail t) :
    ∀ a b, [a, b] <:+: t → ¬ (isBlankChar a = true ∧ isBlankChar b = true) := by
  induction h with
  | nil => intro a b hi; simp at hi
  | @char c cs h1 h2 ih =>
    intro a b hi
    rcases List.infix_cons_iff.1 hi with hp | hi'
    · rw [List.cons_prefix_cons] at hp
      rw [hp.1, h1]; simp
    · exact ih a b hi'
  | @gap c cs h1 h2 ih =>
    intro a b hi
    rcases List.infix_cons_iff.1 hi with hp | hi'
    · rw [List.cons_prefix_cons, List.cons_prefix_cons] at hp
      rw [hp.2.1, h1]; simp
    · rcases List.infix_cons_iff.1 hi' with hp | hi''
      · rw [List.cons_prefix_cons] at hp
        rw [hp.1, h1]; simp
      · exact ih a b hi''

/-- Cleaned text has no two adjacent blanks. -/
theorem cleanText_no_double_blank (s : String) (a b : Char)
    (h : [a, b] <:+: (cleanText s).toList) : ¬ (isBlankChar a = true ∧ isBlankChar b = true) := by
  have hc := cleanText_clean s
  generalize (cleanText s).toList = l at h hc
  cases hc with
  | nil => simp at h
  | @cons c cs h1 h2 =>
    rcases List.infix_cons_iff.1 h with hp | hi
    · rw [List.cons_prefix_cons] at hp
      rw [hp.1, h1]; simp
    · exact h2.no_double a b hi

/-! ### `trimBlanks` -/

def trimL (l : List Char) : List Char :=
  ((l.dropWhile isBlankChar).reverse.dropWhile isBlankChar).reverse

theorem dropWhile_eq_self_of_head {p : Char → Bool} {l : List Char}
    (h : ∀ c, l.head? = some c → p c = false) : l.dropWhile p = l := by
  cases l with
  | nil => rfl
  | cons a r => rw [List.dropWhile_cons, h a rfl]; simp

theorem head_dropWhile_not (p : Char → Bool) (l : List Char) :
    ∀ c, (l.dropWhile p).head? = some c → p c = false := by
  intro c hc
  have := List.head?_dropWhile_not p l
  rw [hc] at this
  simpa using this

theorem trimL_idem (l : List Char) : trimL (trimL l) = trimL l := by
  unfold trimL
  generalize hm : l.dropWhile isBlankChar = m
  generalize hr : m.reverse.dropWhile isBlankChar = r
  -- `r.reverse` is a prefix of `m`
  have hpre : r.reverse <+: m := by
    have : r <:+ m.reverse := hr ▸ List.dropWhile_suffix _
    have := List.reverse_prefix.2 this
    simpa using this
  have h1 : r.reverse.dropWhile isBlankChar = r.reverse := by
    apply dropWhile_eq_self_of_head
    intro c hc
    obtain ⟨t, ht⟩ := hpre
    have : m.head? = some c := by
      rw [← ht]
      cases hrr : r.reverse with
      | nil => rw [hrr] at hc; cases hc
      | cons x xs => rw [hrr] at hc; simpa using hc
    rw [← hm] at this
    exact head_dropWhile_not _ _ c this
  rw [h1, List.reverse_reverse]
  congr 1
  apply dropWhile_eq_self_of_head
  rw [← hr]
  exact head_dropWhile_not _ _

theorem trimBlanks_toList (s : String) : (trimBlanks s).toList = trimL s.toList := by
  unfold trimBlanks trimL; exact String.toList_ofList

theorem trimBlanks_idem (s : String) : trimBlanks (trimBlanks s) = trimBlanks s := by
  have h : trimBlanks (trimBlanks s) = String.ofList (trimL (trimBlanks s).toList) := rfl
  rw [h, trimBlanks_toList, trimL_idem]
  rfl

/-! ### `linesOf` -/

/-- The line-finishing function inside `linesOf`. -/
def finishLine (txt : String) (tags : List String) (acc : List Line) : List Line :=
  let t := cleanText txt
  if t == "" && tags.isEmpty then acc else { text := t, tags := tags.reverse } :: acc

theorem linesOf_eq (items : List OutItem) : linesOf items = linesOf.go finishLine items "" [] [] := rfl

/-- What every line read off a stream satisfies. -/
def GoodLine (l : Line) : Prop :=
  (l.text ≠ "" ∨ l.tags ≠ []) ∧ cleanText l.text = l.text ∧ ∀ t ∈ l.tags, cleanText t = t

theorem finishLine_good (txt : String) (tags : List String) (acc : List Line)
    (h : ∀ l ∈ acc, GoodLine l) (htags : ∀ t ∈ tags, cleanText t = t) :
    ∀ l ∈ finishLine txt tags acc, GoodLine l := by
  unfold finishLine
  simp only
  split
  · exact h
  · rename_i hc
    intro l hl
    rcases List.mem_cons.1 hl with rfl | hl
    · refine ⟨?_, cleanText_idem txt, fun t ht => htags t (List.mem_reverse.1 ht)⟩
      simp only [Bool.and_eq_true, beq_iff_eq, List.isEmpty_iff, not_and] at hc
      by_cases ht : cleanText txt = ""
      · right; simpa using hc ht
      · left; exact ht
    · exact h l hl

theorem go_good (items : List OutItem) : ∀ (txt : String) (tags : List String) (acc : List Line),
    (∀ l ∈ acc, GoodLine l) → (∀ t ∈ tags, cleanText t = t) →
    ∀ l ∈ linesOf.go finishLine items txt tags acc, GoodLine l := by
  induction items with
  | nil =>
    intro txt tags acc h ht l hl
    rw [linesOf.go, List.mem_reverse] at hl
    exact finishLine_good txt tags acc h ht l hl
  | cons it r ih =>
    intro txt tags acc h ht
    cases it with
    | text s => rw [linesOf.go]; exact ih _ _ _ h ht
    | glue => rw [linesOf.go]; exact ih _ _ _ h ht
    | tag t =>
      rw [linesOf.go]
      refine ih _ _ _ h ?_
      intro u hu
      rcases List.mem_cons.1 hu with rfl | hu
      · exact cleanText_idem t
      · exact ht u hu
    | nl => rw [linesOf.go]; exact ih _ _ _ (finishLine_good txt tags acc h ht) (by simp)

/-- The reader never produces an empty line without tags. -/
theorem linesOf_no_empty_line (items : List OutItem) :
    ∀ l ∈ linesOf items, l.text ≠ "" ∨ l.tags ≠ [] := fun l hl =>
  (go_good items "" [] [] (by simp) (by simp) l (linesOf_eq items ▸ hl)).1

/-- The text of every line is clean (single inner blanks, no blanks at the ends). -/
theorem linesOf_texts_clean (items : List OutItem) :
    ∀ l ∈ linesOf items, cleanText l.text = l.text := fun l hl =>
  (go_good items "" [] [] (by simp) (by simp) l (linesOf_eq items ▸ hl)).2.1

/-- ... and so is every tag. -/
theorem linesOf_tags_clean (items : List OutItem) :
    ∀ l ∈ linesOf items, ∀ t ∈ l.tags, cleanText t = t := fun l hl =>
  (go_good items "" [] [] (by simp) (by simp) l (linesOf_eq items ▸ hl)).2.2

/-! ## C. Structure of a play -/

/-- The final report of `play` (verbatim). -/
def mkReport (prog : Program) (turns : List Turn) (st2 : Source.St) (status : Status) (errors : List String)
    (turn : Turn) : Transcript :=
  { turns := (turn :: turns).reverse, status := status, errors := errors, globals := st2.globals,
    visits := (allVisitKeys prog).map (fun k => (k, st2.visitCount k)) }

/-- What one round of `play` computes before it looks at the player's input. -/
structure Round where
  turn : Turn
  st2 : Source.St
  visible : List Pending
  /-- `some`: the play ends here whatever the input; `none`: choices are on offer -/
  fin : Option (Status × List String)

def round (prog : Program) (fuel : Nat) (st : Source.St) : Round :=
  let r := runTurn prog fuel st
  let st1 := r.2
  let lines := linesOf st1.out.reverse
  let visible := st1.pending.filter (!·.invisible)
  let offered := visible.map (fun p => ({ text := p.text, tags := p.tags } : Line))
  let masked := st1.safeExitStands
  let st2 := { st1 with out := [], fnStarts := [], safeExit := none }
  match r.1 with
  | .failed kind =>
    { turn := { lines := lines, choices := [] }, st2 := st2, visible := visible,
      fin := some (if kind = "fuel" then (.fuel, []) else (.error, [kind])) }
  | .stopped stop =>
    let turn : Turn := { lines := lines, choices := offered }
    if visible.isEmpty then
      { turn := turn, st2 := st2, visible := visible,
        fin := some (match stop with
          | .end => (.end, [])
          | .done => (.done, [])
          | .outOfContent =>
            if !st2.pending.isEmpty then (.done, [])
            else if masked then (.done, [])
            else if st2.stack.any (!·.isThread) then (.done, ["tunnel_end"])
            else (.done, ["ran_out"])) }
    else { turn := turn, st2 := st2, visible := visible, fin := none }

/-- The loop of `play`, one round unfolded. -/
theorem loop_eq (prog : Program) (fuel n : Nat) (st : Source.St) (todo : List Nat) (turns : List Turn) :
    play.loop prog fuel n st todo turns =
      match (round prog fuel st).fin with
      | some (s, e) => mkReport prog turns (round prog fuel st).st2 s e (round prog fuel st).turn
      | none =>
        match n, todo with
        | n + 1, i :: rest =>
          match (round prog fuel st).visible[i]? with
          | some p => play.loop prog fuel n ((round prog fuel st).st2.choose p true) rest ((round prog fuel st).turn :: turns)
          | none => mkReport prog turns (round prog fuel st).st2 .choice [] (round prog fuel st).turn
        | _, _ => mkReport prog turns (round prog fuel st).st2 .choice [] (round prog fuel st).turn := by
  rw [play.loop]
  unfold round mkReport
  rcases runTurn prog fuel st with ⟨why, st1⟩
  simp only
  split
  · rfl
  · rename_i kind hk
    simp only [if_neg (show ¬ kind = "fuel" from hk)]
  · simp only
    split
    · split <;> try rfl
      split
      · rfl
      · split
        · rfl
        · split <;> rfl
    · rfl

theorem round_fin_some {prog : Program} {fuel : Nat} {st : Source.St} {s : Status} {e : List String}
    (h : (round prog fuel st).fin = some (s, e)) :
    s ≠ .choice ∧ (round prog fuel st).turn.choices = [] := by
  unfold round at h ⊢
  generalize runTurn prog fuel st = r at h ⊢
  rcases r with ⟨why, st1⟩
  cases why with
  | failed kind =>
    simp only [Option.some.injEq] at h ⊢
    refine ⟨?_, trivial⟩
    split at h <;> (cases h; simp)
  | stopped stop =>
    simp only at h ⊢
    split at h
    · rename_i hv
      simp only [Option.some.injEq] at h
      constructor
      · split at h
        · cases h; simp
        · cases h; simp
        · split at h
          · cases h; simp
          · split at h
            · cases h; simp
            · split at h <;> (cases h; simp)
      · simp only [hv, ↓reduceIte]
        simpa using hv
    · cases h

theorem round_fin_none {prog : Program} {fuel : Nat} {st : Source.St}
    (h : (round prog fuel st).fin = none) :
    (round prog fuel st).turn.choices =
        (round prog fuel st).visible.map (fun p => ({ text := p.text, tags := p.tags } : Line))
      ∧ (round prog fuel st).visible ≠ [] := by
  unfold round at h ⊢
  generalize runTurn prog fuel st = r at h ⊢
  rcases r with ⟨why, st1⟩
  cases why with
  | failed kind => cases h
  | stopped stop =>
    simp only at h ⊢
    split at h
    · cases h
    · rename_i hv
      simp only [hv, Bool.false_eq_true, ↓reduceIte, true_and]
      simpa using hv

theorem round_choices_length {prog : Program} {fuel : Nat} {st : Source.St}
    (h : (round prog fuel st).fin = none) :
    (round prog fuel st).turn.choices.length = (round prog fuel st).visible.length
      ∧ (round prog fuel st).turn.choices ≠ [] := by
  obtain ⟨h1, h2⟩ := round_fin_none h
  rw [h1]
  refine ⟨List.length_map _, ?_⟩
  intro h0
  exact h2 (List.map_eq_nil_iff.1 h0)

@[simp] theorem mkReport_turns (prog : Program) (turns : List Turn) (st2 : Source.St) (s : Status) (e : List String)
    (t : Turn) : (mkReport prog turns st2 s e t).turns = turns.reverse ++ [t] := by
  simp [mkReport]

@[simp] theorem mkReport_status (prog : Program) (turns : List Turn) (st2 : Source.St) (s : Status) (e : List String)
    (t : Turn) : (mkReport prog turns st2 s e t).status = s := rfl

/-- The turns already played stay, at least one is added and at most one per choice. -/
theorem loop_turns (prog : Program) (fuel : Nat) (todo : List Nat) :
    ∀ (n : Nat) (st : Source.St) (turns : List Turn),
      ∃ more, (play.loop prog fuel n st todo turns).turns = turns.reverse ++ more
        ∧ 1 ≤ more.length ∧ more.length ≤ todo.length + 1 := by
  induction todo with
  | nil =>
    intro n st turns
    rw [loop_eq]
    cases hf : (round prog fuel st).fin with
    | some se => exact ⟨[(round prog fuel st).turn], by simp, by simp, by simp⟩
    | none =>
      refine ⟨[(round prog fuel st).turn], ?_, by simp, by simp⟩
      cases n <;> simp
  | cons i rest ih =>
    intro n st turns
    rw [loop_eq]
    cases hf : (round prog fuel st).fin with
    | some se => exact ⟨[(round prog fuel st).turn], by simp, by simp, by simp⟩
    | none =>
      cases n with
      | zero => exact ⟨[(round prog fuel st).turn], by simp, by simp, by simp⟩
      | succ n =>
        simp only
        cases hv : (round prog fuel st).visible[i]? with
        | none => exact ⟨[(round prog fuel st).turn], by simp, by simp, by simp⟩
        | some p =>
          simp only
          obtain ⟨more, h1, h2, h3⟩ := ih n ((round prog fuel st).st2.choose p true) ((round prog fuel st).turn :: turns)
          refine ⟨(round prog fuel st).turn :: more, ?_, by simp, by simp; omega⟩
          rw [h1]; simp

/-- **A transcript always has at least one turn.** -/
theorem play_turns_nonempty (prog : Program) (cs : List Nat) (fuel : Nat) :
    (play prog cs fuel).turns ≠ [] := by
  obtain ⟨more, h1, h2, _⟩ := loop_turns prog fuel cs (cs.length + 1) (initial prog) []
  unfold play
  rw [h1]
  cases more with
  | nil => simp at h2
  | cons a r => simp

/-- ... and at most one more than there are choices. -/
theorem play_turns_length (prog : Program) (cs : List Nat) (fuel : Nat) :
    1 ≤ (play prog cs fuel).turns.length ∧ (play prog cs fuel).turns.length ≤ cs.length + 1 := by
  obtain ⟨more, h1, h2, h3⟩ := loop_turns prog fuel cs (cs.length + 1) (initial prog) []
  unfold play
  rw [h1]; simp; omega

/-- The prefix theorem on the loop: more input never changes the turns already reported
    (the last one included). -/
theorem loop_prefix (prog : Program) (fuel : Nat) (todo ds : List Nat) :
    ∀ (n m : Nat) (st : Source.St) (turns : List Turn), todo.length ≤ n → (todo ++ ds).length ≤ m →
      (play.loop prog fuel n st todo turns).turns <+: (play.loop prog fuel m st (todo ++ ds) turns).turns := by
  induction todo with
  | nil =>
    intro n m st turns _ hm
    rw [loop_eq prog fuel n, loop_eq prog fuel m]
    cases hf : (round prog fuel st).fin with
    | some se => exact List.prefix_refl _
    | none =>
      simp only [List.nil_append]
      cases ds with
      | nil => cases m <;> exact List.prefix_refl _
      | cons i rest =>
        cases m with
        | zero => simp at hm
        | succ m =>
          simp only
          cases hv : (round prog fuel st).visible[i]? with
          | none => exact List.prefix_refl _
          | some p =>
            simp only
            obtain ⟨more, h1, _, _⟩ := loop_turns prog fuel rest m ((round prog fuel st).st2.choose p true)
              ((round prog fuel st).turn :: turns)
            rw [h1, mkReport_turns]
            simp
  | cons i rest ih =>
    intro n m st turns hn hm
    rw [loop_eq prog fuel n, loop_eq prog fuel m]
    cases hf : (round prog fuel st).fin with
    | some se => exact List.prefix_refl _
    | none =>
      cases n with
      | zero => simp at hn
      | succ n =>
        cases m with
        | zero => simp at hm
        | succ m =>
          simp only [List.cons_append]
          cases hv : (round prog fuel st).visible[i]? with
          | none => exact List.prefix_refl _
          | some p =>
            simp only
            apply ih
            · simpa using hn
            · simpa using hm

/-- **The prefix theorem.**  Later choices cannot change earlier turns: every turn of the play
    along `cs` — its last one included, which is complete before the next choice is read — is a
    turn of the play along `cs ++ ds`, at the same position. -/
theorem play_prefix (prog : Program) (cs ds : List Nat) (fuel : Nat) :
    (play prog cs fuel).turns <+: (play prog (cs ++ ds) fuel).turns := by
  unfold play
  exact loop_prefix prog fuel cs ds _ _ _ _ (by omega) (by omega)

/-- The weaker form asked for. -/
theorem play_prefix_dropLast (prog : Program) (cs ds : List Nat) (fuel : Nat) :
    (play prog cs fuel).turns.dropLast <+: (play prog (cs ++ ds) fuel).turns :=
  (List.dropLast_prefix _).trans (play_prefix prog cs ds fuel)

/-- In particular for one more choice `i`: the first `(play prog cs fuel).turns.length` turns of
    `play prog (cs ++ [i]) fuel` are exactly the turns of `play prog cs fuel`
    (whatever the status and whether or not `i` is in range). -/
theorem play_take (prog : Program) (cs ds : List Nat) (fuel : Nat) :
    (play prog (cs ++ ds) fuel).turns.take (play prog cs fuel).turns.length = (play prog cs fuel).turns := by
  obtain ⟨t, ht⟩ := play_prefix prog cs ds fuel
  rw [← ht]; simp

/-- The form asked for: if the play along `cs` ends at a choice point and `i` is in range of the
    choices offered in its last turn, the first `(play prog cs fuel).turns.length` turns of the play
    along `cs ++ [i]` are exactly the turns of the play along `cs`.  (Neither hypothesis is needed:
    `play_take`.) -/
theorem play_choice_extends (prog : Program) (cs : List Nat) (i : Nat) (fuel : Nat) (last : Turn)
    (_hs : (play prog cs fuel).status = .choice)
    (_hlast : (play prog cs fuel).turns.getLast? = some last) (_hi : i < last.choices.length) :
    (play prog (cs ++ [i]) fuel).turns.take (play prog cs fuel).turns.length = (play prog cs fuel).turns :=
  play_take prog cs [i] fuel

/-- A play that does not end at a choice point ignores any further input: the whole
    transcript is the same. -/
theorem loop_append_of_not_choice (prog : Program) (fuel : Nat) (todo ds : List Nat) :
    ∀ (n m : Nat) (st : Source.St) (turns : List Turn), todo.length ≤ n → (todo ++ ds).length ≤ m →
      (play.loop prog fuel n st todo turns).status ≠ .choice →
      play.loop prog fuel m st (todo ++ ds) turns = play.loop prog fuel n st todo turns := by
  induction todo with
  | nil =>
    intro n m st turns _ hm
    rw [loop_eq prog fuel n, loop_eq prog fuel m]
    cases hf : (round prog fuel st).fin with
    | some se => intro _; rfl
    | none =>
      simp only [List.nil_append]
      intro h
      exact absurd rfl h
  | cons i rest ih =>
    intro n m st turns hn hm
    rw [loop_eq prog fuel n, loop_eq prog fuel m]
    cases hf : (round prog fuel st).fin with
    | some se => intro _; rfl
    | none =>
      cases n with
      | zero => simp at hn
      | succ n =>
        cases m with
        | zero => simp at hm
        | succ m =>
          simp only [List.cons_append]
          cases hv : (round prog fuel st).visible[i]? with
          | none => intro _; rfl
          | some p =>
            simp only
            apply ih
            · simpa using hn
            · simpa using hm

theorem play_append_of_not_choice (prog : Program) (cs ds : List Nat) (fuel : Nat)
    (h : (play prog cs fuel).status ≠ .choice) : play prog (cs ++ ds) fuel = play prog cs fuel := by
  unfold play at h ⊢
  exact loop_append_of_not_choice prog fuel cs ds _ _ _ _ (by omega) (by omega) h

/-- Status `.choice` exactly when the last turn offers a choice; and then the input was
    exhausted (one turn per choice, plus one) or the index it asked for is out of range. -/
theorem loop_status_choice (prog : Program) (fuel : Nat) (todo : List Nat) :
    ∀ (n : Nat) (st : Source.St) (turns : List Turn), todo.length ≤ n →
      ∃ last, (play.loop prog fuel n st todo turns).turns.getLast? = some last ∧
        ((play.loop prog fuel n st todo turns).status = .choice ↔ last.choices ≠ []) ∧
        ((play.loop prog fuel n st todo turns).status = .choice →
          (play.loop prog fuel n st todo turns).turns.length = turns.length + todo.length + 1
          ∨ ∃ i, todo[(play.loop prog fuel n st todo turns).turns.length - turns.length - 1]? = some i
              ∧ last.choices.length ≤ i) := by
  induction todo with
  | nil =>
    intro n st turns _
    rw [loop_eq prog fuel n]
    refine ⟨(round prog fuel st).turn, ?_⟩
    cases hf : (round prog fuel st).fin with
    | some se =>
      obtain ⟨s, e⟩ := se
      obtain ⟨h1, h2⟩ := round_fin_some hf
      simp [h1, h2]
    | none =>
      have := (round_choices_length hf).2
      simp [this]
  | cons i rest ih =>
    intro n st turns hn
    rw [loop_eq prog fuel n]
    cases hf : (round prog fuel st).fin with
    | some se =>
      obtain ⟨s, e⟩ := se
      obtain ⟨h1, h2⟩ := round_fin_some hf
      exact ⟨(round prog fuel st).turn, by simp [h1, h2]⟩
    | none =>
      cases n with
      | zero => simp at hn
      | succ n =>
        simp only
        cases hv : (round prog fuel st).visible[i]? with
        | none =>
          have hl := round_choices_length hf
          refine ⟨(round prog fuel st).turn, by simp, by simp [hl.2], ?_⟩
          intro _
          right
          refine ⟨i, by simp, ?_⟩
          rw [hl.1]
          exact List.getElem?_eq_none_iff.1 hv
        | some p =>
          simp only
          obtain ⟨last, h1, h2, h3⟩ := ih n ((round prog fuel st).st2.choose p true)
            ((round prog fuel st).turn :: turns) (by simpa using hn)
          obtain ⟨more, g1, g2, g3⟩ := loop_turns prog fuel rest n ((round prog fuel st).st2.choose p true)
            ((round prog fuel st).turn :: turns)
          refine ⟨last, h1, h2, ?_⟩
          intro hs
          rcases h3 hs with h | ⟨j, hj, hle⟩
          · left; rw [h]; simp; omega
          · right
            refine ⟨j, ?_, hle⟩
            rw [g1] at hj ⊢
            simp only [List.length_append, List.length_reverse, List.length_cons] at hj ⊢
            have : turns.length + 1 + more.length - turns.length - 1 = (turns.length + 1 + more.length - (turns.length + 1) - 1) + 1 := by omega
            rw [this, List.getElem?_cons_succ]
            exact hj

/-- **Status `.choice`**: exactly when the last turn offers at least one choice; and then
    either the list of choices was exhausted (`cs.length + 1` turns were played) or the choice
    asked for at that turn is out of range. -/
theorem play_status_choice_iff (prog : Program) (cs : List Nat) (fuel : Nat) :
    ∃ last, (play prog cs fuel).turns.getLast? = some last ∧
      ((play prog cs fuel).status = .choice ↔
        last.choices ≠ [] ∧
          ((play prog cs fuel).turns.length = cs.length + 1
            ∨ ∃ i, cs[(play prog cs fuel).turns.length - 1]? = some i ∧ last.choices.length ≤ i)) := by
  obtain ⟨last, h1, h2, h3⟩ := loop_status_choice prog fuel cs (cs.length + 1) (initial prog) [] (by omega)
  refine ⟨last, h1, ?_⟩
  constructor
  · intro hs
    refine ⟨h2.1 hs, ?_⟩
    have := h3 hs
    simp only [List.length_nil, Nat.zero_add, Nat.sub_zero] at this
    exact this
  · intro hh; exact h2.2 hh.1

/-- The short form: status `.choice` iff the last turn offers a choice. -/
theorem play_status_choice_iff' (prog : Program) (cs : List Nat) (fuel : Nat) :
    (play prog cs fuel).status = .choice ↔
      ∃ last, (play prog cs fuel).turns.getLast? = some last ∧ last.choices ≠ [] := by
  obtain ⟨last, h1, h2, _⟩ := loop_status_choice prog fuel cs (cs.length + 1) (initial prog) [] (by omega)
  constructor
  · intro hs; exact ⟨last, h1, h2.1 hs⟩
  · rintro ⟨l, hl, hc⟩
    have : l = last := by
      have := hl.symm.trans h1
      simpa using this
    exact h2.2 (this ▸ hc)

/-- Taking a choice that is on offer gives exactly one more turn. -/
theorem loop_extend (prog : Program) (fuel : Nat) (i : Nat) (todo : List Nat) :
    ∀ (n m : Nat) (st : Source.St) (turns : List Turn) (last : Turn), todo.length ≤ n → todo.length + 1 ≤ m →
      (play.loop prog fuel n st todo turns).status = .choice →
      (play.loop prog fuel n st todo turns).turns.length = turns.length + todo.length + 1 →
      (play.loop prog fuel n st todo turns).turns.getLast? = some last →
      i < last.choices.length →
      (play.loop prog fuel m st (todo ++ [i]) turns).turns.length = turns.length + todo.length + 2 := by
  induction todo with
  | nil =>
    intro n m st turns last _ hm
    rw [loop_eq prog fuel n, loop_eq prog fuel m]
    cases hf : (round prog fuel st).fin with
    | some se =>
      obtain ⟨s, e⟩ := se
      intro hs
      exact absurd hs (round_fin_some hf).1
    | none =>
      simp only [List.nil_append]
      intro _ _ hlast hi
      have hlast : (round prog fuel st).turn = last := by simpa using hlast
      subst hlast
      cases m with
      | zero => simp at hm
      | succ m =>
        simp only
        rw [(round_choices_length hf).1] at hi
        rw [List.getElem?_eq_getElem hi]
        simp only
        obtain ⟨more, g1, g2, g3⟩ := loop_turns prog fuel [] m
          ((round prog fuel st).st2.choose ((round prog fuel st).visible[i]) true) ((round prog fuel st).turn :: turns)
        rw [g1]
        simp at g3 ⊢
        omega
  | cons j rest ih =>
    intro n m st turns last hn hm
    rw [loop_eq prog fuel n, loop_eq prog fuel m]
    cases hf : (round prog fuel st).fin with
    | some se =>
      obtain ⟨s, e⟩ := se
      intro hs
      exact absurd hs (round_fin_some hf).1
    | none =>
      cases n with
      | zero => simp at hn
      | succ n =>
        cases m with
        | zero => simp at hm
        | succ m =>
          simp only [List.cons_append]
          cases hv : (round prog fuel st).visible[j]? with
          | none =>
            simp only [mkReport_turns, List.length_append, List.length_reverse, List.length_cons, List.length_nil]
            intro _ hl
            omega
          | some p =>
            simp only
            intro hs hl hlast hi
            have := ih n m ((round prog fuel st).st2.choose p true) ((round prog fuel st).turn :: turns) last
              (by simpa using hn) (by simpa using hm) hs (by rw [hl]; simp; omega) hlast hi
            rw [this]; simp; omega

/-- **Extension by a choice on offer.**  If the play along `cs` used up all of `cs` and stopped
    at a choice point, and `i` is the index of a choice offered in its last turn, then the play
    along `cs ++ [i]` consists of the same turns followed by exactly one more. -/
theorem play_extend (prog : Program) (cs : List Nat) (i : Nat) (fuel : Nat) (last : Turn)
    (hs : (play prog cs fuel).status = .choice)
    (hlen : (play prog cs fuel).turns.length = cs.length + 1)
    (hlast : (play prog cs fuel).turns.getLast? = some last)
    (hi : i < last.choices.length) :
    (play prog (cs ++ [i]) fuel).turns.take (cs.length + 1) = (play prog cs fuel).turns
    ∧ (play prog (cs ++ [i]) fuel).turns.length = cs.length + 2 := by
  constructor
  · rw [← hlen]; exact play_take prog cs [i] fuel
  · unfold play at hs hlen hlast ⊢
    have := loop_extend prog fuel i cs (cs.length + 1) ((cs ++ [i]).length + 1) (initial prog) [] last
      (by omega) (by simp) hs (by simpa using hlen) hlast hi
    simpa using this

/-! ## E. Non-vacuity (specification) -/

/--
```
VAR n = 0
-> start
== start ==
Pick one.
* [Go] You went.
  ~ n = n + 1
  -> finish
== finish ==
Done {n}.
-> END
```
-/
def demo : Program :=
  { globals := [("n", .int 0)],
    root := [.mk none [.divert (.path ["start"] [])] []],
    knots := [
      { name := "start",
        body := [.mk none [.line [.text "Pick one."]]
          [.mk 0 false none none [] [.text "Go"] [.text "You went."]
            [.mk none [.set "n" (.bin .add (.var "n") (.lit (.int 1))), .divert (.path ["finish"] [])] []]]] },
      { name := "finish",
        body := [.mk none [.line [.text "Done ", .print (.var "n"), .text "."], .divert .end] []] }] }

def demoTurn1 : Turn :=
  { lines := [{ text := "Pick one.", tags := [] }], choices := [{ text := "Go", tags := [] }] }
def demoTurn2 : Turn :=
  { lines := [{ text := "You went.", tags := [] }, { text := "Done 1.", tags := [] }], choices := [] }

example : (play demo [] 100).turns = [demoTurn1] := by decide +kernel
example : (play demo [] 100).status = .choice := by decide +kernel
example : (play demo [0] 100).turns = [demoTurn1, demoTurn2] := by decide +kernel
example : (play demo [0] 100).status = .end ∧ (play demo [0] 100).errors = [] := by decide +kernel
example : (play demo [0] 100).globals = [("n", .int 1)] := by decide +kernel
example : (play demo [0] 100).visits = [("start", 1), ("finish", 1)] := by decide +kernel
-- an index out of range stops the play at the choice point; input after the end is ignored
example : (play demo [3] 100).status = .choice ∧ (play demo [3] 100).turns = [demoTurn1] := by
  decide +kernel
example : (play demo [0, 0] 100).turns = [demoTurn1, demoTurn2] := by decide +kernel
-- the hypotheses of `play_extend` hold for `demo`, `[]`, `0`
example : (play demo [] 100).status = .choice ∧ (play demo [] 100).turns.length = ([] : List Nat).length + 1
    ∧ (play demo [] 100).turns.getLast? = some demoTurn1 ∧ 0 < demoTurn1.choices.length := by
  refine ⟨?_, ?_, ?_, ?_⟩ <;> decide +kernel
-- arithmetic and text rules
example : wrap32 2147483648 = -2147483648 ∧ wrap32 (-2147483649) = 2147483647 := by decide +kernel
example : (match intOp .div (-2147483648) (-1) with | .error e => e == "div_zero" | _ => false) = true := by
  decide +kernel
example : cleanText "  a \t  b  " = "a b" := by decide +kernel
example : trimBlanks "  a \t  b  " = "a \t  b" := by decide +kernel
example : linesOf [.text "a ", .nl, .nl, .text " ", .nl, .tag " t ", .nl, .text "b"]
    = [⟨"a", []⟩, ⟨"", ["t"]⟩, ⟨"b", []⟩] := by decide +kernel

end Spec

section Runtime
open Ink.Story

/-! ## D. Exactly once, on the model of the runtime -/

/-- Rewinding: the state is the snapshot again — everything done since it was taken is undone. -/
theorem restoreSnapshot_state {st : Story} {snap : StoryState} (h : st.snapshot = some snap) :
    (st.restoreSnapshot).state = { snap with patching := false } ∧ (st.restoreSnapshot).snapshot = none := by
  unfold Story.restoreSnapshot
  rw [h]
  exact ⟨rfl, rfl⟩

/-- Discarding the snapshot: what was done stays. -/
theorem discardSnapshot_keeps (st : Story) :
    (st.discardSnapshot).state = { st.state with patching := false } ∧ (st.discardSnapshot).snapshot = none :=
  ⟨rfl, rfl⟩

/-- Taking a snapshot saves the whole state. -/
theorem stateSnapshot_saves (st : Story) :
    (st.stateSnapshot).snapshot = some st.state ∧ (st.stateSnapshot).state = { st.state with patching := true } :=
  ⟨rfl, rfl⟩

/-- Whatever actions run after a snapshot was taken: the rewind gives back the state
    at the moment of the snapshot (all of it: output, variables, visit and turn counts, choices,
    call stack, errors, warnings). -/
theorem lookahead_undone {α β : Type} (st : Story) (m : M α) (m' : M β) :
    ((st.stateSnapshot.runM m).2.restoreSnapshot).state = { st.state with patching := false }
    ∧ (((st.stateSnapshot.runM m).2.runM m').2.restoreSnapshot).state = { st.state with patching := false } := by
  constructor
  · exact (restoreSnapshot_state (snap := st.state) (by rw [runM_snapshot]; rfl)).1
  · exact (restoreSnapshot_state (snap := st.state) (by rw [runM_snapshot, runM_snapshot]; rfl)).1

theorem cssEnd_fst (st3 : Story) : (C08.cssEnd st3).1 = .ok false := by
  unfold C08.cssEnd
  split
  · split <;> rfl
  · rfl

/-- The tail of a step ends the line (`ok true`) only by rewinding. -/
theorem cssTail_rewind {st2 s1 : Story} (h : C08.cssTail st2 = (.ok true, s1)) :
    ∃ snap, st2.snapshot = some snap ∧ s1 = st2.restoreSnapshot
      ∧ (calcNewlineChange (utf8 snap.currentText) (utf8 st2.state.currentText)
            snap.currentTags.length st2.state.currentTags.length == .extendedBeyondNewline
          || st2.sawUnsafe) = true := by
  rw [C08.cssTail_eq] at h
  split at h
  · cases h
  · split at h
    · rename_i snap hs
      split at h
      · rename_i hc
        refine ⟨snap, hs, ?_, hc⟩
        cases h; rfl
      · split at h
        · have := cssEnd_fst st2.discardSnapshot
          rw [h] at this; cases this
        · have := cssEnd_fst st2
          rw [h] at this; cases this
    · have := cssEnd_fst st2
      rw [h] at this; cases this

theorem cssMid_rewind {st1 s1 : Story} (h : C08.cssMid st1 = (.ok true, s1)) :
    ∃ snap, st1.snapshot = some snap ∧ s1.state = { snap with patching := false } ∧ s1.snapshot = none := by
  unfold C08.cssMid at h
  simp only at h
  split at h
  · cases h
  · cases h
  · rename_i st2 heq
    obtain ⟨snap, hs, rfl, _⟩ := cssTail_rewind h
    have hsn : st2.snapshot = st1.snapshot := by
      split at heq
      · have := runM_snapshot st1 (tryFollowDefaultInvisibleChoice st1.env)
        rw [heq] at this; exact this
      · cases heq; rfl
    exact ⟨snap, hsn ▸ hs, (restoreSnapshot_state hs).1, (restoreSnapshot_state hs).2⟩

/-- **A step that ends a line does so by rewinding**: the only way for `continueSingleStep` to
    report the end of a line is the look-ahead branch (a snapshot is held, and the text ran on
    beyond the line break or something that cannot be undone was met); the resulting state is the
    state saved at the line break, so nothing that was executed while looking ahead — assignments,
    visit and turn counts, generated choices, output — is carried over.  The next `continue`
    executes it again from that state: once. -/
theorem continueSingleStep_rewind {st s1 : Story} (h : st.continueSingleStep = (.ok true, s1)) :
    ∃ snap, st.snapshot = some snap ∧ s1.state = { snap with patching := false } ∧ s1.snapshot = none := by
  rw [C08.css_eq] at h
  have hsn := runM_snapshot st (step st.env)
  rcases hr : st.runM (step st.env) with ⟨r, st1⟩
  rw [hr] at h hsn
  cases r with
  | err k m => cases h
  | panic p => cases h
  | ok u =>
    cases u
    obtain ⟨snap, hs, h2, h3⟩ := cssMid_rewind h
    exact ⟨snap, hsn ▸ hs, h2, h3⟩

/-- What a snapshot can become in one step: kept as it is, dropped, or replaced by a snapshot
    of the present state. -/
def SnapStep (before : Option StoryState) (s1 : Story) : Prop :=
  s1.snapshot = before ∨ s1.snapshot = none
    ∨ ∃ s', s1.snapshot = some s' ∧ s1.state = { s' with patching := true }

theorem cssEnd_snap (st3 : Story) : SnapStep st3.snapshot (C08.cssEnd st3).2 := by
  unfold C08.cssEnd
  split
  · split
    · split
      · exact .inr (.inr ⟨st3.state, rfl, rfl⟩)
      · exact .inl rfl
    · exact .inr (.inl rfl)
  · exact .inl rfl

theorem SnapStep.of_none {s1 : Story} {o : Option StoryState} (h : SnapStep none s1) : SnapStep o s1 := by
  rcases h with h | h | h
  · exact .inr (.inl h)
  · exact .inr (.inl h)
  · exact .inr (.inr h)

theorem cssTail_snap (st2 : Story) : SnapStep st2.snapshot (C08.cssTail st2).2 := by
  rw [C08.cssTail_eq]
  split
  · exact .inl rfl
  · split
    · split
      · exact .inr (.inl (restoreSnapshot_snapshot st2))
      · split
        · exact (cssEnd_snap st2.discardSnapshot).of_none
        · exact cssEnd_snap st2
    · exact cssEnd_snap st2

/-- **Looking ahead never alters the snapshot**: after a step the snapshot is the one held
    before, or none, or a new one of the present state.  So the state a later rewind goes back
    to is exactly the state at the line break. -/
theorem continueSingleStep_snapshot (st : Story) :
    SnapStep st.snapshot (st.continueSingleStep).2 := by
  rw [C08.css_eq]
  have hsn := runM_snapshot st (step st.env)
  rcases hr : st.runM (step st.env) with ⟨r, st1⟩
  rw [hr] at hsn
  simp only at hsn
  cases r with
  | err k m => exact .inl hsn
  | panic p => exact .inl hsn
  | ok u =>
    cases u
    simp only
    unfold C08.cssMid
    simp only
    split
    · rename_i st2 heq
      refine .inl ?_
      split at heq
      · have := runM_snapshot st1 (tryFollowDefaultInvisibleChoice st1.env)
        rw [heq] at this; exact this.trans hsn
      · cases heq
    · rename_i st2 heq
      refine .inl ?_
      split at heq
      · have := runM_snapshot st1 (tryFollowDefaultInvisibleChoice st1.env)
        rw [heq] at this; exact this.trans hsn
      · cases heq
    · rename_i st2 heq
      have hs2 : st2.snapshot = st.snapshot := by
        split at heq
        · have := runM_snapshot st1 (tryFollowDefaultInvisibleChoice st1.env)
          rw [heq] at this; exact this.trans hsn
        · cases heq; exact hsn
      rw [← hs2]
      exact cssTail_snap st2

/-- `Ahead a b`: the loop gets from `a` to `b` by steps that do not end the line. -/
inductive Ahead : Story → Story → Prop where
  | refl (a : Story) : Ahead a a
  | step {a b c : Story} : Ahead a b → (C08.decFuel b).continueSingleStep = (.ok false, c) → Ahead a c

/-- **The loop ends a line only by rewinding** to the snapshot held at that moment. -/
theorem stepLoop_newline (b : Option Nat) (F : Nat) : ∀ (k : Nat) (st s1 : Story),
    stepLoop b F k st = (.ok .newline, s1) →
    ∃ st' snap, Ahead st st' ∧ st'.snapshot = some snap
      ∧ s1.state = { snap with patching := false } ∧ s1.snapshot = none := by
  induction F with
  | zero => intro k st s1 h; cases h
  | succ F ih =>
    intro k st s1 h
    rw [C08.stepLoop_succ] at h
    cases hi : C08.iter st with
    | done r s =>
      rw [hi] at h
      simp only [Prod.mk.injEq] at h
      obtain ⟨rfl, rfl⟩ := h
      -- the iteration ended the loop with `newline`: the step returned `ok true`
      unfold C08.iter at hi
      split at hi
      · cases hi
      · rcases hc : (C08.decFuel st).continueSingleStep with ⟨r, s⟩
        rw [hc] at hi
        cases r with
        | panic p => cases hi
        | err k m => cases hi
        | ok bb =>
          cases bb with
          | false => cases hi
          | true =>
            simp only [C08.Iter.done.injEq, true_and] at hi
            subst hi
            obtain ⟨snap, h1, h2, h3⟩ := continueSingleStep_rewind hc
            exact ⟨st, snap, .refl st, h1, h2, h3⟩
    | more st1 =>
      rw [hi] at h
      simp only at h
      split at h
      · cases h
      · split at h
        · cases h
        · obtain ⟨st', snap, ha, h1, h2, h3⟩ := ih _ _ _ h
          refine ⟨st', snap, ?_, h1, h2, h3⟩
          have hstep := C08.iter_more st st1 hi
          -- prepend the step
          clear h h1 h2 h3 ih
          induction ha with
          | refl => exact .step (.refl st) hstep
          | step _ hc ih' => exact .step ih' hc

/-! ## E. Non-vacuity (runtime model) -/

/-- "a", line break, `~ temp x = 1`, "b", line break, done. -/
def exRoot4 : Obj :=
  .container none 0 [.val (.str "a"), .val (.str "\n"),
    .cmd .evalStart, .val (.int 1), .cmd .evalEnd, .varAss "x" true false,
    .val (.str "b"), .val (.str "\n"), .cmd .done] []
def exStory4 : Story := { C08.exStory2 with root := exRoot4 }

/-- the numbers of temporaries in the frames of the call stack -/
def tempCounts (s : Story) : List Nat :=
  s.core.callstack.threads.flatMap (fun t => t.callstack.map (·.temps.length))

-- six steps into the first `continue`: the line break was seen, a snapshot is held and the
-- look-ahead has executed the assignment (one temporary) …
example : (match stepLoop (some 6) 20 0 (exStory4.beginContinue true) with
    | (.ok .outOfTime, s) => s.state.currentText == "a\n" && s.snapshot.isSome && tempCounts s == [1]
    | _ => false) = true := by decide +kernel
-- … the seventh step sees "b", ends the line and rewinds: the assignment is undone (it will be
-- executed by the next `continue`: once)
example : (match stepLoop none 20 0 (exStory4.beginContinue false) with
    | (.ok .newline, s) => s.state.currentText == "a\n" && s.snapshot.isNone && tempCounts s == [0]
    | _ => false) = true := by decide +kernel
-- so the hypothesis of `stepLoop_newline` is satisfiable
example : ∃ s, stepLoop none 20 0 (exStory4.beginContinue false) = (.ok .newline, s) := by
  have h : (match stepLoop none 20 0 (exStory4.beginContinue false) with
      | (.ok .newline, _) => true
      | _ => false) = true := by decide +kernel
  generalize stepLoop none 20 0 (exStory4.beginContinue false) = x at h
  split at h
  · exact ⟨_, rfl⟩
  · cases h

end Runtime

end C01
end Ink
