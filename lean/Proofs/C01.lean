import Ink.Source
namespace Ink
namespace C01
end C01
end Ink
