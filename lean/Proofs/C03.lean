/-
  Proofs/C03.lean — play is a deterministic function of program, seed and host calls.

  The model is a family of pure functions of an explicit state, so "same program, same seed, same
  host calls ⇒ same result" holds of the model by construction; what has to be PROVED is that the
  one input the model has and a host cannot control — the iteration order of the hash maps, kept
  as the order of the association lists in `InkList.items` / `InkList.origins` — does not
  influence anything observable.  These are the theorems below (proofs in
  Proofs/Lemmas/ListPerm.lean and NativePerm.lean).  checks/c03.py ties them to the code: it
  regenerates the inventory of hash-iteration sites from the source and compares it with the
  reviewed list, and replays all transcripts on the model.
-/
import Proofs.Lemmas.NativePerm

namespace Ink
namespace C03

open InkList

/-- Every expression tree: value (up to item order), printed text and faults do not depend on
    the hash order of the list values in the variables. -/
theorem list_values_order_independent {defs : ListDefs} (hd : DefsFunctional defs)
    {env env' : List (String × Val)} (he : EnvEquiv env env') (hw : EnvWF env) (hw' : EnvWF env')
    {e : Expr} (hl : e.LitWF) :
    (∀ v, e.eval defs env = .ok v →
      ∃ v', e.eval defs env' = .ok v' ∧ v'.display = v.display ∧ Val.Equiv v v') ∧
    (∀ k m, e.eval defs env = .err k m → e.eval defs env' = .err k m) ∧
    (∀ s, e.eval defs env = .panic s → e.eval defs env' = .panic s) :=
  Expr.eval_order_independent hd he hw hw' hl

/-- Every native operator respects the equivalence "same items, other hash order". -/
theorem operators_order_independent {defs : ListDefs} (hd : DefsFunctional defs) (op : Op) {ps ps' : List Obj}
    (h : List.Forall₂ Obj.Equiv ps ps') (hw : ∀ p ∈ ps, ∀ v, p = .val v → v.WF)
    (hw' : ∀ p ∈ ps', ∀ v, p = .val v → v.WF) :
    Out.Equiv Obj.Equiv (Native.call defs op ps) (Native.call defs op ps') :=
  Native.call_equiv hd op h hw hw'

/-- What is printed for a list, and the order in which a save lists nothing but a set. -/
theorem printed_list_sorted {a b : InkList} (h : a.items.Perm b.items) :
    a.display = b.display ∧ a.ordered = b.ordered := ⟨display_perm h, ordered_perm h⟩

/-- LIST_MIN / LIST_MAX / LIST_VALUE / comparisons single out the same item (ties between equal
    values in different lists are broken by origin and item name, not by hash order). -/
theorem extrema_order_independent {a b : InkList} (h : a.items.Perm b.items) :
    a.maxItem = b.maxItem ∧ a.minItem = b.minItem ∧ a.maxVal = b.maxVal ∧ a.minVal = b.minVal :=
  ⟨maxItem_perm h, minItem_perm h, maxVal_perm h, minVal_perm h⟩

/-- LIST_RANDOM picks position `n mod count` of the sorted items: the pick is the same for any
    hash order. -/
theorem list_random_pick_order_independent {a b : InkList} (h : a.items.Perm b.items) (n : Nat) :
    a.ordered.reverse[n % a.items.length]? = b.ordered.reverse[n % b.items.length]? := by
  rw [ordered_perm h, h.length_eq]

/-- LIST_ALL / LIST_INVERT range over the origin definitions as a set. -/
theorem origins_order_independent (defs : ListDefs) {l l' : InkList} (ho : l.origins.Perm l'.origins)
    (hi : l.items.Perm l'.items) :
    (all defs l).items.Perm (all defs l').items ∧ (inverse defs l).items.Perm (inverse defs l').items :=
  ⟨all_perm defs ho, inverse_perm defs ho hi⟩

/-- `list + n` / `list - n`. -/
theorem increment_order_independent {defs : ListDefs} (hd : DefsFunctional defs) {l l' : InkList}
    (hi : l.items.Perm l'.items) (ho : l.origins.Perm l'.origins) (n : Int) (add : Bool) :
    (increment defs l n add).items.Perm (increment defs l' n add).items :=
  increment_perm hd hi ho n add

/-- Non-vacuity: two different hash orders of the same list. -/
example : ([(({ origin := some "A", name := "x" } : ListItem), (1 : Int)), ({ origin := some "B", name := "y" }, 1)] :
    List (ListItem × Int)).Perm [({ origin := some "B", name := "y" }, 1), ({ origin := some "A", name := "x" }, 1)] :=
  List.Perm.swap _ _ _

end C03
end Ink
