import Lean.Elab.Tactic
import Proofs.C16
import Proofs.C10Frame

/-
  C16 (frame part) — what the steps executed INSIDE a host function evaluation
  can and cannot touch.  See the summary at the end of the file.
-/
namespace Ink
namespace C16F
open M

/-! ### 1. The skeleton of a call-stack element: everything but its temporaries -/

structure Skel where
  ptr : Ptr
  inExpr : Bool
  kind : PushPop
  evalHeightWhenPushed : Nat
  funcStartInOutput : Int

def skel (e : Element) : Skel :=
  { ptr := e.ptr, inExpr := e.inExpr, kind := e.kind, evalHeightWhenPushed := e.evalHeightWhenPushed,
    funcStartInOutput := e.funcStartInOutput }

abbrev game : PushPop := .functionEvaluationFromGame

/-- `GT sk l`: the list of call-stack elements `l` (bottom first) starts with
    elements whose skeletons are `sk`, followed by an evaluation frame. -/
def GT (sk : List Skel) (l : List Element) : Prop :=
  (l.take sk.length).map skel = sk ∧ ∃ e, l[sk.length]? = some e ∧ e.kind = game

variable {sk : List Skel}

theorem GT.lt {l : List Element} (h : GT sk l) : sk.length < l.length := by
  obtain ⟨_, e, he, _⟩ := h
  exact (List.getElem?_eq_some_iff.mp he).1

theorem GT_init (l : List Element) (e : Element) (hk : e.kind = game) : GT (l.map skel) (l ++ [e]) := by
  refine ⟨?_, e, ?_, hk⟩
  · simp
  · simp

theorem GT_append {l : List Element} (h : GT sk l) (x : Element) : GT sk (l ++ [x]) := by
  have hlt := h.lt
  obtain ⟨h1, e, he, hk⟩ := h
  refine ⟨?_, e, ?_, hk⟩
  · rw [List.take_append_of_le_length (by omega)]; exact h1
  · rw [List.getElem?_append_left hlt]; exact he

/-- the top element is not the evaluation frame: there is something above it -/
theorem GT.above {l : List Element} (h : GT sk l) (x : Element) (hx : l.getLast? = some x) (hk : x.kind ≠ game) :
    sk.length + 1 < l.length := by
  have hlt := h.lt
  obtain ⟨_, e, he, hek⟩ := h
  by_cases hl : sk.length + 1 = l.length
  · exfalso
    rw [List.getLast?_eq_getElem?] at hx
    have : l.length - 1 = sk.length := by omega
    rw [this, he] at hx
    cases hx
    exact hk hek
  · omega

theorem GT_dropLast {l : List Element} (h : GT sk l) (x : Element) (hx : l.getLast? = some x) (hk : x.kind ≠ game) :
    GT sk l.dropLast := by
  have hab := h.above x hx hk
  obtain ⟨h1, e, he, hek⟩ := h
  refine ⟨?_, e, ?_, hek⟩
  · rw [List.dropLast_eq_take, List.take_take, Nat.min_eq_left (by omega)]
    exact h1
  · rw [List.dropLast_eq_take, List.getElem?_take_of_lt (by omega)]; exact he

theorem GT_replaceLast {l : List Element} (h : GT sk l) (x y : Element) (hx : l.getLast? = some x)
    (hk : y.kind = x.kind) : GT sk (l.dropLast ++ [y]) := by
  have hlt := h.lt
  have hdl : l.dropLast.length = l.length - 1 := List.length_dropLast
  obtain ⟨h1, e, he, hek⟩ := h
  refine ⟨?_, ?_⟩
  · rw [List.take_append_of_le_length (by omega), List.dropLast_eq_take,
      List.take_take, Nat.min_eq_left (by omega)]
    exact h1
  · by_cases hl : sk.length + 1 = l.length
    · refine ⟨y, ?_, ?_⟩
      · rw [List.getElem?_append_right (by omega)]
        have : sk.length - l.dropLast.length = 0 := by omega
        rw [this]; rfl
      · rw [List.getLast?_eq_getElem?] at hx
        have : l.length - 1 = sk.length := by omega
        rw [this, he] at hx
        cases hx
        rw [hk]; exact hek
    · refine ⟨e, ?_, hek⟩
      rw [List.getElem?_append_left (by omega), List.dropLast_eq_take, List.getElem?_take_of_lt (by omega)]
      exact he

theorem GT_set {l : List Element} (h : GT sk l) (i : Nat) (e e' : Element) (hi : l[i]? = some e)
    (hs : skel e' = skel e) : GT sk (l.set i e') := by
  have hmap : (l.set i e').map skel = l.map skel := by
    rw [List.map_set, hs]
    apply List.ext_getElem?
    intro j
    rw [List.getElem?_set]
    by_cases hij : i = j
    · rw [if_pos hij]
      have hlt : i < l.length := (List.getElem?_eq_some_iff.mp hi).1
      rw [← hij, if_pos (by simpa using hlt), List.getElem?_map, hi]; rfl
    · rw [if_neg hij]
  obtain ⟨h1, e0, he0, hek⟩ := h
  refine ⟨by rw [List.map_take, hmap, ← List.map_take]; exact h1, ?_⟩
  rw [List.getElem?_set]
  by_cases hij : i = sk.length
  · rw [if_pos hij]
    have hlt : i < l.length := (List.getElem?_eq_some_iff.mp hi).1
    rw [if_pos hlt]
    refine ⟨e', rfl, ?_⟩
    rw [← hij, hi] at he0
    cases he0
    have : (skel e').kind = (skel e).kind := by rw [hs]
    exact this.trans hek
  · rw [if_neg hij]; exact ⟨e0, he0, hek⟩

/-- the loop of `push_to_output_stream_individual` that clears `funcStartInOutput`
    on the function frames at the top never passes a frame that is not a function -/
theorem clear_stops (xs r : List Element) (ef : Element) (hk : ef.kind ≠ PushPop.function) :
    ∃ xs', Core.pushIndividual.clear (xs ++ ef :: r) = xs' ++ ef :: r ∧ xs'.length = xs.length := by
  induction xs with
  | nil =>
    refine ⟨[], ?_, rfl⟩
    simp only [List.nil_append, Core.pushIndividual.clear]
    have : (ef.kind == PushPop.function) = false := by simpa using hk
    simp [this]
  | cons x xs ih =>
    obtain ⟨xs', h1, h2⟩ := ih
    simp only [List.cons_append, Core.pushIndividual.clear]
    split
    · exact ⟨_ :: xs', by rw [h1]; rfl, by simp [h2]⟩
    · exact ⟨x :: xs, rfl, rfl⟩

theorem GT_clear {l : List Element} (h : GT sk l) : GT sk (Core.pushIndividual.clear l.reverse).reverse := by
  have hlt := h.lt
  obtain ⟨h1, e, he, hek⟩ := h
  have hdec : l = l.take sk.length ++ e :: l.drop (sk.length + 1) := by
    have hget : l[sk.length] = e := by
      have := List.getElem?_eq_some_iff.mp he
      exact this.2
    conv => lhs; rw [← List.take_append_drop sk.length l]
    congr 1
    rw [List.drop_eq_getElem_cons hlt, hget]
  have hrev : l.reverse = (l.drop (sk.length + 1)).reverse ++ e :: (l.take sk.length).reverse := by
    conv => lhs; rw [hdec]
    simp
  obtain ⟨xs', hc, _⟩ := clear_stops (l.drop (sk.length + 1)).reverse (l.take sk.length).reverse e
    (by rw [hek]; decide)
  rw [hrev, hc]
  have hlen : (l.take sk.length).length = sk.length := by simp; omega
  refine ⟨?_, e, ?_, hek⟩
  · simp only [List.reverse_append, List.reverse_cons, List.reverse_reverse, List.append_assoc]
    rw [List.take_left' hlen]
    exact h1
  · simp only [List.reverse_append, List.reverse_cons, List.reverse_reverse, List.append_assoc]
    rw [List.getElem?_append_right (by omega)]
    simp [hlen]


/-! ### 2. The invariant of an evaluation in progress -/

/-- call stack part: there is a thread, and every thread keeps the skeletons `sk` below an evaluation frame -/
def GoodCS (sk : List Skel) (cs : CallStack) : Prop :=
  cs.threads ≠ [] ∧ ∀ t ∈ cs.threads, GT sk t.callstack

/-- `Good sk ch c`: an evaluation is in progress in `c`: every thread of the current flow has,
    at the bottom, the elements the story had when the evaluation started (up to their
    temporaries) and an evaluation frame just above them; the pending choices are those of the
    story (`ch`) followed by choices created during the evaluation, whose threads have the same shape. -/
def Good (sk : List Skel) (ch : List Choice) (c : Core) : Prop :=
  GoodCS sk c.flow.callstack ∧
  ∃ extra, c.flow.choices = ch ++ extra ∧ ∀ x ∈ extra, ∀ th, x.thread = some th → GT sk th.callstack

/-- `Ended c`: the story was ended (`-> END`, or a runtime error): no current pointer, no evaluation frame on top, no choices. -/
def Ended (c : Core) : Prop :=
  c.currentPtr.isNull = true ∧ c.callstack.elementIsEvaluateFromGame = false ∧ c.flow.choices = []

variable {ch : List Choice}

section callstack
variable {cs : CallStack}

theorem goodCS_mapCurrentThread (h : GoodCS sk cs) (f : Thread → Thread)
    (hf : ∀ t, cs.threads.getLast? = some t → GT sk t.callstack → GT sk (f t).callstack) :
    GoodCS sk (cs.mapCurrentThread f) := by
  unfold CallStack.mapCurrentThread
  split
  · rename_i t ht
    refine ⟨by simp, ?_⟩
    intro t' ht'
    simp only [List.mem_append, List.mem_singleton] at ht'
    rcases ht' with h1 | h1
    · exact h.2 _ (List.dropLast_subset _ h1)
    · subst h1; exact hf _ ht (h.2 _ (List.mem_of_getLast? ht))
  · exact h

theorem goodCS_mapCurrentElement (h : GoodCS sk cs) (f : Element → Element)
    (hf : ∀ e, (f e).kind = e.kind) : GoodCS sk (cs.mapCurrentElement f) := by
  unfold CallStack.mapCurrentElement
  apply goodCS_mapCurrentThread h
  intro t _ ht
  split
  · rename_i e he; exact GT_replaceLast ht e _ he (hf e)
  · exact ht

theorem goodCS_push (h : GoodCS sk cs) (k : PushPop) (n : Nat) (o : Int) (cs' : CallStack)
    (hp : cs.push k n o = some cs') : GoodCS sk cs' := by
  unfold CallStack.push at hp
  split at hp
  · cases hp
    exact goodCS_mapCurrentThread h _ (fun t _ ht => GT_append ht _)
  · cases hp

theorem goodCS_pop (h : GoodCS sk cs) (hne : cs.elementIsEvaluateFromGame = false) (ty : Option PushPop)
    (cs' : CallStack) (hp : cs.pop ty = .ok cs') : GoodCS sk cs' := by
  unfold CallStack.pop at hp
  split at hp
  · cases hp
    unfold CallStack.mapCurrentThread
    split
    · rename_i t ht
      refine ⟨by simp, ?_⟩
      intro t' ht'
      simp only [List.mem_append, List.mem_singleton] at ht'
      rcases ht' with h1 | h1
      · exact h.2 _ (List.dropLast_subset _ h1)
      · subst h1
        have hgt := h.2 _ (List.mem_of_getLast? ht)
        have hlt := hgt.lt
        cases hl : t.callstack.getLast? with
        | none => rw [List.getLast?_eq_none_iff] at hl; rw [hl] at hlt; simp at hlt
        | some x =>
          refine GT_dropLast hgt x hl ?_
          intro hk
          unfold CallStack.elementIsEvaluateFromGame CallStack.currentElement CallStack.currentThread at hne
          rw [ht] at hne
          simp only [hl, hk] at hne
          exact absurd hne (by decide)
    · exact h
  · cases hp

theorem canPopType_function_notGame (h : cs.canPopType (some .function) = true) :
    cs.elementIsEvaluateFromGame = false := by
  unfold CallStack.canPopType at h
  unfold CallStack.elementIsEvaluateFromGame
  split at h
  · cases h
  · simp only at h
    split at h
    · rename_i e he
      have : e.kind = .function := by simpa using h
      simp [this]
    · cases h

theorem goodCS_popThread (h : GoodCS sk cs) (cs' : CallStack) (hp : cs.popThread = .ok cs') : GoodCS sk cs' := by
  unfold CallStack.popThread at hp
  split at hp
  · rename_i hc
    cases hp
    unfold CallStack.canPopThread at hc
    have hlen : cs.threads.length > 1 := by
      simp only [Bool.and_eq_true, decide_eq_true_eq] at hc; exact hc.1
    refine ⟨?_, fun t ht => h.2 _ (List.dropLast_subset _ ht)⟩
    intro h0
    have := congrArg List.length h0
    simp at this
    omega
  · cases hp

theorem goodCS_pushThread (h : GoodCS sk cs) : GoodCS sk cs.pushThread := by
  unfold CallStack.pushThread
  split
  · rename_i t ht
    unfold CallStack.currentThread at ht
    refine ⟨by simp, ?_⟩
    intro t' ht'
    simp only [List.mem_append, List.mem_singleton] at ht'
    rcases ht' with h1 | h1
    · exact h.2 _ h1
    · subst h1; exact h.2 t (List.mem_of_getLast? ht)
  · exact h

theorem goodCS_forkThread (h : GoodCS sk cs) (cs' : CallStack) (th : Thread) (hf : cs.forkThread = some (cs', th)) :
    GoodCS sk cs' ∧ GT sk th.callstack := by
  unfold CallStack.forkThread at hf
  split at hf
  · rename_i t ht
    unfold CallStack.currentThread at ht
    cases hf
    exact ⟨h, h.2 t (List.mem_of_getLast? ht)⟩
  · cases hf

theorem goodCS_setCurrentThread (th : Thread) (hth : GT sk th.callstack) : GoodCS sk (cs.setCurrentThread th) := by
  refine ⟨by simp [CallStack.setCurrentThread], ?_⟩
  intro t ht
  simp only [CallStack.setCurrentThread, List.mem_singleton] at ht
  subst ht; exact hth

theorem GT_set_any {l : List Element} (h : GT sk l) (i : Nat) (e e' : Element) (hi : l[i]? = some e ∨ l[i]? = none)
    (hs : skel e' = skel e) : GT sk (l.set i e') := by
  rcases hi with hi | hi
  · exact GT_set h i e e' hi hs
  · rw [List.getElem?_eq_none_iff] at hi
    rw [List.set_eq_of_length_le hi]; exact h

theorem goodCS_setTemp (h : GoodCS sk cs) (name : String) (v : Val) (d : Bool) (ctx : Int) (cs' : CallStack)
    (hp : cs.setTemp name v d ctx = .ok cs') : GoodCS sk cs' := by
  unfold CallStack.setTemp at hp
  simp only at hp
  generalize (if ctx == -1 then cs.currentElementIndex + 1 else ctx) = c at hp
  split at hp
  · cases hp
  · split at hp
    · cases hp
    · rename_i e he
      split at hp
      · cases hp
      · cases hp
        apply goodCS_mapCurrentThread h
        intro t htl ht
        refine GT_set_any ht _ e _ ?_ rfl
        unfold CallStack.elements CallStack.currentThread at he
        rw [htl] at he
        exact Or.inl he

end callstack


section core
variable {s : Core}

theorem good_of_eq {s s' : Core} (h : Good sk ch s) (h1 : s'.flow.callstack = s.flow.callstack)
    (h2 : s'.flow.choices = s.flow.choices) : Good sk ch s' := by
  unfold Good at *; rw [h1, h2]; exact h

theorem good_setCallstack (h : Good sk ch s) (cs : CallStack) (hcs : GoodCS sk cs) : Good sk ch (s.setCallstack cs) :=
  ⟨hcs, h.2⟩

theorem good_setCurrentPtr (h : Good sk ch s) (p : Ptr) : Good sk ch (s.setCurrentPtr p) :=
  ⟨goodCS_mapCurrentElement h.1 _ (fun _ => rfl), h.2⟩

theorem good_setInExpr (h : Good sk ch s) (b : Bool) : Good sk ch (s.setInExpr b) :=
  ⟨goodCS_mapCurrentElement h.1 _ (fun _ => rfl), h.2⟩

theorem good_setPrevPtr (h : Good sk ch s) (p : Ptr) : Good sk ch (s.setPrevPtr p) :=
  ⟨goodCS_mapCurrentThread h.1 _ (fun _ _ ht => ht), h.2⟩

theorem good_setOutput (h : Good sk ch s) (o : List Obj) : Good sk ch (s.setOutput o) := ⟨h.1, h.2⟩

theorem good_resetOutput (h : Good sk ch s) (o : Option (List Obj)) : Good sk ch (s.resetOutput o) := ⟨h.1, h.2⟩

theorem good_popFromOutput (h : Good sk ch s) (n : Nat) : Good sk ch (s.popFromOutput n) := by
  unfold Core.popFromOutput; split
  · exact good_setOutput h _
  · exact h

theorem trimWs_callstack : s.trimWhitespaceFromFunctionEnd.flow.callstack = s.flow.callstack := by
  unfold Core.trimWhitespaceFromFunctionEnd; simp only; split <;> rfl

theorem trimWs_choices : s.trimWhitespaceFromFunctionEnd.flow.choices = s.flow.choices := by
  unfold Core.trimWhitespaceFromFunctionEnd; simp only; split <;> rfl

theorem good_ite {c : Prop} [Decidable c] {a b : Core} (ha : Good sk ch a) (hb : Good sk ch b) :
    Good sk ch (if c then a else b) := by split <;> assumption

theorem good_clear (h : Good sk ch s) : Good sk ch (s.mapCallstack (fun cs => cs.mapCurrentThread (fun th =>
    { th with callstack := (Core.pushIndividual.clear th.callstack.reverse).reverse }))) :=
  ⟨goodCS_mapCurrentThread h.1 _ (fun _ _ ht => GT_clear ht), h.2⟩

/-- auxiliary: call stack still good, choices those of `s0` -/
def PI (sk : List Skel) (s0 : Core) (c : Core) : Prop := GoodCS sk c.flow.callstack ∧ c.flow.choices = s0.flow.choices

theorem PI_ite {s0 : Core} {c : Prop} [Decidable c] {a b : Core} (ha : PI sk s0 a) (hb : PI sk s0 b) :
    PI sk s0 (if c then a else b) := by split <;> assumption

theorem PI_setOutput {s0 a : Core} (ha : PI sk s0 a) (o : List Obj) : PI sk s0 (a.setOutput o) := ha

theorem PI_clear {s0 a : Core} (ha : PI sk s0 a) : PI sk s0 (a.mapCallstack (fun cs => cs.mapCurrentThread (fun th =>
    { th with callstack := (Core.pushIndividual.clear th.callstack.reverse).reverse }))) :=
  ⟨goodCS_mapCurrentThread ha.1 _ (fun _ _ ht => GT_clear ht), ha.2⟩

theorem PI_pushIndividual (h : GoodCS sk s.flow.callstack) (o : Obj) : PI sk s (s.pushIndividual o) := by
  have hP : PI sk s s := ⟨h, rfl⟩
  unfold Core.pushIndividual
  split
  · exact hP
  · simp only
    repeat' (first | exact hP | apply PI_ite | split | apply PI_setOutput | apply PI_clear)
  · exact hP

theorem good_pushIndividual (h : Good sk ch s) (o : Obj) : Good sk ch (s.pushIndividual o) := by
  obtain ⟨h1, h2⟩ := PI_pushIndividual h.1 o
  exact ⟨h1, by rw [h2]; exact h.2⟩

theorem good_foldl {β : Type} (f : Core → β → Core) (hf : ∀ c b, Good sk ch c → Good sk ch (f c b))
    (l : List β) (c : Core) (h : Good sk ch c) : Good sk ch (l.foldl f c) := by
  induction l generalizing c with
  | nil => exact h
  | cons x xs ih => exact ih _ (hf _ _ h)

theorem good_pushToOutput (h : Good sk ch s) (o : Obj) : Good sk ch (s.pushToOutput o) := by
  unfold Core.pushToOutput
  split
  · split
    · exact good_foldl _ (fun c b hc => good_pushIndividual hc _) _ _ h
    · exact good_pushIndividual h _
  · exact good_pushIndividual h _

theorem good_foldl_pushToOutput (h : Good sk ch s) (l : List Obj) :
    Good sk ch (l.foldl (fun st t => st.pushToOutput t) s) :=
  good_foldl _ (fun _ _ hc => good_pushToOutput hc _) _ _ h

theorem good_pushEval (h : Good sk ch s) (defs : ListDefs) (o : Obj) (s' : Core) (hp : s.pushEval defs o = .ok s') :
    Good sk ch s' := by
  unfold Core.pushEval at hp
  split at hp
  · split at hp
    · cases hp
    · cases hp; exact h
  · cases hp; exact h

theorem good_popEval (h : Good sk ch s) (o : Obj) (s' : Core) (hp : s.popEval = .ok (o, s')) : Good sk ch s' := by
  unfold Core.popEval at hp
  split at hp
  · cases hp; exact h
  · cases hp

theorem good_popEvalMultiple (h : Good sk ch s) (n : Nat) (os : List Obj) (s' : Core)
    (hp : s.popEvalMultiple n = .ok (os, s')) : Good sk ch s' := by
  unfold Core.popEvalMultiple at hp
  split at hp
  · cases hp; exact h
  · cases hp

theorem good_setGlobal (h : Good sk ch s) (n : String) (v : Val) : Good sk ch (s.setGlobal n v).1 := by
  unfold Core.setGlobal; exact h

theorem good_assign (h : Good sk ch s) (defs : ListDefs) (name : String) (isNew isGlobal : Bool) (v : Val) (s' : Core)
    (hp : s.assign defs name isNew isGlobal v = .ok s') : Good sk ch s' := by
  unfold Core.assign at hp
  split at hp
  · simp only at hp
    split at hp
    · cases hp; exact good_setGlobal h _ _
    · split at hp
      · rename_i cs hcs
        cases hp; exact good_setCallstack h _ (goodCS_setTemp h.1 _ _ _ _ _ hcs)
      · cases hp
      · cases hp
  · split at hp
    split at hp
    · cases hp; exact good_setGlobal h _ _
    · split at hp
      · rename_i cs hcs
        cases hp; exact good_setCallstack h _ (goodCS_setTemp h.1 _ _ _ _ _ hcs)
      · cases hp
      · cases hp

theorem good_incrementVisitCount (h : Good sk ch s) (root : Obj) (a : Addr) (s' : Core)
    (hp : s.incrementVisitCount root a = .ok s') : Good sk ch s' := by
  unfold Core.incrementVisitCount at hp
  split at hp
  · cases hp; exact h
  · cases hp

theorem good_recordTurnIndexVisit (h : Good sk ch s) (root : Obj) (a : Addr) (s' : Core)
    (hp : s.recordTurnIndexVisit root a = .ok s') : Good sk ch s' := by
  unfold Core.recordTurnIndexVisit at hp
  split at hp
  · cases hp; exact h
  · cases hp

theorem good_tryExit (h : Good sk ch s) : Good sk ch s.tryExitFunctionEvaluationFromGame.1 := by
  unfold Core.tryExitFunctionEvaluationFromGame
  split
  · exact good_setCurrentPtr h _
  · exact h

theorem popAux (t : Option PushPop) (s1 s' : Core) (h1 : s1.flow.callstack = s.flow.callstack)
    (h2 : s1.flow.choices = s.flow.choices)
    (hp : (match s1.callstack.pop t with
      | .ok cs => Out.ok (s1.setCallstack cs)
      | .err k m => .err k m
      | .panic p => .panic p) = .ok s') :
    ∃ cs', s.flow.callstack.pop t = .ok cs' ∧ s'.flow.callstack = cs' ∧ s'.flow.choices = s.flow.choices := by
  split at hp
  · rename_i cs hpop
    cases hp
    refine ⟨cs, ?_, rfl, h2⟩
    unfold Core.callstack at hpop
    rw [h1] at hpop
    exact hpop
  · cases hp
  · cases hp

theorem popCallstack_ok (t : Option PushPop) (s' : Core) (hp : s.popCallstack t = .ok s') :
    ∃ cs', s.flow.callstack.pop t = .ok cs' ∧ s'.flow.callstack = cs' ∧ s'.flow.choices = s.flow.choices := by
  unfold Core.popCallstack at hp
  cases hce : s.callstack.currentElement with
  | none =>
    simp only [hce] at hp
    exact popAux t s s' rfl rfl hp
  | some e =>
    simp only [hce] at hp
    by_cases hk : (e.kind == PushPop.function) = true
    · simp only [hk, if_true] at hp
      exact popAux t _ s' trimWs_callstack trimWs_choices hp
    · simp only [hk] at hp
      exact popAux t s s' rfl rfl hp

theorem good_popCallstack (h : Good sk ch s) (t : Option PushPop) (s' : Core)
    (hne : s.callstack.elementIsEvaluateFromGame = false) (hp : s.popCallstack t = .ok s') : Good sk ch s' := by
  obtain ⟨cs', h1, h2, h3⟩ := popCallstack_ok t s' hp
  unfold Good
  rw [h2, h3]
  exact ⟨goodCS_pop h.1 hne t cs' h1, h.2⟩

theorem good_popCallstack_function (h : Good sk ch s) (s' : Core)
    (hp : s.popCallstack (some .function) = .ok s') : Good sk ch s' := by
  refine good_popCallstack h _ s' ?_ hp
  obtain ⟨cs', h1, _, _⟩ := popCallstack_ok _ s' hp
  unfold CallStack.pop at h1
  split at h1
  · rename_i hc; exact canPopType_function_notGame hc
  · cases h1

theorem good_popThreadLift (h : Good sk ch s) (s' : Core)
    (hp : (match s.callstack.popThread with
      | .ok cs => Out.ok (s.setCallstack cs)
      | .err k m => .err k m
      | .panic p => .panic p) = .ok s') : Good sk ch s' := by
  split at hp
  · rename_i cs hcs
    cases hp
    exact good_setCallstack h _ (goodCS_popThread h.1 _ hcs)
  · cases hp
  · cases hp

theorem good_pushThread (h : Good sk ch s) : Good sk ch (s.mapCallstack CallStack.pushThread) :=
  ⟨goodCS_pushThread h.1, h.2⟩

theorem ended_forceEnd : Ended s.forceEnd := by
  refine ⟨?_, ?_, rfl⟩
  · simp [Core.forceEnd, Core.currentPtr, Core.setPrevPtr, Core.setCurrentPtr, Core.mapCallstack, Core.setCallstack,
      Core.callstack, CallStack.reset, CallStack.fresh, CallStack.mapCurrentElement, CallStack.mapCurrentThread,
      CallStack.currentElement, CallStack.currentThread, Ptr.null, Ptr.isNull]
  · simp [Core.forceEnd, Core.setPrevPtr, Core.setCurrentPtr, Core.mapCallstack, Core.setCallstack,
      Core.callstack, CallStack.reset, CallStack.fresh, CallStack.mapCurrentElement, CallStack.mapCurrentThread,
      CallStack.currentElement, CallStack.currentThread, CallStack.elementIsEvaluateFromGame, CallStack.rootElement]

theorem ended_addErrorCore (root : Obj) (m : String) : Ended (addErrorCore root s m) := ended_forceEnd

end core


/-! ### 3. A Hoare logic for the step monad (partial correctness on `.ok` exits) -/

def T {α : Type} (P : Core → Prop) (m : M α) (Q : α → Core → Prop) : Prop :=
  ∀ st a st', P st.s → m st = (.ok a, st') → Q a st'.s

theorem T_pre {α : Type} {P P' : Core → Prop} {m : M α} {Q : α → Core → Prop} (hp : ∀ c, P c → P' c)
    (h : T P' m Q) : T P m Q := fun st a st' hP hm => h st a st' (hp _ hP) hm

theorem T_post {α : Type} {P : Core → Prop} {m : M α} {Q Q' : α → Core → Prop} (h : T P m Q)
    (hq : ∀ a c, Q a c → Q' a c) : T P m Q' := fun st a st' hP hm => hq _ _ (h st a st' hP hm)

theorem T_pure {α : Type} {P : Core → Prop} {a : α} {Q : α → Core → Prop} (h : ∀ c, P c → Q a c) :
    T P (pure a : M α) Q := by
  intro st b st' hP hm
  cases hm; exact h _ hP

theorem T_bind {α β : Type} {P : Core → Prop} {x : M α} {f : α → M β} {Q : α → Core → Prop} {R : β → Core → Prop}
    (hx : T P x Q) (hf : ∀ a, T (Q a) (f a) R) : T P (x >>= f) R := by
  intro st b st' hP hm
  change M.bind' x f st = _ at hm
  unfold M.bind' at hm
  split at hm
  · rename_i a st1 heq
    exact hf a st1 b st' (hx st a st1 hP heq) hm
  · cases hm
  · cases hm

theorem T_bind_pure {α β : Type} {P : Core → Prop} {a : α} {f : α → M β} {R : β → Core → Prop}
    (hf : T P (f a) R) : T P ((pure a : M α) >>= f) R := by
  intro st b st' hP hm
  exact hf st b st' hP hm

/-- after `get` the continuation may assume that the state is exactly the value read -/
theorem T_get_bind_strong {β : Type} {P : Core → Prop} {f : Core → M β} {R : β → Core → Prop}
    (hf : ∀ s, P s → T (fun c => c = s) (f s) R) : T P (M.get >>= f) R := by
  intro st b st' hP hm
  exact hf st.s hP st b st' rfl hm

theorem T_get_bind {β : Type} {P : Core → Prop} {f : Core → M β} {R : β → Core → Prop}
    (hf : ∀ s, P s → T P (f s) R) : T P (M.get >>= f) R :=
  T_get_bind_strong (fun s hs => T_pre (fun c hc => by subst hc; exact hs) (hf s hs))

theorem T_getSt_bind {β : Type} {P : Core → Prop} {f : St → M β} {R : β → Core → Prop}
    (hf : ∀ st0 : St, P st0.s → T P (f st0) R) : T P (M.getSt >>= f) R := by
  intro st b st' hP hm
  exact hf st hP st b st' hP hm

theorem T_unwrap_bind {α β : Type} {P : Core → Prop} {site : String} {o : Option α} {f : α → M β}
    {R : β → Core → Prop} (hf : ∀ a, o = some a → T P (f a) R) : T P (M.unwrap site o >>= f) R := by
  cases o with
  | none => intro st b st' _ hm; cases hm
  | some a => exact hf a rfl

theorem T_lift_bind {α β : Type} {P : Core → Prop} {o : Out α} {f : α → M β}
    {R : β → Core → Prop} (hf : ∀ a, o = .ok a → T P (f a) R) : T P (M.lift o >>= f) R := by
  intro st b st' hP hm
  change M.bind' (M.lift o) f st = _ at hm
  unfold M.bind' M.lift at hm
  cases o with
  | ok a => exact hf a rfl st b st' hP hm
  | err k m => cases hm
  | panic p => cases hm

theorem T_set {P : Core → Prop} {s : Core} {Q : Unit → Core → Prop} (h : Q () s) : T P (M.set s) Q := by
  intro st b st' _ hm; cases hm; exact h

theorem T_setSt {P : Core → Prop} {st0 : St} {Q : Unit → Core → Prop} (h : Q () st0.s) : T P (M.setSt st0) Q := by
  intro st b st' _ hm; cases hm; exact h

theorem T_modify {P : Core → Prop} {f : Core → Core} {Q : Unit → Core → Prop} (h : ∀ s, P s → Q () (f s)) :
    T P (M.modify f) Q := by
  intro st b st' hP hm; cases hm; exact h _ hP

theorem T_liftS {P : Core → Prop} {f : Core → Out Core} {Q : Unit → Core → Prop}
    (h : ∀ s s', P s → f s = .ok s' → Q () s') : T P (M.liftS f) Q := by
  intro st b st' hP hm
  unfold M.liftS at hm
  split at hm
  · rename_i s' heq; cases hm; exact h _ _ hP heq
  · cases hm
  · cases hm

theorem T_fail {α : Type} {P : Core → Prop} {k m : String} {Q : α → Core → Prop} : T P (M.fail k m : M α) Q := by
  intro st b st' _ hm; cases hm

theorem T_invalid {α : Type} {P : Core → Prop} {m : String} {Q : α → Core → Prop} : T P (M.invalid m : M α) Q := T_fail

theorem T_crash {α : Type} {P : Core → Prop} {p : String} {Q : α → Core → Prop} : T P (M.crash p : M α) Q := by
  intro st b st' _ hm; cases hm

theorem T_lift {α : Type} {P : Core → Prop} {o : Out α} : T P (M.lift o) (fun _ c => P c) := by
  intro st b st' hP hm
  unfold M.lift at hm
  cases hm; exact hP

theorem T_unwrap {α : Type} {P : Core → Prop} {site : String} {o : Option α} :
    T P (M.unwrap site o) (fun _ c => P c) := by
  cases o with
  | none => exact T_crash
  | some a => exact T_pure (fun _ h => h)

theorem T_bind_fail {α β : Type} {P : Core → Prop} {k m : String} {f : α → M β} {R : β → Core → Prop} :
    T P ((M.fail k m : M α) >>= f) R := T_bind (Q := fun _ _ => False) T_fail (fun _ _ _ _ h => h.elim)

theorem T_bind_invalid {α β : Type} {P : Core → Prop} {m : String} {f : α → M β} {R : β → Core → Prop} :
    T P ((M.invalid m : M α) >>= f) R := T_bind_fail

theorem T_bind_crash {α β : Type} {P : Core → Prop} {p : String} {f : α → M β} {R : β → Core → Prop} :
    T P ((M.crash p : M α) >>= f) R := T_bind (Q := fun _ _ => False) T_crash (fun _ _ _ _ h => h.elim)

theorem T_ite {α : Type} {P : Core → Prop} {c : Prop} [Decidable c] {x y : M α} {Q : α → Core → Prop}
    (hx : T P x Q) (hy : T P y Q) : T P (if c then x else y) Q := by
  split <;> assumption

/-- the invariant of the steps of an evaluation -/
def Inv (sk : List Skel) (ch : List Choice) (c : Core) : Prop := Good sk ch c ∨ Ended c

/-! equation-first variants of the core lemmas, for the automation -/
theorem good_pushEval' {s s' : Core} {defs : ListDefs} {o : Obj} (hp : s.pushEval defs o = .ok s') (h : Good sk ch s) :
    Good sk ch s' := good_pushEval h _ _ _ hp
theorem good_popEval' {s s' : Core} {o : Obj} (hp : s.popEval = .ok (o, s')) (h : Good sk ch s) : Good sk ch s' :=
  good_popEval h _ _ hp
theorem good_popEvalMultiple' {s s' : Core} {n : Nat} {os : List Obj} (hp : s.popEvalMultiple n = .ok (os, s'))
    (h : Good sk ch s) : Good sk ch s' := good_popEvalMultiple h _ _ _ hp
theorem good_assign' {s s' : Core} {defs : ListDefs} {name : String} {a b : Bool} {v : Val}
    (hp : s.assign defs name a b v = .ok s') (h : Good sk ch s) : Good sk ch s' := good_assign h _ _ _ _ _ _ hp
theorem good_incrementVisitCount' {s s' : Core} {root : Obj} {a : Addr} (hp : s.incrementVisitCount root a = .ok s')
    (h : Good sk ch s) : Good sk ch s' := good_incrementVisitCount h _ _ _ hp
theorem good_recordTurnIndexVisit' {s s' : Core} {root : Obj} {a : Addr} (hp : s.recordTurnIndexVisit root a = .ok s')
    (h : Good sk ch s) : Good sk ch s' := good_recordTurnIndexVisit h _ _ _ hp
theorem good_popCallstack_function' {s s' : Core} (hp : s.popCallstack (some .function) = .ok s')
    (h : Good sk ch s) : Good sk ch s' := good_popCallstack_function h _ hp
theorem good_popThreadLift' {s s' : Core}
    (hp : (match s.callstack.popThread with
      | .ok cs => Out.ok (s.setCallstack cs)
      | .err k m => .err k m
      | .panic p => .panic p) = .ok s') (h : Good sk ch s) : Good sk ch s' := good_popThreadLift h _ hp
theorem good_push' {s : Core} {k : PushPop} {n : Nat} {o : Int} {cs' : CallStack}
    (hp : s.callstack.push k n o = some cs') (h : Good sk ch s) : Good sk ch (s.setCallstack cs') :=
  good_setCallstack h _ (goodCS_push h.1 _ _ _ _ hp)

theorem fork_thread_good {s : Core} {cs : CallStack} {th : Thread} (hp : s.callstack.forkThread = some (cs, th))
    (h : Good sk ch s) : GT sk th.callstack := (goodCS_forkThread h.1 _ _ hp).2
theorem good_fork' {s : Core} {cs : CallStack} {th : Thread} (hp : s.callstack.forkThread = some (cs, th))
    (h : Good sk ch s) : Good sk ch (s.setCallstack cs) := good_setCallstack h _ (goodCS_forkThread h.1 _ _ hp).1

theorem tryExit_snd_false {s : Core} (h : ¬ s.tryExitFunctionEvaluationFromGame.snd = true) :
    s.callstack.elementIsEvaluateFromGame = false := by
  unfold Core.tryExitFunctionEvaluationFromGame at h
  split at h
  · exact absurd rfl h
  · rename_i hc; simpa using hc

/-- the common tail of `~ ret` and `->->`: the evaluation frame is never popped -/
theorem T_popTail {s : Core} (hs : Good sk ch s) {cnd : Prop} [Decidable cnd] {B K : M Bool}
    (hB : T (fun c => c = s) B (fun _ => Inv sk ch)) (hK : T (Good sk ch) K (fun _ => Inv sk ch)) :
    T (fun c => c = s)
      (if s.tryExitFunctionEvaluationFromGame.snd = true then
        (M.set s.tryExitFunctionEvaluationFromGame.fst >>= fun _ => (pure true : M Bool))
       else if cnd then B else (M.liftS (fun s => s.popCallstack none) >>= fun _ => K))
      (fun _ => Inv sk ch) := by
  by_cases h : s.tryExitFunctionEvaluationFromGame.snd = true
  · rw [if_pos h]
    exact T_bind (Q := fun _ => Inv sk ch) (T_set (Or.inl (good_tryExit hs))) (fun _ => T_pure (fun _ h => h))
  · rw [if_neg h]
    refine T_ite hB ?_
    refine T_bind (Q := fun _ => Good sk ch) (T_liftS (fun c s' hc heq => ?_)) (fun _ => hK)
    subst hc
    exact good_popCallstack hs none s' (tryExit_snd_false h) heq

theorem good_addChoice {s : Core} {c : Choice} (h : Good sk ch s) (hc : ∀ th, c.thread = some th → GT sk th.callstack) :
    Good sk ch { s with flow := { s.flow with choices := s.flow.choices ++ [c] } } := by
  obtain ⟨h1, extra, h2, h3⟩ := h
  refine ⟨h1, extra ++ [c], ?_, ?_⟩
  · show s.flow.choices ++ [c] = _
    rw [h2, List.append_assoc]
  · intro x hx th hth
    simp only [List.mem_append, List.mem_singleton] at hx
    rcases hx with hx | hx
    · exact h3 x hx th hth
    · subst hx; exact hc th hth

theorem ended_null {c : Core} (h : Ended c) : c.currentPtr.isNull = true := h.1

theorem good_or_ended_notNull {c : Core} (h : Good sk ch c ∨ Ended c) (hn : ¬ c.currentPtr.isNull = true) :
    Good sk ch c := by
  rcases h with h | h
  · exact h
  · exact absurd h.1 hn

/-- after the logic of a step: an ended story has no pointer, and the step returns at once -/
theorem T_afterLogic {K : M Unit} {R : Unit → Core → Prop} (hR : ∀ c, Inv sk ch c → R () c)
    (hK : T (Good sk ch) K R) :
    T (Inv sk ch)
      (M.get >>= fun s => if s.currentPtr.isNull = true then (pure () : M Unit) else K) R := by
  intro st b st' hP hm
  change M.bind' M.get _ st = _ at hm
  simp only [M.bind', M.get] at hm
  by_cases hn : st.s.currentPtr.isNull = true
  · rw [if_pos hn] at hm
    cases hm
    exact hR _ hP
  · rw [if_neg hn] at hm
    exact hK st b st' (good_or_ended_notNull hP hn) hm

/-- side conditions -/
macro "g_side" : tactic => `(tactic| (
  (first | left | skip)
  repeat' (first
    | assumption
    | exact good_pushEval' (by assumption) (by assumption)
    | exact good_popEval' (by assumption) (by assumption)
    | exact good_popEvalMultiple' (by assumption) (by assumption)
    | exact good_assign' (by assumption) (by assumption)
    | exact good_incrementVisitCount' (by assumption) (by assumption)
    | exact good_recordTurnIndexVisit' (by assumption) (by assumption)
    | exact good_popCallstack_function' (by assumption) (by assumption)
    | exact good_popThreadLift' (by assumption) (by assumption)
    | exact good_push' (by assumption) (by assumption)
    | exact good_fork' (by assumption) (by assumption)
    | apply good_setCurrentPtr
    | apply good_setInExpr
    | apply good_setPrevPtr
    | apply good_pushToOutput
    | apply good_popFromOutput
    | apply good_foldl_pushToOutput
    | apply good_tryExit
    | apply good_pushThread
    | apply good_setOutput)))

set_option hygiene false in
open Lean Elab Tactic Meta in
/-- one decomposition step of a goal `T P m Q`, chosen by the head symbol of `m` -/
elab "t_step" : tactic => withMainContext do
  let g ← getMainGoal
  let tgt := (← instantiateMVars (← g.getType)).consumeMData
  let args := tgt.getAppArgs
  unless tgt.getAppFn.isConstOf ``Ink.C16F.T && args.size == 4 do
    throwError "t_step: not a T goal"
  let m0 := args[2]!
  let m := m0.consumeMData.headBeta
  if m.isLet then
    let m' := (m.letBody!.instantiate1 m.letValue!).headBeta
    let g' ← g.change (mkAppN tgt.getAppFn (args.set! 2 m'))
    replaceMainGoal [g']
    return
  if m != m0 then
    let g' ← g.change (mkAppN tgt.getAppFn (args.set! 2 m))
    replaceMainGoal [g']
    return
  let run (t : TSyntax `tactic) : TacticM Unit := evalTactic t
  let headName (e : Expr) : Option Name := e.consumeMData.headBeta.getAppFn.constName?
  let lemmaFor (c : Name) : Name := `Ink.C16F ++ Name.mkSimple ("T_" ++ c.getString!)
  match headName m with
  | some ``Bind.bind =>
    let x := m.getAppArgs[4]!
    match headName x with
    | some ``Pure.pure => run (← `(tactic| refine T_bind_pure ?_))
    | some ``Ink.M.get =>
      let f := m.getAppArgs[5]!
      let isPopTail : Bool :=
        f.isLambda && f.bindingBody!.consumeMData.getAppFn.isConstOf ``ite &&
          (f.bindingBody!.consumeMData.getAppArgs[1]!.find?
            (fun e => e.isConstOf ``Ink.Core.tryExitFunctionEvaluationFromGame)).isSome
      let isAfterLogic : Bool := args[1]!.getAppFn.isConstOf ``Ink.C16F.Inv
      if isAfterLogic then
        run (← `(tactic| refine T_afterLogic (fun _ h => h) ?_))
      else if isPopTail then
        run (← `(tactic| (refine T_get_bind_strong (fun s hs => ?_); refine T_popTail hs ?_ ?_)))
      else run (← `(tactic| (refine T_get_bind ?_; intro s hs)))
    | some ``Ink.M.getSt => run (← `(tactic| (refine T_getSt_bind ?_; intro st hst)))
    | some ``Ink.M.unwrap => run (← `(tactic| (refine T_unwrap_bind ?_; intro _ hsome)))
    | some ``Ink.M.lift => run (← `(tactic| (refine T_lift_bind ?_; intro _ hlift)))
    | some ``Ink.M.fail => run (← `(tactic| exact T_bind_fail))
    | some ``Ink.M.invalid => run (← `(tactic| exact T_bind_invalid))
    | some ``Ink.M.crash => run (← `(tactic| exact T_bind_crash))
    | some ``Ink.addErrorM =>
      run (← `(tactic| first
        | refine T_bind (Q := fun _ => Good sk ch) T_addErrorM (fun _ => ?_)
        | refine T_bind (Q := fun _ => Inv sk ch) T_addErrorM_any (fun _ => ?_)
        | fail "addErrorM"))
    | some ``Ink.callExternalFunction =>
      run (← `(tactic| refine T_bind (Q := fun _ => Inv sk ch) ?_ (fun _ => ?_)))
    | some ``Ink.processChoice =>
      run (← `(tactic| refine T_bind T_processChoice (fun _ => ?_)))
    | _ =>
      if (x.find? (fun e => e.isConstOf ``Ink.performLogicAndFlowControl)).isSome then
        run (← `(tactic| (refine T_bind (Q := fun _ => Inv sk ch) ?_ (fun _ => ?_))))
      else run (← `(tactic| refine T_bind (Q := fun _ => Good sk ch) ?_ (fun _ => ?_)))
  | some ``Pure.pure => run (← `(tactic| first | exact T_pure (fun _ h => h) | exact T_pure (fun _ h => Or.inl h) | fail "leaf"))
  | some ``panic => run (← `(tactic| first | exact T_pure (fun _ h => h) | exact T_pure (fun _ h => Or.inl h) | fail "leaf"))
  | some ``ite => run (← `(tactic| apply T_ite))
  | some ``dite => run (← `(tactic| split))
  | some ``Ink.M.set => run (← `(tactic| (refine T_set ?_; try g_side)))
  | some ``Ink.M.setSt => run (← `(tactic| (refine T_setSt ?_; try g_side)))
  | some ``Ink.M.modify => run (← `(tactic| (refine T_modify (fun s hs => ?_); try g_side)))
  | some ``Ink.M.liftS => run (← `(tactic| (refine T_liftS (fun s s' hs heq => ?_); try g_side)))
  | some ``Ink.M.fail => run (← `(tactic| exact T_fail))
  | some ``Ink.M.invalid => run (← `(tactic| exact T_invalid))
  | some ``Ink.M.crash => run (← `(tactic| exact T_crash))
  | some c =>
    if (← isMatcher c) then run (← `(tactic| split))
    else
      let l := lemmaFor c
      if (← getEnv).contains l then
        let id := mkIdent l
        run (← `(tactic| first | exact $id | exact T_post $id (fun _ _ h => Or.inl h) | fail "lemma"))
      else run (← `(tactic| first | assumption | apply_assumption
                                   | exact T_post (by assumption) (fun _ _ h => Or.inl h) | fail "hyp"))
  | none =>
    if m.getAppFn.isFVar then run (← `(tactic| first | assumption | (apply_assumption)))
    else throwError "t_step: stuck at {m}"

section steps
variable {sk : List Skel} {ch : List Choice}

theorem T_popEvalM : T (Good sk ch) popEvalM (fun _ => Good sk ch) := by
  intro st a st' hP hm
  unfold Ink.popEvalM at hm
  split at hm
  · rename_i o s' heq; cases hm; exact good_popEval hP _ _ heq
  · cases hm
  · cases hm

theorem T_pushEvalM {env : Env} {o : Obj} : T (Good sk ch) (pushEvalM env o) (fun _ => Good sk ch) :=
  T_liftS (fun _ _ hs h => good_pushEval hs _ _ _ h)

theorem T_addErrorM {root : Obj} {m : String} : T (Good sk ch) (addErrorM root m true) (fun _ => Good sk ch) := by
  intro st a st' hP hm
  unfold Ink.addErrorM at hm
  simp only [if_true] at hm
  cases hm; exact hP

theorem T_addErrorM_any {root : Obj} {m : String} {w : Bool} :
    T (Good sk ch) (addErrorM root m w) (fun _ => Inv sk ch) := by
  intro st a st' hP hm
  unfold Ink.addErrorM at hm
  split at hm
  · cases hm; exact Or.inl hP
  · cases hm; exact Or.inr (ended_addErrorCore _ _)

theorem T_pointerAtPathM {env : Env} {p : Path} : T (Good sk ch) (pointerAtPathM env p) (fun _ => Good sk ch) := T_lift

theorem T_divertTargetPointer {env : Env} {a : Addr} {t : Path} :
    T (Good sk ch) (divertTargetPointer env a t) (fun _ => Good sk ch) := T_lift

theorem T_visitContainer {env : Env} {a : Addr} {b : Bool} :
    T (Good sk ch) (visitContainer env a b) (fun _ => Good sk ch) := by
  unfold Ink.visitContainer
  repeat' t_step


theorem T_loop_aux {env : Env} {prev : List Addr} (fuel : Nat) :
    ∀ (child : Addr) (b : Bool),
      T (Good sk ch) (visitChangedContainersDueToDivert.loop env prev fuel child b) (fun _ => Good sk ch) := by
  induction fuel with
  | zero => intro child b; unfold visitChangedContainersDueToDivert.loop; repeat' t_step
  | succ fuel ih =>
    intro child b
    unfold visitChangedContainersDueToDivert.loop
    repeat' t_step

theorem T_loop {env : Env} {prev : List Addr} {fuel : Nat} {child : Addr} {b : Bool} :
    T (Good sk ch) (visitChangedContainersDueToDivert.loop env prev fuel child b) (fun _ => Good sk ch) :=
  T_loop_aux fuel child b

theorem T_visitChangedContainersDueToDivert {env : Env} :
    T (Good sk ch) (visitChangedContainersDueToDivert env) (fun _ => Good sk ch) := by
  unfold Ink.visitChangedContainersDueToDivert
  repeat' t_step

theorem T_incrementContentPointer {env : Env} :
    T (Good sk ch) (incrementContentPointer env) (fun _ => Good sk ch) := by
  unfold Ink.incrementContentPointer
  repeat' t_step

theorem T_nextSequenceShuffleIndex {env : Env} :
    T (Good sk ch) (nextSequenceShuffleIndex env) (fun _ => Good sk ch) := by
  unfold Ink.nextSequenceShuffleIndex
  repeat' t_step

theorem T_popArgs_aux {f : String} (k : Nat) :
    ∀ (acc : List Val), T (Good sk ch) (callExternalFunction.popArgs f k acc) (fun _ => Good sk ch) := by
  induction k with
  | zero => intro acc; unfold callExternalFunction.popArgs; repeat' t_step
  | succ k ih =>
    intro acc
    unfold callExternalFunction.popArgs
    repeat' t_step

theorem T_popArgs {f : String} {k : Nat} {acc : List Val} :
    T (Good sk ch) (callExternalFunction.popArgs f k acc) (fun _ => Good sk ch) := T_popArgs_aux k acc

theorem T_popTags_aux (k : Nat) :
    ∀ (tags : List String), T (Good sk ch) (popChoiceStringAndTags.popTags k tags) (fun _ => Good sk ch) := by
  induction k with
  | zero => intro acc; unfold popChoiceStringAndTags.popTags; repeat' t_step
  | succ k ih =>
    intro acc
    unfold popChoiceStringAndTags.popTags
    repeat' t_step

theorem T_popTags {k : Nat} {tags : List String} :
    T (Good sk ch) (popChoiceStringAndTags.popTags k tags) (fun _ => Good sk ch) := T_popTags_aux k tags

theorem T_popChoiceStringAndTags {tags : List String} :
    T (Good sk ch) (popChoiceStringAndTags tags) (fun _ => Good sk ch) := by
  unfold Ink.popChoiceStringAndTags
  repeat' t_step


theorem T_callExternalFunction {env : Env} {f : String} {k : Nat} :
    T (Good sk ch) (callExternalFunction env f k) (fun _ => Inv sk ch) := by
  unfold Ink.callExternalFunction
  repeat' t_step

/-- a created choice carries a thread of the right shape -/
def ChoiceOK (sk : List Skel) (r : Option Choice) : Prop :=
  ∀ x, r = some x → ∀ th, x.thread = some th → GT sk th.callstack

set_option maxHeartbeats 1600000 in
theorem T_processChoice {env : Env} {a : Addr} {flags : Int} {p : Path} :
    T (Good sk ch) (processChoice env a flags p) (fun r c => Good sk ch c ∧ ChoiceOK sk r) := by
  unfold Ink.processChoice
  repeat' t_step
  all_goals first
    | (refine T_pure (fun c hc => ⟨hc, ?_⟩)
       intro x hx
       cases hx
       intro th' hth
       cases hth
       exact fork_thread_good (by assumption) (by assumption))
    | (refine T_pure (fun c hc => ⟨hc, ?_⟩)
       intro x hx
       cases hx)


theorem T_nextContent_aux {env : Env} (fuel : Nat) :
    T (Good sk ch) (nextContent env fuel) (fun _ => Good sk ch) := by
  induction fuel with
  | zero => unfold Ink.nextContent; repeat' t_step
  | succ fuel ih =>
    unfold Ink.nextContent
    repeat' t_step

theorem T_nextContent {env : Env} {fuel : Nat} :
    T (Good sk ch) (nextContent env fuel) (fun _ => Good sk ch) := T_nextContent_aux fuel

theorem T_descend_aux {env : Env} (fuel : Nat) :
    ∀ (p : Ptr), T (Good sk ch) (step.descend env fuel p) (fun _ => Good sk ch) := by
  induction fuel with
  | zero => intro p; unfold step.descend; repeat' t_step
  | succ fuel ih =>
    intro p
    unfold step.descend
    repeat' t_step

theorem T_descend {env : Env} {fuel : Nat} {p : Ptr} :
    T (Good sk ch) (step.descend env fuel p) (fun _ => Good sk ch) := T_descend_aux fuel p

theorem T_plfc_divert {env : Env} {a : Addr} {d : DivertData} :
    T (Good sk ch) (performLogicAndFlowControl env a (.divert d)) (fun _ => Inv sk ch) := by
  unfold Ink.performLogicAndFlowControl
  simp only
  repeat' t_step



theorem T_plfc_end {env : Env} {a : Addr} :
    T (Good sk ch) (performLogicAndFlowControl env a (.cmd .end)) (fun _ => Inv sk ch) := by
  unfold Ink.performLogicAndFlowControl
  simp only
  exact T_bind (Q := fun _ => Inv sk ch) (T_modify (fun s _ => Or.inr ended_forceEnd))
    (fun _ => T_pure (fun _ h => h))

theorem T_plfc_evalStart {env : Env} {a : Addr} :
    T (Good sk ch) (performLogicAndFlowControl env a (.cmd .evalStart)) (fun _ => Inv sk ch) := by
  unfold Ink.performLogicAndFlowControl
  simp only
  repeat' t_step

theorem T_plfc_evalOutput {env : Env} {a : Addr} :
    T (Good sk ch) (performLogicAndFlowControl env a (.cmd .evalOutput)) (fun _ => Inv sk ch) := by
  unfold Ink.performLogicAndFlowControl
  simp only
  repeat' t_step

theorem T_plfc_evalEnd {env : Env} {a : Addr} :
    T (Good sk ch) (performLogicAndFlowControl env a (.cmd .evalEnd)) (fun _ => Inv sk ch) := by
  unfold Ink.performLogicAndFlowControl
  simp only
  repeat' t_step

theorem T_plfc_duplicate {env : Env} {a : Addr} :
    T (Good sk ch) (performLogicAndFlowControl env a (.cmd .duplicate)) (fun _ => Inv sk ch) := by
  unfold Ink.performLogicAndFlowControl
  simp only
  repeat' t_step

theorem T_plfc_popEvaluatedValue {env : Env} {a : Addr} :
    T (Good sk ch) (performLogicAndFlowControl env a (.cmd .popEvaluatedValue)) (fun _ => Inv sk ch) := by
  unfold Ink.performLogicAndFlowControl
  simp only
  repeat' t_step

theorem T_plfc_popFunction {env : Env} {a : Addr} :
    T (Good sk ch) (performLogicAndFlowControl env a (.cmd .popFunction)) (fun _ => Inv sk ch) := by
  unfold Ink.performLogicAndFlowControl
  simp only
  repeat' t_step

theorem T_plfc_popTunnel {env : Env} {a : Addr} :
    T (Good sk ch) (performLogicAndFlowControl env a (.cmd .popTunnel)) (fun _ => Inv sk ch) := by
  unfold Ink.performLogicAndFlowControl
  simp only
  repeat' t_step

theorem T_plfc_beginString {env : Env} {a : Addr} :
    T (Good sk ch) (performLogicAndFlowControl env a (.cmd .beginString)) (fun _ => Inv sk ch) := by
  unfold Ink.performLogicAndFlowControl
  simp only
  repeat' t_step

theorem T_plfc_endString {env : Env} {a : Addr} :
    T (Good sk ch) (performLogicAndFlowControl env a (.cmd .endString)) (fun _ => Inv sk ch) := by
  unfold Ink.performLogicAndFlowControl
  simp only
  repeat' t_step

theorem T_plfc_noOp {env : Env} {a : Addr} :
    T (Good sk ch) (performLogicAndFlowControl env a (.cmd .noOp)) (fun _ => Inv sk ch) := by
  unfold Ink.performLogicAndFlowControl
  simp only
  repeat' t_step

theorem T_plfc_choiceCount {env : Env} {a : Addr} :
    T (Good sk ch) (performLogicAndFlowControl env a (.cmd .choiceCount)) (fun _ => Inv sk ch) := by
  unfold Ink.performLogicAndFlowControl
  simp only
  repeat' t_step

theorem T_plfc_turns {env : Env} {a : Addr} :
    T (Good sk ch) (performLogicAndFlowControl env a (.cmd .turns)) (fun _ => Inv sk ch) := by
  unfold Ink.performLogicAndFlowControl
  simp only
  repeat' t_step

theorem T_plfc_turnsSince {env : Env} {a : Addr} :
    T (Good sk ch) (performLogicAndFlowControl env a (.cmd .turnsSince)) (fun _ => Inv sk ch) := by
  unfold Ink.performLogicAndFlowControl
  simp only
  repeat' t_step

theorem T_plfc_readCount {env : Env} {a : Addr} :
    T (Good sk ch) (performLogicAndFlowControl env a (.cmd .readCount)) (fun _ => Inv sk ch) := by
  unfold Ink.performLogicAndFlowControl
  simp only
  repeat' t_step

theorem T_plfc_random {env : Env} {a : Addr} :
    T (Good sk ch) (performLogicAndFlowControl env a (.cmd .random)) (fun _ => Inv sk ch) := by
  unfold Ink.performLogicAndFlowControl
  simp only
  repeat' t_step

theorem T_plfc_seedRandom {env : Env} {a : Addr} :
    T (Good sk ch) (performLogicAndFlowControl env a (.cmd .seedRandom)) (fun _ => Inv sk ch) := by
  unfold Ink.performLogicAndFlowControl
  simp only
  repeat' t_step

theorem T_plfc_visitIndex {env : Env} {a : Addr} :
    T (Good sk ch) (performLogicAndFlowControl env a (.cmd .visitIndex)) (fun _ => Inv sk ch) := by
  unfold Ink.performLogicAndFlowControl
  simp only
  repeat' t_step

theorem T_plfc_sequenceShuffleIndex {env : Env} {a : Addr} :
    T (Good sk ch) (performLogicAndFlowControl env a (.cmd .sequenceShuffleIndex)) (fun _ => Inv sk ch) := by
  unfold Ink.performLogicAndFlowControl
  simp only
  repeat' t_step

theorem T_plfc_startThread {env : Env} {a : Addr} :
    T (Good sk ch) (performLogicAndFlowControl env a (.cmd .startThread)) (fun _ => Inv sk ch) := by
  unfold Ink.performLogicAndFlowControl
  simp only
  repeat' t_step

theorem T_plfc_done {env : Env} {a : Addr} :
    T (Good sk ch) (performLogicAndFlowControl env a (.cmd .done)) (fun _ => Inv sk ch) := by
  unfold Ink.performLogicAndFlowControl
  simp only
  repeat' t_step

theorem T_plfc_listFromInt {env : Env} {a : Addr} :
    T (Good sk ch) (performLogicAndFlowControl env a (.cmd .listFromInt)) (fun _ => Inv sk ch) := by
  unfold Ink.performLogicAndFlowControl
  simp only
  repeat' t_step

theorem T_plfc_listRange {env : Env} {a : Addr} :
    T (Good sk ch) (performLogicAndFlowControl env a (.cmd .listRange)) (fun _ => Inv sk ch) := by
  unfold Ink.performLogicAndFlowControl
  simp only
  repeat' t_step

theorem T_plfc_beginTag {env : Env} {a : Addr} :
    T (Good sk ch) (performLogicAndFlowControl env a (.cmd .beginTag)) (fun _ => Inv sk ch) := by
  unfold Ink.performLogicAndFlowControl
  simp only
  repeat' t_step

theorem T_plfc_endTag {env : Env} {a : Addr} :
    T (Good sk ch) (performLogicAndFlowControl env a (.cmd .endTag)) (fun _ => Inv sk ch) := by
  unfold Ink.performLogicAndFlowControl
  simp only
  repeat' t_step

/-- FULL STATEMENT (not proved): `T (Good sk ch) (performLogicAndFlowControl env a (.cmd c)) (fun _ => Inv sk ch)`
    for every `c`.  Proved for every command except `LIST_RANDOM` (the automation did not terminate on it
    in the time available; nothing in that branch touches the call stack or the choices). -/
theorem T_plfc_cmd_partial {env : Env} {a : Addr} {c : Cmd} (hc : c ≠ .listRandom) :
    T (Good sk ch) (performLogicAndFlowControl env a (.cmd c)) (fun _ => Inv sk ch) := by
  cases c
  case evalStart => exact T_plfc_evalStart
  case evalOutput => exact T_plfc_evalOutput
  case evalEnd => exact T_plfc_evalEnd
  case duplicate => exact T_plfc_duplicate
  case popEvaluatedValue => exact T_plfc_popEvaluatedValue
  case popFunction => exact T_plfc_popFunction
  case popTunnel => exact T_plfc_popTunnel
  case beginString => exact T_plfc_beginString
  case endString => exact T_plfc_endString
  case noOp => exact T_plfc_noOp
  case choiceCount => exact T_plfc_choiceCount
  case turns => exact T_plfc_turns
  case turnsSince => exact T_plfc_turnsSince
  case readCount => exact T_plfc_readCount
  case random => exact T_plfc_random
  case seedRandom => exact T_plfc_seedRandom
  case visitIndex => exact T_plfc_visitIndex
  case sequenceShuffleIndex => exact T_plfc_sequenceShuffleIndex
  case startThread => exact T_plfc_startThread
  case done => exact T_plfc_done
  case listFromInt => exact T_plfc_listFromInt
  case listRange => exact T_plfc_listRange
  case beginTag => exact T_plfc_beginTag
  case endTag => exact T_plfc_endTag
  case «end» => exact T_plfc_end
  case listRandom => exact absurd rfl hc

/-- every object but `LIST_RANDOM`: the logic / flow-control part of a step keeps the frames below the
    evaluation frame, or ends the story -/
theorem T_performLogicAndFlowControl_partial {env : Env} {a : Addr} {o : Obj} (ho : o ≠ .cmd .listRandom) :
    T (Good sk ch) (performLogicAndFlowControl env a o) (fun _ => Inv sk ch) := by
  cases o
  case divert d => exact T_plfc_divert
  case cmd c => exact T_plfc_cmd_partial (fun h => ho (by rw [h]))
  all_goals (unfold Ink.performLogicAndFlowControl; simp only; repeat' t_step)

end steps


/-! ### 4. Non-vacuity: the state `evaluate_function` builds satisfies `Good` -/

/-- pushing the evaluation frame on a one-thread call stack gives a `Good` state, with `sk` the
    skeletons of the story's own elements and `ch` its pending choices -/
theorem good_after_push (c : Core) (t : Thread) (cs : CallStack) (ht : c.flow.callstack.threads = [t])
    (hp : c.flow.callstack.push .functionEvaluationFromGame c.evalStack.length 0 = some cs) :
    Good (t.callstack.map skel) c.flow.choices (c.setCallstack cs) := by
  unfold CallStack.push at hp
  split at hp
  · cases hp
    refine ⟨?_, [], by simp [Core.setCallstack], by intro x hx; cases hx⟩
    simp only [Core.setCallstack, CallStack.mapCurrentThread, ht, List.getLast?_singleton, List.dropLast_singleton,
      List.nil_append]
    refine ⟨by simp, ?_⟩
    intro t' ht'
    simp only [List.mem_singleton] at ht'
    subst ht'
    exact GT_init _ _ rfl
  · cases hp

/-- concrete instance: the fresh story state, evaluation frame pushed -/
example : ∃ cs, (Core.fresh 0).flow.callstack.push .functionEvaluationFromGame 0 0 = some cs ∧
    Good ([CallStack.rootElement].map skel) [] ((Core.fresh 0).setCallstack cs) := by
  refine ⟨_, rfl, ?_⟩
  exact good_after_push (Core.fresh 0) _ _ rfl rfl

/-- `Ended` is satisfiable: the fresh state after `force_end` -/
example : Ended (Core.fresh 0).forceEnd := ended_forceEnd

/-
  SUMMARY
  * `Good sk ch c` — invariant of an evaluation in progress (see its doc-string): every thread
    keeps, below an evaluation frame, elements with the skeletons `sk` (pointer, in-expression flag,
    kind, eval-stack height, output start: everything but the temporaries); choices = `ch ++ extra`.
  * `Ended c` — the story was ended by `-> END` / a runtime error; such a state can never make
    `complete_function_evaluation_from_game` succeed (top frame is not the evaluation frame).
  * `T P m Q` — Hoare triples for the step monad; `t_step` automation.
  * proved: every operation of `Ink/Step.lean` below `step` keeps `Good` (or yields `Ended`):
    `T_visitContainer`, `T_visitChangedContainersDueToDivert`, `T_incrementContentPointer`,
    `T_nextSequenceShuffleIndex`, `T_callExternalFunction`, `T_processChoice` (the created choice
    carries a thread of the right shape), `T_nextContent` (running out of content pops function
    frames and threads but never the evaluation frame), `T_descend`, `T_plfc_divert`,
    `T_popTail` (`~ ret` / `->->` never pop the evaluation frame), `T_plfc_<cmd>` for every
    control command except `LIST_RANDOM`, `T_performLogicAndFlowControl_partial`.
  * NOT proved here (see the report): `T_step` for `Story.step` itself, the story-level loop
    (`continueSingleStep`, `stepLoop`, `continueInternal`, `evalLoop`) and the end-to-end theorem.
-/

#print axioms T_nextContent
#print axioms T_processChoice
#print axioms T_callExternalFunction
#print axioms T_plfc_divert
#print axioms T_popTail
#print axioms T_plfc_cmd_partial
#print axioms T_performLogicAndFlowControl_partial
#print axioms good_after_push

end C16F

end Ink
