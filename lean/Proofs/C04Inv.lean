/-
  C04Inv — the call-stack invariant behind the residual panic sites of C04.

  `Proofs/C04.lean` lists the site tags with which one interpreter step can still end in
  `panic` (`stepSites`, `continueSites`), for ANY state.  Three of them stand for an invariant
  of the state that the Rust maintains:

    * `callstack.rs:push`         — the call stack has a current element,
    * `callstack.rs:fork_thread`  — the call stack has a current thread,
    * `choices.rs:thread_at_generation` — a pending choice knows the thread it was made in.

  This file defines the invariant (`CsWF`, `ChoiceWF`, `CoreWF`, `StWF`, `StateWF`, `StoryWF`),
  proves it for the constructor (`new_wf`), for every public operation of `Ink/Api.lean`,
  `Ink/Continue.lean` and for the loader of `Ink/Save.lean` (`*_preserves_wf`, `loadState_wf`),
  and concludes that the three sites are unreachable in every story reachable through the
  public operations (`reachable_no_callstack_panic`).

  Method: a Hoare logic `T m Q` for the step monad ("run from a well-formed state, `m` ends
  in a well-formed state, a returned value satisfies `Q`, and a panic is not one of the three
  sites"), pushed through every `do` block of `Ink/Step.lean` by the head-symbol driven
  tactic `t_step` (the scheme of `np_step` / `h_step`; join points of the `do` notation are
  proved once and kept as hypotheses), with the side conditions "this core is well formed"
  discharged by `t_wf` (again by head symbol).  The story level mirrors the frame proofs of
  `Proofs/C10Frame.lean` with the relation `W a b := StoryWF a → StoryWF b`.
-/
import Lean.Elab.Tactic
import Proofs.C04
import Proofs.C02State
import Proofs.C10Frame

namespace Ink
namespace C04

section PartA

open M

/-! ### 1. The invariant -/

/-- The call stack has a thread, and every thread has an element. -/
def CsWF (cs : CallStack) : Prop := cs.threads ≠ [] ∧ ∀ t ∈ cs.threads, t.callstack ≠ []

/-- A pending choice knows the thread it was generated in, and that thread has an element. -/
def ChoiceWF (c : Choice) : Prop := ∃ t, c.thread = some t ∧ t.callstack ≠ []

def ChoicesWF (cs : List Choice) : Prop := ∀ c ∈ cs, ChoiceWF c

def FlowWF (f : Flow) : Prop := CsWF f.callstack ∧ ChoicesWF f.choices

def CoreWF (s : Core) : Prop := FlowWF s.flow

def StWF (st : St) : Prop := CoreWF st.s

/-- The current flow and every parked flow. -/
def StateWF (ss : StoryState) : Prop :=
  CoreWF ss.core ∧ ∀ nf, ss.namedFlows = some nf → ∀ kv ∈ nf, FlowWF kv.2

/-- The state and the look-ahead snapshot (`evaluate_function` keeps no call stack aside in
    the model: it pushes an element on the current one). -/
def StoryWF (st : Story) : Prop := StateWF st.state ∧ ∀ sn, st.snapshot = some sn → StateWF sn

/-! ### 2. Call-stack operations -/

theorem csWF_fresh : CsWF CallStack.fresh := by
  refine ⟨by simp [CallStack.fresh], ?_⟩
  intro t ht
  simp only [CallStack.fresh, List.mem_singleton] at ht
  subst ht
  simp

theorem csWF_reset (cs : CallStack) : CsWF cs.reset := csWF_fresh

theorem csWF_currentThread {cs : CallStack} (h : CsWF cs) :
    ∃ t, cs.currentThread = some t ∧ t ∈ cs.threads ∧ t.callstack ≠ [] := by
  unfold CallStack.currentThread
  refine ⟨cs.threads.getLast h.1, List.getLast?_eq_some_getLast h.1, List.getLast_mem h.1, ?_⟩
  exact h.2 _ (List.getLast_mem h.1)

theorem csWF_currentElement {cs : CallStack} (h : CsWF cs) : ∃ e, cs.currentElement = some e := by
  obtain ⟨t, ht, _, hne⟩ := csWF_currentThread h
  unfold CallStack.currentElement
  rw [ht]
  exact ⟨t.callstack.getLast hne, List.getLast?_eq_some_getLast hne⟩

theorem mem_dropLast {α : Type} {a : α} {l : List α} (h : a ∈ l.dropLast) : a ∈ l :=
  List.dropLast_subset l h

theorem csWF_mapCurrentThread {cs : CallStack} {f : Thread → Thread} (h : CsWF cs)
    (hf : ∀ t, t.callstack ≠ [] → (f t).callstack ≠ []) : CsWF (cs.mapCurrentThread f) := by
  unfold CallStack.mapCurrentThread
  split
  · rename_i t ht
    refine ⟨by simp, ?_⟩
    intro u hu
    simp only [List.mem_append, List.mem_singleton] at hu
    rcases hu with hu | hu
    · exact h.2 u (mem_dropLast hu)
    · subst hu
      exact hf t (h.2 t (List.mem_of_getLast? ht))
  · exact h

theorem csWF_mapCurrentElement {cs : CallStack} {f : Element → Element} (h : CsWF cs) :
    CsWF (cs.mapCurrentElement f) := by
  unfold CallStack.mapCurrentElement
  apply csWF_mapCurrentThread h
  intro t ht
  split
  · simp
  · exact ht

theorem csWF_threads_congr {cs cs' : CallStack} (h : CsWF cs) (ht : cs'.threads = cs.threads) : CsWF cs' := by
  unfold CsWF; rw [ht]; exact h

theorem csWF_setCurrentThread {cs : CallStack} {t : Thread} (ht : t.callstack ≠ []) :
    CsWF (cs.setCurrentThread t) := by
  refine ⟨by simp [CallStack.setCurrentThread], ?_⟩
  intro u hu
  simp only [CallStack.setCurrentThread, List.mem_singleton] at hu
  subst hu; exact ht

theorem csWF_pushThread {cs : CallStack} (h : CsWF cs) : CsWF cs.pushThread := by
  unfold CallStack.pushThread
  split
  · rename_i t ht
    refine ⟨by simp, ?_⟩
    intro u hu
    simp only [List.mem_append, List.mem_singleton] at hu
    rcases hu with hu | hu
    · exact h.2 u hu
    · subst hu
      exact h.2 t (List.mem_of_getLast? ht)
  · exact h

theorem csWF_forkThread {cs cs' : CallStack} {t : Thread} (h : CsWF cs) (hf : cs.forkThread = some (cs', t)) :
    CsWF cs' ∧ t.callstack ≠ [] := by
  unfold CallStack.forkThread at hf
  split at hf
  · rename_i u hu
    simp only [Option.some.injEq, Prod.mk.injEq] at hf
    obtain ⟨rfl, rfl⟩ := hf
    exact ⟨h, h.2 u (List.mem_of_getLast? hu)⟩
  · cases hf

theorem csWF_push {cs cs' : CallStack} {t : PushPop} {eh : Nat} {ol : Int} (h : CsWF cs)
    (hp : cs.push t eh ol = some cs') : CsWF cs' := by
  unfold CallStack.push at hp
  split at hp
  · simp only [Option.some.injEq] at hp
    subst hp
    exact csWF_mapCurrentThread h (fun t _ => by simp)
  · cases hp

theorem canPop_length {cs : CallStack} (h : cs.canPop = true) :
    ∃ t, cs.threads.getLast? = some t ∧ 1 < t.callstack.length := by
  unfold CallStack.canPop CallStack.elements CallStack.currentThread at h
  split at h
  · rename_i t ht
    exact ⟨t, ht, by simpa using h⟩
  · simp at h

theorem dropLast_ne_nil {α : Type} {l : List α} (h : 1 < l.length) : l.dropLast ≠ [] := by
  intro hh
  have := congrArg List.length hh
  simp at this
  omega

theorem csWF_pop {cs cs' : CallStack} {t : Option PushPop} (h : CsWF cs) (hp : cs.pop t = .ok cs') : CsWF cs' := by
  unfold CallStack.pop at hp
  split at hp
  · rename_i hc
    cases hp
    have hcp : cs.canPop = true := by
      unfold CallStack.canPopType at hc
      split at hc
      · cases hc
      · rename_i hn; simpa using hn
    obtain ⟨u, hu, hlen⟩ := canPop_length hcp
    unfold CallStack.mapCurrentThread
    rw [hu]
    refine ⟨by simp, ?_⟩
    intro v hv
    simp only [List.mem_append, List.mem_singleton] at hv
    rcases hv with hv | hv
    · exact h.2 v (mem_dropLast hv)
    · subst hv
      exact dropLast_ne_nil hlen
  · cases hp

theorem csWF_popThread {cs cs' : CallStack} (h : CsWF cs) (hp : cs.popThread = .ok cs') : CsWF cs' := by
  unfold CallStack.popThread at hp
  split at hp
  · rename_i hc
    cases hp
    unfold CallStack.canPopThread at hc
    simp only [Bool.and_eq_true, decide_eq_true_eq] at hc
    refine ⟨dropLast_ne_nil hc.1, ?_⟩
    intro v hv
    exact h.2 v (mem_dropLast hv)
  · cases hp

theorem csWF_setTemp {cs cs' : CallStack} {name : String} {v : Val} {d : Bool} {ctx : Int} (h : CsWF cs)
    (hp : cs.setTemp name v d ctx = .ok cs') : CsWF cs' := by
  unfold CallStack.setTemp at hp
  simp only at hp
  repeat' split at hp
  all_goals first
    | (cases hp; done)
    | (cases hp
       exact csWF_mapCurrentThread h (fun t ht => by simpa using ht))

/-! ### 3. The two unwraps succeed -/

theorem push_isSome_of_wf {cs : CallStack} (h : CsWF cs) (t : PushPop) (eh : Nat) (ol : Int) :
    (cs.push t eh ol).isSome = true := by
  obtain ⟨e, he⟩ := csWF_currentElement h
  unfold CallStack.push
  rw [he]; rfl

theorem forkThread_isSome_of_wf {cs : CallStack} (h : CsWF cs) : cs.forkThread.isSome = true := by
  obtain ⟨t, ht, _⟩ := csWF_currentThread h
  unfold CallStack.forkThread
  rw [ht]; rfl

/-- … and conversely: the sites stand exactly for the invariant of the current thread. -/
theorem forkThread_isSome_iff (cs : CallStack) : cs.forkThread.isSome = true ↔ cs.threads ≠ [] := by
  unfold CallStack.forkThread CallStack.currentThread
  cases h : cs.threads.getLast? with
  | none => rw [List.getLast?_eq_none_iff] at h; simp [h]
  | some t =>
    simp only [Option.isSome_some, ne_eq, true_iff]
    intro hh; rw [hh] at h; cases h

end PartA

section PartB

open M

/-! ### core level: the operations of `Ink/State.lean` on a `Core` keep the invariant -/

theorem coreWF_iff {s : Core} : CoreWF s ↔ CsWF s.flow.callstack ∧ ChoicesWF s.flow.choices := Iff.rfl
theorem stWF_iff {st : St} : StWF st ↔ CsWF st.s.flow.callstack ∧ ChoicesWF st.s.flow.choices := Iff.rfl

theorem coreWF_of_flow_eq {s s' : Core} (h : s'.flow = s.flow) (hs : CoreWF s) : CoreWF s' := by
  unfold CoreWF; rw [h]; exact hs

theorem choicesWF_nil : ChoicesWF [] := by intro c hc; cases hc

theorem choicesWF_append {l : List Choice} {c : Choice} (hl : ChoicesWF l) (hc : ChoiceWF c) :
    ChoicesWF (l ++ [c]) := by
  intro x hx
  simp only [List.mem_append, List.mem_singleton] at hx
  rcases hx with hx | hx
  · exact hl x hx
  · subst hx; exact hc

theorem csWF_mapCurrentThread_prev {cs : CallStack} {p : Ptr} (h : CsWF cs) :
    CsWF (cs.mapCurrentThread (fun t => { t with prevPtr := p })) :=
  csWF_mapCurrentThread h (fun _ ht => ht)

theorem coreWF_setCallstack {s : Core} {cs : CallStack} (hs : CoreWF s) (hcs : CsWF cs) :
    CoreWF (s.setCallstack cs) := ⟨hcs, hs.2⟩

theorem coreWF_setCurrentPtr {s : Core} {p : Ptr} (hs : CoreWF s) : CoreWF (s.setCurrentPtr p) :=
  ⟨csWF_mapCurrentElement hs.1, hs.2⟩

theorem coreWF_setPrevPtr {s : Core} {p : Ptr} (hs : CoreWF s) : CoreWF (s.setPrevPtr p) :=
  ⟨csWF_mapCurrentThread_prev hs.1, hs.2⟩

theorem coreWF_setInExpr {s : Core} {b : Bool} (hs : CoreWF s) : CoreWF (s.setInExpr b) :=
  ⟨csWF_mapCurrentElement hs.1, hs.2⟩

theorem coreWF_setOutput {s : Core} {o : List Obj} (hs : CoreWF s) : CoreWF (s.setOutput o) := hs

theorem coreWF_resetOutput {s : Core} {o : Option (List Obj)} (hs : CoreWF s) : CoreWF (s.resetOutput o) := hs

theorem coreWF_addErrorMessage {s : Core} {m : String} (hs : CoreWF s) : CoreWF (s.addErrorMessage m) := hs

theorem coreWF_popFromOutput {s : Core} {n : Nat} (hs : CoreWF s) : CoreWF (s.popFromOutput n) := by
  unfold Core.popFromOutput; split
  · exact hs
  · exact hs

theorem coreWF_trimWs {s : Core} (hs : CoreWF s) : CoreWF s.trimWhitespaceFromFunctionEnd := by
  unfold Core.trimWhitespaceFromFunctionEnd; simp only; split
  · exact hs
  · exact hs

theorem trimWs_callstack (s : Core) : s.trimWhitespaceFromFunctionEnd.callstack = s.callstack := by
  unfold Core.trimWhitespaceFromFunctionEnd; simp only; split <;> rfl

/-- `force_end` re-establishes the invariant whatever the state was. -/
theorem coreWF_forceEnd' (s : Core) : CoreWF s.forceEnd := by
  unfold Core.forceEnd
  show CoreWF ((Core.setCurrentPtr _ Ptr.null).setPrevPtr Ptr.null)
  exact coreWF_setPrevPtr (coreWF_setCurrentPtr ⟨csWF_fresh, choicesWF_nil⟩)

theorem coreWF_forceEnd {s : Core} (_hs : CoreWF s) : CoreWF s.forceEnd := coreWF_forceEnd' s

theorem coreWF_addErrorCore {root : Obj} {s : Core} {m : String} : CoreWF (addErrorCore root s m) :=
  coreWF_forceEnd' _

theorem coreWF_tryExit {s : Core} (hs : CoreWF s) : CoreWF s.tryExitFunctionEvaluationFromGame.1 := by
  unfold Core.tryExitFunctionEvaluationFromGame
  split
  · exact coreWF_setCurrentPtr hs
  · exact hs

theorem coreWF_tryExit' {s s1 : Core} {e : Bool} (h : s.tryExitFunctionEvaluationFromGame = (s1, e))
    (hs : CoreWF s) : CoreWF s1 := by
  have := coreWF_tryExit hs
  rw [h] at this; exact this

theorem clear_length (l : List Element) : (Core.pushIndividual.clear l).length = l.length := by
  induction l with
  | nil => rfl
  | cons e rest ih =>
    unfold Core.pushIndividual.clear
    split
    · simp [ih]
    · rfl

theorem clear_ne_nil {l : List Element} (h : l ≠ []) : (Core.pushIndividual.clear l.reverse).reverse ≠ [] := by
  intro hh
  have := congrArg List.length hh
  simp only [List.length_reverse, clear_length, List.length_nil] at this
  exact h (List.eq_nil_of_length_eq_zero this)

theorem ite_coreWF {c : Prop} [Decidable c] {a b : Core} (ha : CoreWF a) (hb : CoreWF b) :
    CoreWF (if c then a else b) := by split <;> assumption

theorem coreWF_mapClear {x : Core} (hx : CoreWF x) :
    CoreWF (x.mapCallstack (fun cs => cs.mapCurrentThread (fun th =>
      { th with callstack := (Core.pushIndividual.clear th.callstack.reverse).reverse }))) :=
  ⟨csWF_mapCurrentThread hx.1 (fun _ ht => clear_ne_nil ht), hx.2⟩

theorem coreWF_pushIndividual {s : Core} {o : Obj} (hs : CoreWF s) : CoreWF (s.pushIndividual o) := by
  unfold Core.pushIndividual
  split
  · exact hs
  · simp only
    repeat' first
      | exact hs
      | apply ite_coreWF
      | apply coreWF_setOutput
      | apply coreWF_mapClear
      | split
  · exact hs

theorem foldl_coreWF {β : Type} (f : Core → β → Core) (hf : ∀ c b, CoreWF c → CoreWF (f c b))
    (l : List β) (c : Core) (hc : CoreWF c) : CoreWF (l.foldl f c) := by
  induction l generalizing c with
  | nil => exact hc
  | cons x xs ih => exact ih _ (hf _ _ hc)

theorem coreWF_pushToOutput {s : Core} {o : Obj} (hs : CoreWF s) : CoreWF (s.pushToOutput o) := by
  unfold Core.pushToOutput
  split
  · split
    · exact foldl_coreWF _ (fun c b hc => coreWF_pushIndividual hc) _ _ hs
    · exact coreWF_pushIndividual hs
  · exact coreWF_pushIndividual hs

theorem coreWF_foldl_pushToOutput {s : Core} {l : List Obj} (hs : CoreWF s) :
    CoreWF (l.foldl (fun st t => st.pushToOutput t) s) :=
  foldl_coreWF _ (fun _ _ hc => coreWF_pushToOutput hc) _ _ hs

theorem coreWF_pushEval {defs : ListDefs} {s s' : Core} {o : Obj} (h : s.pushEval defs o = .ok s')
    (hs : CoreWF s) : CoreWF s' := by
  unfold Core.pushEval at h
  split at h
  · split at h
    · cases h
    · cases h; exact hs
  · cases h; exact hs

theorem coreWF_popEval {s s' : Core} {o : Obj} (h : s.popEval = .ok (o, s')) (hs : CoreWF s) : CoreWF s' := by
  unfold Core.popEval at h
  split at h
  · cases h; exact hs
  · cases h

theorem coreWF_popEvalMultiple {s s' : Core} {n : Nat} {os : List Obj} (h : s.popEvalMultiple n = .ok (os, s'))
    (hs : CoreWF s) : CoreWF s' := by
  unfold Core.popEvalMultiple at h
  split at h
  · cases h; exact hs
  · cases h

theorem coreWF_setGlobal {s : Core} {name : String} {v : Val} (hs : CoreWF s) : CoreWF (s.setGlobal name v).1 := hs

theorem coreWF_assign {defs : ListDefs} {s s' : Core} {name : String} {isNew isGlobal : Bool} {v : Val}
    (h : s.assign defs name isNew isGlobal v = .ok s') (hs : CoreWF s) : CoreWF s' := by
  unfold Core.assign at h
  split at h
  · simp only at h
    split at h
    · cases h; exact hs
    · split at h
      · rename_i cs heq
        cases h; exact coreWF_setCallstack hs (csWF_setTemp hs.1 heq)
      · cases h
      · cases h
  · split at h
    split at h
    · cases h; exact hs
    · split at h
      · rename_i cs heq
        cases h; exact coreWF_setCallstack hs (csWF_setTemp hs.1 heq)
      · cases h
      · cases h

theorem coreWF_incrementVisitCount {root : Obj} {s s' : Core} {a : Addr} (h : s.incrementVisitCount root a = .ok s')
    (hs : CoreWF s) : CoreWF s' := by
  unfold Core.incrementVisitCount at h
  split at h
  · cases h; exact hs
  · cases h

theorem coreWF_recordTurnIndexVisit {root : Obj} {s s' : Core} {a : Addr} (h : s.recordTurnIndexVisit root a = .ok s')
    (hs : CoreWF s) : CoreWF s' := by
  unfold Core.recordTurnIndexVisit at h
  split at h
  · cases h; exact hs
  · cases h

theorem coreWF_popCallstack {s s' : Core} {t : Option PushPop} (h : s.popCallstack t = .ok s')
    (hs : CoreWF s) : CoreWF s' := by
  unfold Core.popCallstack at h
  simp only at h
  split at h
  · rename_i cs heq
    cases h
    have h1 : CoreWF (match s.callstack.currentElement with
        | some e => if e.kind == PushPop.function then s.trimWhitespaceFromFunctionEnd else s
        | none => s) := by
      split
      · split
        · exact coreWF_trimWs hs
        · exact hs
      · exact hs
    exact coreWF_setCallstack h1 (csWF_pop h1.1 heq)
  · cases h
  · cases h

theorem coreWF_popThreadLift {s s' : Core}
    (h : (match s.callstack.popThread with
      | .ok cs => Out.ok (s.setCallstack cs)
      | .err k m => .err k m
      | .panic p => .panic p) = .ok s') (hs : CoreWF s) : CoreWF s' := by
  split at h
  · rename_i cs heq
    cases h; exact coreWF_setCallstack hs (csWF_popThread hs.1 heq)
  · cases h
  · cases h

theorem coreWF_pushThread {s : Core} (hs : CoreWF s) : CoreWF (s.mapCallstack CallStack.pushThread) :=
  ⟨csWF_pushThread hs.1, hs.2⟩

/-! ### the lifted functions panic with `object.rs:get_path` / `object.rs:resolve_path` only -/

/-- The sites this file proves unreachable under the invariant. -/
def badSites : List String :=
  ["callstack.rs:push", "callstack.rs:fork_thread", "choices.rs:thread_at_generation"]

theorem visitCountFor_good (root : Obj) (s : Core) (a : Addr) (site : String)
    (h : s.visitCountFor root a = .panic site) : site ∉ badSites := by
  unfold Core.visitCountFor at h
  split at h
  · split at h <;> cases h
  · cases h; decide

theorem incrementVisitCount_good (root : Obj) (s : Core) (a : Addr) (site : String)
    (h : s.incrementVisitCount root a = .panic site) : site ∉ badSites := by
  unfold Core.incrementVisitCount at h
  split at h
  · cases h
  · cases h; decide

theorem recordTurnIndexVisit_good (root : Obj) (s : Core) (a : Addr) (site : String)
    (h : s.recordTurnIndexVisit root a = .panic site) : site ∉ badSites := by
  unfold Core.recordTurnIndexVisit at h
  split at h
  · cases h
  · cases h; decide

theorem targetPointerOf_good (root : Obj) (a : Addr) (t : Path) (site : String)
    (h : targetPointerOf root a t = .panic site) : site ∉ badSites := by
  unfold targetPointerOf at h
  split at h
  · cases h
  · split at h
    · cases h; decide
    · split at h
      · cases h
      · split at h <;> cases h

theorem divertTargetPath_good (root : Obj) (a : Addr) (t : Path) (site : String)
    (h : divertTargetPath root a t = .panic site) : site ∉ badSites := by
  unfold divertTargetPath at h
  split at h
  · split at h
    · split at h
      · split at h
        · cases h
        · cases h; decide
      · cases h
    · cases h
    · rename_i s heq
      cases h
      exact targetPointerOf_good _ _ _ _ heq
  · cases h

end PartB

section PartC

open M

/-! ### 4. A Hoare logic for the step monad: the invariant is kept, and no bad site is hit -/

/-- Run from a well-formed state, `m` ends in a well-formed state; a returned value satisfies
    `Q`; a panic is not one of `badSites`. -/
def T {α : Type} (m : M α) (Q : α → Prop) : Prop :=
  ∀ st : St, StWF st →
    StWF (m st).2 ∧ (∀ a, (m st).1 = .ok a → Q a) ∧ (∀ site, (m st).1 = .panic site → site ∉ badSites)

theorem T_weaken {α : Type} {m : M α} {Q Q' : α → Prop} (h : T m Q) (hq : ∀ a, Q a → Q' a) : T m Q' :=
  fun st hst => ⟨(h st hst).1, fun a ha => hq a ((h st hst).2.1 a ha), (h st hst).2.2⟩

theorem T_true {α : Type} {m : M α} {Q : α → Prop} (h : T m Q) : T m (fun _ => True) :=
  T_weaken h (fun _ _ => trivial)

theorem T_of_false {α : Type} {m : M α} {Q : α → Prop} (h : False) : T m Q := h.elim

theorem T_pure {α : Type} {a : α} {Q : α → Prop} (h : Q a) : T (pure a : M α) Q := by
  intro st hst
  refine ⟨hst, ?_, ?_⟩
  · intro b hb; cases hb; exact h
  · intro site hs; cases hs

theorem T_bind {α β : Type} {x : M α} {f : α → M β} {Q : α → Prop} {R : β → Prop}
    (hx : T x Q) (hf : ∀ a, Q a → T (f a) R) : T (x >>= f) R := by
  intro st hst
  show StWF ((M.bind' x f) st).2 ∧ (∀ a, ((M.bind' x f) st).1 = .ok a → R a)
    ∧ (∀ site, ((M.bind' x f) st).1 = .panic site → site ∉ badSites)
  unfold M.bind'
  obtain ⟨h1, h2, h3⟩ := hx st hst
  split
  · rename_i a st' heq
    rw [heq] at h1 h2
    exact hf a (h2 a rfl) st' h1
  · rename_i k m st' heq
    rw [heq] at h1
    exact ⟨h1, fun a ha => (by cases ha), fun s hs => by cases hs⟩
  · rename_i p st' heq
    rw [heq] at h1 h3
    refine ⟨h1, fun a ha => (by cases ha), fun s hs => ?_⟩
    cases hs
    exact h3 _ rfl

theorem T_bind_pure {α β : Type} {a : α} {f : α → M β} {R : β → Prop}
    (hf : T (f a) R) : T ((pure a : M α) >>= f) R :=
  T_bind (Q := fun x => x = a) (T_pure rfl) (fun x hx => by subst hx; exact hf)

theorem T_get : T M.get CoreWF := by
  intro st hst
  exact ⟨hst, fun a ha => by cases ha; exact hst, fun s hs => by cases hs⟩

theorem T_getSt : T M.getSt StWF := by
  intro st hst
  exact ⟨hst, fun a ha => by cases ha; exact hst, fun s hs => by cases hs⟩

theorem T_set {s : Core} {Q : Unit → Prop} (h : CoreWF s) (hq : Q ()) : T (M.set s) Q := by
  intro st _
  exact ⟨h, fun a _ => hq, fun s hs => by cases hs⟩

theorem T_setSt {st' : St} {Q : Unit → Prop} (h : StWF st') (hq : Q ()) : T (M.setSt st') Q := by
  intro st _
  exact ⟨h, fun a _ => hq, fun s hs => by cases hs⟩

theorem T_modify {f : Core → Core} {Q : Unit → Prop}
    (h : ∀ s, CoreWF s → CoreWF (f s)) (hq : Q ()) : T (M.modify f) Q := by
  intro st hst
  exact ⟨h _ hst, fun a _ => hq, fun s hs => by cases hs⟩

theorem T_liftS {f : Core → Out Core} {Q : Unit → Prop}
    (h : ∀ s s', CoreWF s → f s = .ok s' → CoreWF s')
    (hp : ∀ s site, f s = .panic site → site ∉ badSites) (hq : Q ()) : T (M.liftS f) Q := by
  intro st hst
  unfold M.liftS
  split
  · rename_i s' heq
    exact ⟨h _ _ hst heq, fun a _ => hq, fun s hs => by cases hs⟩
  · exact ⟨hst, fun a ha => (by cases ha), fun s hs => by cases hs⟩
  · rename_i p heq
    refine ⟨hst, fun a ha => (by cases ha), fun s hs => ?_⟩
    cases hs
    exact hp _ _ heq

theorem T_fail {α : Type} {k m : String} {Q : α → Prop} : T (M.fail k m : M α) Q := by
  intro st hst
  exact ⟨hst, fun a ha => (by cases ha), fun s hs => by cases hs⟩

theorem T_invalid {α : Type} {m : String} {Q : α → Prop} : T (M.invalid m : M α) Q := T_fail

theorem T_crash {α : Type} {p : String} {Q : α → Prop} (hp : p ∉ badSites) : T (M.crash p : M α) Q := by
  intro st hst
  refine ⟨hst, fun a ha => (by cases ha), fun s hs => ?_⟩
  simp only [M.crash, Out.panic.injEq] at hs
  subst hs; exact hp

theorem T_lift {α : Type} {o : Out α} (hp : ∀ site, o = .panic site → site ∉ badSites) :
    T (M.lift o) (fun _ => True) := by
  intro st hst
  exact ⟨hst, fun _ _ => trivial, fun s hs => hp s hs⟩

/-- `unwrap` at a site that is not under scrutiny, or of a value that is there. -/
theorem T_unwrap {α : Type} {site : String} {o : Option α} (h : site ∉ badSites ∨ o.isSome = true) :
    T (M.unwrap site o) (fun a => o = some a) := by
  cases o with
  | none =>
    rcases h with h | h
    · exact T_crash h
    · cases h
  | some a => exact T_pure rfl

theorem T_bind_fail {α β : Type} {k m : String} {f : α → M β} {R : β → Prop} :
    T ((M.fail k m : M α) >>= f) R := T_bind (Q := fun _ => False) T_fail (fun _ h => h.elim)

theorem T_bind_invalid {α β : Type} {m : String} {f : α → M β} {R : β → Prop} :
    T ((M.invalid m : M α) >>= f) R := T_bind_fail

theorem T_bind_crash {α β : Type} {p : String} {f : α → M β} {R : β → Prop} (hp : p ∉ badSites) :
    T ((M.crash p : M α) >>= f) R := T_bind (Q := fun _ => False) (T_crash hp) (fun _ h => h.elim)

theorem T_ite {α : Type} {c : Prop} [Decidable c] {x y : M α} {Q : α → Prop}
    (hx : T x Q) (hy : T y Q) : T (if c then x else y) Q := by
  split <;> assumption

theorem T_popEvalM : T popEvalM (fun _ => True) := by
  intro st hst
  unfold Ink.popEvalM
  split
  · rename_i o s' heq
    exact ⟨coreWF_popEval heq hst, fun _ _ => trivial, fun s hs => by cases hs⟩
  · exact ⟨hst, fun _ _ => trivial, fun s hs => by cases hs⟩
  · rename_i p heq
    exact absurd heq (popEval_no_panic _ _)

theorem T_pushEvalM {env : Env} {o : Obj} : T (pushEvalM env o) (fun _ => True) :=
  T_liftS (fun _ _ hs h => coreWF_pushEval h hs) (fun _ _ h => absurd h (pushEval_no_panic _ _ _ _)) trivial

theorem T_addErrorM {root : Obj} {m : String} {w : Bool} : T (addErrorM root m w) (fun _ => True) := by
  intro st hst
  unfold Ink.addErrorM
  split
  · exact ⟨hst, fun _ _ => trivial, fun s hs => by cases hs⟩
  · exact ⟨coreWF_addErrorCore, fun _ _ => trivial, fun s hs => by cases hs⟩

theorem T_pointerAtPathM {env : Env} {p : Path} : T (pointerAtPathM env p) (fun _ => True) :=
  T_lift (fun _ h => absurd h (pointerAtPath_no_panic _ _ _))

theorem T_divertTargetPointer {env : Env} {a : Addr} {t : Path} : T (divertTargetPointer env a t) (fun _ => True) :=
  T_lift (fun _ h => targetPointerOf_good _ _ _ _ h)

theorem CoreWF.cs {s : Core} (h : CoreWF s) : CsWF s.callstack := h.1

theorem coreWF_clearChoices {s : Core} (hs : CoreWF s) :
    CoreWF { s with flow := { s.flow with choices := [] } } := ⟨hs.1, choicesWF_nil⟩

theorem coreWF_addChoice {s : Core} {c : Choice} (hs : CoreWF s) (hc : ChoiceWF c) :
    CoreWF { s with flow := { s.flow with choices := s.flow.choices ++ [c] } } :=
  ⟨hs.1, choicesWF_append hs.2 hc⟩

theorem csWF_of_push {s : Core} {cs : CallStack} {t : PushPop} {eh : Nat} {ol : Int}
    (h : s.callstack.push t eh ol = some cs) (hs : CoreWF s) : CsWF cs := csWF_push hs.1 h

/-- side conditions: the lifted function does not panic with a bad site -/
macro "t_side" : tactic => `(tactic| first
  | exact absurd (by assumption) (isTruthyObj_no_panic _ _)
  | exact absurd (by assumption) (pushEval_no_panic _ _ _ _)
  | exact absurd (by assumption) (assign_no_panic _ _ _ _ _ _ _)
  | exact absurd (by assumption) (popCallstack_no_panic _ _ _)
  | exact absurd (by assumption) (pointerAtPath_no_panic _ _ _)
  | exact visitCountFor_good _ _ _ _ (by assumption)
  | exact incrementVisitCount_good _ _ _ _ (by assumption)
  | exact recordTurnIndexVisit_good _ _ _ _ (by assumption)
  | exact divertTargetPath_good _ _ _ _ (by assumption)
  | exact targetPointerOf_good _ _ _ _ (by assumption)
  | exact absurd (by assumption) (popThreadLift_no_panic _ _)
  | exact absurd (by assumption) (native_call_never_panics _ _ _ _)
  | fail "t_side: no rule")

theorem CoreWF.cs' {s : Core} (h : CoreWF s) : CsWF s.flow.callstack := h.1
theorem CoreWF.ch' {s : Core} (h : CoreWF s) : ChoicesWF s.flow.choices := h.2

theorem coreWF_mapCallstack {s : Core} {f : CallStack → CallStack} (hs : CoreWF s) (hf : CsWF (f s.callstack)) :
    CoreWF (s.mapCallstack f) := ⟨hf, hs.2⟩

theorem coreWF_of_flowWF {s : Core} (h : FlowWF s.flow) : CoreWF s := h
theorem stWF_of_coreWF {st : St} (h : CoreWF st.s) : StWF st := h
theorem flowWF_mk {f : Flow} (h1 : CsWF f.callstack) (h2 : ChoicesWF f.choices) : FlowWF f := ⟨h1, h2⟩

/-- what `process_choice` returns: a choice that knows a thread with an element -/
def ChoiceOptWF (ch : Option Choice) : Prop := ∀ c, ch = some c → ChoiceWF c

/-- the facts about a core that a hypothesis of the context gives -/
macro "t_wf_var" : tactic => `(tactic| first
  | assumption
  | exact coreWF_pushEval (by assumption) (by assumption)
  | exact coreWF_popEval (by assumption) (by assumption)
  | exact coreWF_popEvalMultiple (by assumption) (by assumption)
  | exact coreWF_assign (by assumption) (by assumption)
  | exact coreWF_incrementVisitCount (by assumption) (by assumption)
  | exact coreWF_recordTurnIndexVisit (by assumption) (by assumption)
  | exact coreWF_popCallstack (by assumption) (by assumption)
  | exact coreWF_popThreadLift (by assumption) (by assumption)
  | exact coreWF_tryExit' (by assumption) (by assumption)
  | exact csWF_of_push (by assumption) (by assumption)
  | exact (csWF_forkThread (CoreWF.cs (by assumption)) (by assumption)).1
  | fail "t_wf_var: no rule")

open Lean Elab Tactic Meta in
/-- One step of a side condition `CoreWF e` / `StWF e` / `FlowWF e` / `CsWF e` / `ChoicesWF e`, chosen by
    the head symbol of `e` (no unification against program text). -/
elab "t_wf1" : tactic => withMainContext do
  let g ← getMainGoal
  let tgt := (← instantiateMVars (← g.getType)).consumeMData
  let fn := tgt.getAppFn
  let args := tgt.getAppArgs
  unless fn.isConst && args.size == 1 do throwError "t_wf1: not a well-formedness goal"
  let e0 := args[0]!
  let e := e0.consumeMData.headBeta
  if e.isLet then
    let e' := (e.letBody!.instantiate1 e.letValue!).headBeta
    replaceMainGoal [← g.change (mkApp fn e')]
    return
  if e != e0 then
    replaceMainGoal [← g.change (mkApp fn e)]
    return
  let run (t : TSyntax `tactic) : TacticM Unit := evalTactic t
  let head : Option Name := e.getAppFn.constName?
  let pred := fn.constName!
  if pred == ``Ink.C04.StWF then
    match head with
    | some ``Ink.St.mk =>
      -- `StWF { st with s := c, .. }` is `CoreWF c`
      replaceMainGoal [← g.change (mkApp (mkConst ``Ink.C04.CoreWF) e.getAppArgs[0]!)]
    | _ => run (← `(tactic| assumption))
  else if pred == ``Ink.C04.CoreWF then
    match head with
    | some ``Ink.Core.setCurrentPtr => run (← `(tactic| refine coreWF_setCurrentPtr ?_))
    | some ``Ink.Core.setPrevPtr => run (← `(tactic| refine coreWF_setPrevPtr ?_))
    | some ``Ink.Core.setInExpr => run (← `(tactic| refine coreWF_setInExpr ?_))
    | some ``Ink.Core.setOutput => run (← `(tactic| refine coreWF_setOutput ?_))
    | some ``Ink.Core.resetOutput => run (← `(tactic| refine coreWF_resetOutput ?_))
    | some ``Ink.Core.setCallstack => run (← `(tactic| refine coreWF_setCallstack ?_ ?_))
    | some ``Ink.Core.mapCallstack => run (← `(tactic| refine coreWF_mapCallstack ?_ ?_))
    | some ``Ink.Core.popFromOutput => run (← `(tactic| refine coreWF_popFromOutput ?_))
    | some ``Ink.Core.pushToOutput => run (← `(tactic| refine coreWF_pushToOutput ?_))
    | some ``Ink.Core.forceEnd => run (← `(tactic| exact coreWF_forceEnd' _))
    | some ``Ink.addErrorCore => run (← `(tactic| exact coreWF_addErrorCore))
    | some ``List.foldl => run (← `(tactic| refine coreWF_foldl_pushToOutput ?_))
    | some ``Prod.fst => run (← `(tactic| refine coreWF_tryExit ?_))
    | some ``ite => run (← `(tactic| refine ite_coreWF ?_ ?_))
    | some ``Ink.Core.mk =>
      -- `CoreWF { c with flow := f, .. }` is `FlowWF f`
      replaceMainGoal [← g.change (mkApp (mkConst ``Ink.C04.FlowWF) e.getAppArgs[0]!)]
    | some ``Ink.St.s => run (← `(tactic| assumption))
    | _ => run (← `(tactic| t_wf_var))
  else if pred == ``Ink.C04.FlowWF then
    match head with
    | some ``Ink.Core.flow =>
      replaceMainGoal [← g.change (mkApp (mkConst ``Ink.C04.CoreWF) e.appArg!)]
    | some ``Ink.Flow.mk =>
      let as := e.getAppArgs
      let g1 ← mkFreshExprSyntheticOpaqueMVar (mkApp (mkConst ``Ink.C04.CsWF) as[1]!)
      let g2 ← mkFreshExprSyntheticOpaqueMVar (mkApp (mkConst ``Ink.C04.ChoicesWF) as[3]!)
      g.assign (← mkAppM ``And.intro #[g1, g2])
      replaceMainGoal [g1.mvarId!, g2.mvarId!]
    | _ => run (← `(tactic| assumption))
  else if pred == ``Ink.C04.CsWF then
    match head with
    | some ``Ink.Core.callstack => run (← `(tactic| refine CoreWF.cs ?_))
    | some ``Ink.Flow.callstack =>
      let f := e.appArg!.consumeMData
      if f.isAppOfArity ``Ink.Core.flow 1 then
        replaceMainGoal [← g.change (mkApp (mkConst ``Ink.C04.CsWF) (mkApp (mkConst ``Ink.Core.callstack) f.appArg!))]
      else throwError "t_wf1: stuck at {e}"
    | some ``Ink.CallStack.mapCurrentElement => run (← `(tactic| refine csWF_mapCurrentElement ?_))
    | some ``Ink.CallStack.mapCurrentThread => run (← `(tactic| refine csWF_mapCurrentThread_prev ?_))
    | some ``Ink.CallStack.reset => run (← `(tactic| exact csWF_reset _))
    | some ``Ink.CallStack.pushThread => run (← `(tactic| refine csWF_pushThread ?_))
    | some ``Ink.CallStack.setCurrentThread => run (← `(tactic| refine csWF_setCurrentThread ?_))
    | _ => run (← `(tactic| t_wf_var))
  else if pred == ``Ink.C04.ChoicesWF then
    match head with
    | some ``List.nil => run (← `(tactic| exact choicesWF_nil))
    | some ``HAppend.hAppend => run (← `(tactic| refine choicesWF_append ?_ ?_))
    | some ``Ink.Flow.choices => run (← `(tactic| refine CoreWF.ch' ?_))
    | _ => run (← `(tactic| assumption))
  else if pred == ``Ink.C04.ChoiceWF then
    run (← `(tactic| first | assumption | exact (by assumption : ChoiceOptWF (some _)) _ rfl | fail "t_wf1: choice"))
  else throwError "t_wf1: not a well-formedness goal"

/-- side conditions: this core / state is well formed -/
macro "t_wf" : tactic => `(tactic| repeat' t_wf1)

/-- side condition of an `unwrap`: the site is not under scrutiny, or the value is there -/
macro "t_unwrap" : tactic => `(tactic| first
  | (left; decide)
  | (right; exact push_isSome_of_wf (CoreWF.cs (by assumption)) _ _ _)
  | (right; exact forkThread_isSome_of_wf (CoreWF.cs (by assumption)))
  | fail "t_unwrap: no rule")

open Lean Elab Tactic Meta in
/-- One decomposition step of a goal `T m Q`, chosen by the head symbol of `m`. -/
elab "t_step" inl:("!")? : tactic => withMainContext do
  let g ← getMainGoal
  let tgt := (← instantiateMVars (← g.getType)).consumeMData
  let args := tgt.getAppArgs
  unless tgt.getAppFn.isConstOf ``Ink.C04.T && args.size == 3 do
    throwError "t_step: not a T goal"
  let m0 := args[1]!
  let m := m0.consumeMData.headBeta
  if m.isLet then
    -- a join point of the `do` notation (a local function into `M α`, called in tail position):
    -- prove it once, for all arguments, and keep the result as a hypothesis
    let ty := m.letType!
    let v := m.letValue!
    let b := m.letBody!
    let α := args[0]!
    let Q := args[2]!
    let isJp ← forallTelescope ty fun xs r => do
      if xs.size == 0 then return false
      unless r.isAppOfArity ``Ink.M 1 do return false
      isDefEq r.appArg! α
    if isJp && inl.isNone then
      let mkH (f : Expr) : MetaM Expr := forallTelescope ty fun xs _ => do
        mkForallFVars xs (mkAppN tgt.getAppFn #[α, (mkAppN f xs).headBeta, Q])
      let g1Ty ← mkH v
      let g2Ty ← withLocalDeclD m.letName! ty fun jp => do
        let h ← mkH jp
        mkForallFVars #[jp] (← mkArrow h (mkAppN tgt.getAppFn #[α, b.instantiate1 jp, Q]))
      let g1 ← mkFreshExprSyntheticOpaqueMVar g1Ty
      let g2 ← mkFreshExprSyntheticOpaqueMVar g2Ty
      g.assign (mkApp2 g2 v g1)
      let (_, g1') ← g1.mvarId!.intros
      let (_, g2') ← g2.mvarId!.introN 2
      replaceMainGoal [g1', g2']
      return
    let m' := (m.letBody!.instantiate1 m.letValue!).headBeta
    let g' ← g.change (mkAppN tgt.getAppFn (args.set! 1 m'))
    replaceMainGoal [g']
    return
  if m != m0 then
    let g' ← g.change (mkAppN tgt.getAppFn (args.set! 1 m))
    replaceMainGoal [g']
    return
  let run (t : TSyntax `tactic) : TacticM Unit := evalTactic t
  let headName (e : Expr) : Option Name := e.consumeMData.headBeta.getAppFn.constName?
  let lemmaFor (c : Name) : Name := `Ink.C04 ++ Name.mkSimple ("T_" ++ c.getString!)
  match headName m with
  | some ``Bind.bind =>
    let x := m.getAppArgs[4]!
    match headName x with
    | some ``Pure.pure => run (← `(tactic| refine T_bind_pure ?_))
    | some ``Ink.M.get => run (← `(tactic| (refine T_bind T_get ?_; intro s hs)))
    | some ``Ink.M.getSt => run (← `(tactic| (refine T_bind T_getSt ?_; intro st hst)))
    | some ``Ink.M.fail => run (← `(tactic| exact T_bind_fail))
    | some ``Ink.M.invalid => run (← `(tactic| exact T_bind_invalid))
    | some ``Ink.M.crash => run (← `(tactic| (refine T_bind_crash ?_; decide)))
    | some ``Ink.M.unwrap => run (← `(tactic| (refine T_bind (T_unwrap ?_) (fun a ha => ?_); first | t_unwrap | skip)))
    | some ``Ink.processChoice =>
      let pc := mkIdent `Ink.C04.T_processChoice
      run (← `(tactic| (refine T_bind $pc ?_; intro ch hch)))
    | _ => run (← `(tactic| refine T_bind (Q := fun _ => True) ?_ (fun _ _ => ?_)))
  | some ``Pure.pure => run (← `(tactic| first | exact T_pure trivial | (refine T_pure ?_; assumption)))
  | some ``panic => run (← `(tactic| exact T_of_false (popEvalMultiple_no_panic _ _ _ (by assumption))))
  | some ``ite => run (← `(tactic| apply T_ite))
  | some ``dite => run (← `(tactic| split))
  | some ``Ink.M.get => run (← `(tactic| exact T_true T_get))
  | some ``Ink.M.getSt => run (← `(tactic| exact T_true T_getSt))
  | some ``Ink.M.set => run (← `(tactic| (refine T_set ?_ trivial; t_wf)))
  | some ``Ink.M.setSt => run (← `(tactic| (refine T_setSt ?_ trivial; t_wf)))
  | some ``Ink.M.modify => run (← `(tactic| (refine T_modify (fun s hs => ?_) trivial; t_wf)))
  | some ``Ink.M.liftS => run (← `(tactic| (refine T_liftS (fun s s' hs heq => ?_) (fun s site hsite => ?_) trivial
                                            · t_wf
                                            · t_side)))
  | some ``Ink.M.lift => run (← `(tactic| (refine T_lift (fun site hsite => ?_); t_side)))
  | some ``Ink.M.fail => run (← `(tactic| exact T_fail))
  | some ``Ink.M.invalid => run (← `(tactic| exact T_invalid))
  | some ``Ink.M.crash => run (← `(tactic| (refine T_crash ?_; decide)))
  | some ``Ink.M.unwrap => run (← `(tactic| (refine T_true (T_unwrap ?_); t_unwrap)))
  | some c =>
    if (← isMatcher c) then run (← `(tactic| split))
    else
      let l := lemmaFor c
      if (← getEnv).contains l then
        let id := mkIdent l
        run (← `(tactic| first | exact $id | exact T_true $id))
      else run (← `(tactic| first | assumption | apply_assumption | (refine T_true ?_; assumption)))
  | none =>
    if m.getAppFn.isFVar then run (← `(tactic| first | assumption | (apply_assumption) | (refine T_true ?_; assumption)))
    else throwError "t_step: stuck at {m}"

/-! ### the functions of `Ink/Step.lean` -/

theorem T_visitContainer {env : Env} {a : Addr} {b : Bool} : T (visitContainer env a b) (fun _ => True) := by
  unfold Ink.visitContainer
  repeat' t_step

theorem T_loop_aux {env : Env} {prev : List Addr} (fuel : Nat) :
    ∀ (child : Addr) (b : Bool), T (visitChangedContainersDueToDivert.loop env prev fuel child b) (fun _ => True) := by
  induction fuel with
  | zero => intro child b; unfold visitChangedContainersDueToDivert.loop; repeat' t_step
  | succ fuel ih =>
    intro child b
    unfold visitChangedContainersDueToDivert.loop
    repeat' t_step

theorem T_loop {env : Env} {prev : List Addr} {fuel : Nat} {child : Addr} {b : Bool} :
    T (visitChangedContainersDueToDivert.loop env prev fuel child b) (fun _ => True) := T_loop_aux fuel child b

theorem T_visitChangedContainersDueToDivert {env : Env} :
    T (visitChangedContainersDueToDivert env) (fun _ => True) := by
  unfold Ink.visitChangedContainersDueToDivert
  repeat' t_step

theorem T_incrementContentPointer {env : Env} : T (incrementContentPointer env) (fun _ => True) := by
  unfold Ink.incrementContentPointer
  repeat' t_step

theorem T_nextSequenceShuffleIndex {env : Env} : T (nextSequenceShuffleIndex env) (fun _ => True) := by
  unfold Ink.nextSequenceShuffleIndex
  repeat' t_step

theorem T_choosePath {env : Env} {p : Path} {b : Bool} : T (choosePath env p b) (fun _ => True) := by
  unfold Ink.choosePath
  repeat' t_step

end PartC

section PartD

open M

theorem T_popArgs_aux {f : String} (k : Nat) :
    ∀ (acc : List Val), T (callExternalFunction.popArgs f k acc) (fun _ => True) := by
  induction k with
  | zero => intro acc; unfold callExternalFunction.popArgs; repeat' t_step
  | succ k ih =>
    intro acc
    unfold callExternalFunction.popArgs
    repeat' t_step

theorem T_popArgs {f : String} {k : Nat} {acc : List Val} :
    T (callExternalFunction.popArgs f k acc) (fun _ => True) := T_popArgs_aux k acc

theorem T_callExternalFunction {env : Env} {f : String} {k : Nat} :
    T (callExternalFunction env f k) (fun _ => True) := by
  unfold Ink.callExternalFunction
  repeat' t_step

theorem T_popTags_aux (k : Nat) :
    ∀ (tags : List String), T (popChoiceStringAndTags.popTags k tags) (fun _ => True) := by
  induction k with
  | zero => intro acc; unfold popChoiceStringAndTags.popTags; repeat' t_step
  | succ k ih =>
    intro acc
    unfold popChoiceStringAndTags.popTags
    repeat' t_step

theorem T_popTags {k : Nat} {tags : List String} :
    T (popChoiceStringAndTags.popTags k tags) (fun _ => True) := T_popTags_aux k tags

theorem T_popChoiceStringAndTags {tags : List String} : T (popChoiceStringAndTags tags) (fun _ => True) := by
  unfold Ink.popChoiceStringAndTags
  repeat' t_step

theorem choiceOptWF_none : ChoiceOptWF none := by intro c hc; cases hc

theorem choiceOptWF_some {c : Choice} {th : Thread} (h : c.thread = some th) (ht : th.callstack ≠ []) :
    ChoiceOptWF (some c) := by
  intro c' hc; cases hc; exact ⟨th, h, ht⟩

theorem forked_ne_nil {s : Core} {cs : CallStack} {th : Thread} (hs : CoreWF s)
    (h : s.callstack.forkThread = some (cs, th)) : th.callstack ≠ [] := (csWF_forkThread hs.1 h).2

theorem T_processChoice {env : Env} {a : Addr} {flags : Int} {p : Path} :
    T (processChoice env a flags p) ChoiceOptWF := by
  unfold Ink.processChoice
  repeat' t_step
  all_goals first
    | exact T_pure choiceOptWF_none
    | (refine T_pure (choiceOptWF_some rfl ?_); apply forked_ne_nil <;> assumption)

theorem T_plfc_divert {env : Env} {a : Addr} {d : DivertData} :
    T (performLogicAndFlowControl env a (.divert d)) (fun _ => True) := by
  unfold Ink.performLogicAndFlowControl
  simp only
  repeat' t_step

theorem T_plfc_cmd {env : Env} {a : Addr} {c : Cmd} :
    T (performLogicAndFlowControl env a (.cmd c)) (fun _ => True) := by
  unfold Ink.performLogicAndFlowControl
  simp only
  repeat' t_step

theorem T_plfc_native {env : Env} {a : Addr} {op : Op} :
    T (performLogicAndFlowControl env a (.native op)) (fun _ => True) := by
  unfold Ink.performLogicAndFlowControl
  simp only
  repeat' t_step

theorem T_performLogicAndFlowControl {env : Env} {a : Addr} {o : Obj} :
    T (performLogicAndFlowControl env a o) (fun _ => True) := by
  cases o
  case divert d => exact T_plfc_divert
  case cmd c => exact T_plfc_cmd
  case native op => exact T_plfc_native
  all_goals (unfold Ink.performLogicAndFlowControl; simp only; repeat' t_step)

theorem T_nextContent_aux {env : Env} (fuel : Nat) : T (nextContent env fuel) (fun _ => True) := by
  induction fuel with
  | zero => unfold Ink.nextContent; repeat' t_step
  | succ fuel ih =>
    unfold Ink.nextContent
    repeat' t_step

theorem T_nextContent {env : Env} {fuel : Nat} : T (nextContent env fuel) (fun _ => True) := T_nextContent_aux fuel

theorem T_descend_aux {env : Env} (fuel : Nat) : ∀ (p : Ptr), T (step.descend env fuel p) (fun _ => True) := by
  induction fuel with
  | zero => intro p; unfold step.descend; repeat' t_step
  | succ fuel ih =>
    intro p
    unfold step.descend
    repeat' t_step

theorem T_descend {env : Env} {fuel : Nat} {p : Ptr} : T (step.descend env fuel p) (fun _ => True) := T_descend_aux fuel p

theorem T_step {env : Env} : T (step env) (fun _ => True) := by
  unfold Ink.step
  repeat' t_step

end PartD

section PartE

open M

theorem choice_of_head {s : Core} {choice : Choice} (hs : CoreWF s)
    (h : (List.filter (fun c => c.isInvisibleDefault) s.flow.choices).head? = some choice) : ChoiceWF choice :=
  hs.2 _ (List.mem_filter.mp (List.mem_of_head? h)).1

theorem thread_of_choice {c : Choice} {th : Thread} (hc : ChoiceWF c) (h : c.thread = some th) :
    th.callstack ≠ [] := by
  obtain ⟨t, ht, hne⟩ := hc
  rw [ht] at h; cases h; exact hne

theorem thread_isSome_of_choice {c : Choice} (hc : ChoiceWF c) : c.thread.isSome = true := by
  obtain ⟨t, ht, _⟩ := hc
  rw [ht]; rfl

theorem forked_of_setCurrentThread {s : Core} {th forked : Thread} {cs : CallStack} (hth : th.callstack ≠ [])
    (h : (s.mapCallstack fun cs => cs.setCurrentThread th).callstack.forkThread = some (cs, forked)) :
    forked.callstack ≠ [] :=
  (csWF_forkThread (cs := s.callstack.setCurrentThread th) (csWF_setCurrentThread hth) h).2

theorem fork_of_setCurrentThread_ne_none {s : Core} {th : Thread} (hth : th.callstack ≠ [])
    (h : (s.mapCallstack fun cs => cs.setCurrentThread th).callstack.forkThread = none) : False := by
  have := forkThread_isSome_of_wf (cs := s.callstack.setCurrentThread th) (csWF_setCurrentThread hth)
  have h' : (s.callstack.setCurrentThread th).forkThread = none := h
  rw [h'] at this; cases this

/-- `try_follow_default_invisible_choice`: the thread of the default choice becomes the current
    thread — this is where the invariant needs the threads of the pending choices. -/
theorem T_tryFollowDefaultInvisibleChoice {env : Env} : T (tryFollowDefaultInvisibleChoice env) (fun _ => True) := by
  unfold Ink.tryFollowDefaultInvisibleChoice
  repeat' t_step !
  all_goals first
    | exact Or.inr (thread_isSome_of_choice (choice_of_head (by assumption) (by assumption)))
    | exact thread_of_choice (choice_of_head (by assumption) (by assumption)) (by assumption)
    | exact forked_of_setCurrentThread
        (thread_of_choice (choice_of_head (by assumption) (by assumption)) (by assumption)) (by assumption)
    | exact T_of_false (fork_of_setCurrentThread_ne_none
        (thread_of_choice (choice_of_head (by assumption) (by assumption)) (by assumption)) (by assumption))
    | fail "tryFollow: leftover"

/-! ### 4./5. The step keeps the invariant and does not hit the call-stack sites -/

/-- **step_preserves_wf.** -/
theorem step_preserves_wf (env : Env) (st : St) (h : StWF st) : StWF (step env st).2 :=
  (T_step st h).1

theorem tryFollowDefaultInvisibleChoice_preserves_wf (env : Env) (st : St) (h : StWF st) :
    StWF (tryFollowDefaultInvisibleChoice env st).2 :=
  (T_tryFollowDefaultInvisibleChoice st h).1

theorem choosePath_preserves_wf (env : Env) (p : Path) (b : Bool) (st : St) (h : StWF st) :
    StWF (choosePath env p b st).2 :=
  (T_choosePath st h).1

/-- The sites left for a step from a well-formed state: those of `stepSites` without the two
    call-stack sites. -/
def stepSitesWF : List String :=
  [ "object.rs:get_path",
    "progress.rs:increment_content_pointer", "story/mod.rs:shuffle_container",
    "control_logic.rs:visit_index_container",
    "object.rs:resolve_path",
    "divert.rs:get_target_path_string" ]

theorem mem_stepSitesWF {site : String} (h1 : site ∈ continueSites) (h2 : site ∉ badSites) : site ∈ stepSitesWF := by
  simp only [continueSites, stepSites, List.cons_append, List.nil_append, List.mem_cons,
    List.not_mem_nil, or_false] at h1
  rcases h1 with rfl | rfl | rfl | rfl | rfl | rfl | rfl | rfl | rfl
  all_goals first | decide | exact absurd (by decide) h2

/-- `m` run from a state satisfying `I` ends in `panic` only with a site of `S`. -/
def NPI (I : St → Prop) (S : List String) {α : Type} (m : M α) : Prop :=
  ∀ (st : St) (site : String) (st' : St), I st → m st = (.panic site, st') → site ∈ S

theorem NPI_of_T {α : Type} {m : M α} {Q : α → Prop} (hT : T m Q) (hN : NP continueSites m) :
    NPI StWF stepSitesWF m := by
  intro st site st' hI h
  refine mem_stepSitesWF (hN st site st' h) ?_
  have := (hT st hI).2.2 site
  rw [h] at this
  exact this rfl

theorem NPI_step {env : Env} : NPI StWF stepSitesWF (step env) :=
  NPI_of_T T_step (NP_mono stepSites_sub_continueSites NP_step)

theorem NPI_tryFollowDefaultInvisibleChoice {env : Env} :
    NPI StWF stepSitesWF (tryFollowDefaultInvisibleChoice env) :=
  NPI_of_T T_tryFollowDefaultInvisibleChoice NP_tryFollowDefaultInvisibleChoice

/-- **step_panic_sites_wf.**  From a well-formed state the step can panic with six sites only. -/
theorem step_panic_sites_wf (env : Env) (st : St) (h : StWF st) (site : String) (st' : St)
    (hp : step env st = (.panic site, st')) : site ∈ stepSitesWF := NPI_step st site st' h hp

/-- **step_no_callstack_panic.** -/
theorem step_no_callstack_panic (env : Env) (st : St) (h : StWF st) (st' : St) :
    step env st ≠ (.panic "callstack.rs:push", st') ∧ step env st ≠ (.panic "callstack.rs:fork_thread", st') := by
  constructor
  · intro hp
    exact absurd (step_panic_sites_wf env st h _ _ hp) (by decide)
  · intro hp
    exact absurd (step_panic_sites_wf env st h _ _ hp) (by decide)

/-- The default invisible choice of a well-formed state has a thread, and forking it succeeds. -/
theorem tryFollowDefaultInvisibleChoice_no_callstack_panic (env : Env) (st : St) (h : StWF st) (st' : St) :
    tryFollowDefaultInvisibleChoice env st ≠ (.panic "choices.rs:thread_at_generation", st')
    ∧ tryFollowDefaultInvisibleChoice env st ≠ (.panic "callstack.rs:fork_thread", st')
    ∧ tryFollowDefaultInvisibleChoice env st ≠ (.panic "callstack.rs:push", st') := by
  refine ⟨?_, ?_, ?_⟩ <;>
  · intro hp
    exact absurd (NPI_tryFollowDefaultInvisibleChoice st _ _ h hp) (by decide)

end PartE

section PartF

open M Story

/-! ### 6. The public operations keep the invariant of the whole story -/

/-- `b` is well formed if `a` is. -/
def W (a b : Story) : Prop := StoryWF a → StoryWF b

theorem W.refl (a : Story) : W a a := fun h => h
theorem W.trans {a b c : Story} (h1 : W a b) (h2 : W b c) : W a c := fun h => h2 (h1 h)

theorem W_same {a b : Story} (h1 : StateWF a.state → StateWF b.state) (h2 : b.snapshot = a.snapshot) : W a b := by
  intro h
  refine ⟨h1 h.1, ?_⟩
  rw [h2]; exact h.2

theorem stateWF_core {ss : StoryState} {c : Core} {w : List String} {p : Bool} (h : StateWF ss) (hc : CoreWF c) :
    StateWF { ss with core := c, warnings := w, patching := p } := ⟨hc, h.2⟩

theorem stateWF_patching {ss : StoryState} {p : Bool} (h : StateWF ss) : StateWF { ss with patching := p } := h

theorem T_forM {α : Type} (f : α → M Unit) (hf : ∀ a, T (f a) (fun _ => True)) (l : List α) :
    T (l.forM f) (fun _ => True) := by
  induction l with
  | nil => exact T_pure trivial
  | cons a as ih => exact T_bind (hf a) (fun _ _ => ih)

theorem T_no_bad {α : Type} {m : M α} {Q : α → Prop} (hT : T m Q) {st st' : St} {site : String}
    (hp : m st = (.panic site, st')) (h : StWF st) : site ∉ badSites := by
  have := (hT st h).2.2 site
  rw [hp] at this
  exact this rfl

theorem runM_W {α : Type} {Q : α → Prop} (st : Story) (m : M α) (hm : T m Q) : W st (st.runM m).2 := by
  refine W_same ?_ (runM_snapshot st m)
  intro h
  unfold Story.runM
  exact ⟨(hm { s := st.state.core, externals := st.externals, events := st.events,
               sawUnsafe := st.sawUnsafe, newWarnings := [] } h.1).1, h.2⟩

theorem restoreSnapshot_W (st : Story) : W st st.restoreSnapshot := by
  intro h
  unfold Story.restoreSnapshot
  split
  · rename_i snap hsn
    exact ⟨h.2 snap hsn, fun x hx => by cases hx⟩
  · exact h

theorem discardSnapshot_W (st : Story) : W st st.discardSnapshot := by
  intro h
  exact ⟨h.1, fun x hx => by cases hx⟩

theorem stateSnapshot_W (st : Story) : W st st.stateSnapshot := by
  intro h
  refine ⟨h.1, ?_⟩
  intro x hx
  unfold Story.stateSnapshot at hx
  simp only [Option.some.injEq] at hx
  rw [← hx]; exact h.1

theorem addError_W (st : Story) (m : String) (w : Bool) : W st (st.addError m w) := by
  refine W_same ?_ (addError_snapshot st m w)
  intro h
  unfold Story.addError
  split
  · exact ⟨h.1, h.2⟩
  · exact ⟨coreWF_addErrorCore, h.2⟩

/-- **continueSingleStep_preserves_wf.** -/
theorem continueSingleStep_W (st : Story) : W st (st.continueSingleStep).2 := by
  unfold Story.continueSingleStep
  have h1 := runM_W st (step st.env) T_step
  have hdef : ∀ s : Story, W s (s.runM (tryFollowDefaultInvisibleChoice s.env)).2 :=
    fun s => runM_W s _ T_tryFollowDefaultInvisibleChoice
  split
  · rename_i heq; rw [heq] at h1; exact h1
  · rename_i heq; rw [heq] at h1; exact h1
  · rename_i st1 heq
    have h1' : W st st1 := by rw [heq] at h1; exact h1
    simp only
    split
    · rename_i k m st2 heq2
      split at heq2
      · have := hdef st1
        rw [heq2] at this; exact h1'.trans this
      · cases heq2
    · rename_i p st2 heq2
      split at heq2
      · have := hdef st1
        rw [heq2] at this; exact h1'.trans this
      · cases heq2
    · rename_i st2 heq2
      have h2 : W st st2 := by
        split at heq2
        · have := hdef st1
          rw [heq2] at this; exact h1'.trans this
        · cases heq2; exact h1'
      split
      · exact h2
      · split
        · rename_i hnone
          exact h2.trans (restoreSnapshot_W st2)
        · rename_i st3 hsome
          have h3 : W st st3 := by
            split at hsome
            · split at hsome
              · cases hsome
              · split at hsome
                · cases hsome; exact h2.trans (discardSnapshot_W st2)
                · cases hsome; exact h2
            · cases hsome; exact h2
          split
          · split
            · split
              · exact h3.trans (stateSnapshot_W st3)
              · exact h3
            · exact h3.trans (discardSnapshot_W st3)
          · exact h3

theorem continueSingleStep_preserves_wf (st : Story) (h : StoryWF st) : StoryWF st.continueSingleStep.2 :=
  continueSingleStep_W st h

theorem stepLoop_W (b : Option Nat) (fuel steps : Nat) (st : Story) : W st (stepLoop b fuel steps st).2 := by
  induction fuel generalizing steps st with
  | zero => unfold stepLoop; exact W.refl st
  | succ fuel ih =>
    unfold stepLoop
    simp only
    have hf : W st { st with fuel := st.fuel.map (· - 1) } := fun h => h
    have hcs := hf.trans (continueSingleStep_W { st with fuel := st.fuel.map (· - 1) })
    split
    · exact addError_W st _ _
    · split
      · rename_i p st1 heq
        rw [heq] at hcs; exact hcs
      · rename_i k m st1 heq
        rw [heq] at hcs; exact hcs.trans (addError_W st1 _ _)
      · rename_i st1 heq
        rw [heq] at hcs; exact hcs
      · rename_i st1 heq
        rw [heq] at hcs
        cases b with
        | none =>
          simp only [Bool.false_eq_true, if_false]
          split
          · exact hcs
          · exact hcs.trans (ih _ _)
        | some n =>
          simp only
          split
          · exact hcs
          · split
            · exact hcs
            · exact hcs.trans (ih _ _)

theorem beginContinue_W (st : Story) (b : Bool) : W st (st.beginContinue b) := by
  intro h
  unfold Story.beginContinue
  simp only
  repeat' split
  all_goals exact ⟨⟨h.1.1, h.1.2⟩, h.2⟩

theorem endChecks_W (st : Story) : W st st.endChecks := by
  unfold Story.endChecks
  simp only
  have key : ∀ (s : Story) (m : String), W s (s.addError m false) := fun s m => addError_W s m false
  split
  · split
    · split
      · exact (key _ _).trans (key _ _)
      · split
        · exact (key _ _).trans (key _ _)
        · split
          · exact (key _ _).trans (key _ _)
          · exact (key _ _).trans (key _ _)
    · exact key _ _
  · split
    · split
      · exact key _ _
      · split
        · exact key _ _
        · split
          · exact key _ _
          · exact key _ _
    · exact W.refl _

theorem prepareFinish_W (st : Story) : W st st.prepareFinish := by
  unfold Story.prepareFinish
  simp only
  have h2 : W st (if st.snapshot.isSome then st.restoreSnapshot else st) := by
    split
    · exact restoreSnapshot_W st
    · exact W.refl _
  have h3 : ∀ s : Story, W s (if !s.canContinue then s.endChecks else s) := by
    intro s
    split
    · exact endChecks_W s
    · exact W.refl _
  refine (h2.trans (h3 _)).trans ?_
  intro h
  exact ⟨⟨h.1.1, h.1.2⟩, h.2⟩

theorem closeObservation_W (st st' : Story) (changed : List (String × Val))
    (h : st.closeObservation = some (st', changed)) : W st st' := by
  unfold Story.closeObservation at h
  split at h
  · simp only at h
    split at h
    · simp only [Option.some.injEq, Prod.mk.injEq] at h
      rw [← h.1]
      intro hw
      exact ⟨⟨hw.1.1, hw.1.2⟩, hw.2⟩
    · cases h
  · simp only [Option.some.injEq, Prod.mk.injEq] at h
    rw [← h.1]
    intro hw; exact hw

theorem finishContinue_W (st st' : Story) (changed : List (String × Val))
    (h : st.finishContinue = some (st', changed)) : W st st' :=
  (prepareFinish_W st).trans (closeObservation_W _ _ _ h)

theorem deliver_W (st : Story) : W st st.deliver.2 := by
  unfold Story.deliver
  split
  · split
    · simp only
      intro hi
      refine ⟨⟨hi.1.1, hi.1.2⟩, ?_⟩
      intro sn hsn
      simp only [Option.map_eq_some_iff] at hsn
      obtain ⟨sn0, h0, h1⟩ := hsn
      rw [← h1]
      have := hi.2 sn0 h0
      exact ⟨this.1, this.2⟩
    · split
      · exact W.refl _
      · exact W.refl _
  · exact W.refl _

theorem notify_W (st : Story) (changed : List (String × Val)) : W st (st.notify changed) := fun h => h

theorem continueInternal_W (st : Story) (b : Option Nat) (f : Nat) : W st (st.continueInternal b f).2 := by
  unfold Story.continueInternal
  split
  · exact W.refl _
  · simp only
    have h0 := beginContinue_W st b.isSome
    have hl := stepLoop_W (if (st.beginContinue b.isSome).asyncActive then b else none) f 0
      (st.beginContinue b.isSome)
    split
    · rename_i heq; rw [heq] at hl; exact h0.trans hl
    · rename_i heq; rw [heq] at hl; exact h0.trans hl
    · rename_i heq; rw [heq] at hl; exact h0.trans hl
    · rename_i why st1 _ heq
      rw [heq] at hl
      have h1 := h0.trans hl
      split
      · exact h1
      · rename_i st5 changed hfin
        have h5 : W st1 st5 := by
          split at hfin
          · exact finishContinue_W _ _ _ hfin
          · cases hfin; exact W.refl _
        have h6 : W st5 { st5 with recCount := st5.recCount - 1 } := fun h => h
        have h7 := deliver_W { st5 with recCount := st5.recCount - 1 }
        have h17 := ((h1.trans h5).trans h6).trans h7
        split
        · rename_i st7 hd
          rw [hd] at h17
          exact h17.trans (notify_W _ _)
        · exact h17

theorem validateExternalBindings_W (st : Story) : W st st.validateExternalBindings.2 := by
  unfold Story.validateExternalBindings
  simp only
  split
  · exact W.refl _
  · split
    · exact fun h => h
    · exact W.refl _

theorem continueAsync_W (st : Story) (b : Option Nat) : W st (st.continueAsync b).2 := by
  unfold Story.continueAsync
  have hv : W st (if !st.validated then st.validateExternalBindings else (.ok (), st)).2 := by
    split
    · exact validateExternalBindings_W st
    · exact W.refl _
  generalize (if !st.validated then st.validateExternalBindings else (Out.ok (), st)) = p at hv ⊢
  obtain ⟨v, st1⟩ := p
  simp only at hv ⊢
  split
  · exact hv.trans (continueInternal_W st1 b callFuel)
  · exact hv

theorem cont_W (st : Story) : W st st.cont.2 := by
  unfold Story.cont
  have h := continueAsync_W st none
  split <;> (rename_i heq; rw [heq] at h; exact h)

/-- **cont_preserves_wf.** -/
theorem cont_preserves_wf (st : Story) (h : StoryWF st) : StoryWF st.cont.2 := cont_W st h

theorem continueAsync_preserves_wf (st : Story) (b : Option Nat) (h : StoryWF st) : StoryWF (st.continueAsync b).2 :=
  continueAsync_W st b h

theorem continueMaximally_loop_W (fuel : Nat) (st : Story) (acc : String) :
    W st (continueMaximally.loop fuel st acc).2 := by
  induction fuel generalizing st acc with
  | zero => unfold continueMaximally.loop; exact W.refl _
  | succ fuel ih =>
    unfold continueMaximally.loop
    split
    · have h := cont_W st
      split
      · rename_i t st1 heq
        rw [heq] at h
        exact h.trans (ih _ _)
      · exact h
    · exact W.refl _

theorem continueMaximally_W (st : Story) : W st st.continueMaximally.2 := by
  unfold Story.continueMaximally
  split
  · exact W.refl _
  · exact W.refl _
  · exact continueMaximally_loop_W _ _ _

/-- **continueMaximally_preserves_wf.** -/
theorem continueMaximally_preserves_wf (st : Story) (h : StoryWF st) : StoryWF st.continueMaximally.2 :=
  continueMaximally_W st h

theorem renumber_wf (l : List Choice) (n : Nat) (h : ChoicesWF l) : ChoicesWF (currentChoices.renumber l n) := by
  induction l generalizing n with
  | nil => unfold currentChoices.renumber; exact choicesWF_nil
  | cons c rest ih =>
    have hc : ChoiceWF c := h c (List.mem_cons_self ..)
    have hr : ChoicesWF rest := fun x hx => h x (List.mem_cons_of_mem _ hx)
    unfold currentChoices.renumber
    split
    · intro x hx
      rcases List.mem_cons.mp hx with rfl | hx
      · exact hc
      · exact ih _ hr x hx
    · intro x hx
      rcases List.mem_cons.mp hx with rfl | hx
      · exact hc
      · exact ih _ hr x hx

/-- `get_current_choices` keeps the invariant, and the choices it shows are well formed. -/
theorem currentChoices_W (st : Story) : W st st.currentChoices.2 ∧ (StoryWF st → ChoicesWF st.currentChoices.1) := by
  unfold Story.currentChoices
  split
  · exact ⟨W.refl _, fun _ => choicesWF_nil⟩
  · refine ⟨?_, ?_⟩
    · intro h
      exact ⟨⟨⟨h.1.1.1, renumber_wf _ _ h.1.1.2⟩, h.1.2⟩, h.2⟩
    · intro h x hx
      exact renumber_wf _ 0 h.1.1.2 x (List.mem_filter.mp hx).1

theorem setCurrentThread_W (st : Story) (th : Thread) (hth : th.callstack ≠ []) :
    W st (st.mapCore (fun c => c.mapCallstack (fun cs => cs.setCurrentThread th))) := by
  intro h
  exact ⟨⟨⟨csWF_setCurrentThread hth, h.1.1.2⟩, h.1.2⟩, h.2⟩

theorem chooseChoiceIndex_W (st : Story) (i : Nat) : W st (st.chooseChoiceIndex i).2 := by
  unfold Story.chooseChoiceIndex
  split
  · exact W.refl _
  · exact W.refl _
  · obtain ⟨hc, hch⟩ := currentChoices_W st
    generalize st.currentChoices = p at hc hch ⊢
    obtain ⟨choices, st1⟩ := p
    simp only at hc hch ⊢
    split
    · exact hc
    · rename_i c hget
      split
      · exact hc
      · rename_i th hth
        intro hwf
        have hcw : ChoiceWF c := hch hwf c (List.mem_of_getElem? hget)
        exact ((hc.trans (setCurrentThread_W st1 th (thread_of_choice hcw hth))).trans
          (runM_W _ _ T_choosePath)) hwf

/-- **chooseChoiceIndex_preserves_wf.** -/
theorem chooseChoiceIndex_preserves_wf (st : Story) (i : Nat) (h : StoryWF st) : StoryWF (st.chooseChoiceIndex i).2 :=
  chooseChoiceIndex_W st i h

/-- Choosing a choice of a well-formed story never hits `choices.rs:thread_at_generation`. -/
theorem chooseChoiceIndex_no_thread_panic (st : Story) (i : Nat) (h : StoryWF st) (st' : Story) :
    st.chooseChoiceIndex i ≠ (.panic "choices.rs:thread_at_generation", st') := by
  unfold Story.chooseChoiceIndex
  split
  · intro hh; cases hh
  · rename_i p heq
    unfold Story.ifAsyncWeCant at heq
    split at heq <;> cases heq
  · obtain ⟨hc, hch⟩ := currentChoices_W st
    generalize st.currentChoices = p at hc hch ⊢
    obtain ⟨choices, st1⟩ := p
    simp only at hc hch ⊢
    split
    · intro hh; cases hh
    · rename_i c hget
      have hcw : ChoiceWF c := hch h c (List.mem_of_getElem? hget)
      split
      · rename_i hnone
        obtain ⟨t, ht, _⟩ := hcw
        rw [ht] at hnone; cases hnone
      · rename_i th hth
        intro hp
        obtain ⟨st'', hst''⟩ := runM_panic _ _ _ _ hp
        have hst2 : StoryWF (st1.mapCore (fun c => c.mapCallstack (fun cs => cs.setCurrentThread th))) :=
          (hc.trans (setCurrentThread_W st1 th (thread_of_choice hcw hth))) h
        exact T_no_bad T_choosePath hst'' hst2.1.1 (by decide)

theorem passArguments_W (st : Story) (args : List Val) : W st (st.passArguments args).2 := by
  unfold Story.passArguments
  exact runM_W _ _ (T_forM _ (fun a => T_pushEvalM) _)

theorem forceEnd_W (st : Story) : W st (st.mapCore Core.forceEnd) := by
  intro h
  exact ⟨⟨coreWF_forceEnd' _, h.1.2⟩, h.2⟩

theorem choosePathString_W (st : Story) (path : String) (reset : Bool) (args : List (Option Val)) :
    W st (st.choosePathString path reset args).2 := by
  unfold Story.choosePathString
  split
  · exact W.refl _
  · exact W.refl _
  · split
    · exact W.refl _
    · exact W.refl _
    · simp only
      split
      · exact W.refl _
      · exact W.refl _
      · rename_i argv _ _ _ _
        have hpre : W st
            (if reset then ((.ok () : Out Unit), st.mapCore Core.forceEnd)
             else match st.core.callstack.currentElement with
              | some e =>
                if e.kind == .function then
                  (.invalid ("Story was running a function when you called ChoosePathString(" ++ path
                    ++ ") - this is almost certainly not what you want!"), st)
                else (.ok (), st)
              | none => (.panic "callstack.rs:get_current_element", st)).2 := by
          split
          · exact forceEnd_W st
          · split
            · split
              · exact W.refl _
              · exact W.refl _
            · exact W.refl _
        generalize (if reset then ((.ok () : Out Unit), st.mapCore Core.forceEnd)
             else match st.core.callstack.currentElement with
              | some e =>
                if e.kind == .function then
                  (.invalid ("Story was running a function when you called ChoosePathString(" ++ path
                    ++ ") - this is almost certainly not what you want!"), st)
                else (.ok (), st)
              | none => (.panic "callstack.rs:get_current_element", st)) = p at hpre ⊢
        obtain ⟨v, st1⟩ := p
        simp only at hpre ⊢
        split
        · rename_i st1' heq1
          cases heq1
          have h2 := passArguments_W st1 argv
          split
          · rename_i st2 heq
            rw [heq] at h2
            exact (hpre.trans h2).trans (runM_W _ _ T_choosePath)
          · exact hpre.trans h2
        · exact hpre

/-- **choosePathString_preserves_wf.** -/
theorem choosePathString_preserves_wf (st : Story) (path : String) (reset : Bool) (args : List (Option Val))
    (h : StoryWF st) : StoryWF (st.choosePathString path reset args).2 :=
  choosePathString_W st path reset args h

end PartF

section PartG

open M Story

/-! ### flows -/

def FlowsWF (nf : List (String × Flow)) : Prop := ∀ kv ∈ nf, FlowWF kv.2

theorem flowsWF_nil : FlowsWF [] := by intro kv h; cases h

theorem flowsWF_alSet {nf : List (String × Flow)} {k : String} {f : Flow} (h : FlowsWF nf) (hf : FlowWF f) :
    FlowsWF (alSet nf k f) := by
  induction nf with
  | nil =>
    intro kv hkv
    simp only [alSet, List.mem_singleton] at hkv
    subst hkv; exact hf
  | cons x rest ih =>
    obtain ⟨k', v'⟩ := x
    have hrest : FlowsWF rest := fun kv hkv => h kv (List.mem_cons_of_mem _ hkv)
    unfold alSet
    split
    · intro kv hkv
      rcases List.mem_cons.mp hkv with rfl | hkv
      · exact hf
      · exact hrest kv hkv
    · intro kv hkv
      rcases List.mem_cons.mp hkv with rfl | hkv
      · exact h _ (List.mem_cons_self ..)
      · exact ih hrest kv hkv

theorem flowsWF_alRemove {nf : List (String × Flow)} {k : String} (h : FlowsWF nf) : FlowsWF (alRemove nf k) := by
  intro kv hkv
  unfold alRemove at hkv
  exact h kv (List.mem_filter.mp hkv).1

theorem flowWF_of_alGet {nf : List (String × Flow)} {k : String} {f : Flow} (h : FlowsWF nf)
    (hg : alGet nf k = some f) : FlowWF f := by
  unfold alGet at hg
  simp only [Option.map_eq_some_iff] at hg
  obtain ⟨kv, hkv, rfl⟩ := hg
  exact h kv (List.mem_of_find?_eq_some hkv)

theorem flowWF_fresh (name : String) : FlowWF (freshFlow name) := ⟨csWF_fresh, choicesWF_nil⟩

theorem stateWF_fresh (seed : Int) : StateWF (StoryState.fresh seed) :=
  ⟨⟨csWF_fresh, choicesWF_nil⟩, fun nf h => by cases h⟩

theorem StateWF.flows {ss : StoryState} (h : StateWF ss) : FlowsWF (ss.namedFlows.getD []) := by
  cases hn : ss.namedFlows with
  | none => exact flowsWF_nil
  | some nf => exact h.2 nf hn

theorem switchFlowInternal_wf (s : StoryState) (name : String) (h : StateWF s) :
    StateWF (switchFlowInternal s name) := by
  unfold switchFlowInternal
  split
  · exact h
  · simp only
    refine ⟨?_, ?_⟩
    · show FlowWF ((alGet (s.namedFlows.getD []) name).getD (freshFlow name))
      cases hg : alGet (s.namedFlows.getD []) name with
      | none => exact flowWF_fresh name
      | some f => exact flowWF_of_alGet h.flows hg
    · intro nf hnf
      simp only [Option.some.injEq] at hnf
      subst hnf
      exact flowsWF_alSet (flowsWF_alRemove h.flows) h.1

theorem switchToDefaultFlowInternal_wf (s : StoryState) (h : StateWF s) :
    StateWF (switchToDefaultFlowInternal s) := by
  unfold switchToDefaultFlowInternal
  split
  · exact switchFlowInternal_wf s _ h
  · exact h

theorem switchFlow_W (st : Story) (name : String) : W st (st.switchFlow name).2 := by
  unfold Story.switchFlow
  split
  · exact W_same (fun h => switchFlowInternal_wf _ _ h) rfl
  · exact W.refl _
  · exact W.refl _

/-- **switchFlow_preserves_wf.** -/
theorem switchFlow_preserves_wf (st : Story) (name : String) (h : StoryWF st) : StoryWF (st.switchFlow name).2 :=
  switchFlow_W st name h

theorem switchToDefaultFlow_W (st : Story) : W st st.switchToDefaultFlow := by
  unfold Story.switchToDefaultFlow
  split
  · exact W.refl _
  · exact W_same (fun h => switchToDefaultFlowInternal_wf _ h) rfl

theorem removeFlow_W (st : Story) (name : String) : W st (st.removeFlow name).2 := by
  unfold Story.removeFlow
  split
  · exact W.refl _
  · exact W.refl _
  · split
    · exact W.refl _
    · simp only
      refine W_same ?_ rfl
      intro h
      have h1 : StateWF (if st.core.flow.name == name then switchToDefaultFlowInternal st.state else st.state) := by
        split
        · exact switchToDefaultFlowInternal_wf _ h
        · exact h
      refine ⟨h1.1, ?_⟩
      intro nf hnf
      simp only [Option.map_eq_some_iff] at hnf
      obtain ⟨nf0, h0, rfl⟩ := hnf
      exact flowsWF_alRemove (h1.2 nf0 h0)

/-- **removeFlow_preserves_wf.** -/
theorem removeFlow_preserves_wf (st : Story) (name : String) (h : StoryWF st) : StoryWF (st.removeFlow name).2 :=
  removeFlow_W st name h

/-! ### reset and construction -/

theorem mapCore_W (st : Story) (f : Core → Core) (hf : ∀ c, CoreWF c → CoreWF (f c)) : W st (st.mapCore f) := by
  intro h
  exact ⟨⟨hf _ h.1.1, h.1.2⟩, h.2⟩

theorem resetGlobals_W (st : Story) : W st st.resetGlobals.2 := by
  unfold Story.resetGlobals
  have hr : W st (if (st.root.lookupName "global decl").isSome then
      (match st.runM (choosePath st.env (Path.parse "global decl".toList) false) with
      | (.ok (), st1) =>
        (match st1.continueInternal none callFuel with
        | (.ok (), st2) => ((.ok () : Out Unit), st2.mapCore (fun c => c.setCurrentPtr st.core.currentPtr))
        | other => other)
      | other => other)
    else (.ok (), st)).2 := by
    split
    · have h1 := runM_W st (choosePath st.env (Path.parse "global decl".toList) false) T_choosePath
      split
      · rename_i st1 heq
        rw [heq] at h1
        have h2 := continueInternal_W st1 none callFuel
        split
        · rename_i st2 heq2
          rw [heq2] at h2
          exact (h1.trans h2).trans (mapCore_W _ _ (fun c hc => coreWF_setCurrentPtr hc))
        · exact h1.trans h2
      · exact h1
    · exact W.refl _
  simp only
  generalize (if (st.root.lookupName "global decl").isSome then
      (match st.runM (choosePath st.env (Path.parse "global decl".toList) false) with
      | (.ok (), st1) =>
        (match st1.continueInternal none callFuel with
        | (.ok (), st2) => ((.ok () : Out Unit), st2.mapCore (fun c => c.setCurrentPtr st.core.currentPtr))
        | other => other)
      | other => other)
    else (.ok (), st)) = p at hr ⊢
  obtain ⟨v, st1⟩ := p
  simp only at hr ⊢
  split
  · rename_i st1' heq
    cases heq
    exact hr.trans (mapCore_W _ _ (fun c hc => hc))
  · exact hr

theorem resetState_W (st : Story) (seed : Int) : W st (st.resetState seed).2 := by
  unfold Story.resetState
  split
  · exact W.refl _
  · exact W.refl _
  · have h0 : W st { st with state := StoryState.fresh seed } := fun h => ⟨stateWF_fresh seed, h.2⟩
    exact h0.trans (resetGlobals_W _)

/-- **resetState_preserves_wf.** -/
theorem resetState_preserves_wf (st : Story) (seed : Int) (h : StoryWF st) : StoryWF (st.resetState seed).2 :=
  resetState_W st seed h

/-- the story `Story.create` starts from -/
def newBlank (ld : Load.Loaded) (seed : Int) : Story :=
  { root := ld.root, defs := ld.listDefs, state := StoryState.fresh seed, snapshot := none,
    recCount := 0, asyncActive := false, sawUnsafe := false, validated := false,
    allowFallbacks := false, handler := false, observers := [], externals := [], events := [],
    lines := 0, fuel := none, stepClock := false }

theorem newBlank_wf (ld : Load.Loaded) (seed : Int) : StoryWF (newBlank ld seed) :=
  ⟨stateWF_fresh seed, fun sn hsn => by cases hsn⟩

/-- **new_wf.**  The constructor of `Ink/Api.lean` is `Story.create`. -/
theorem new_wf (ld : Load.Loaded) (seed : Int) (st : Story) (h : Story.create ld seed = .ok st) : StoryWF st := by
  unfold Story.create at h
  simp only at h
  have h1 := resetGlobals_W _ (newBlank_wf ld seed)
  split at h
  · rename_i st1 heq
    have heq' : (newBlank ld seed).resetGlobals = (.ok (), st1) := heq
    rw [heq'] at h1
    simp only [Out.ok.injEq] at h
    rw [← h]
    split
    · exact addError_W _ _ _ h1
    · exact h1
  · cases h
  · cases h

/-! ### `evaluate_function` -/

theorem evalLoop_W (fuel : Nat) (st : Story) (acc : String) : W st (evalLoop fuel st acc).2 := by
  induction fuel generalizing st acc with
  | zero => unfold evalLoop; exact W.refl _
  | succ fuel ih =>
    unfold evalLoop
    split
    · have h := cont_W st
      split
      · rename_i t st1 heq
        rw [heq] at h
        exact h.trans (ih _ _)
      · exact h
    · exact W.refl _

theorem setCore_W (st : Story) (c : Core) (hc : StoryWF st → CoreWF c) : W st (st.setCore c) := by
  intro h
  exact ⟨⟨hc h, h.1.2⟩, h.2⟩

theorem completeFunctionEvaluation_W (st : Story) (ob : List Obj) (pb : Ptr) (text : String) :
    W st (st.completeFunctionEvaluation ob pb text).2 := by
  unfold Story.completeFunctionEvaluation
  simp only
  have h3 : StoryWF st → CoreWF ((st.core.resetOutput (some ob)).setPrevPtr pb) :=
    fun h => coreWF_setPrevPtr (coreWF_resetOutput h.1.1)
  split
  · exact W.refl _
  · split
    · exact setCore_W _ _ h3
    · split
      · exact setCore_W _ _ (fun h => h3 h)
      · exact setCore_W _ _ (fun h => h3 h)
      · rename_i cs' heq
        refine setCore_W _ _ (fun h => ?_)
        exact ⟨csWF_pop (h3 h).1 heq, (h3 h).2⟩

theorem evaluateFunction_W (st : Story) (name : String) (args : List (Option Val)) :
    W st (st.evaluateFunction name args).2 := by
  unfold Story.evaluateFunction
  split
  · exact W.refl _
  · exact W.refl _
  · split
    · exact W.refl _
    · split
      · exact W.refl _
      · split
        · exact W.refl _
        · exact W.refl _
        · rename_i _ stp _ _ argv _
          simp only
          split
          · exact W.refl _
          · rename_i cs hpush
            have h1 : W st (st.setCore (((st.core.resetOutput none).setCallstack cs).setCurrentPtr
                (Ptr.startOf [stp]))) :=
              setCore_W _ _ (fun h => coreWF_setCurrentPtr
                (coreWF_setCallstack (coreWF_resetOutput h.1.1) (csWF_push h.1.1.1 hpush)))
            have h2 := h1.trans (passArguments_W _ argv)
            split
            · rename_i heq; rw [heq] at h2; exact h2
            · rename_i heq; rw [heq] at h2; exact h2
            · rename_i st2 heq
              rw [heq] at h2
              have h3 := h2.trans (evalLoop_W 100000 st2 "")
              split
              · rename_i heq3; rw [heq3] at h3; exact h3
              · rename_i heq3; rw [heq3] at h3; exact h3
              · rename_i text st3 heq3
                rw [heq3] at h3
                exact h3.trans (completeFunctionEvaluation_W _ _ _ _)

/-- **evaluateFunction_preserves_wf.** -/
theorem evaluateFunction_preserves_wf (st : Story) (name : String) (args : List (Option Val)) (h : StoryWF st) :
    StoryWF (st.evaluateFunction name args).2 :=
  evaluateFunction_W st name args h

/-- `evaluate_function` itself does not hit `callstack.rs:push` when it pushes its element. -/
theorem evaluateFunction_push_isSome (st : Story) (h : StoryWF st) :
    ((st.core.resetOutput none).callstack.push .functionEvaluationFromGame
      (st.core.resetOutput none).evalStack.length 0).isSome = true :=
  push_isSome_of_wf h.1.1.1 _ _ _

/-! ### the small host operations -/

theorem setVariable_W (st : Story) (name : String) (v : Val) : W st (st.setVariable name v).2 := by
  unfold Story.setVariable
  split
  · exact W.refl _
  · exact W.refl _
  · split
    · exact W.refl _
    · simp only
      split
      · exact fun h => ⟨⟨h.1.1, h.1.2⟩, h.2⟩
      · exact fun h => ⟨⟨h.1.1, h.1.2⟩, h.2⟩

theorem observeVariable_W (st : Story) (name id : String) : W st (st.observeVariable name id).2 := by
  unfold Story.observeVariable
  split
  · exact W.refl _
  · exact W.refl _
  · split
    · exact W.refl _
    · exact fun h => h

theorem removeVariableObserver_W (st : Story) (id : String) (name : Option String) :
    W st (st.removeVariableObserver id name).2 := by
  unfold Story.removeVariableObserver
  split
  · exact W.refl _
  · exact W.refl _
  · exact fun h => h

theorem bindExternal_W (st : Story) (name : String) (d : ExtDef) : W st (st.bindExternal name d).2 := by
  unfold Story.bindExternal
  split
  · exact W.refl _
  · exact W.refl _
  · split
    · exact W.refl _
    · exact fun h => h

theorem unbindExternal_W (st : Story) (name : String) : W st (st.unbindExternal name).2 := by
  unfold Story.unbindExternal
  split
  · exact W.refl _
  · exact W.refl _
  · split
    · exact W.refl _
    · exact fun h => h

end PartG

section PartH

open M Story Save
open Json (get?)

/-! ### 7. Loading a save -/

theorem mapOut_all {α β : Type} {f : α → Out β} {P : β → Prop} (hf : ∀ x y, f x = .ok y → P y) :
    ∀ {l : List α} {ys : List β}, mapOut f l = .ok ys → ∀ y ∈ ys, P y := by
  intro l
  induction l with
  | nil =>
    intro ys h y hy
    unfold mapOut at h
    cases h; cases hy
  | cons x xs ih =>
    intro ys h y hy
    unfold mapOut at h
    split at h
    · rename_i y0 hy0
      split at h
      · rename_i ys0 hys0
        cases h
        rcases List.mem_cons.mp hy with rfl | hy
        · exact hf _ _ hy0
        · exact ih hys0 y hy
      · cases h
      · cases h
    · cases h
    · cases h

theorem readCallStack_wf {root : Obj} {tok : Json} {cs : CallStack} (h : readCallStack root tok = .ok cs) :
    CsWF cs := by
  unfold readCallStack at h
  repeat' split at h
  all_goals first
    | (cases h; done)
    | skip
  rename_i threads _ hcond _ _ _
  cases h
  simp only [Bool.or_eq_true, List.isEmpty_iff, List.any_eq_true, not_or, not_exists, not_and] at hcond
  exact ⟨hcond.1, fun t ht hnil => hcond.2 t ht hnil⟩

theorem getThreadWithIndex_mem {cs : CallStack} {i : Nat} {t : Thread} (h : cs.getThreadWithIndex i = some t) :
    t ∈ cs.threads := List.mem_of_find?_eq_some h

theorem readFlow_wf {root : Obj} {name : String} {tok : Json} {fl : Flow} (h : readFlow root name tok = .ok fl) :
    FlowWF fl := by
  unfold readFlow at h
  repeat' split at h
  all_goals first
    | (cases h; done)
    | skip
  rename_i cs hcs
  have hcswf : CsWF cs := readCallStack_wf hcs
  simp only at h
  split at h
  · rename_i chs hw
    cases h
    refine ⟨hcswf, ?_⟩
    refine mapOut_all (P := ChoiceWF) ?_ hw
    intro c y hy
    try simp only at hy
    split at hy
    · rename_i t ht
      cases hy
      exact ⟨t, rfl, hcswf.2 t (getThreadWithIndex_mem ht)⟩
    · split at hy
      · split at hy
        · rename_i t _
          split at hy
          · cases hy
          · rename_i hne
            cases hy
            refine ⟨t, rfl, ?_⟩
            intro hnil
            apply hne
            rw [hnil]; rfl
        · cases hy
        · cases hy
      · cases hy
  · cases h
  · cases h

theorem go_wf (root : Obj) (single : Bool) :
    ∀ (flows : List (String × Json)) (st : StoryState), StateWF st →
      StateWF (loadStateObj.go root single flows st).2 := by
  intro flows
  induction flows with
  | nil => intro st h; unfold loadStateObj.go; exact h
  | cons x rest ih =>
    intro st h
    obtain ⟨name, ftok⟩ := x
    unfold loadStateObj.go
    split
    · exact h
    · split
      · rename_i fl hfl
        have hflwf : FlowWF fl := readFlow_wf hfl
        split
        · apply ih
          exact ⟨hflwf, h.2⟩
        · apply ih
          refine ⟨h.1, ?_⟩
          intro nf hnf
          simp only [Option.some.injEq] at hnf
          subst hnf
          exact flowsWF_alSet h.flows hflwf
      · exact h
      · exact h

theorem andThen_wf {r : Out Unit × StoryState} {f : StoryState → Out Unit × StoryState}
    (hr : StateWF r.2) (hf : ∀ s, StateWF s → StateWF (f s).2) : StateWF (andThen r f).2 := by
  unfold andThen
  split
  · exact hf _ hr
  · exact hr

theorem flowsStep_wf (root : Obj) (s : StoryState) (j : Json) (h : StateWF s) :
    StateWF (C02.flowsStep root s j).2 := by
  unfold C02.flowsStep
  split
  · split
    · exact h
    · simp only
      apply andThen_wf
      · apply go_wf
        exact ⟨h.1, fun nf hnf => by
          split at hnf
          · cases hnf
          · simp only [Option.some.injEq] at hnf
            subst hnf; exact flowsWF_nil⟩
      · intro st hst
        split
        · rename_i nf hnf
          split
          · split
            · split
              · rename_i fl hfl
                have hnfwf : FlowsWF nf := hst.2 nf hnf
                refine ⟨flowWF_of_alGet hnfwf hfl, ?_⟩
                intro nf' hnf'
                simp only [Option.some.injEq] at hnf'
                subst hnf'
                exact flowsWF_alRemove hnfwf
              · exact hst
            · exact hst
          · exact hst
        · exact hst
  · exact h

/-- the steps after the flows only touch fields of the core that the invariant does not read -/
macro "step_wf" h:ident : tactic => `(tactic| repeat' (first | exact $h | split | simp only))

theorem varsStep_wf (j : Json) (s : StoryState) (h : StateWF s) : StateWF (C02.varsStep j s).2 := by
  unfold C02.varsStep; step_wf h
theorem evalStep_wf (j : Json) (s : StoryState) (h : StateWF s) : StateWF (C02.evalStep j s).2 := by
  unfold C02.evalStep; step_wf h
theorem divertStep_wf (root : Obj) (j : Json) (s : StoryState) (h : StateWF s) :
    StateWF (C02.divertStep root j s).2 := by
  unfold C02.divertStep; step_wf h
theorem visitStep_wf (j : Json) (s : StoryState) (h : StateWF s) : StateWF (C02.visitStep j s).2 := by
  unfold C02.visitStep; step_wf h
theorem turnIndicesStep_wf (j : Json) (s : StoryState) (h : StateWF s) : StateWF (C02.turnIndicesStep j s).2 := by
  unfold C02.turnIndicesStep; step_wf h
theorem turnIdxStep_wf (j : Json) (s : StoryState) (h : StateWF s) : StateWF (C02.turnIdxStep j s).2 := by
  unfold C02.turnIdxStep; step_wf h
theorem seedStep_wf (j : Json) (s : StoryState) (h : StateWF s) : StateWF (C02.seedStep j s).2 := by
  unfold C02.seedStep; step_wf h
theorem prevRandomStep_wf (j : Json) (s : StoryState) (h : StateWF s) : StateWF (C02.prevRandomStep j s).2 := by
  unfold C02.prevRandomStep; step_wf h

theorem loadChain_wf (root : Obj) (s : StoryState) (j : Json) (h : StateWF s) :
    StateWF (andThen (C02.flowsStep root s j) (fun s1 =>
          andThen (C02.varsStep j s1) (fun s2 =>
          andThen (C02.evalStep j s2) (fun s3 =>
          andThen (C02.divertStep root j s3) (fun s4 =>
          andThen (C02.visitStep j s4) (fun s5 =>
          andThen (C02.turnIndicesStep j s5) (fun s6 =>
          andThen (C02.turnIdxStep j s6) (fun s7 =>
          andThen (C02.seedStep j s7) (fun s8 =>
          C02.prevRandomStep j s8))))))))).2 := by
  refine andThen_wf (flowsStep_wf root s j h) (fun s1 h1 => ?_)
  refine andThen_wf (varsStep_wf j s1 h1) (fun s2 h2 => ?_)
  refine andThen_wf (evalStep_wf j s2 h2) (fun s3 h3 => ?_)
  refine andThen_wf (divertStep_wf root j s3 h3) (fun s4 h4 => ?_)
  refine andThen_wf (visitStep_wf j s4 h4) (fun s5 h5 => ?_)
  refine andThen_wf (turnIndicesStep_wf j s5 h5) (fun s6 h6 => ?_)
  refine andThen_wf (turnIdxStep_wf j s6 h6) (fun s7 h7 => ?_)
  refine andThen_wf (seedStep_wf j s7 h7) (fun s8 h8 => ?_)
  exact prevRandomStep_wf j s8 h8

/-- `load_json_obj` keeps the invariant, also when it fails half-way (the state "as far as it got"). -/
theorem loadStateObj_wf (root : Obj) (s : StoryState) (j : Json) (h : StateWF s) :
    StateWF (loadStateObj root s j).2 := by
  rw [C02.loadStateObj_eq]
  split
  · exact h
  · simp only
    repeat' split
    all_goals first | exact h | exact loadChain_wf root s j h

theorem loadState_W (st : Story) (doc : Option Json) : W st (loadState st doc).2 := by
  unfold loadState
  split
  · exact W.refl _
  · exact W.refl _
  · split
    · exact W.refl _
    · rename_i j
      split
      rename_i r s' heq
      refine W_same ?_ rfl
      intro h
      have := loadStateObj_wf st.root st.state j h
      rw [heq] at this
      exact this

/-- **loadState_wf.**  The loader rejects a save with an empty thread list, a thread without
    elements or a choice whose thread is missing or empty ("loading threads: empty call stack",
    "loading choice threads"), so loading — successful or not — keeps the invariant. -/
theorem loadState_preserves_wf (st : Story) (doc : Option Json) (h : StoryWF st) : StoryWF (loadState st doc).2 :=
  loadState_W st doc h

theorem loadState_wf (st : Story) (doc : Option Json) (st' : Story) (h : StoryWF st)
    (hok : loadState st doc = (.ok (), st')) : StoryWF st' := by
  have := loadState_W st doc h
  rw [hok] at this
  exact this

/-- A state loaded into any story (well formed or not) has well-formed flows wherever the
    save names them: a single flow replaces the current one. -/
theorem readFlow_ok_wf {root : Obj} {name : String} {tok : Json} {fl : Flow} (h : readFlow root name tok = .ok fl) :
    CsWF fl.callstack ∧ ∀ c ∈ fl.choices, ∃ t, c.thread = some t ∧ t.callstack ≠ [] := readFlow_wf h

end PartH

section PartI

open M Story

/-! ### 8. No call-stack panic in a reachable story -/

/-- `continue_single_step` of a well-formed story does not end in one of the bad sites. -/
theorem continueSingleStep_no_bad (st : Story) (hwf : StoryWF st) (site : String) (st1 : Story)
    (h : st.continueSingleStep = (.panic site, st1)) : site ∉ badSites := by
  unfold Story.continueSingleStep at h
  have hstep := runM_W st (step st.env) T_step hwf
  split at h
  · cases h
  · rename_i p st1' heq
    simp only [Prod.mk.injEq, Out.panic.injEq] at h
    obtain ⟨rfl, _⟩ := h
    obtain ⟨st', hst'⟩ := runM_panic _ _ _ _ heq
    exact T_no_bad T_step hst' hwf.1.1
  · rename_i st1' heq
    rw [heq] at hstep
    simp only at h
    split at h
    · cases h
    · rename_i p st2' heq2
      simp only [Prod.mk.injEq, Out.panic.injEq] at h
      obtain ⟨rfl, _⟩ := h
      split at heq2
      · obtain ⟨st', hst'⟩ := runM_panic _ _ _ _ heq2
        exact T_no_bad T_tryFollowDefaultInvisibleChoice hst' hstep.1.1
      · cases heq2
    · exfalso
      split at h
      · cases h
      · split at h
        · cases h
        · split at h
          · split at h <;> cases h
          · cases h

/-- **continueSingleStep_panic_sites_wf.**  The sites left for `continue_single_step` of a
    well-formed story: six of the nine of `continueSites`. -/
theorem continueSingleStep_panic_sites_wf (st : Story) (hwf : StoryWF st) (site : String) (st1 : Story)
    (h : st.continueSingleStep = (.panic site, st1)) : site ∈ stepSitesWF :=
  mem_stepSitesWF (continueSingleStep_panic_sites st site st1 h) (continueSingleStep_no_bad st hwf site st1 h)

theorem stepLoop_no_bad (b : Option Nat) (fuel steps : Nat) (st : Story) (hwf : StoryWF st) (site : String)
    (st1 : Story) (h : stepLoop b fuel steps st = (.panic site, st1)) : site ∉ badSites := by
  induction fuel generalizing steps st with
  | zero => unfold stepLoop at h; cases h
  | succ fuel ih =>
    unfold stepLoop at h
    simp only at h
    have hwf' : StoryWF { st with fuel := st.fuel.map (· - 1) } := hwf
    have hcs := continueSingleStep_W { st with fuel := st.fuel.map (· - 1) } hwf'
    split at h
    · cases h
    · split at h
      · rename_i p st1' heq
        simp only [Prod.mk.injEq, Out.panic.injEq] at h
        obtain ⟨rfl, _⟩ := h
        exact continueSingleStep_no_bad _ hwf' _ _ heq
      · cases h
      · cases h
      · rename_i st1' heq
        rw [heq] at hcs
        cases b with
        | none =>
          simp only [Bool.false_eq_true, if_false] at h
          split at h
          · cases h
          · exact ih _ _ hcs h
        | some n =>
          simp only at h
          split at h
          · cases h
          · split at h
            · cases h
            · exact ih _ _ hcs h

theorem deliver_no_panic (st : Story) (site : String) (st1 : Story) : st.deliver ≠ (.panic site, st1) := by
  unfold Story.deliver
  intro h
  repeat' split at h
  all_goals cases h

theorem continueInternal_no_bad (st : Story) (b : Option Nat) (f : Nat) (hwf : StoryWF st) (site : String)
    (st1 : Story) (h : st.continueInternal b f = (.panic site, st1)) : site ∉ badSites := by
  unfold Story.continueInternal at h
  split at h
  · cases h
  · simp only at h
    have h0 := beginContinue_W st b.isSome hwf
    split at h
    · rename_i p st1' heq
      simp only [Prod.mk.injEq, Out.panic.injEq] at h
      obtain ⟨rfl, _⟩ := h
      exact stepLoop_no_bad _ _ _ _ h0 _ _ heq
    · cases h
    · cases h
    · split at h
      · simp only [Prod.mk.injEq, Out.panic.injEq] at h
        obtain ⟨rfl, _⟩ := h
        decide
      · split at h
        · cases h
        · rename_i other hne
          exact absurd h (deliver_no_panic _ _ _)

theorem validateExternalBindings_no_bad (st : Story) (site : String) (st1 : Story)
    (h : st.validateExternalBindings = (.panic site, st1)) : site ∉ badSites := by
  unfold Story.validateExternalBindings at h
  simp only at h
  split at h
  · simp only [Prod.mk.injEq, Out.panic.injEq] at h
    obtain ⟨rfl, _⟩ := h
    decide
  · split at h <;> cases h

theorem continueAsync_no_bad (st : Story) (b : Option Nat) (hwf : StoryWF st) (site : String) (st1 : Story)
    (h : st.continueAsync b = (.panic site, st1)) : site ∉ badSites := by
  unfold Story.continueAsync at h
  have hv : W st (if !st.validated then st.validateExternalBindings else (.ok (), st)).2 := by
    split
    · exact validateExternalBindings_W st
    · exact W.refl _
  have hp : ∀ s s1, (if !st.validated then st.validateExternalBindings else (.ok (), st)) = (.panic s, s1) →
      s ∉ badSites := by
    intro s s1 hh
    split at hh
    · exact validateExternalBindings_no_bad _ _ _ hh
    · cases hh
  generalize (if !st.validated then st.validateExternalBindings else (Out.ok (), st)) = p at hv hp h
  obtain ⟨v, st1'⟩ := p
  simp only at hv h
  split at h
  · exact continueInternal_no_bad _ _ _ (hv hwf) _ _ h
  · rename_i other hne
    simp only [Prod.mk.injEq] at h
    obtain ⟨rfl, rfl⟩ := h
    exact hp _ _ rfl

/-- `cont()` of a well-formed story does not end in one of the bad sites. -/
theorem cont_no_bad (st : Story) (hwf : StoryWF st) (site : String) (st1 : Story)
    (h : st.cont = (.panic site, st1)) : site ∉ badSites := by
  unfold Story.cont at h
  split at h
  · rename_i st1' heq
    unfold Story.getCurrentText at h
    simp only [Prod.mk.injEq] at h
    obtain ⟨h1, _⟩ := h
    split at h1
    · cases h1
    · cases h1
    · rename_i p hp
      unfold Story.ifAsyncWeCant at hp
      split at hp <;> cases hp
  · cases h
  · rename_i p st1' heq
    simp only [Prod.mk.injEq, Out.panic.injEq] at h
    obtain ⟨rfl, _⟩ := h
    exact continueAsync_no_bad _ _ hwf _ _ heq

theorem evalLoop_no_bad (fuel : Nat) (st : Story) (acc : String) (hwf : StoryWF st) (site : String) (st1 : Story)
    (h : evalLoop fuel st acc = (.panic site, st1)) : site ∉ badSites := by
  induction fuel generalizing st acc with
  | zero => unfold evalLoop at h; cases h
  | succ fuel ih =>
    unfold evalLoop at h
    split at h
    · have hc := cont_W st hwf
      split at h
      · rename_i t st' heq
        rw [heq] at hc
        exact ih _ _ hc h
      · rename_i other hne
        exact cont_no_bad st hwf _ _ h
    · cases h

theorem passArguments_no_bad (st : Story) (args : List Val) (hwf : StoryWF st) (site : String) (st1 : Story)
    (h : st.passArguments args = (.panic site, st1)) : site ∉ badSites := by
  unfold Story.passArguments at h
  obtain ⟨st', hst'⟩ := runM_panic _ _ _ _ h
  exact T_no_bad (T_forM _ (fun a => T_pushEvalM) _) hst' hwf.1.1

theorem completeFunctionEvaluation_no_bad (st : Story) (ob : List Obj) (pb : Ptr) (text : String) (site : String)
    (st1 : Story) (h : st.completeFunctionEvaluation ob pb text = (.panic site, st1)) : site ∉ badSites := by
  unfold Story.completeFunctionEvaluation at h
  simp only at h
  split at h
  · simp only [Prod.mk.injEq, Out.panic.injEq] at h
    obtain ⟨rfl, _⟩ := h
    decide
  · split at h
    · cases h
    · split at h
      · cases h
      · rename_i p heq
        exact absurd heq (pop_no_panic _ _ _)
      · cases h

/-- `evaluate_function` on a well-formed story does not end in one of the bad sites: its own
    `push` finds a current element, and so does everything it runs. -/
theorem evaluateFunction_no_bad (st : Story) (name : String) (args : List (Option Val)) (hwf : StoryWF st)
    (site : String) (st1 : Story) (h : st.evaluateFunction name args = (.panic site, st1)) : site ∉ badSites := by
  unfold Story.evaluateFunction at h
  split at h
  · cases h
  · rename_i p hp
    unfold Story.ifAsyncWeCant at hp
    split at hp <;> cases hp
  · split at h
    · cases h
    · split at h
      · cases h
      · split at h
        · cases h
        · rename_i p hp
          unfold Story.checkArguments at hp
          split at hp <;> cases hp
        · rename_i _ stp _ _ argv _
          simp only at h
          split at h
          · rename_i hnone
            have := evaluateFunction_push_isSome st hwf
            rw [hnone] at this
            cases this
          · rename_i cs hpush
            have h1 : StoryWF (st.setCore (((st.core.resetOutput none).setCallstack cs).setCurrentPtr
                (Ptr.startOf [stp]))) :=
              setCore_W _ _ (fun h => coreWF_setCurrentPtr
                (coreWF_setCallstack (coreWF_resetOutput h.1.1) (csWF_push h.1.1.1 hpush))) hwf
            have h2 := passArguments_W _ argv h1
            split at h
            · cases h
            · rename_i p st2 heq
              simp only [Prod.mk.injEq, Out.panic.injEq] at h
              obtain ⟨rfl, _⟩ := h
              exact passArguments_no_bad _ _ h1 _ _ heq
            · rename_i st2 heq
              rw [heq] at h2
              have h3 := evalLoop_W 100000 st2 "" h2
              split at h
              · cases h
              · rename_i p st3 heq3
                simp only [Prod.mk.injEq, Out.panic.injEq] at h
                obtain ⟨rfl, _⟩ := h
                exact evalLoop_no_bad _ _ _ h2 _ _ heq3
              · exact completeFunctionEvaluation_no_bad _ _ _ _ _ _ h

/-- The stories a host can reach: construction, then any sequence of public operations. -/
inductive Reachable : Story → Prop
  | create (ld : Load.Loaded) (seed : Int) (st : Story) : Story.create ld seed = .ok st → Reachable st
  | cont (st : Story) : Reachable st → Reachable st.cont.2
  | continueAsync (st : Story) (b : Option Nat) : Reachable st → Reachable (st.continueAsync b).2
  | continueMaximally (st : Story) : Reachable st → Reachable st.continueMaximally.2
  | continueSingleStep (st : Story) : Reachable st → Reachable st.continueSingleStep.2
  | currentChoices (st : Story) : Reachable st → Reachable st.currentChoices.2
  | chooseChoiceIndex (st : Story) (i : Nat) : Reachable st → Reachable (st.chooseChoiceIndex i).2
  | choosePathString (st : Story) (path : String) (reset : Bool) (args : List (Option Val)) :
      Reachable st → Reachable (st.choosePathString path reset args).2
  | evaluateFunction (st : Story) (name : String) (args : List (Option Val)) :
      Reachable st → Reachable (st.evaluateFunction name args).2
  | switchFlow (st : Story) (name : String) : Reachable st → Reachable (st.switchFlow name).2
  | switchToDefaultFlow (st : Story) : Reachable st → Reachable st.switchToDefaultFlow
  | removeFlow (st : Story) (name : String) : Reachable st → Reachable (st.removeFlow name).2
  | resetState (st : Story) (seed : Int) : Reachable st → Reachable (st.resetState seed).2
  | loadState (st : Story) (doc : Option Json) : Reachable st → Reachable (Save.loadState st doc).2
  | setVariable (st : Story) (name : String) (v : Val) : Reachable st → Reachable (st.setVariable name v).2
  | observeVariable (st : Story) (name id : String) : Reachable st → Reachable (st.observeVariable name id).2
  | removeVariableObserver (st : Story) (id : String) (name : Option String) :
      Reachable st → Reachable (st.removeVariableObserver id name).2
  | bindExternal (st : Story) (name : String) (d : ExtDef) : Reachable st → Reachable (st.bindExternal name d).2
  | unbindExternal (st : Story) (name : String) : Reachable st → Reachable (st.unbindExternal name).2
  /-- host settings and harness bookkeeping: anything but the state and the snapshot -/
  | configure (st st' : Story) : Reachable st → st'.state = st.state → st'.snapshot = st.snapshot → Reachable st'

theorem reachable_wf {st : Story} (h : Reachable st) : StoryWF st := by
  induction h with
  | create ld seed st h => exact new_wf ld seed st h
  | cont st _ ih => exact cont_W st ih
  | continueAsync st b _ ih => exact continueAsync_W st b ih
  | continueMaximally st _ ih => exact continueMaximally_W st ih
  | continueSingleStep st _ ih => exact continueSingleStep_W st ih
  | currentChoices st _ ih => exact (currentChoices_W st).1 ih
  | chooseChoiceIndex st i _ ih => exact chooseChoiceIndex_W st i ih
  | choosePathString st path reset args _ ih => exact choosePathString_W st path reset args ih
  | evaluateFunction st name args _ ih => exact evaluateFunction_W st name args ih
  | switchFlow st name _ ih => exact switchFlow_W st name ih
  | switchToDefaultFlow st _ ih => exact switchToDefaultFlow_W st ih
  | removeFlow st name _ ih => exact removeFlow_W st name ih
  | resetState st seed _ ih => exact resetState_W st seed ih
  | loadState st doc _ ih => exact loadState_W st doc ih
  | setVariable st name v _ ih => exact setVariable_W st name v ih
  | observeVariable st name id _ ih => exact observeVariable_W st name id ih
  | removeVariableObserver st id name _ ih => exact removeVariableObserver_W st id name ih
  | bindExternal st name d _ ih => exact bindExternal_W st name d ih
  | unbindExternal st name _ ih => exact unbindExternal_W st name ih
  | configure st st' _ h1 h2 ih =>
    refine ⟨?_, ?_⟩
    · rw [h1]; exact ih.1
    · rw [h2]; exact ih.2

/-- **reachable_no_callstack_panic.**  In a story reached through the public operations,
    `continue_single_step` ends neither in `callstack.rs:push` nor in `callstack.rs:fork_thread`
    nor in `choices.rs:thread_at_generation`. -/
theorem reachable_no_callstack_panic (st : Story) (h : Reachable st) (st' : Story) :
    st.continueSingleStep ≠ (.panic "callstack.rs:push", st')
    ∧ st.continueSingleStep ≠ (.panic "callstack.rs:fork_thread", st')
    ∧ st.continueSingleStep ≠ (.panic "choices.rs:thread_at_generation", st') := by
  have hwf := reachable_wf h
  refine ⟨?_, ?_, ?_⟩ <;>
  · intro hp
    exact absurd (continueSingleStep_no_bad st hwf _ _ hp) (by decide)

/-- … and the sites that are left. -/
theorem reachable_continueSingleStep_panic_sites (st : Story) (h : Reachable st) (site : String) (st' : Story)
    (hp : st.continueSingleStep = (.panic site, st')) : site ∈ stepSitesWF :=
  continueSingleStep_panic_sites_wf st (reachable_wf h) site st' hp

/-- The same for the host calls `cont()` and `choose_choice_index`. -/
theorem reachable_cont_no_callstack_panic (st : Story) (h : Reachable st) (st' : Story) :
    st.cont ≠ (.panic "callstack.rs:push", st')
    ∧ st.cont ≠ (.panic "callstack.rs:fork_thread", st')
    ∧ st.cont ≠ (.panic "choices.rs:thread_at_generation", st') := by
  have hwf := reachable_wf h
  refine ⟨?_, ?_, ?_⟩ <;>
  · intro hp
    exact absurd (cont_no_bad st hwf _ _ hp) (by decide)

theorem reachable_evaluateFunction_no_callstack_panic (st : Story) (h : Reachable st) (name : String)
    (args : List (Option Val)) (st' : Story) :
    st.evaluateFunction name args ≠ (.panic "callstack.rs:push", st')
    ∧ st.evaluateFunction name args ≠ (.panic "callstack.rs:fork_thread", st')
    ∧ st.evaluateFunction name args ≠ (.panic "choices.rs:thread_at_generation", st') := by
  have hwf := reachable_wf h
  refine ⟨?_, ?_, ?_⟩ <;>
  · intro hp
    exact absurd (evaluateFunction_no_bad st name args hwf _ _ hp) (by decide)

theorem reachable_chooseChoiceIndex_no_thread_panic (st : Story) (h : Reachable st) (i : Nat) (st' : Story) :
    st.chooseChoiceIndex i ≠ (.panic "choices.rs:thread_at_generation", st') :=
  chooseChoiceIndex_no_thread_panic st i (reachable_wf h) st'

/-! ### 9. Non-vacuity -/

/-- the step state of a story, as `Story.runM` builds it -/
def stOf (st : Story) : St :=
  { s := st.state.core, externals := st.externals, events := st.events, sawUnsafe := st.sawUnsafe,
    newWarnings := [] }

theorem stWF_of_story {st : Story} (h : StoryWF st) : StWF (stOf st) := h.1.1

-- a freshly built story
theorem frameStory_wf : StoryWF C10.frameStory :=
  ⟨stateWF_fresh 0, fun sn h => by cases h⟩

-- a story in the middle of a game: a pending choice with its forked thread, a temporary
theorem exStory_wf : StoryWF C02.exStory := by
  refine ⟨⟨⟨⟨?_, ?_⟩, ?_⟩, ?_⟩, ?_⟩
  · simp [C02.exStory, C02.exState, C02.exFlow]
  · intro t ht
    simp only [C02.exStory, C02.exState, C02.exFlow, List.mem_singleton] at ht
    subst ht
    simp [C02.exThread0]
  · intro c hc
    simp only [C02.exStory, C02.exState, C02.exFlow, List.mem_singleton] at hc
    subst hc
    exact ⟨C02.exThread1, rfl, by simp [C02.exThread1]⟩
  · intro nf h; cases h
  · intro sn h; cases h

example : (C02.exStory.state.core.flow.choices.length, C02.exStory.state.core.flow.callstack.threads.length) = (1, 1) := rfl

example (st' : St) :
    step C02.exStory.env (stOf C02.exStory) ≠ (.panic "callstack.rs:push", st')
    ∧ step C02.exStory.env (stOf C02.exStory) ≠ (.panic "callstack.rs:fork_thread", st') :=
  step_no_callstack_panic _ _ (stWF_of_story exStory_wf) st'

example : StWF (step C02.exStory.env (stOf C02.exStory)).2 := step_preserves_wf _ _ (stWF_of_story exStory_wf)

example : StoryWF C02.exStory.cont.2 := cont_preserves_wf _ exStory_wf
example : StoryWF (C02.exStory.chooseChoiceIndex 0).2 := chooseChoiceIndex_preserves_wf _ 0 exStory_wf
example : StoryWF (C10.frameStory.switchFlow "side").2 := switchFlow_preserves_wf _ _ frameStory_wf
example (st' : Story) : C02.exStory.chooseChoiceIndex 0 ≠ (.panic "choices.rs:thread_at_generation", st') :=
  chooseChoiceIndex_no_thread_panic _ 0 exStory_wf st'

-- the stories built by the constructor are reachable, and so are their successors
example (ld : Load.Loaded) (seed : Int) (st : Story) (h : Story.create ld seed = .ok st) :
    Reachable ((st.cont.2.chooseChoiceIndex 0).2.switchFlow "side").2 :=
  .switchFlow _ _ (.chooseChoiceIndex _ _ (.cont _ (.create ld seed st h)))

/-! #### the hypotheses are needed -/

/-- A pending default choice that does not know its thread (no loader and no step builds one). -/
def exOrphanChoice : Choice :=
  { text := "", index := 0, sourcePath := "0", targetPath := { comps := [.idx 0], rel := false },
    isInvisibleDefault := true, tags := [], thread := none, originalThreadIndex := 0 }

def exOrphanStory : Story :=
  { C10.frameStory with
    root := .container none 0 [.cmd .done] [],
    state := { (StoryState.fresh 0) with
      core := { (Core.fresh 0) with flow := { (Core.fresh 0).flow with choices := [exOrphanChoice] } } } }

example : ¬ StoryWF exOrphanStory := by
  intro h
  obtain ⟨t, ht, _⟩ := h.1.1.2 exOrphanChoice (List.mem_singleton.mpr rfl)
  cases ht

-- without the invariant on the choices `continue_single_step` does hit `thread_at_generation`
example : ∃ st1, exOrphanStory.continueSingleStep = (.panic "choices.rs:thread_at_generation", st1) := ⟨_, rfl⟩

/-- A story whose call stack has no thread. -/
def exNoThreadStory : Story :=
  { C10.frameStory with
    root := .container none 0 [.cmd .done] [("f", .container (some "f") 0 [.cmd .done] [])],
    state := { (StoryState.fresh 0) with
      core := { (Core.fresh 0) with
        flow := { (Core.fresh 0).flow with callstack := { threads := [], threadCounter := 0 } } } } }

example : ¬ StoryWF exNoThreadStory := fun h => h.1.1.1.1 rfl

-- without the invariant `evaluate_function` does hit `callstack.rs:push` …
example : ∃ st1, exNoThreadStory.evaluateFunction "f" [] = (.panic "callstack.rs:push", st1) := ⟨_, rfl⟩
-- … and forking the current thread fails
example : exNoThreadStory.core.callstack.forkThread = none := rfl
example : exNoThreadStory.core.callstack.push .function 0 0 = none := rfl
-- (the step itself returns at once from such a state: there is no current pointer)
example : ∃ st1, step exNoThreadStory.env (stOf exNoThreadStory) = (.ok (), st1) := ⟨_, rfl⟩

/-! #### the loader -/

/-- A save whose only thread has no element … -/
def exEmptyThreadSave : Json :=
  .obj [("inkSaveVersion", .num 10),
        ("flows", .obj [("DEFAULT_FLOW", .obj
          [("callstack", .obj [("threads", .arr [.obj [("callstack", .arr []), ("threadIndex", .num 0)]]),
                               ("threadCounter", .num 0)]),
           ("outputStream", .arr []), ("currentChoices", .arr [])])])]

/-- … and one without any thread. -/
def exNoThreadSave : Json :=
  .obj [("inkSaveVersion", .num 10),
        ("flows", .obj [("DEFAULT_FLOW", .obj
          [("callstack", .obj [("threads", .arr []), ("threadCounter", .num 0)]),
           ("outputStream", .arr []), ("currentChoices", .arr [])])])]

-- both are rejected by the loader of the model
example : (match (Save.loadState C10.frameStory (some exEmptyThreadSave)).1 with
    | .err "BadJson" m => m == "loading threads: empty call stack"
    | _ => false) = true := by decide +kernel
example : (match (Save.loadState C10.frameStory (some exNoThreadSave)).1 with
    | .err "BadJson" m => m == "loading threads: empty call stack"
    | _ => false) = true := by decide +kernel

end PartI

end C04
end Ink

