/-
  C08 — How the host slices continuation never changes the story.
  Proved here: the refusals while a time-limited continue is unfinished
  (async_guards), that a blocking continue always finishes a paused one and
  leaves the story usable (async_always_completes), and that a pause leaves the
  continue bookkeeping balanced.  The full equivalence `sliced = blocking` is
  stated at the end with what is missing.
-/
import Proofs.C09
import Proofs.C17

namespace Ink
namespace C08

open Story

/-- **async_guards.** While a time-limited continue is unfinished, every
    state-changing entry point is refused and the story is left untouched. -/
theorem async_guards (st : Story) (ha : st.asyncActive = true) :
    (∀ i, ∃ m, st.chooseChoiceIndex i = (.invalid m, st))
    ∧ (∀ p r a, ∃ m, st.choosePathString p r a = (.invalid m, st))
    ∧ (∀ n a, ∃ m, st.evaluateFunction n a = (.invalid m, st))
    ∧ (∀ n, ∃ m, st.switchFlow n = (.invalid m, st))
    ∧ (∀ n, ∃ m, st.removeFlow n = (.invalid m, st))
    ∧ st.switchToDefaultFlow = st
    ∧ (∀ n v, ∃ m, st.setVariable n v = (.invalid m, st))
    ∧ (∀ s, ∃ m, st.resetState s = (.invalid m, st))
    ∧ (∀ d, ∃ m, Save.loadState st d = (.invalid m, st)) := by
  obtain ⟨_, h2, h3, h4, h5, h6, h7, h8, _, _, _, _, h13, h14, _, _⟩ := C09.async_refuses st ha
  exact ⟨h2, h3, h4, h5, h6, h7, h8, h13, h14⟩

/-- **async_always_completes.** From a paused time-limited continue, one
    blocking continue that returns leaves the story quiescent: not async any
    more, no snapshot, no recursion count, no unsafe flag. -/
theorem async_always_completes (st : Story) (fuel : Nat) (r : Out Unit) (st' : Story)
    (h0 : st.recCount = 0) (ha : st.asyncActive = true)
    (h : st.continueInternal none fuel = (r, st'))
    (hnp : ∀ p, r ≠ .panic p) (hnf : ∀ m, r ≠ .err "ModelFuel" m) :
    C17.Quiescent st' :=
  C17.quiescent_after_continue st fuel r st' h0 (Or.inl ha) h hnp hnf

/-- A time-limited continue that returns ok has either finished the line (the
    story is not async any more) or paused; in both cases the recursion count is
    back where it was (so a later continue starts a fresh observation batch only
    if this one was closed). -/
theorem continue_keeps_recCount (st : Story) (b : Option Nat) (fuel : Nat) (st' : Story)
    (h : st.continueInternal b fuel = (.ok (), st')) : st'.recCount = st.recCount := by
  unfold Story.continueInternal at h
  simp only at h
  split at h
  · cases h
  · have hb : (st.beginContinue b.isSome).recCount = st.recCount + 1 := by
      unfold Story.beginContinue
      simp only
      split
      · simp [Story.setCore]
      · split <;> rfl
    split at h
    · cases h
    · cases h
    · cases h
    · rename_i why s1 _ heq
      have hsame := stepLoop_same _ fuel 0 _ _ _ heq
      split at h
      · cases h
      · rename_i st5 changed hfin
        have h5 : st5.recCount = st.recCount + 1 := by
          split at hfin
          · rw [(finishContinue_fields _ _ _ hfin).2.2.2.1, hsame.recCount, hb]
          · simp only [Option.some.injEq, Prod.mk.injEq] at hfin
            rw [← hfin.1, hsame.recCount, hb]
        split at h
        · rename_i st7 hd
          obtain ⟨_, _, _, d4⟩ := C17.deliver_fields _ _ _ hd
          simp only [Prod.mk.injEq, true_and] at h
          rw [← h]
          show st7.recCount = st.recCount
          rw [d4]
          show st5.recCount - 1 = st.recCount
          omega
        · rename_i other hd
          cases hdv : ({ st5 with recCount := st5.recCount - 1 } : Story).deliver with
          | mk r7 st7 =>
            rw [hdv] at h
            simp only [Prod.mk.injEq] at h
            obtain ⟨_, _, _, d4⟩ := C17.deliver_fields _ _ _ hdv
            rw [← h.2, d4]
            show st5.recCount - 1 = st.recCount
            omega

/-
  sliced_eq_blocking (the full statement, NOT proved here):

    ∀ program, quiescent story st that can continue, budgets bs (all ≥ 1):
      running `continue_async b` for b in bs until the line completes (then a blocking continue)
      yields the same story state, the same observer notifications and external calls, and the
      same handler deliveries as a multiset, as one blocking `cont`.

  What is missing: a non-interference lemma for the whole step function (a step does not read
  `asyncActive`, `recCount` or the warning list; the unsafe flag is consumed by the step that
  raises it).  The model is built so that the first two hold by typing (`runM` passes only the core,
  the external bindings, the event log and the unsafe flag to a step, and a step can only append to
  the warning list); the remaining obligation is about the stepping loop.  Until it is proved,
  this sentence of C08 is decided by the exhaustive pause-position oracle and the tie
  (checks/c08.py), and the claim is labelled partial.
-/

end C08
end Ink
