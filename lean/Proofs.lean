import Proofs.Lemmas.PathLemmas
import Proofs.Lemmas.TreeLemmas
import Proofs.C19
