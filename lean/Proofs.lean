import Proofs.Lemmas.PathLemmas
import Proofs.Lemmas.TreeLemmas
import Proofs.Lemmas.LoopLemmas
import Proofs.C09
import Proofs.C13
import Proofs.C17
import Proofs.C19
