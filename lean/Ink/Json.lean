/-
  Ink/Json.lean — a small JSON value type, a total parser over `List Char`
  and a printer.  Used by the driver (stories, saves, op scripts), and as the
  specification of "is well-formed JSON" in C14 / C15 / C20.
  Core Lean only.
-/
namespace Ink

/-- JSON values.  Integers that fit the literal syntax `-?digits` are `num`;
    any other number literal keeps its raw text in `flt`. -/
inductive Json where
  | null
  | bool (b : Bool)
  | num (n : Int)
  | flt (raw : String)
  | str (s : String)
  | arr (xs : List Json)
  | obj (kvs : List (String × Json))
  deriving Repr, Inhabited, BEq

namespace Json

def isWs (c : Char) : Bool := c = ' ' || c = '\n' || c = '\t' || c = '\r'

def skipWs : List Char → List Char
  | [] => []
  | c :: cs => if isWs c then skipWs cs else c :: cs

theorem skipWs_length_le (l : List Char) : (skipWs l).length ≤ l.length := by
  induction l with
  | nil => simp [skipWs]
  | cons c cs ih => simp only [skipWs]; split <;> simp <;> omega

def hexVal (c : Char) : Option Nat :=
  if '0' ≤ c ∧ c ≤ '9' then some (c.toNat - '0'.toNat)
  else if 'a' ≤ c ∧ c ≤ 'f' then some (c.toNat - 'a'.toNat + 10)
  else if 'A' ≤ c ∧ c ≤ 'F' then some (c.toNat - 'A'.toNat + 10)
  else none

def hex4 (a b c d : Char) : Option Nat := do
  let a ← hexVal a; let b ← hexVal b; let c ← hexVal c; let d ← hexVal d
  pure (((a * 16 + b) * 16 + c) * 16 + d)

/-- Body of a string literal after the opening quote.  Returns the decoded
    characters and the rest of the input after the closing quote.  Raw control
    characters (< 0x20) are rejected, as RFC 8259 requires. -/
def parseStrBody (fuel : Nat) (inp : List Char) (acc : List Char) : Option (List Char × List Char) :=
  match fuel with
  | 0 => none
  | fuel + 1 =>
    match inp with
    | [] => none
    | '"' :: rest => some (acc.reverse, rest)
    | '\\' :: 'u' :: a :: b :: c :: d :: rest =>
      match hex4 a b c d with
      | none => none
      | some hi =>
        if 0xD800 ≤ hi ∧ hi ≤ 0xDBFF then
          match rest with
          | '\\' :: 'u' :: a' :: b' :: c' :: d' :: rest' =>
            match hex4 a' b' c' d' with
            | some lo =>
              if 0xDC00 ≤ lo ∧ lo ≤ 0xDFFF then
                parseStrBody fuel rest' (Char.ofNat (0x10000 + (hi - 0xD800) * 0x400 + (lo - 0xDC00)) :: acc)
              else none
            | none => none
          | _ => none
        else if 0xDC00 ≤ hi ∧ hi ≤ 0xDFFF then none
        else parseStrBody fuel rest (Char.ofNat hi :: acc)
    | '\\' :: c :: rest =>
      match c with
      | '"' => parseStrBody fuel rest ('"' :: acc)
      | '\\' => parseStrBody fuel rest ('\\' :: acc)
      | '/' => parseStrBody fuel rest ('/' :: acc)
      | 'b' => parseStrBody fuel rest (Char.ofNat 8 :: acc)
      | 'f' => parseStrBody fuel rest (Char.ofNat 12 :: acc)
      | 'n' => parseStrBody fuel rest ('\n' :: acc)
      | 'r' => parseStrBody fuel rest ('\r' :: acc)
      | 't' => parseStrBody fuel rest ('\t' :: acc)
      | _ => none
    | c :: rest => if c.toNat < 0x20 then none else parseStrBody fuel rest (c :: acc)

def isDigit (c : Char) : Bool := '0' ≤ c && c ≤ '9'

def takeDigits : List Char → List Char × List Char
  | [] => ([], [])
  | c :: cs => if isDigit c then let (d, r) := takeDigits cs; (c :: d, r) else ([], c :: cs)

theorem takeDigits_length (l : List Char) : (takeDigits l).2.length ≤ l.length := by
  induction l with
  | nil => simp [takeDigits]
  | cons c cs ih => simp only [takeDigits]; split <;> simp <;> omega

def digitsToNat (ds : List Char) : Nat := ds.foldl (fun n c => n * 10 + (c.toNat - '0'.toNat)) 0

/-- Number literal: `-? int frac? exp?`.  Leading zeros are rejected as in RFC 8259. -/
def parseNumber (inp : List Char) : Option (Json × List Char) :=
  let (neg, r0) := match inp with
    | '-' :: r => (true, r)
    | r => (false, r)
  let (ds, r1) := takeDigits r0
  if ds.isEmpty then none
  else if ds.length > 1 ∧ ds.head? = some '0' then none
  else
    let (frac, r2) : (List Char × List Char) := match r1 with
      | '.' :: r => let (f, r') := takeDigits r; ('.' :: f, r')
      | r => ([], r)
    if frac.length = 1 then none else
    let (ex, r3) : (List Char × List Char) := match r2 with
      | e :: r =>
        if e = 'e' ∨ e = 'E' then
          let (sgn, r') : (List Char × List Char) := match r with
            | '+' :: r' => (['+'], r')
            | '-' :: r' => (['-'], r')
            | r' => ([], r')
          let (d, r'') := takeDigits r'
          if d.isEmpty then ([e], e :: r) else (e :: sgn ++ d, r'')
        else ([], r2)
      | [] => ([], [])
    if ex.length = 1 then none else
    if frac.isEmpty ∧ ex.isEmpty then
      let n : Int := digitsToNat ds
      some (Json.num (if neg then -n else n), r3)
    else
      some (Json.flt (String.ofList ((if neg then ['-'] else []) ++ ds ++ frac ++ ex)), r3)

/-- serde_json keeps one value per key: a later duplicate replaces the value of
    the earlier one (at the earlier position). -/
def insertKey (acc : List (String × Json)) (k : String) (v : Json) : List (String × Json) :=
  match acc with
  | [] => [(k, v)]
  | (k', v') :: rest => if k' == k then (k', v) :: rest else (k', v') :: insertKey rest k v

def dedupKeys (kvs : List (String × Json)) : List (String × Json) :=
  kvs.foldl (fun acc kv => insertKey acc kv.1 kv.2) []

mutual
  /-- Parse one value.  `fuel` bounds recursion depth + length; `parse` supplies
      enough for any input. -/
  def parseValue (fuel : Nat) (inp : List Char) : Option (Json × List Char) :=
    match fuel with
    | 0 => none
    | fuel + 1 =>
      match skipWs inp with
      | [] => none
      | 'n' :: 'u' :: 'l' :: 'l' :: r => some (Json.null, r)
      | 't' :: 'r' :: 'u' :: 'e' :: r => some (Json.bool true, r)
      | 'f' :: 'a' :: 'l' :: 's' :: 'e' :: r => some (Json.bool false, r)
      | '"' :: r =>
        match parseStrBody (r.length + 1) r [] with
        | some (s, r') => some (Json.str (String.ofList s), r')
        | none => none
      | '[' :: r =>
        match skipWs r with
        | ']' :: r' => some (Json.arr [], r')
        | _ => parseElems fuel r []
      | '{' :: r =>
        match skipWs r with
        | '}' :: r' => some (Json.obj [], r')
        | _ => parseMembers fuel r []
      | c :: r => if c = '-' ∨ isDigit c then parseNumber (c :: r) else none

  def parseElems (fuel : Nat) (inp : List Char) (acc : List Json) : Option (Json × List Char) :=
    match fuel with
    | 0 => none
    | fuel + 1 =>
      match parseValue fuel inp with
      | none => none
      | some (v, r) =>
        match skipWs r with
        | ',' :: r' => parseElems fuel r' (v :: acc)
        | ']' :: r' => some (Json.arr (v :: acc).reverse, r')
        | _ => none

  def parseMembers (fuel : Nat) (inp : List Char) (acc : List (String × Json)) : Option (Json × List Char) :=
    match fuel with
    | 0 => none
    | fuel + 1 =>
      match skipWs inp with
      | '"' :: r =>
        match parseStrBody (r.length + 1) r [] with
        | none => none
        | some (k, r1) =>
          match skipWs r1 with
          | ':' :: r2 =>
            match parseValue fuel r2 with
            | none => none
            | some (v, r3) =>
              match skipWs r3 with
              | ',' :: r4 => parseMembers fuel r4 ((String.ofList k, v) :: acc)
              | '}' :: r4 => some (Json.obj (dedupKeys ((String.ofList k, v) :: acc).reverse), r4)
              | _ => none
          | _ => none
      | _ => none
end

/-- Parse a complete document (trailing whitespace allowed, nothing else). -/
def parse (inp : List Char) : Option Json :=
  match parseValue (2 * inp.length + 2) inp with
  | some (v, r) => if (skipWs r).isEmpty then some v else none
  | none => none

def parseString (s : String) : Option Json := parse s.toList

/-! ### Printer -/

def hexDigit (n : Nat) : Char :=
  if n < 10 then Char.ofNat ('0'.toNat + n) else Char.ofNat ('a'.toNat + (n - 10))

/-- Minimal escaping (what `serde_json` does): `"` `\\` and control characters. -/
def escapeChar (c : Char) : List Char :=
  if c = '"' then ['\\', '"']
  else if c = '\\' then ['\\', '\\']
  else if c = '\n' then ['\\', 'n']
  else if c = '\r' then ['\\', 'r']
  else if c = '\t' then ['\\', 't']
  else if c.toNat = 8 then ['\\', 'b']
  else if c.toNat = 12 then ['\\', 'f']
  else if c.toNat < 0x20 then
    ['\\', 'u', '0', '0', hexDigit (c.toNat / 16), hexDigit (c.toNat % 16)]
  else [c]

def escapeChars (s : List Char) : List Char := s.flatMap escapeChar

def quote (s : String) : String := String.ofList ('"' :: escapeChars s.toList ++ ['"'])

mutual
  def render : Json → String
    | .null => "null"
    | .bool true => "true"
    | .bool false => "false"
    | .num n => toString n
    | .flt raw => raw
    | .str s => quote s
    | .arr xs => "[" ++ renderList xs true ++ "]"
    | .obj kvs => "{" ++ renderMembers kvs true ++ "}"
  def renderList : List Json → Bool → String
    | [], _ => ""
    | x :: xs, first => (if first then "" else ",") ++ render x ++ renderList xs false
  def renderMembers : List (String × Json) → Bool → String
    | [], _ => ""
    | (k, v) :: kvs, first =>
      (if first then "" else ",") ++ quote k ++ ":" ++ render v ++ renderMembers kvs false
end

/-! ### Accessors -/

def get? (j : Json) (k : String) : Option Json :=
  match j with
  | .obj kvs => (kvs.find? (fun kv => kv.1 == k)).map (·.2)
  | _ => none

def asStr? : Json → Option String
  | .str s => some s
  | _ => none

def asInt? : Json → Option Int
  | .num n => some n
  | _ => none

def asArr? : Json → Option (List Json)
  | .arr xs => some xs
  | _ => none

def asObj? : Json → Option (List (String × Json))
  | .obj kvs => some kvs
  | _ => none

def asBool? : Json → Option Bool
  | .bool b => some b
  | _ => none

def ofStrs (l : List String) : Json := .arr (l.map .str)

end Json
end Ink
