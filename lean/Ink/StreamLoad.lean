/-
  Ink/StreamLoad.lean — model of the streaming story loader (feature `stream-json-parser`):
    runtime/src/json/json_tokenizer.rs   (whole file: whitespace, numbers, literals, structural
                                          tokens, depth limit, every rejection)
    runtime/src/json/json_read_stream.rs (load_from_string and everything below it)
  as total functions over `List Char`, producing the result type of Ink/Load.lean
  (`Out Load.Loaded`), so that the two loaders can be compared with `=`.

  Representation of the tokenizer state.  The Rust tokenizer holds `json` (the unread bytes),
  `lookahead : Option<char>`, `skip_whitespaces` and `depth`.
   * The input is a `&str`, hence valid UTF-8: `read_utf8_char` returns exactly the next `char`
     and its "Invalid UTF-8 sequence" rejection is unreachable; the model reads `Char`s.
   * `Tok.inp` is `lookahead ++ json` (the characters not yet *consumed*).  A `peek` made with
     `skip_whitespaces = true` really drops the whitespace it skips from `json`, hence the model's
     `peek` returns the state whose input is `c :: rest`.  The lookahead is always a character
     that is not whitespace (it is either peeked in skipping mode, or it is a separator `,` `}` `]`
     peeked by `next_is_separator`), so that reading it later in either mode gives the same result
     as reading it from the list.
   * `skip_whitespaces` is `true` except inside `read_string_content` and `read_until_separator`,
     which restore it before they return; the two modes are the two readers `readSkip` / raw
     pattern matching.
  All `io::Error`s become `StoryError::BadJson` (`From<io::Error>`): `.err "BadJson" _` here.
  There is no `unwrap`/index on these paths, hence no `panic` outcome; `.err "Fuel" _` is the
  model's own "out of fuel" (never produced with the fuel `load` supplies — checked on the corpus).
  Core Lean only.
-/
import Ink.Json
import Ink.Value
import Ink.Load
import Ink.Stream

namespace Ink
namespace StreamLoad

/-! ## json_tokenizer.rs -/

/-- `enum Number` -/
inductive Number where
  | int (n : Int)          -- an `i32`
  | float (f : Float32)
  deriving Repr, Inhabited

/-- `enum JsonValue` -/
inductive JsonValue where
  | array
  | object
  | string (s : String)
  | number (n : Number)
  | boolean (b : Bool)
  | null
  deriving Repr, Inhabited

def Number.asInteger : Number → Option Int
  | .int n => some n
  | .float _ => none

def JsonValue.asStr : JsonValue → Option String
  | .string s => some s
  | _ => none

def JsonValue.asInteger : JsonValue → Option Int
  | .number n => n.asInteger
  | _ => none

def JsonValue.isArray : JsonValue → Bool
  | .array => true
  | _ => false

def JsonValue.isObject : JsonValue → Bool
  | .object => true
  | _ => false

/-- `MAX_DEPTH` -/
def maxDepth : Nat := 127

/-- `is_json_whitespace` -/
def isJsonWhitespace (c : Char) : Bool := c = ' ' || c = '\t' || c = '\n' || c = '\r'

/-- `u8::is_ascii_digit` (on the bytes of the text; a byte of a non-ASCII char is never a digit) -/
def isAsciiDigit (c : Char) : Bool := '0' ≤ c && c ≤ '9'

/-- `digits` inside `is_json_number` -/
def digits (s : List Char) : Nat := (s.takeWhile isAsciiDigit).length

/-- Integer part: a single 0, or digits that do not start with a 0.  `none` = `return false`. -/
def intPart (s : List Char) : Option (List Char) :=
  match s.head?, digits s with
  | _, 0 => none
  | some '0', _ => some (s.drop 1)
  | _, n => some (s.drop n)

def fracPart (s : List Char) : Option (List Char) :=
  match s with
  | '.' :: rest =>
    match digits rest with
    | 0 => none
    | n => some (rest.drop n)
  | _ => some s

/-- `[b'+' | b'-', rest @ ..] => rest, _ => rest` -/
def stripSign (rest : List Char) : List Char :=
  match rest with
  | '+' :: r => r
  | '-' :: r => r
  | r => r

def expPart (s : List Char) : Option (List Char) :=
  match s with
  | e :: rest =>
    if e = 'e' ∨ e = 'E' then
      let rest := stripSign rest
      match digits rest with
      | 0 => none
      | n => some (rest.drop n)
    else some s
  | [] => some s

/-- `if let [b'-', rest @ ..] = s { s = rest }` -/
def stripMinus (s : List Char) : List Char :=
  match s with
  | '-' :: rest => rest
  | s => s

/-- `is_json_number` -/
def isJsonNumber (s : List Char) : Bool :=
  let s := stripMinus s
  match intPart s with
  | none => false
  | some s =>
    match fracPart s with
    | none => false
    | some s =>
      match expPart s with
      | none => false
      | some s => s.isEmpty

/-- The tokenizer: `inp = lookahead ++ json`, and `depth`. -/
structure Tok where
  inp : List Char
  depth : Nat
  deriving Repr, Inhabited

/-- State-and-failure monad of the tokenizer (`&mut self` + `io::Result` / `Result<_, StoryError>`). -/
abbrev TokM (α : Type) : Type := Tok → Out (α × Tok)

@[inline] def TokM.pure {α : Type} (a : α) : TokM α := fun t => .ok (a, t)

@[inline] def TokM.bind {α β : Type} (x : TokM α) (f : α → TokM β) : TokM β := fun t =>
  match x t with
  | .ok (a, t') => f a t'
  | .err k m => .err k m
  | .panic s => .panic s

instance : Monad TokM where
  pure := TokM.pure
  bind := TokM.bind

def fail {α : Type} (m : String) : TokM α := fun _ => .badJson m

def outOfFuel {α : Type} : TokM α := fun _ => .err "Fuel" "stream loader fuel"

/-- The `io::ErrorKind::UnexpectedEof` message of `read_exact`. -/
def eofMsg : String := "failed to fill whole buffer"

/-- `read_no_lookahead` with `skip_whitespaces = true`, applied to `lookahead ++ json`
    (the lookahead is never whitespace): the loop `read_utf8_char` until not whitespace. -/
def readSkip : List Char → Option (Char × List Char)
  | [] => none
  | c :: r => if isJsonWhitespace c then readSkip r else some (c, r)

/-- `peek` (skipping mode). -/
def peek : TokM Char := fun t =>
  match readSkip t.inp with
  | none => .badJson eofMsg
  | some (c, r) => .ok (c, { t with inp := c :: r })

/-- `read` (skipping mode). -/
def read : TokM Char := fun t =>
  match readSkip t.inp with
  | none => .badJson eofMsg
  | some (c, r) => .ok (c, { t with inp := r })

/-- `enter` -/
def enter : TokM Unit := fun t =>
  if t.depth ≥ maxDepth then .badJson "Recursion limit exceeded"
  else .ok ((), { t with depth := t.depth + 1 })

/-- `expect` -/
def expect (c : Char) : TokM Unit := fun t =>
  match readSkip t.inp with
  | none => .badJson ("Expected '" ++ c.toString ++ "', found the end of the document")
  | some (c2, r) =>
    if c2 ≠ c then .badJson ("Expected '" ++ c.toString ++ "', found '" ++ c2.toString ++ "'")
    else
      let t' : Tok := { t with inp := r }
      if c = '[' ∨ c = '{' then enter t'
      else if c = ']' ∨ c = '}' then .ok ((), { t' with depth := t'.depth - 1 })   -- saturating_sub
      else .ok ((), t')

/-- `next_is_separator` + `read` loop of `read_until_separator` (raw mode): the characters up to
    the first `,` `}` `]` or the end of the input (`peek` error = separator). -/
def untilSep : List Char → List Char × List Char
  | [] => ([], [])
  | c :: r =>
    if c = ',' ∨ c = '}' ∨ c = ']' then ([], c :: r)
    else let (s, r') := untilSep r; (c :: s, r')

/-- `read_until_separator` -/
def readUntilSeparator : TokM (List Char) := fun t =>
  let (s, r) := untilSep t.inp
  .ok (s, { t with inp := r })

/-- `str::trim_matches(is_json_whitespace)` -/
def trim (s : List Char) : List Char :=
  ((s.dropWhile isJsonWhitespace).reverse.dropWhile isJsonWhitespace).reverse

/-- `read_boolean` -/
def readBoolean : TokM Bool := do
  let s ← readUntilSeparator
  let s := trim s
  if s = "true".toList then pure true
  else if s = "false".toList then pure false
  else fail "Invalid boolean format"

/-- `read_null` -/
def readNull : TokM Unit := do
  let s ← readUntilSeparator
  if trim s = "null".toList then pure () else fail "Invalid null format"

/-- `str::parse::<f64>` of a text accepted by `is_json_number` (correctly rounded decimal to
    binary64).  Same computation as `Load.floatOfRaw` before its final `as f32`. -/
def f64OfText (cs : List Char) : Float :=
  let (neg, cs) := match cs with
    | '-' :: r => (true, r)
    | r => (false, r)
  let (ip, r1) := Json.takeDigits cs
  let (fp, r2) : (List Char × List Char) := match r1 with
    | '.' :: r => Json.takeDigits r
    | r => ([], r)
  let (eneg, ed) : (Bool × List Char) := match r2 with
    | _ :: '-' :: r => (true, (Json.takeDigits r).1)
    | _ :: '+' :: r => (false, (Json.takeDigits r).1)
    | _ :: r => (false, (Json.takeDigits r).1)
    | [] => (false, [])
  let m := Json.digitsToNat (ip ++ fp)
  let e : Int := (if eneg then -(Json.digitsToNat ed : Int) else (Json.digitsToNat ed : Int)) - fp.length
  let f : Float := if e < 0 then Float.ofScientific m true e.natAbs else Float.ofScientific m false e.natAbs
  if neg then -f else f

/-- The part of `read_number` after the `is_json_number` check: `s` is the trimmed text. -/
def classifyNumber (s : List Char) : Out Number :=
  let toFloat : Out Number :=
    let f := f64OfText s
    if f.isFinite then .ok (.float f.toFloat32)
    else .badJson ("Number out of range: '" ++ String.ofList s ++ "'")
  if !(s.any (fun c => c = '.' || c = 'e' || c = 'E')) then
    -- `parse::<i32>` / `parse::<i64>` of `-?digits`
    let neg := s.head? = some '-'
    let ds := if neg then s.drop 1 else s
    let n : Int := Json.digitsToNat ds
    let v : Int := if neg then -n else n
    if inI32 v then
      if v = 0 ∧ neg then toFloat          -- "-0" is a float
      else .ok (.int v)
    else if inI64 v then .badJson ("Integer out of the 32 bit range: '" ++ String.ofList s ++ "'")
    else toFloat
  else toFloat

/-- `read_number` -/
def readNumber : TokM Number := fun t =>
  let (raw, r) := untilSep t.inp
  let s := trim raw
  if !isJsonNumber s then .badJson ("Invalid number format: '" ++ String.ofList s ++ "'")
  else match classifyNumber s with
    | .ok n => .ok (n, { t with inp := r })
    | .err k m => .err k m
    | .panic p => .panic p

/-- `read_string`: `expect('"')`, then `read_string_content` in raw mode (`Stream.readStringContent`,
    whose fuel — one unit per loop iteration — cannot run out: each iteration reads a character). -/
def readString : TokM String := fun t =>
  match expect '"' t with
  | .ok (_, t1) =>
    match Stream.readStringContent (t1.inp.length + 1) t1.inp [] with
    | some (s, r) => .ok (String.ofList s, { t1 with inp := r })
    | none => .badJson "Invalid string"
  | .err k m => .err k m
  | .panic p => .panic p

/-- `read_obj_key`: the result of `read_string` is returned after `expect(':')`; whichever of the
    two fails, the outcome is a `BadJson`. -/
def readObjKey : TokM String := do
  let s ← readString
  expect ':'
  pure s

/-- `expect_obj_key` -/
def expectObjKey (expected : String) : TokM Unit := do
  let s ← readString
  if s != expected then fail ("Expected '" ++ expected ++ "', found '" ++ s ++ "'")
  else expect ':'

/-- `expect_comma_unless` -/
def expectCommaUnless (close : Char) : TokM Unit := do
  let c ← peek
  if c ≠ close then do
    expect ','
    let c' ← peek
    if c' = close then fail ("Trailing comma before '" ++ close.toString ++ "'") else pure ()
  else pure ()

/-- `expect_end` -/
def expectEnd : TokM Unit := fun t =>
  match readSkip t.inp with
  | some (c, _) => .badJson ("Trailing character '" ++ c.toString ++ "' after the document")
  | none => .ok ((), { t with inp := [] })

/-- `read_value` -/
def readValue : TokM JsonValue := do
  let c ← peek
  if c = '[' then do expect '['; pure .array
  else if c = '{' then do expect '{'; pure .object
  else if c = '"' then do let s ← readString; pure (.string s)
  else if c = 't' ∨ c = 'f' then do let b ← readBoolean; pure (.boolean b)
  else if c = 'n' then do readNull; pure .null
  else do let n ← readNumber; pure (.number n)

/-! ## json_read_stream.rs -/

def badJsonWhat (what : String) : String := "Unexpected value for " ++ what

def expectStr (v : JsonValue) (what : String) : TokM String :=
  match v.asStr with
  | some s => pure s
  | none => fail (badJsonWhat what)

def expectI32 (v : JsonValue) (what : String) : TokM Int :=
  match v.asInteger with
  | some n => pure n
  | none => fail (badJsonWhat what)

/-- `usize::try_from(i32)` -/
def expectUsize (v : JsonValue) (what : String) : TokM Nat :=
  match v.asInteger with
  | some n => if 0 ≤ n then pure n.toNat else fail (badJsonWhat what)
  | none => fail (badJsonWhat what)

/-- `enum ArrayElement` -/
inductive Elem where
  | obj (o : Obj)
  | last (flags : Int) (name : Option String) (named : List (String × Obj))
  | null
  deriving Inhabited

/-- `HashMap::insert`: replaces the value of an existing key (association list in the order of
    first insertion, as `Json.insertKey` for the maps of the default loader). -/
def insertKV {β : Type} (acc : List (String × β)) (k : String) (v : β) : List (String × β) :=
  match acc with
  | [] => [(k, v)]
  | (k', v') :: rest => if k' == k then (k', v) :: rest else (k', v') :: insertKV rest k v

/-- The `JsonValue::String` arm of `jtoken_to_runtime_object`. -/
def stringToObj (s : String) : Out Obj :=
  match s.toList with
  | [] => .badJson (badJsonWhat "a content string (empty)")
  | c :: rest =>
    if c = '^' then .ok (Load.mkStr (String.ofList rest))
    else if s == "\n" then .ok (Load.mkStr "\n")
    else if s == "<>" then .ok .glue
    else match Cmd.ofName s with
      | some c => .ok (.cmd c)
      | none =>
        let callStr := if s == "L^" then "^" else s
        match Op.ofName callStr with
        | some op => .ok (.native op)
        | none =>
          if s == "void" then .ok .void
          else .badJson ("Failed to convert token to runtime RTObject: " ++ s)

/-- `parse_list`, the loop: `acc` is the `HashMap<String, i32>`. -/
def parseListLoop (fuel : Nat) (acc : List (String × Int)) : TokM (List (String × Int)) :=
  match fuel with
  | 0 => outOfFuel
  | fuel + 1 => do
    let c ← peek
    if c ≠ '}' then do
      let key ← readObjKey
      let v ← readValue
      let n ← expectI32 v "a list item value"
      expectCommaUnless '}'
      parseListLoop fuel (insertKV acc key n)
    else do
      expect '}'
      pure acc

/-- `parse_list` (each iteration consumes at least the key's quote). -/
def parseList : TokM (List (String × Int)) := fun t => parseListLoop (t.inp.length + 1) [] t

/-- `jarray_to_strings`, the loop. -/
def stringsLoop (fuel : Nat) (whatItem : String) (acc : List String) : TokM (List String) :=
  match fuel with
  | 0 => outOfFuel
  | fuel + 1 => do
    let c ← peek
    if c ≠ ']' then do
      let v ← readValue
      let s ← expectStr v whatItem
      expectCommaUnless ']'
      stringsLoop fuel whatItem (acc ++ [s])
    else do
      expect ']'
      pure acc

/-- `jarray_to_strings` -/
def arrayToStrings (value : JsonValue) (what whatItem : String) : TokM (List String) :=
  if !value.isArray then fail (badJsonWhat what)
  else fun t => stringsLoop (t.inp.length + 1) whatItem [] t

/-- The `while tok.peek()? == ','` loop of a divert object:
    state = (var_divert_name set?, conditional, external_args). -/
def divertLoop (fuel : Nat) (ext : Bool) (isVar cond : Bool) (exArgs : Nat) : TokM (Bool × Bool × Nat) :=
  match fuel with
  | 0 => outOfFuel
  | fuel + 1 => do
    let c ← peek
    if c = ',' then do
      expect ','
      let prop ← readObjKey
      let pv ← readValue
      if prop == "var" then divertLoop fuel ext true cond exArgs
      else if prop == "c" then divertLoop fuel ext isVar true exArgs
      else if prop == "exArgs" && ext then do
        let n ← expectUsize pv "exArgs"
        divertLoop fuel ext isVar cond n
      else divertLoop fuel ext isVar cond exArgs
    else pure (isVar, cond, exArgs)

/-- The fields of a choice read so far. -/
structure ChoiceAcc where
  text : Option String := none
  index : Option Nat := none
  originalThreadIndex : Option Nat := none
  targetPath : Option String := none
  tags : List String := []
  isInvisibleDefault : Bool := false

/-- The loop of `jobject_to_choice`. -/
def choiceLoop (fuel : Nat) (a : ChoiceAcc) : TokM ChoiceAcc :=
  match fuel with
  | 0 => outOfFuel
  | fuel + 1 => do
    let c ← peek
    if c = ',' then do
      expect ','
      let prop ← readObjKey
      let pv ← readValue
      if prop == "text" then do
        let s ← expectStr pv "text"; choiceLoop fuel { a with text := some s }
      else if prop == "index" then do
        let n ← expectUsize pv "index"; choiceLoop fuel { a with index := some n }
      else if prop == "originalThreadIndex" then do
        let n ← expectUsize pv "originalThreadIndex"; choiceLoop fuel { a with originalThreadIndex := some n }
      else if prop == "targetPath" then do
        let s ← expectStr pv "targetPath"; choiceLoop fuel { a with targetPath := some s }
      else if prop == "tags" then do
        let ts ← arrayToStrings pv "tags" "a tag"; choiceLoop fuel { a with tags := ts }
      else if prop == "isInvisibleDefault" then
        choiceLoop fuel { a with isInvisibleDefault := (match pv with | .boolean true => true | _ => false) }
      else choiceLoop fuel a
    else pure a

/-- `jobject_to_choice`.  The content tree of the model has no `Choice` object (it occurs in saved
    states only): where Rust returns the choice the model answers `Unsupported`, as `Load.tokenToObj`. -/
def objectToChoice (sourcePath : JsonValue) : TokM Obj := do
  let _ ← expectStr sourcePath "originalChoicePath"
  let a ← (fun t => choiceLoop (t.inp.length + 1) {} t)
  expect '}'
  match a.targetPath with
  | none => fail (badJsonWhat "targetPath")
  | some _ =>
  match a.text with
  | none => fail (badJsonWhat "text")
  | some _ =>
  match a.index with
  | none => fail (badJsonWhat "index")
  | some _ =>
  match a.originalThreadIndex with
  | none => fail (badJsonWhat "originalThreadIndex")
  | some _ => fun _ => .err "Unsupported" "choice object in content"

/-- The four divert keys: (pushes_to_stack, div_push_type, external). -/
def divertKind (prop : String) : Option (Bool × PushPop × Bool) :=
  if prop == "->" then some (false, .function, false)
  else if prop == "f()" then some (true, .function, false)
  else if prop == "->t->" then some (true, .tunnel, false)
  else if prop == "x()" then some (false, .function, true)
  else none

/-- The object kinds that do not contain nested content (`None` = not one of them): everything of
    the `JsonValue::Object` arm between the first member and the "Last Element" loop. -/
def simpleObject (prop : String) (pv : JsonValue) : Option (TokM Obj) :=
  if prop == "^->" then some do
    expect '}'
    pure (.val (.dtarget (match pv.asStr with
      | some s => Path.parse s.toList
      | none => Path.empty)))
  else if prop == "^var" then some do
    let vn ← expectStr pv "^var"
    let c ← peek
    let ci ← (if c = ',' then do
        expect ','
        expectObjKey "ci"
        let v ← readValue
        expectI32 v "ci"
      else pure (-1 : Int))
    expect '}'
    pure (.val (.varptr vn ci))
  else match divertKind prop with
  | some (pushes, ptype, ext) => some do
    let target ← expectStr pv "a divert target"
    let (isVar, cond, exArgs) ← (fun t => divertLoop (t.inp.length + 1) ext false false 0 t)
    expect '}'
    pure (.divert { pushes := pushes, pushType := ptype, external := ext, exArgs := exArgs,
                    conditional := cond,
                    varName := if isVar then some target else none,
                    target := if isVar then none else some (Path.parse target.toList) })
  | none =>
  if prop == "*" then some do
    let ps ← expectStr pv "a choice point path"
    let c ← peek
    let flags ← (if c = ',' then do
        expect ','
        expectObjKey "flg"
        let v ← readValue
        let n ← expectUsize v "flg"
        pure (n : Int)
      else pure (0 : Int))
    expect '}'
    pure (.choicePoint flags (Path.parse ps.toList))
  else if prop == "VAR?" then some do
    expect '}'
    let s ← expectStr pv "VAR?"
    pure (.varRef s none)
  else if prop == "CNT?" then some do
    expect '}'
    let s ← expectStr pv "CNT?"
    pure (.varRef "" (some (Path.parse s.toList)))
  else if prop == "VAR=" || prop == "temp=" then some do
    let isGlobal := prop == "VAR="
    let vn ← expectStr pv "a variable name"
    let c ← peek
    let isNew ← (if c = ',' then do
        expect ','
        expectObjKey "re"
        let _ ← readValue
        pure false
      else pure true)
    expect '}'
    pure (.varAss vn isNew isGlobal)
  else if prop == "#" then some do
    expect '}'
    let s ← expectStr pv "#"
    pure (.tag s)
  else if prop == "list" && pv.isObject then some do
    let content ← parseList
    let c ← peek
    let names ← (if c = ',' then do
        expect ','
        expectObjKey "origins"
        let origins ← readValue
        arrayToStrings origins "origins" "an origin name"
      else pure [])
    expect '}'
    -- `raw_list.items.insert(InkListItem::from_full_name(k), v)`, a `HashMap`: the model keeps
    -- the members in the order of the text, as `Load.tokenToObj` does
    pure (.val (.list { items := content.map (fun kv => (ListItem.ofFullName kv.1, kv.2)),
                        origins := [], initialOrigins := names }))
  else if prop == "originalChoicePath" && !pv.isArray then some (objectToChoice pv)
  else none

mutual
  /-- `jtoken_to_runtime_object` -/
  def tokenToObj (fuel : Nat) (value : JsonValue) (name : Option String) : TokM Elem :=
    match fuel with
    | 0 => outOfFuel
    | fuel + 1 =>
    match value with
    | .null => pure .null
    | .boolean b => pure (.obj (.val (.bool b)))
    | .number (.int n) => pure (.obj (.val (.int n)))
    | .number (.float f) => pure (.obj (.val (.float f)))
    | .string s => fun t =>
      match stringToObj s with
      | .ok o => .ok (.obj o, t)
      | .err k m => .err k m
      | .panic p => .panic p
    | .array => do
      let o ← arrayToContainer fuel name
      pure (.obj o)
    | .object => do
      let c ← peek
      -- An empty object can only be the last element of a container
      if c = '}' then do
        expect '}'
        pure (.last 0 none [])
      else do
        let prop ← readObjKey
        let pv ← readValue
        match simpleObject prop pv with
        | some m => do let o ← m; pure (.obj o)
        | none => lastLoop fuel prop pv 0 none [] prop

  /-- The "Last Element" `loop` (`p`, `pv` = current member; `prop` = first key, for the message). -/
  def lastLoop (fuel : Nat) (p : String) (pv : JsonValue) (flags : Int) (name : Option String)
      (named : List (String × Obj)) (prop : String) : TokM Elem :=
    match fuel with
    | 0 => outOfFuel
    | fuel + 1 => do
      let (flags, name, named) ← (
        if p == "#f" then do
          let f ← expectI32 pv "#f"
          pure (f, name, named)
        else if p == "#n" then do
          let s ← expectStr pv "#n"
          pure (flags, some s, named)
        else do
          let e ← tokenToObj fuel pv (some p)
          match e with
          | .obj o =>
            if o.isContainer then pure (flags, name, insertKV named p o)
            else fail (badJsonWhat "named content (not a container)")
          | _ => fail (badJsonWhat "named content (not a container)")
        : TokM (Int × Option String × List (String × Obj)))
      let c ← peek
      if c = ',' then do
        expect ','
        let p' ← readObjKey
        let pv' ← readValue
        lastLoop fuel p' pv' flags name named prop
      else if c = '}' then do
        expect '}'
        pure (.last flags name named)
      else fail ("Failed to convert token to runtime RTObject: " ++ prop)

  /-- `jarray_to_container` -/
  def arrayToContainer (fuel : Nat) (name : Option String) : TokM Obj :=
    match fuel with
    | 0 => outOfFuel
    | fuel + 1 => do
      let c ← peek
      if c = ']' then fail (badJsonWhat "a container (empty array)")
      else do
        let (content, last) ← objListLoop fuel []
        match last with
        | some (.last f n named) =>
          pure (.container (match n with | some n => some n | none => name) f content named)
        | _ => pure (.container name 0 content [])

  /-- The `while` loop of `jarray_to_runtime_obj_list` and the final `expect(']')`. -/
  def objListLoop (fuel : Nat) (list : List Obj) : TokM (List Obj × Option Elem) :=
    match fuel with
    | 0 => outOfFuel
    | fuel + 1 => do
      let c ← peek
      if c ≠ ']' then do
        let val ← readValue
        let isArray := val.isArray
        let isObject := val.isObject
        let c1 ← peek
        -- the final element, when it is neither an array nor an object, is left out unseen
        if !isArray && !isObject && c1 = ']' then do
          expect ']'
          pure (list, none)
        else do
          let e ← tokenToObj fuel val none
          match e with
          | .last f n named => do
            expect ']'
            pure (list, some (.last f n named))
          | .obj o => do
            let c2 ← peek
            if c2 ≠ ']' then do
              expectCommaUnless ']'
              objListLoop fuel (list ++ [o])
            else if isObject then fail (badJsonWhat "the final object of a container")
            else do
              -- a final array: built, then dropped
              expectCommaUnless ']'
              objListLoop fuel list
          | .null => fail "Only the last element can be null"
      else do
        expect ']'
        pure (list, none)
end

/-- The loop of `jtoken_to_list_definitions` (`all_defs` is a `Vec`: `push`). -/
def listDefsLoop (fuel : Nat) (acc : ListDefs) : TokM ListDefs :=
  match fuel with
  | 0 => outOfFuel
  | fuel + 1 => do
    let c ← peek
    if c ≠ '}' then do
      let name ← readObjKey
      expect '{'
      let items ← parseList
      expectCommaUnless '}'
      listDefsLoop fuel (acc ++ [(name, items)])
    else do
      expect '}'
      pure acc

/-- `jtoken_to_list_definitions` -/
def listDefinitions : TokM ListDefs := do
  expect '{'
  fun t => listDefsLoop (t.inp.length + 1) [] t

def versionMsg : String := "ink version number not found. Are you sure it's a valid .ink.json file?"

/-- `parse` -/
def parse (fuel : Nat) : TokM Load.Loaded := do
  expect '{'
  let versionKey ← readObjKey
  if versionKey != "inkVersion" then fail versionMsg
  else do
  let v ← readValue
  match v with
  | .number n =>
    match n.asInteger with
    | none => fail (badJsonWhat "inkVersion")
    | some version =>
      if version > Load.inkVersionCurrent then
        fail "Version of ink used to build story was newer than the current version of the engine"
      else if version < Load.inkVersionMinimum then
        fail "Version of ink used to build story is too old to be loaded by this version of the engine"
      else do
        expect ','
        let rootKey ← readObjKey
        if rootKey != "root" then
          fail "Root node for ink not found. Are you sure it's a valid .ink.json file?"
        else do
        let rootValue ← readValue
        let e ← tokenToObj fuel rootValue none
        match e with
        | .obj o =>
          if !o.isContainer then fail "Root node for ink is not a container?"
          else do
            expect ','
            let listDefsKey ← readObjKey
            if listDefsKey != "listDefs" then
              fail "List Definitions node for ink not found. Are you sure it's a valid .ink.json file?"
            else do
            let defs ← listDefinitions
            expect '}'
            expectEnd
            pure { version := version, root := o, listDefs := defs }
        | _ => fail "Root node for ink is not a container?"
  | _ => fail versionMsg

/-- `load_from_string` with explicit fuel. -/
def loadWith (fuel : Nat) (text : List Char) : Out Load.Loaded :=
  match parse fuel { inp := text, depth := 0 } with
  | .ok (ld, _) => .ok ld
  | .err k m => .err k m
  | .panic p => .panic p

/-- `load_from_string`: every recursive call of the mutual block follows the consumption of at
    least one character, and each spends at most 4 units of fuel. -/
def load (text : List Char) : Out Load.Loaded := loadWith (4 * text.length + 16) text

end StreamLoad
end Ink
