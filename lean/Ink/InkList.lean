/-
  Ink/InkList.lean — model of runtime/src/ink_list.rs, list_definition.rs and
  list_definitions_origin.rs.  The `HashMap<InkListItem,i32>` of a list is an
  association list (keys unique); its order stands for the arbitrary hash
  iteration order and is an *input* of every function here (C03 proves the
  results do not depend on it).
-/
import Ink.Value

namespace Ink

/-- Comparison of optional strings as Rust's `Option<&String>::cmp` (None first). -/
def optStrLt : Option String → Option String → Bool
  | none, none => false
  | none, some _ => true
  | some _, none => false
  | some a, some b => a < b

/-- `InkList::compare_items` as a strict order: value, origin name, item name. -/
def itemLt (a b : ListItem × Int) : Bool :=
  a.2 < b.2 || (a.2 == b.2 && (optStrLt a.1.origin b.1.origin ||
    (a.1.origin == b.1.origin && a.1.name < b.1.name)))

namespace ListDefs

def find (defs : ListDefs) (name : String) : Option (List (String × Int)) :=
  (List.find? (fun d => d.1 == name) defs).map (·.2)

/-- `ListDefinition::get_item_with_value`: the item with that value, smallest name first. -/
def itemWithValue (items : List (String × Int)) (v : Int) : Option String :=
  (items.filter (fun kv => kv.2 == v)).foldl
    (fun best kv => match best with
      | none => some kv.1
      | some b => if kv.1 < b then some kv.1 else some b) none

/-- `ListDefinition::get_items` -/
def itemsOf (defName : String) (items : List (String × Int)) : List (ListItem × Int) :=
  items.map (fun kv => ({ origin := some defName, name := kv.1 }, kv.2))

end ListDefs

namespace InkList

def containsKey (l : InkList) (k : ListItem) : Bool := l.items.any (fun kv => kv.1 == k)

/-- `HashMap::insert` -/
def insertItem (items : List (ListItem × Int)) (k : ListItem) (v : Int) : List (ListItem × Int) :=
  match items with
  | [] => [(k, v)]
  | (k', v') :: rest => if k' == k then (k', v) :: rest else (k', v') :: insertItem rest k v

def removeItem (items : List (ListItem × Int)) (k : ListItem) : List (ListItem × Int) :=
  items.filter (fun kv => !(kv.1 == k))

def single (k : ListItem) (v : Int) : InkList := { items := [(k, v)], origins := [], initialOrigins := [] }

/-- `get_max_item` -/
def maxItem (l : InkList) : Option (ListItem × Int) :=
  l.items.foldl (fun best kv => match best with
    | none => some kv
    | some b => if itemLt b kv then some kv else some b) none

/-- `get_min_item` -/
def minItem (l : InkList) : Option (ListItem × Int) :=
  l.items.foldl (fun best kv => match best with
    | none => some kv
    | some b => if itemLt kv b then some kv else some b) none

def insertSortedItem (x : ListItem × Int) : List (ListItem × Int) → List (ListItem × Int)
  | [] => [x]
  | y :: ys => if itemLt x y then x :: y :: ys else y :: insertSortedItem x ys

/-- `get_ordered_items` -/
def ordered (l : InkList) : List (ListItem × Int) :=
  l.items.foldl (fun acc x => insertSortedItem x acc) []

/-- `get_origin_names`: the origin name of every item (an item without origin contributes
    nothing); the initial origin names for an empty list.  Never `none` (kept as an `Option`
    for the callers that were written against the panicking version). -/
def originNames (l : InkList) : Option (List String) :=
  if l.items.isEmpty then some l.initialOrigins
  else some (l.items.filterMap (fun kv => kv.1.origin))

/-- `union` -/
def union (a b : InkList) : InkList :=
  { a with items := b.items.foldl (fun acc kv => insertItem acc kv.1 kv.2) a.items }

/-- `without` -/
def without (a b : InkList) : InkList :=
  { a with items := b.items.foldl (fun acc kv => removeItem acc kv.1) a.items }

/-- `intersect` (and `has`) -/
def intersect (a b : InkList) : InkList :=
  { items := a.items.filter (fun kv => b.containsKey kv.1), origins := [], initialOrigins := [] }

/-- `contains` -/
def contains (a b : InkList) : Bool :=
  if b.items.isEmpty || a.items.isEmpty then false
  else b.items.all (fun kv => a.containsKey kv.1)

/-- `PartialEq` -/
def eq (a b : InkList) : Bool :=
  a.items.length == b.items.length && a.items.all (fun kv => b.containsKey kv.1)

/-- All items of the list's origin definitions. -/
def originItems (defs : ListDefs) (l : InkList) : List (ListItem × Int) :=
  l.origins.foldl (fun acc name =>
    match defs.find name with
    | some items => (ListDefs.itemsOf name items).foldl (fun acc kv => insertItem acc kv.1 kv.2) acc
    | none => acc) []

/-- `get_all` -/
def all (defs : ListDefs) (l : InkList) : InkList :=
  { items := originItems defs l, origins := [], initialOrigins := [] }

/-- `inverse` -/
def inverse (defs : ListDefs) (l : InkList) : InkList :=
  { items := (originItems defs l).filter (fun kv => !(l.containsKey kv.1)), origins := [], initialOrigins := [] }

def maxAsList (l : InkList) : InkList :=
  match l.maxItem with
  | some (k, v) => single k v
  | none => empty

def minAsList (l : InkList) : InkList :=
  match l.minItem with
  | some (k, v) => single k v
  | none => empty

def minVal (l : InkList) : Int := (l.minItem.map (·.2)).getD 0
def maxVal (l : InkList) : Int := (l.maxItem.map (·.2)).getD 0

def greaterThan (a b : InkList) : Bool :=
  if a.items.isEmpty then false else if b.items.isEmpty then true else a.minVal > b.maxVal

def greaterThanOrEquals (a b : InkList) : Bool :=
  if a.items.isEmpty then false else if b.items.isEmpty then true
  else a.minVal ≥ b.minVal && a.maxVal ≥ b.maxVal

def lessThan (a b : InkList) : Bool :=
  if b.items.isEmpty then false else if a.items.isEmpty then true else a.maxVal < b.minVal

def lessThanOrEquals (a b : InkList) : Bool :=
  if b.items.isEmpty then false else if a.items.isEmpty then true
  else a.maxVal ≤ b.maxVal && a.minVal ≤ b.minVal

/-- `Display for InkList` -/
def display (l : InkList) : String :=
  ", ".intercalate (l.ordered.map (fun kv => kv.1.name))

/-- `list_with_sub_range`; bounds are an int, or a list (its min / max value), else open. -/
def subRange (l : InkList) (minB maxB : Val) : InkList :=
  if l.items.isEmpty then empty
  else
    let lo : Int := match minB with
      | .int v => v
      | .list m => if m.items.isEmpty then 0 else m.minVal
      | _ => 0
    let hi : Int := match maxB with
      | .int v => v
      | .list m => if m.items.isEmpty then i32Max else m.maxVal
      | _ => i32Max
    { items := l.ordered.filter (fun kv => kv.2 ≥ lo && kv.2 ≤ hi), origins := [],
      initialOrigins := l.initialOrigins }

/-- `call_list_increment_operation` (`list + n`, `list - n`). -/
def increment (defs : ListDefs) (l : InkList) (n : Int) (add : Bool) : InkList :=
  { items := l.items.foldl (fun acc kv =>
      let target := wrapI32 (if add then kv.2 + n else kv.2 - n)
      let oname := kv.1.origin.getD ""
      if l.origins.any (fun o => o == oname) then
        match defs.find oname with
        | some items =>
          match ListDefs.itemWithValue items target with
          | some nm => insertItem acc { origin := some oname, name := nm } target
          | none => acc
        | none => acc
      else acc) [],
    origins := [], initialOrigins := [] }

end InkList
end Ink
