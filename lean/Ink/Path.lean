/-
  Ink/Path.lean — model of runtime/src/path.rs and of the path helpers in
  object.rs (convert_path_to_relative, compact_path_string).
  Strings are `List Char`.  Core Lean only.
-/
namespace Ink

/-- `path.rs: Component` — an index or a name. -/
inductive Comp where
  | idx (n : Nat)
  | name (s : List Char)
  deriving DecidableEq, Repr, Inhabited

/-- `path.rs: Path` — components and the relative flag.  (The text cache
    `components_string` is always computed from these two, so it is not a field.) -/
structure Path where
  comps : List Comp
  rel : Bool
  deriving DecidableEq, Repr, Inhabited

/-- Decimal text of a natural number (`usize::to_string`), most significant digit first. -/
def digitChar : Nat → Char
  | 0 => '0' | 1 => '1' | 2 => '2' | 3 => '3' | 4 => '4'
  | 5 => '5' | 6 => '6' | 7 => '7' | 8 => '8' | _ => '9'

def decimalAux : Nat → Nat → List Char → List Char
  | 0, _, acc => acc
  | fuel + 1, n, acc =>
    let d := digitChar (n % 10)
    if n < 10 then d :: acc else decimalAux fuel (n / 10) (d :: acc)

def decimal (n : Nat) : List Char := decimalAux (n + 1) n []

/-- Length in UTF-8 bytes (`str::len`). -/
def utf8Len (s : List Char) : Nat := s.foldl (fun n c => n + c.utf8Size) 0

namespace Comp

def parentId : List Char := ['^']

def isParent : Comp → Bool
  | name s => s == parentId
  | idx _ => false

def isIndex : Comp → Bool
  | idx _ => true
  | name _ => false

/-- `Display for Component` -/
def toText : Comp → List Char
  | idx n => decimal n
  | name s => s

end Comp

/-! ### `str::parse::<usize>` -/

def isAsciiDigit (c : Char) : Bool := '0' ≤ c && c ≤ '9'

def digitVal (c : Char) : Nat := c.toNat - '0'.toNat

/-- Value of a digit string, most significant first. -/
def digitsVal (ds : List Char) : Nat := ds.foldl (fun n c => n * 10 + digitVal c) 0

def usizeMax : Nat := 2 ^ 64 - 1

/-- Rust's `usize::from_str`: optional `+`, then one or more ASCII digits,
    no overflow of 64 bits. -/
def parseUsize (s : List Char) : Option Nat :=
  let ds := match s with
    | '+' :: r => r
    | r => r
  if ds.isEmpty then none
  else if ds.all isAsciiDigit then
    let v := digitsVal ds
    if v ≤ usizeMax then some v else none
  else none

/-! ### split / join on '.' -/

/-- `str::split('.')`: always yields at least one piece. -/
def splitDot : List Char → List (List Char)
  | [] => [[]]
  | c :: cs =>
    if c = '.' then [] :: splitDot cs
    else match splitDot cs with
      | [] => [[c]]          -- unreachable: splitDot is never empty
      | p :: ps => (c :: p) :: ps

def joinDot : List (List Char) → List Char
  | [] => []
  | [p] => p
  | p :: q :: ps => p ++ '.' :: joinDot (q :: ps)

namespace Path

def empty : Path := { comps := [], rel := false }

/-- `Path::get_self` -/
def self : Path := { comps := [], rel := true }

def compOfText (s : List Char) : Comp :=
  match parseUsize s with
  | some n => .idx n
  | none => .name s

/-- `Path::new_with_components_string(Some(text))` -/
def parse (text : List Char) : Path :=
  match text with
  | [] => empty
  | '.' :: rest => { comps := (splitDot rest).map compOfText, rel := true }
  | cs => { comps := (splitDot cs).map compOfText, rel := false }

/-- `Path::get_components_string` / `Display` -/
def toText (p : Path) : List Char :=
  (if p.rel then ['.'] else []) ++ joinDot (p.comps.map Comp.toText)

/-- `Hash for Path` hashes the text; two paths hash equally iff these keys are equal
    (up to collisions of the underlying hasher). -/
def hashKey (p : Path) : List Char := p.toText

def len (p : Path) : Nat := p.comps.length

def lastComp (p : Path) : Option Comp := p.comps.getLast?

/-- `Path::get_tail` -/
def tail (p : Path) : Path :=
  if p.comps.length ≥ 2 then { comps := p.comps.tail, rel := false } else self

def appendComp (p : Path) (c : Comp) : Path := { comps := p.comps ++ [c], rel := false }

def leadingParents : List Comp → Nat
  | [] => 0
  | c :: cs => if c.isParent then leadingParents cs + 1 else 0

/-- `Path::path_by_appending_path`.  Total: more upward moves than components
    stop at the root (`len.saturating_sub(upward_moves)`, which is the natural-number
    subtraction here); the result is never `none` (the `Option` is kept for the
    callers that were written against the panicking version). -/
def appendPath (p q : Path) : Option Path :=
  let up := leadingParents q.comps
  some { comps := p.comps.take (p.comps.length - up) ++ q.comps.drop up, rel := false }

/-- Number of leading components two component lists share. -/
def sharedPrefix : List Comp → List Comp → Nat
  | a :: as, b :: bs => if a = b then sharedPrefix as bs + 1 else 0
  | _, _ => 0

/-- `Object::convert_path_to_relative(own, global)` (also `Divert::convert_path_to_relative`). -/
def toRelative (own global : Path) : Path :=
  let k := sharedPrefix own.comps global.comps
  if k = 0 then global
  else
    { comps := List.replicate (own.comps.length - k) (Comp.name Comp.parentId) ++ global.comps.drop k,
      rel := true }

/-- `Object::compact_path_string(own, other)`; never `none` (`appendPath` is total). -/
def compact (own other : Path) : Option (List Char) :=
  if other.rel then
    match appendPath own other with
    | none => none
    | some g =>
      let r := other.toText
      let gs := g.toText
      some (if utf8Len r < utf8Len gs then r else gs)
  else
    let r := (toRelative own other).toText
    let gs := other.toText
    some (if utf8Len r < utf8Len gs then r else gs)

end Path

/-- Well-formed component: an index is a `usize`; a name is not the text of an
    index, contains no dot. -/
def Comp.WF : Comp → Prop
  | .idx n => n ≤ usizeMax
  | .name s => parseUsize s = none ∧ '.' ∉ s

/-- Paths for which text round-trips: well-formed components; a relative
    path has at least one component (the text "." parses to one empty name);
    the first component of an absolute path has non-empty text (otherwise the
    text is empty or starts with the dot that marks a relative path). -/
structure Path.WF (p : Path) : Prop where
  comps : ∀ c ∈ p.comps, c.WF
  relNonempty : p.rel = true → p.comps ≠ []
  absHead : p.rel = false → ∀ c, p.comps.head? = some c → c.toText ≠ []

end Ink
