/-
  Ink/State.lean — story state: call stack, threads, flows, variables, output
  stream.  Models callstack.rs, flow.rs (data), variables_state.rs,
  state_patch.rs (abstracted, see below) and the output-stream part of
  story_state.rs.

  StatePatch abstraction: in the Rust a look-ahead works on a copy of the state
  whose writes to globals / visit counts / turn indices go to an overlay
  (`StatePatch`) that is merged (`apply_any_patch`) or dropped (restore).  All
  reads go through the overlay first, so the copy behaves exactly like a full
  value copy with the writes applied; the model keeps a full copy and a flag
  `patching` (the one observable: `visit_count_at_path_string` validates its
  argument only while a patch exists).
-/
import Ink.Tree
import Ink.Native

namespace Ink

structure Element where
  ptr : Ptr
  inExpr : Bool
  temps : List (String × Val)
  kind : PushPop
  evalHeightWhenPushed : Nat
  funcStartInOutput : Int
  deriving Repr, Inhabited

structure Thread where
  /-- bottom element first, as the Rust `Vec` -/
  callstack : List Element
  prevPtr : Ptr
  index : Nat
  deriving Repr, Inhabited

structure CallStack where
  /-- oldest thread first; the current thread is the last -/
  threads : List Thread
  threadCounter : Nat
  deriving Repr, Inhabited

structure Choice where
  text : String
  index : Nat
  sourcePath : String
  targetPath : Path
  isInvisibleDefault : Bool
  tags : List String
  thread : Option Thread
  originalThreadIndex : Nat
  deriving Repr, Inhabited

structure Flow where
  name : String
  callstack : CallStack
  /-- output stream, oldest first -/
  output : List Obj
  choices : List Choice
  deriving Repr, Inhabited

def defaultFlowName : String := "DEFAULT_FLOW"

/-! ### association lists as hash maps -/

def alGet {β : Type} (l : List (String × β)) (k : String) : Option β :=
  (l.find? (fun kv => kv.1 == k)).map (·.2)

def alSet {β : Type} (l : List (String × β)) (k : String) (v : β) : List (String × β) :=
  match l with
  | [] => [(k, v)]
  | (k', v') :: rest => if k' == k then (k', v) :: rest else (k', v') :: alSet rest k v

def alHas {β : Type} (l : List (String × β)) (k : String) : Bool := l.any (fun kv => kv.1 == k)

def alRemove {β : Type} (l : List (String × β)) (k : String) : List (String × β) :=
  l.filter (fun kv => !(kv.1 == k))

def setInsert (l : List String) (k : String) : List String := if l.contains k then l else l ++ [k]

/-! ### global variables with change tracking (variables_state.rs)

`Vars` is the global store together with the batch-observation bookkeeping.
`base` is ghost state (not in the Rust): the globals at the moment the current
observation batch started.  The structure carries its invariant: while a batch
is being observed, every global whose value differs from `base` is in
`changed`.  All writes go through `Vars.set`, so every `Vars` value reachable by
the interpreter satisfies the invariant by construction (C11). -/

theorem alGet_alSet_ne {β : Type} (l : List (String × β)) (k k' : String) (v : β) (h : (k == k') = false) :
    alGet (alSet l k v) k' = alGet l k' := by
  induction l with
  | nil =>
    simp only [alSet, alGet, List.find?]
    have : ((k == k') : Bool) = false := h
    simp [this]
  | cons kv rest ih =>
    obtain ⟨k0, v0⟩ := kv
    simp only [alSet]
    by_cases h0 : (k0 == k) = true
    · have hk : k0 = k := by simpa using h0
      subst hk
      simp only [h0, if_true, alGet, List.find?]
      simp [h]
    · have h0' : (k0 == k) = false := by simpa using h0
      simp only [h0', Bool.false_eq_true, if_false, alGet, List.find?]
      by_cases h1 : (k0 == k') = true
      · simp [h1]
      · have h1' : (k0 == k') = false := by simpa using h1
        simp only [h1']
        simpa [alGet] using ih

theorem mem_setInsert_self (l : List String) (k : String) : k ∈ setInsert l k := by
  unfold setInsert
  split
  · rename_i h; simpa using h
  · simp

theorem mem_setInsert_of_mem (l : List String) (k n : String) (h : n ∈ l) : n ∈ setInsert l k := by
  unfold setInsert
  split
  · exact h
  · simp [h]

theorem nodup_setInsert (l : List String) (k : String) (h : l.Nodup) : (setInsert l k).Nodup := by
  unfold setInsert
  split
  · exact h
  · rename_i hk
    have hk' : k ∉ l := by simpa using hk
    rw [List.nodup_append]
    refine ⟨h, by simp, ?_⟩
    intro a ha b hb
    simp at hb
    subst hb
    intro hab
    subst hab
    exact hk' ha

structure Vars where
  globals : List (String × Val)
  base : List (String × Val)
  batchObserving : Bool
  changed : List String
  inv : ∀ n, batchObserving = true → alGet globals n ≠ alGet base n → n ∈ changed
  nodup : changed.Nodup

namespace Vars

def empty : Vars :=
  { globals := [], base := [], batchObserving := false, changed := [], inv := (by intro n h; cases h),
    nodup := List.nodup_nil }

def get (v : Vars) (name : String) : Option Val := alGet v.globals name

def has (v : Vars) (name : String) : Bool := alHas v.globals name

/-- `set_global` (store part): write the value and, while a batch is observed, record the name.
    Returns whether observers must be notified immediately (no batch in progress). -/
def set (v : Vars) (name : String) (val : Val) : Vars × Bool :=
  if hb : v.batchObserving = true then
    ({ globals := alSet v.globals name val, base := v.base, batchObserving := true,
       changed := setInsert v.changed name,
       inv := (by
         intro n _ hne
         by_cases hn : (name == n) = true
         · have : name = n := by simpa using hn
           subst this
           exact mem_setInsert_self _ _
         · have hn' : (name == n) = false := by simpa using hn
           rw [alGet_alSet_ne _ _ _ _ hn'] at hne
           exact mem_setInsert_of_mem _ _ _ (v.inv n hb hne)),
       nodup := nodup_setInsert _ _ v.nodup }, false)
  else
    ({ globals := alSet v.globals name val, base := v.base, batchObserving := false, changed := v.changed,
       inv := (by intro n h; cases h), nodup := v.nodup }, true)

/-- `start_variable_observation` -/
def startObservation (v : Vars) : Vars :=
  { globals := v.globals, base := v.globals, batchObserving := true, changed := [],
    inv := (by intro n _ h; exact absurd rfl h), nodup := List.nodup_nil }

/-- `complete_variable_observation`: the changed names, and the store with the batch closed. -/
def completeObservation (v : Vars) : List String × Vars :=
  (if v.batchObserving then v.changed else [],
   { globals := v.globals, base := v.base, batchObserving := false, changed := [],
     inv := (by intro n h; cases h), nodup := List.nodup_nil })

/-- Replace all globals (loading a save). -/
def replaceGlobals (v : Vars) (gl : List (String × Val)) : Vars :=
  { globals := gl, base := gl, batchObserving := v.batchObserving, changed := v.changed,
    inv := (by intro n _ h; exact absurd rfl h), nodup := v.nodup }

end Vars

/-- The part of the story state the interpreter step works on. -/
structure Core where
  flow : Flow
  didSafeExit : Bool
  vars : Vars
  defaultGlobals : List (String × Val)
  /-- evaluation stack, top first -/
  evalStack : List Obj
  errors : List String
  divertedPtr : Ptr
  visitCounts : List (String × Int)
  turnIndices : List (String × Int)
  turnIndex : Int
  storySeed : Int
  previousRandom : Int

/-- `StoryState`: the core plus the parts a step never reads: the warning list
    (a step only appends to it), the parked flows, and whether a look-ahead
    overlay (`StatePatch`) is active. -/
structure StoryState where
  core : Core
  warnings : List String
  namedFlows : Option (List (String × Flow))
  patching : Bool

/-! ### call stack (callstack.rs) -/

namespace CallStack

def rootElement : Element :=
  { ptr := Ptr.startOf [], inExpr := false, temps := [], kind := .tunnel,
    evalHeightWhenPushed := 0, funcStartInOutput := 0 }

/-- `CallStack::new` / `reset` -/
def fresh : CallStack :=
  { threads := [{ callstack := [rootElement], prevPtr := Ptr.null, index := 0 }], threadCounter := 0 }

def reset (cs : CallStack) : CallStack := { cs with threads := fresh.threads }

/-- `get_current_thread` (`none` = panic: no thread). -/
def currentThread (cs : CallStack) : Option Thread := cs.threads.getLast?

/-- `get_current_element` (`none` = panic). -/
def currentElement (cs : CallStack) : Option Element :=
  match cs.currentThread with
  | some t => t.callstack.getLast?
  | none => none

def elements (cs : CallStack) : List Element :=
  match cs.currentThread with
  | some t => t.callstack
  | none => []

def mapCurrentThread (cs : CallStack) (f : Thread → Thread) : CallStack :=
  match cs.threads.getLast? with
  | some t => { cs with threads := cs.threads.dropLast ++ [f t] }
  | none => cs

def mapCurrentElement (cs : CallStack) (f : Element → Element) : CallStack :=
  cs.mapCurrentThread (fun t =>
    match t.callstack.getLast? with
    | some e => { t with callstack := t.callstack.dropLast ++ [f e] }
    | none => t)

def currentElementIndex (cs : CallStack) : Int := (cs.elements.length : Int) - 1

def elementIsEvaluateFromGame (cs : CallStack) : Bool :=
  match cs.currentElement with
  | some e => e.kind == .functionEvaluationFromGame
  | none => false

def canPopThread (cs : CallStack) : Bool := cs.threads.length > 1 && !cs.elementIsEvaluateFromGame

def canPop (cs : CallStack) : Bool := cs.elements.length > 1

def canPopType (cs : CallStack) (t : Option PushPop) : Bool :=
  if !cs.canPop then false
  else match t with
    | none => true
    | some k => match cs.currentElement with
      | some e => e.kind == k
      | none => false

/-- `pop_thread` -/
def popThread (cs : CallStack) : Out CallStack :=
  if cs.canPopThread then .ok { cs with threads := cs.threads.dropLast }
  else .invalid "Can't pop thread"

/-- `thread_counter.wrapping_add(1)` (`usize`, 64 bits) -/
def nextThreadCounter (cs : CallStack) : Nat := (cs.threadCounter + 1) % 18446744073709551616

/-- `push_thread` -/
def pushThread (cs : CallStack) : CallStack :=
  match cs.currentThread with
  | some t => { threads := cs.threads ++ [{ t with index := cs.nextThreadCounter }],
                threadCounter := cs.nextThreadCounter }
  | none => cs

/-- `fork_thread` -/
def forkThread (cs : CallStack) : Option (CallStack × Thread) :=
  match cs.currentThread with
  | some t => some ({ cs with threadCounter := cs.nextThreadCounter }, { t with index := cs.nextThreadCounter })
  | none => none

def setCurrentThread (cs : CallStack) (t : Thread) : CallStack := { cs with threads := [t] }

/-- `pop(t)` -/
def pop (cs : CallStack) (t : Option PushPop) : Out CallStack :=
  if cs.canPopType t then
    .ok (cs.mapCurrentThread (fun th => { th with callstack := th.callstack.dropLast }))
  else .invalid "Mismatched push/pop in Callstack"

/-- `push(type, external_eval_height, output_len)` -/
def push (cs : CallStack) (t : PushPop) (evalHeight : Nat) (outLen : Int) : Option CallStack :=
  match cs.currentElement with
  | some cur =>
    let el : Element := { ptr := cur.ptr, inExpr := false, temps := [], kind := t,
                          evalHeightWhenPushed := evalHeight, funcStartInOutput := outLen }
    some (cs.mapCurrentThread (fun th => { th with callstack := th.callstack ++ [el] }))
  | none => none

/-- `context_for_variable_named` -/
def contextForVariableNamed (cs : CallStack) (name : String) : Int :=
  match cs.currentElement with
  | some e => if alHas e.temps name then cs.currentElementIndex + 1 else 0
  | none => 0

/-- `get_temporary_variable_with_name`: a context index that names no element of the
    call stack finds nothing (`none` = not found). -/
def getTemp (cs : CallStack) (name : String) (ctx : Int) : Option Val :=
  let ctx := if ctx == -1 then cs.currentElementIndex + 1 else ctx
  if ctx - 1 < 0 then none
  else match cs.elements[(ctx - 1).toNat]? with
    | some e => alGet e.temps name
    | none => none

def getThreadWithIndex (cs : CallStack) (i : Nat) : Option Thread := cs.threads.find? (fun t => t.index == i)

end CallStack

/-- `Value::retain_list_origins_for_assignment` -/
def retainListOrigins (old new : Val) : Val :=
  match old, new with
  | .list o, .list n =>
    if n.items.isEmpty then
      match o.originNames with
      | some names => .list { n with initialOrigins := names }
      | none => new   -- the Rust would panic here; unreachable for lists that went through the evaluation stack
    else new
  | _, _ => new

namespace CallStack

/-- `set_temporary_variable` -/
def setTemp (cs : CallStack) (name : String) (v : Val) (declareNew : Bool) (ctx : Int) : Out CallStack :=
  let ctx := if ctx == -1 then cs.currentElementIndex + 1 else ctx
  -- a context index that names no element of the call stack
  let noElement : Out CallStack :=
    .invalid ("Could not find the call stack element " ++ intToString ctx
      ++ " to set the temporary variable: " ++ name)
  if ctx - 1 < 0 then noElement
  else
    let i := (ctx - 1).toNat
    match cs.elements[i]? with
    | none => noElement
    | some e =>
      if !declareNew && !alHas e.temps name then
        .invalid ("Could not find temporary variable to set: " ++ name)
      else
        let v' := match alGet e.temps name with
          | some old => retainListOrigins old v
          | none => v
        let e' := { e with temps := alSet e.temps name v' }
        .ok (cs.mapCurrentThread (fun th => { th with callstack := th.callstack.set i e' }))

end CallStack

/-! ### strings in the output stream -/

def isInlineWsStr (s : String) : Bool := s.toList.all (fun c => c == ' ' || c == '\t')
def isNewlineStr (s : String) : Bool := s == "\n"
def isNonWhitespaceStr (s : String) : Bool := !isNewlineStr s && !isInlineWsStr s

namespace Obj
def asStr? : Obj → Option String
  | .val (.str s) => some s
  | _ => none
def isCmd : Obj → Bool
  | .cmd _ => true
  | _ => false
def isCmdOf (o : Obj) (c : Cmd) : Bool :=
  match o with
  | .cmd c' => c' == c
  | _ => false
def isGlue : Obj → Bool
  | .glue => true
  | _ => false
end Obj

namespace Core

def callstack (s : Core) : CallStack := s.flow.callstack
def setCallstack (s : Core) (cs : CallStack) : Core := { s with flow := { s.flow with callstack := cs } }
def mapCallstack (s : Core) (f : CallStack → CallStack) : Core := s.setCallstack (f s.callstack)

/-- `get_current_pointer` (a missing element would be a panic; the call stack is never empty) -/
def currentPtr (s : Core) : Ptr :=
  match s.callstack.currentElement with
  | some e => e.ptr
  | none => Ptr.null

def setCurrentPtr (s : Core) (p : Ptr) : Core :=
  s.mapCallstack (fun cs => cs.mapCurrentElement (fun e => { e with ptr := p }))

def prevPtr (s : Core) : Ptr :=
  match s.callstack.currentThread with
  | some t => t.prevPtr
  | none => Ptr.null

def setPrevPtr (s : Core) (p : Ptr) : Core :=
  s.mapCallstack (fun cs => cs.mapCurrentThread (fun t => { t with prevPtr := p }))

def hasError (s : Core) : Bool := !s.errors.isEmpty

/-- `can_continue` -/
def canContinue (s : Core) : Bool := !s.currentPtr.isNull && !s.hasError

def inExpr (s : Core) : Bool :=
  match s.callstack.currentElement with
  | some e => e.inExpr
  | none => false

def setInExpr (s : Core) (b : Bool) : Core :=
  s.mapCallstack (fun cs => cs.mapCurrentElement (fun e => { e with inExpr := b }))

def output (s : Core) : List Obj := s.flow.output
def setOutput (s : Core) (o : List Obj) : Core := { s with flow := { s.flow with output := o } }

/-- `in_string_evaluation` -/
def inStringEvaluation (s : Core) : Bool := s.output.any (fun o => o.isCmdOf .beginString)

/-- `clean_output_whitespace` over characters. -/
def cleanOutputWhitespaceAux : List Char → Nat → Int → Int → List Char → List Char
  | [], _, _, _, acc => acc.reverse
  | c :: cs, i, wsStart, lineStart, acc =>
    let isWs := c == ' ' || c == '\t'
    let wsStart1 : Int := if isWs && wsStart == -1 then i else wsStart
    let acc1 := if !isWs && c != '\n' && wsStart1 > 0 && wsStart1 != lineStart then ' ' :: acc else acc
    let wsStart2 : Int := if !isWs then -1 else wsStart1
    let lineStart1 : Int := if c == '\n' then (i : Int) + 1 else lineStart
    let acc2 := if !isWs then c :: acc1 else acc1
    cleanOutputWhitespaceAux cs (i + 1) wsStart2 lineStart1 acc2

def cleanOutputWhitespace (s : String) : String :=
  String.ofList (cleanOutputWhitespaceAux s.toList 0 (-1) 0 [])

/-- Raw concatenation used by `get_current_text` (skipping tag content). -/
def rawTextAux : List Obj → Bool → List String → List String
  | [], _, acc => acc.reverse
  | o :: rest, inTag, acc =>
    match o with
    | .val (.str t) => if !inTag then rawTextAux rest inTag (t :: acc) else rawTextAux rest inTag acc
    | .cmd .beginTag => rawTextAux rest true acc
    | .cmd .endTag => rawTextAux rest false acc
    | _ => rawTextAux rest inTag acc

/-- `get_current_text` -/
def currentText (s : Core) : String :=
  cleanOutputWhitespace (String.join (rawTextAux s.output false []))

/-- `get_current_tags` -/
def currentTagsAux : List Obj → Bool → String → List String → List String
  | [], _, sb, tags => (if !sb.isEmpty then cleanOutputWhitespace sb :: tags else tags).reverse
  | o :: rest, inTag, sb, tags =>
    match o with
    | .cmd .beginTag =>
      if inTag && !sb.isEmpty then currentTagsAux rest true "" (cleanOutputWhitespace sb :: tags)
      else currentTagsAux rest true sb tags
    | .cmd .endTag =>
      if !sb.isEmpty then currentTagsAux rest false "" (cleanOutputWhitespace sb :: tags)
      else currentTagsAux rest false sb tags
    | .cmd _ => currentTagsAux rest inTag sb tags
    | .val (.str t) => if inTag then currentTagsAux rest inTag (sb ++ t) tags else currentTagsAux rest inTag sb tags
    | .tag t => if inTag && !t.isEmpty then currentTagsAux rest inTag sb (t :: tags) else currentTagsAux rest inTag sb tags
    | _ => currentTagsAux rest inTag sb tags

def currentTags (s : Core) : List String := currentTagsAux s.output false "" []

/-- `output_stream_ends_in_newline`: scan from the end. -/
def endsInNewlineAux : List Obj → Bool
  | [] => false
  | o :: rest =>   -- reversed stream
    match o with
    | .cmd _ => false
    | .val (.str t) => if isNewlineStr t then true else if isNonWhitespaceStr t then false else endsInNewlineAux rest
    | _ => endsInNewlineAux rest

def outputEndsInNewline (s : Core) : Bool := endsInNewlineAux s.output.reverse

def outputContainsContent (s : Core) : Bool := s.output.any (fun o => o.asStr?.isSome)

/-- `try_splitting_head_tail_whitespace`, on characters.  (The Rust mixes char
    and byte offsets; both scans stop at the first character that is not a
    space, tab or newline, all one byte long, so the offsets agree.) -/
def splitHeadTail (text : String) : Option (List String) :=
  let cs := text.toList
  -- head scan
  let rec headScan : List Char → Nat → Int → Int → Int × Int
    | [], _, f, l => (f, l)
    | c :: rest, i, f, l =>
      if c == '\n' then headScan rest (i + 1) (if f == -1 then i else f) i
      else if c == ' ' || c == '\t' then headScan rest (i + 1) f l
      else (f, l)
  let (headFirst, headLast) := headScan cs 0 (-1) (-1)
  let n := cs.length
  let rec tailScan : List Char → Nat → Int → Int → Int × Int
    | [], _, l, f => (l, f)
    | c :: rest, i, l, f =>
      let ri : Int := (n : Int) - i - 1
      if c == '\n' then tailScan rest (i + 1) (if l == -1 then ri else l) ri
      else if c == ' ' || c == '\t' then tailScan rest (i + 1) l f
      else (l, f)
  let (tailLast, tailFirst) := tailScan cs.reverse 0 (-1) (-1)
  if headFirst == -1 && tailLast == -1 then none
  else
    let slice (a b : Nat) : String := String.ofList ((cs.drop a).take (b - a))
    let part1 : List String :=
      if headFirst != -1 then
        (if headFirst > 0 then [slice 0 headFirst.toNat] else []) ++ ["\n"]
      else []
    let innerStart : Nat := if headFirst != -1 then (headLast + 1).toNat else 0
    let innerEnd : Nat := if tailLast != -1 then tailFirst.toNat else n
    let part2 : List String := if innerEnd > innerStart then [slice innerStart innerEnd] else []
    let part3 : List String :=
      if tailLast != -1 && tailFirst > headLast then
        ["\n"] ++ (if tailLast < (n : Int) - 1 then [slice (tailLast + 1).toNat n] else [])
      else []
    some (part1 ++ part2 ++ part3)

/-- `trim_newlines_from_output_stream` -/
def trimNewlines (out : List Obj) : List Obj :=
  -- find, scanning from the end, the earliest newline in the trailing whitespace run
  let rec scan : List Obj → Nat → Option Nat → Option Nat
    | [], _, r => r
    | o :: rest, i, r =>    -- reversed; i = index of `o` in the forward list
      match o with
      | .cmd _ => r
      | .val (.str t) =>
        if isNonWhitespaceStr t then r
        else if isNewlineStr t then scan rest (i - 1) (some i) else scan rest (i - 1) r
      | _ => scan rest (i - 1) r
  match scan out.reverse (out.length - 1) none with
  | none => out
  | some from_ =>
    out.take from_ ++ (out.drop from_).filter (fun o => o.asStr?.isNone)

/-- `remove_existing_glue` -/
def removeExistingGlue (out : List Obj) : List Obj :=
  let rec go : List Obj → List Obj → List Obj    -- reversed input, accumulates forward
    | [], acc => acc
    | o :: rest, acc =>
      if o.isGlue then go rest acc
      else if o.isCmd then rest.reverse ++ (o :: acc)
      else go rest (o :: acc)
  go out.reverse []

/-- Index (from the start) of the last element satisfying `p`, scanning from the
    end and stopping (exclusive) at the first element satisfying `stop`. -/
def lastIndexBefore (out : List Obj) (p stop : Obj → Bool) : Option Nat × Option Nat :=
  -- returns (index of first `p` found scanning backwards, index of the `stop` element if hit first)
  let rec go : List Obj → Nat → Option Nat × Option Nat
    | [], _ => (none, none)
    | o :: rest, i =>
      if stop o then (none, some i)
      else if p o then (some i, none)
      else go rest (i - 1)
  go out.reverse (out.length - 1)

/-- `push_to_output_stream_individual` -/
def pushIndividual (s : Core) (obj : Obj) : Core :=
  match obj with
  | .glue => s.setOutput (trimNewlines s.output ++ [obj])
  | .val (.str text) =>
    let funcTrim0 : Int := match s.callstack.currentElement with
      | some e => if e.kind == .function then e.funcStartInOutput else -1
      | none => -1
    -- the backward scan stops at a BeginString command or at the first glue; other commands are passed over
    let (glueIdx, strIdx) := lastIndexBefore s.output (fun o => o.isGlue) (fun o => o.isCmdOf .beginString)
    let funcTrim : Int := match strIdx with
      | some i => if (i : Int) ≥ funcTrim0 then -1 else funcTrim0
      | none => funcTrim0
    let glueTrim : Int := match glueIdx with
      | some i => i
      | none => -1
    let trimIndex : Int :=
      if glueTrim != -1 && funcTrim != -1 then min funcTrim glueTrim
      else if glueTrim != -1 then glueTrim else funcTrim
    if trimIndex != -1 then
      if isNewlineStr text then s
      else if isNonWhitespaceStr text then
        let s1 := if glueTrim > -1 then s.setOutput (removeExistingGlue s.output) else s
        let s2 :=
          if funcTrim > -1 then
            s1.mapCallstack (fun cs => cs.mapCurrentThread (fun th =>
              -- from the top of the stack down, while elements are functions
              let rec clear : List Element → List Element    -- reversed
                | [] => []
                | e :: rest => if e.kind == .function then { e with funcStartInOutput := -1 } :: clear rest else e :: rest
              { th with callstack := (clear th.callstack.reverse).reverse }))
          else s1
        s2.setOutput (s2.output ++ [obj])
      else s.setOutput (s.output ++ [obj])
    else if isNewlineStr text && (s.outputEndsInNewline || !s.outputContainsContent) then s
    else s.setOutput (s.output ++ [obj])
  | _ => s.setOutput (s.output ++ [obj])

/-- `push_to_output_stream` -/
def pushToOutput (s : Core) (obj : Obj) : Core :=
  match obj with
  | .val (.str text) =>
    match splitHeadTail text with
    | some parts => parts.foldl (fun st p => st.pushIndividual (.val (.str p))) s
    | none => s.pushIndividual obj
  | _ => s.pushIndividual obj

/-- `pop_from_output_stream(count)` -/
def popFromOutput (s : Core) (count : Nat) : Core :=
  if count ≤ s.output.length then s.setOutput (s.output.take (s.output.length - count)) else s

/-- `reset_output` -/
def resetOutput (s : Core) (objs : Option (List Obj)) : Core := s.setOutput (objs.getD [])

/-- `trim_whitespace_from_function_end` -/
def trimWhitespaceFromFunctionEnd (s : Core) : Core :=
  let start : Nat := match s.callstack.currentElement with
    | some e => if e.funcStartInOutput == -1 then 0 else e.funcStartInOutput.toNat
    | none => 0
  -- scanning from the end down to `start`, removing whitespace strings until a command or real text
  let rec go : List Obj → Nat → List Obj → List Obj      -- reversed input with index, forward accumulator
    | [], _, acc => acc
    | o :: rest, i, acc =>
      if i < start then (o :: rest).reverse ++ acc
      else match o with
        | .cmd _ => (o :: rest).reverse ++ acc
        | .val (.str t) =>
          if isNewlineStr t || isInlineWsStr t then go rest (i - 1) acc
          else (o :: rest).reverse ++ acc
        | _ => go rest (i - 1) (o :: acc)
  if s.output.isEmpty then s else s.setOutput (go s.output.reverse (s.output.length - 1) [])

/-! ### evaluation stack -/

/-- `push_evaluation_stack`: a list value gets its origins from its items' (or
    initial) origin names; a name the story does not define contributes nothing. -/
def pushEval (defs : ListDefs) (s : Core) (o : Obj) : Out Core :=
  match o with
  | .val (.list l) =>
    match l.originNames with
    | none => .panic "ink_list.rs:get_origin_names"
    | some names =>
      .ok { s with evalStack := .val (.list { l with origins := names.filter (fun n => (defs.find n).isSome) }) :: s.evalStack }
  | _ => .ok { s with evalStack := o :: s.evalStack }

/-- `pop_evaluation_stack` -/
def popEval (s : Core) : Out (Obj × Core) :=
  match s.evalStack with
  | o :: rest => .ok (o, { s with evalStack := rest })
  | [] => .invalid "Evaluation stack is empty: nothing to pop."

/-- `pop_evaluation_stack_multiple(n)`: in push order. -/
def popEvalMultiple (s : Core) (n : Nat) : Out (List Obj × Core) :=
  if n ≤ s.evalStack.length then .ok ((s.evalStack.take n).reverse, { s with evalStack := s.evalStack.drop n })
  else .invalid ("Evaluation stack holds " ++ toString s.evalStack.length ++ " values but "
    ++ toString n ++ " were expected.")

/-! ### variables (variables_state.rs) -/

def globalExists (s : Core) (name : String) : Bool := s.vars.has name || alHas s.defaultGlobals name

/-- `find_single_item_list_with_name` over the definitions: an unqualified item
    name resolves to the LAST definition inserted with that item (hash-map
    overwrite); the model takes the last in definition order. -/
def findSingleItemList (defs : ListDefs) (name : String) : Option Val :=
  if name.toList.all Char.isWhitespace then none
  else
    let full := defs.foldl (fun acc d =>
      d.2.foldl (fun acc kv =>
        if d.1 ++ "." ++ kv.1 == name || kv.1 == name then
          some (Val.list (InkList.single { origin := some d.1, name := kv.1 } kv.2))
        else acc) acc) none
    full

/-- `get_raw_variable_with_name` (`none` = not found). -/
def getRawVariable (defs : ListDefs) (s : Core) (name : String) (ctx : Int) : Option Val :=
  let globalHit : Option Val :=
    if ctx == 0 || ctx == -1 then
      match s.vars.get name with
      | some v => some v
      | none => match alGet s.defaultGlobals name with
        | some v => some v
        | none => findSingleItemList defs name
    else none
  match globalHit with
  | some v => some v
  | none => s.callstack.getTemp name ctx

/-- `MAX_POINTER_CHAIN`: the number of raw look-ups made along a chain of variable pointers. -/
def maxPointerChain : Nat := 64

/-- `get_variable_with_name` (dereferences variable pointers): the fuel is the number of raw
    look-ups (`MAX_POINTER_CHAIN` in the Rust); if the last of them still yields a pointer,
    nothing is found. -/
def getVariable (defs : ListDefs) (s : Core) (name : String) (ctx : Int) : Nat → Option Val
  | 0 => none
  | fuel + 1 =>
    match getRawVariable defs s name ctx with
    | none => none
    | some (.varptr n c) => getVariable defs s n c fuel
    | some v => some v

/-- `set_global`; returns the state and whether observers must be notified now. -/
def setGlobal (s : Core) (name : String) (v : Val) : Core × Bool :=
  let v' := match s.vars.get name with
    | some old => retainListOrigins old v
    | none => v
  let (vars', notify) := s.vars.set name v'
  ({ s with vars := vars' }, notify)

/-- `resolve_variable_pointer` -/
def resolveVariablePointer (defs : ListDefs) (s : Core) (name : String) (ci : Int) : Val :=
  let ctx : Int := if ci == -1 then (if s.globalExists name then 0 else s.callstack.currentElementIndex) else ci
  match getRawVariable defs s name ctx with
  | some (.varptr n c) => .varptr n c
  | _ => .varptr name ctx

/-- `VariablesState::assign` -/
def assign (defs : ListDefs) (s : Core) (name : String) (isNew isGlobal : Bool) (value : Val) :
    Out Core :=
  if isNew then
    let v : Val := match value with
      | .varptr n ci => resolveVariablePointer defs s n ci
      | v => v
    if isGlobal then .ok (s.setGlobal name v).1
    else match s.callstack.setTemp name v true (-1) with
      | .ok cs => .ok (s.setCallstack cs)
      | .err k m => .err k m
      | .panic p => .panic p
  else
    -- follow existing variable pointers, `MAX_POINTER_CHAIN` of them at most
    let rec deref : Nat → String → Int → Bool → String × Int × Bool
      | 0, n, c, g => (n, c, g)
      | fuel + 1, n, c, g =>
        match getRawVariable defs s n c with
        | some (.varptr n' c') => deref fuel n' c' (c' == 0)
        | _ => (n, c, g)
    match deref maxPointerChain name (-1) (s.globalExists name) with
    | (n, c, g) =>
      if g then .ok (s.setGlobal n value).1
      else match s.callstack.setTemp n value false c with
        | .ok cs => .ok (s.setCallstack cs)
        | .err k m => .err k m
        | .panic p => .panic p

/-! ### counts -/

/-- `visit_count_for_container` for the container at `a` (with object `o`). -/
def visitCountFor (root : Obj) (s : Core) (a : Addr) : Out Int :=
  match nodeAt root a, pathOf root a with
  | some o, some p =>
    if !o.visitsCounted then .ok 0
    else .ok ((alGet s.visitCounts (String.ofList p.toText)).getD 0)
  | _, _ => .panic "object.rs:get_path"

def incrementVisitCount (root : Obj) (s : Core) (a : Addr) : Out Core :=
  match pathOf root a with
  | some p =>
    let key := String.ofList p.toText
    -- `count.wrapping_add(1)`
    .ok { s with visitCounts := alSet s.visitCounts key (wrapI32 ((alGet s.visitCounts key).getD 0 + 1)) }
  | none => .panic "object.rs:get_path"

def recordTurnIndexVisit (root : Obj) (s : Core) (a : Addr) : Out Core :=
  match pathOf root a with
  | some p => .ok { s with turnIndices := alSet s.turnIndices (String.ofList p.toText) s.turnIndex }
  | none => .panic "object.rs:get_path"

/-- `add_error` (state part) for errors; warnings are kept outside the core -/
def addErrorMessage (s : Core) (m : String) : Core := { s with errors := s.errors ++ [m] }

/-- `force_end` -/
def forceEnd (s : Core) : Core :=
  let s1 := s.mapCallstack CallStack.reset
  let s2 := { s1 with flow := { s1.flow with choices := [] } }
  let s3 := (s2.setCurrentPtr Ptr.null).setPrevPtr Ptr.null
  { s3 with didSafeExit := true }

/-- `try_exit_function_evaluation_from_game` -/
def tryExitFunctionEvaluationFromGame (s : Core) : Core × Bool :=
  if s.callstack.elementIsEvaluateFromGame then
    ({ (s.setCurrentPtr Ptr.null) with didSafeExit := true }, true)
  else (s, false)

/-- `pop_callstack` -/
def popCallstack (s : Core) (t : Option PushPop) : Out Core :=
  let s1 := match s.callstack.currentElement with
    | some e => if e.kind == PushPop.function then s.trimWhitespaceFromFunctionEnd else s
    | none => s
  match s1.callstack.pop t with
  | .ok cs => .ok (s1.setCallstack cs)
  | .err k m => .err k m
  | .panic p => .panic p

/-- `StoryState::new` (core part) -/
def fresh (seed : Int) : Core :=
  { flow := { name := defaultFlowName, callstack := CallStack.fresh, output := [], choices := [] },
    didSafeExit := false, vars := Vars.empty, defaultGlobals := [],
    evalStack := [], errors := [], divertedPtr := Ptr.null, visitCounts := [], turnIndices := [],
    turnIndex := -1, storySeed := seed, previousRandom := 0 }

end Core

namespace StoryState

def fresh (seed : Int) : StoryState :=
  { core := Core.fresh seed, warnings := [], namedFlows := none, patching := false }

def hasError (s : StoryState) : Bool := s.core.hasError
def hasWarning (s : StoryState) : Bool := !s.warnings.isEmpty
def canContinue (s : StoryState) : Bool := s.core.canContinue
def currentText (s : StoryState) : String := s.core.currentText
def currentTags (s : StoryState) : List String := s.core.currentTags
def mapCore (s : StoryState) (f : Core → Core) : StoryState := { s with core := f s.core }

end StoryState
end Ink
