/-
  Ink/Heap.lean — reference counting (`Rc` / `Weak`) as a graph, for C18.

  Objects are numbered; `edges` are the STRONG references between them (owner → owned, with
  multiplicity).  Weak references are not part of the graph: they own nothing.  `ext x` is the number
  of strong references to `x` held from outside the graph (by the host: the `Story` value itself).
  `Rc` frees an object exactly when its strong count reaches zero, and freeing an object drops the
  references it holds.  `sweep` is one round of that: every live object that no live object and no
  outside holder references is freed.  What is still alive after the rounds have stabilised has
  leaked when nothing outside refers to the graph any more.
  Core Lean only.
-/
namespace Ink
namespace Heap

structure Graph where
  n : Nat
  edges : List (Nat × Nat)

/-- Strong count of `x`: references from live owners plus references from outside. -/
def strongCount (g : Graph) (alive : Nat → Bool) (ext : Nat → Nat) (x : Nat) : Nat :=
  (g.edges.filter (fun e => e.2 == x && alive e.1)).length + ext x

/-- One round: free the live objects whose strong count is zero. -/
def sweep (g : Graph) (ext : Nat → Nat) (alive : Nat → Bool) : Nat → Bool :=
  fun x => alive x && decide (0 < strongCount g alive ext x)

def sweeps (g : Graph) (ext : Nat → Nat) : Nat → (Nat → Bool) → (Nat → Bool)
  | 0, alive => alive
  | k + 1, alive => sweeps g ext k (sweep g ext alive)

/-- Every object allocated. -/
def allAlive (g : Graph) : Nat → Bool := fun x => decide (x < g.n)

/-- What is left after the host has dropped all its references (`ext = 0`). -/
def leaked (g : Graph) (x : Nat) : Bool := sweeps g (fun _ => 0) g.n (allAlive g) x

/-- The strong references only ever point "downwards": some rank strictly increases along every
    edge (a tree of containers ranked by depth, state objects ranked above the tree, …). -/
def Ranked (g : Graph) (rank : Nat → Nat) : Prop :=
  (∀ e ∈ g.edges, e.1 < g.n ∧ e.2 < g.n ∧ rank e.1 < rank e.2)

end Heap
end Ink
