/-
  Ink/Save.lean — save / load.  Models StoryState::write_json / load_json_obj
  (story_state.rs), Flow::write_json / from_json (flow.rs), CallStack / Thread
  write_json / load_json / from_json (callstack.rs), VariablesState write_json /
  load_json (variables_state.rs) and json_write.rs, on JSON values.
-/
import Ink.Api

namespace Ink
namespace Save

open Json (get?)

def inkSaveStateVersion : Int := 10
def minCompatibleLoadVersion : Int := 8

/-! ### writing -/

/-- A float as `write_rtobject` writes it.  JSON has no NaN or infinities: NaN is written as
    `0.0` and an infinity as `±3.4e38` (as `f32`: bits `0x7F7FC99E` / `0xFF7FC99E`), which is
    what the reference engine writes.  A finite float is printed with its shortest `f32`
    digits (the Rust widens to `f64` first; transcripts are compared on the `f32` bits). -/
def f32ToJson (f : Float32) : Json :=
  let f : Float32 :=
    if f.isNaN then Float32.ofBits 0
    else if f.isInf then (if f > 0.0 then Float32.ofBits 0x7F7FC99E else Float32.ofBits 0xFF7FC99E)
    else f
  let d := F32.display f
  .flt (if d.toList.contains '.' then d else d ++ ".0")

/-- `write_ink_list` -/
def writeInkList (l : InkList) : Json :=
  let items := l.items.map (fun kv => ((kv.1.origin.getD "?") ++ "." ++ kv.1.name, Json.num kv.2))
  .obj ([("list", Json.obj items)] ++
    (if l.items.isEmpty && !l.initialOrigins.isEmpty then [("origins", Json.ofStrs l.initialOrigins)] else []))

/-- `write_rtobject` for the objects that live on the stacks. -/
def writeObj : Obj → Out Json
  | .val (.bool b) => .ok (.bool b)
  | .val (.int i) => .ok (.num i)
  | .val (.float f) => .ok (f32ToJson f)
  | .val (.str s) => .ok (.str (if isNewlineStr s then "\n" else "^" ++ s))
  | .val (.list l) => .ok (writeInkList l)
  | .val (.dtarget p) => .ok (.obj [("^->", .str (String.ofList p.toText))])
  | .val (.varptr n ci) => .ok (.obj [("^var", .str n), ("ci", .num ci)])
  | .glue => .ok (.str "<>")
  | .cmd c => .ok (.str c.name)
  | .native op => .ok (.str (if op.name == "^" then "L^" else op.name))
  | .void => .ok (.str "void")
  | .tag t => .ok (.obj [("#", .str t)])
  | .varAss n isNew isGlobal =>
    .ok (.obj ([((if isGlobal then "VAR=" else "temp="), Json.str n)] ++ (if !isNew then [("re", Json.bool true)] else [])))
  | _ => .err "Unsupported" "write_rtobject of a container / divert / choice point / variable reference"

def writeObjs : List Obj → Out (List Json)
  | [] => .ok []
  | o :: rest =>
    match writeObj o, writeObjs rest with
    | .ok j, .ok js => .ok (j :: js)
    | .err k m, _ => .err k m
    | .panic p, _ => .panic p
    | _, .err k m => .err k m
    | _, .panic p => .panic p

def pushPopCode : PushPop → Int
  | .tunnel => 0 | .function => 1 | .functionEvaluationFromGame => 2

/-- `Thread::write_json` -/
def writeThread (root : Obj) (t : Thread) : Out Json :=
  let els : Out (List Json) := t.callstack.foldr (fun el acc =>
    match acc with
    | .ok js =>
      let ptrPart : Out (List (String × Json)) :=
        match el.ptr.container with
        | some a => match pathOf root a with
          | some p => .ok [("cPath", .str (String.ofList p.toText)), ("idx", .num el.ptr.index)]
          | none => .panic "object.rs:get_path"
        | none => .ok []
      let temps : Out (List (String × Json)) :=
        if el.temps.isEmpty then .ok []
        else match writeObjs (el.temps.map (fun kv => Obj.val kv.2)) with
          | .ok vs => .ok [("temp", Json.obj ((el.temps.map (·.1)).zip vs))]
          | .err k m => .err k m
          | .panic p => .panic p
      match ptrPart, temps with
      | .ok pp, .ok tp =>
        .ok (Json.obj (pp ++ [("exp", .bool el.inExpr), ("type", .num (pushPopCode el.kind))] ++ tp) :: js)
      | .err k m, _ => .err k m
      | .panic p, _ => .panic p
      | _, .err k m => .err k m
      | _, .panic p => .panic p
    | other => other) (.ok [])
  match els with
  | .ok js =>
    let prev : Out (List (String × Json)) :=
      if t.prevPtr.isNull then .ok []
      else match t.prevPtr.resolve root with
        -- a pointer beyond the end of its container addresses no object:
        -- it is written as `Pointer::get_path` (container path + index)
        | none => (match t.prevPtr.path root with
          | some (some p) => .ok [("previousContentObject", .str (String.ofList p.toText))]
          | some none => .ok []
          | none => .panic "object.rs:get_path")
        | some a => match pathOf root a with
          | some p => .ok [("previousContentObject", .str (String.ofList p.toText))]
          | none => .panic "object.rs:get_path"
    match prev with
    | .ok pp => .ok (.obj ([("callstack", .arr js), ("threadIndex", .num t.index)] ++ pp))
    | .err k m => .err k m
    | .panic p => .panic p
  | .err k m => .err k m
  | .panic p => .panic p

def mapOut {α β : Type} (f : α → Out β) : List α → Out (List β)
  | [] => .ok []
  | x :: xs =>
    match f x with
    | .ok y => (match mapOut f xs with
      | .ok ys => .ok (y :: ys)
      | .err k m => .err k m
      | .panic p => .panic p)
    | .err k m => .err k m
    | .panic p => .panic p

/-- `write_choice` -/
def writeChoice (c : Choice) (origThread : Nat) : Json :=
  .obj ([("text", .str c.text), ("index", .num c.index), ("originalChoicePath", .str c.sourcePath),
         ("originalThreadIndex", .num origThread), ("targetPath", .str (String.ofList c.targetPath.toText)),
         ("tags", Json.ofStrs c.tags)]
        ++ (if c.isInvisibleDefault then [("isInvisibleDefault", Json.bool true)] else []))

/-- `Flow::write_json` -/
def writeFlow (root : Obj) (f : Flow) : Out Json :=
  match mapOut (writeThread root) f.callstack.threads, writeObjs f.output with
  | .ok threads, .ok out =>
    -- choice threads that are not on the call stack any more
    let withThread : Out (List (Choice × Thread)) := mapOut (fun (c : Choice) =>
      match c.thread with
      | some t => Out.ok (c, t)
      | none => .panic "flow.rs:thread_at_generation") f.choices
    match withThread with
    | .ok cts =>
      let extra := cts.filter (fun ct => (f.callstack.getThreadWithIndex ct.2.index).isNone)
      match mapOut (fun (ct : Choice × Thread) =>
          match writeThread root ct.2 with
          | .ok j => Out.ok (intToString ct.2.index, j)
          | .err k m => .err k m
          | .panic p => .panic p) extra with
      | .ok ctJson =>
        let ctDedup := ctJson.foldl (fun acc kv => alSet acc kv.1 kv.2) []
        .ok (.obj ([("callstack", Json.obj [("threads", .arr threads), ("threadCounter", .num f.callstack.threadCounter)]),
                    ("outputStream", .arr out)]
                   ++ (if extra.isEmpty then [] else [("choiceThreads", Json.obj ctDedup)])
                   ++ [("currentChoices", .arr (cts.map (fun ct => writeChoice ct.1 ct.2.index)))]))
      | .err k m => .err k m
      | .panic p => .panic p
    | .err k m => .err k m
    | .panic p => .panic p
  | .err k m, _ => .err k m
  | .panic p, _ => .panic p
  | _, .err k m => .err k m
  | _, .panic p => .panic p

/-- `val_equal` of variables_state.rs -/
def valEqual : Val → Val → Bool
  | .bool a, .bool b => a == b
  | .int a, .int b => a == b
  | .float a, .float b => a == b
  | .list a, .list b => a.eq b
  | .str a, .str b => a == b
  | .dtarget a, .dtarget b => decide (a = b)
  | .varptr n c, .varptr n' c' => n == n' && c == c'
  | _, _ => false

/-- `StoryState::write_json` -/
def writeState (root : Obj) (ss : StoryState) : Out Json :=
  let s := ss.core
  let flows : Out (List (String × Json)) := mapOut (fun (nf : String × Flow) =>
      match writeFlow root nf.2 with
      | .ok j => Out.ok (nf.1, j)
      | .err k m => .err k m
      | .panic p => .panic p) ((s.flow.name, s.flow) :: (ss.namedFlows.getD []))
  let vars : Out (List (String × Json)) := mapOut (fun (kv : String × Val) =>
      match writeObj (.val kv.2) with
      | .ok j => Out.ok (kv.1, j)
      | .err k m => .err k m
      | .panic p => .panic p)
    (s.vars.globals.filter (fun kv => match alGet s.defaultGlobals kv.1 with
      | some d => !valEqual kv.2 d
      | none => true))
  match flows, vars, writeObjs s.evalStack.reverse with
  | .ok fl, .ok vs, .ok es =>
    let divert : Out (List (String × Json)) :=
      if s.divertedPtr.isNull then .ok []
      else match s.divertedPtr.path root with
        | some (some p) => .ok [("currentDivertTarget", .str (String.ofList p.toText))]
        | _ => .panic "story_state.rs:diverted_pointer_path"
    match divert with
    | .ok dv =>
      -- named flows overwrite the current flow's entry when they carry the same name
      let flDedup := fl.foldl (fun acc kv => alSet acc kv.1 kv.2) []
      .ok (.obj ([("flows", Json.obj flDedup), ("currentFlowName", .str s.flow.name),
                  ("variablesState", Json.obj vs), ("evalStack", .arr es)] ++ dv ++
                 [("visitCounts", Json.obj (s.visitCounts.map (fun kv => (kv.1, Json.num kv.2)))),
                  ("turnIndices", Json.obj (s.turnIndices.map (fun kv => (kv.1, Json.num kv.2)))),
                  ("turnIdx", .num s.turnIndex), ("storySeed", .num s.storySeed),
                  ("previousRandom", .num s.previousRandom), ("inkSaveVersion", .num inkSaveStateVersion),
                  ("inkFormatVersion", .num 21)]))
    | .err k m => .err k m
    | .panic p => .panic p
  | .err k m, _, _ => .err k m
  | .panic p, _, _ => .panic p
  | _, .err k m, _ => .err k m
  | _, .panic p, _ => .panic p
  | _, _, .err k m => .err k m
  | _, _, .panic p => .panic p

/-- `Story::save_state` -/
def saveState (st : Story) : Out Json := writeState st.root st.state

/-! ### reading -/

def bad {α : Type} (m : String) : Out α := .badJson m

/-- Values read back by `jtoken_to_runtime_object` (stack objects). -/
def readObj (tok : Json) : Out Obj := Load.tokenToObj 64 tok none

def readObjs (toks : List Json) : Out (List Obj) := mapOut readObj toks

/-- `jobject_to_choice` -/
def readChoice (tok : Json) : Out Choice :=
  match get? tok "originalChoicePath" with
  | none => bad "currentChoices: not a choice"
  | some _ =>
    -- a choice object must not carry any of the keys that `jtoken_to_runtime_object` tests first
    if ["^->", "^var", "->", "f()", "->t->", "x()", "*", "VAR?", "CNT?", "VAR=", "temp=", "#", "list"].any
        (fun k => (get? tok k).isSome) then
      (match readObj tok with
        | .ok _ => bad "currentChoices: not a choice"
        | .err k m => .err k m
        | .panic p => .panic p)
    else
    match (get? tok "text").bind Json.asStr?, (get? tok "index").bind Load.asU64,
          (get? tok "originalChoicePath").bind Json.asStr?, (get? tok "originalThreadIndex").bind Load.asU64,
          (get? tok "targetPath").bind Json.asStr? with
    | some text, some index, some src, some oti, some tp =>
      let tags : Out (List String) := match get? tok "tags" with
        | none => .ok []
        | some (.arr ts) => if ts.all (fun t => t.asStr?.isSome) then .ok (ts.filterMap Json.asStr?) else bad "tags"
        | some _ => bad "tags"
      match tags with
      | .ok tg => .ok { text := text, index := index.toNat, sourcePath := src,
                        targetPath := Path.parse tp.toList,
                        isInvisibleDefault := ((get? tok "isInvisibleDefault").bind Json.asBool?).getD false,
                        tags := tg,
                        thread := none, originalThreadIndex := oti.toNat }
      | .err k m => .err k m
      | .panic p => .panic p
    | _, _, _, _, _ => bad "choice field"

/-- `PushPopType::from_value` -/
def pushPopOfCode (n : Int) : Out PushPop :=
  if n == 0 then .ok .tunnel else if n == 1 then .ok .function
  else if n == 2 then .ok .functionEvaluationFromGame else bad "Unexpected PushPopType value"

/-- `Thread::from_json` -/
def readThread (root : Obj) (tok : Json) : Out Thread :=
  match (get? tok "threadIndex").bind Load.asU64 with
  | none => bad "Invalid thread index"
  | some ti =>
    let elToks : List Json := match get? tok "callstack" with
      | some (.arr xs) => xs.filter (fun x => x.asObj?.isSome)
      | _ => []
    let els : Out (List Element) := mapOut (fun (e : Json) =>
      match (get? e "type").bind Load.asU64 with
      | none => bad "Invalid push/pop type"
      | some ty =>
        match pushPopOfCode ty with
        | .ok kind =>
          let ptr : Out Ptr := match (get? e "cPath").bind Json.asStr? with
            | some cp =>
              let sr := contentAtPath root [] (Path.parse cp.toList).comps
              (match (get? e "idx").bind Load.asI64 with
              | some idx => .ok { container := if isContainerAt root sr.addr then some sr.addr else none,
                                  index := wrapI32 idx }
              | none => bad "Invalid pointer index")
            | none => .ok Ptr.null
          let temps : Out (List (String × Val)) := match (get? e "temp").bind Json.asObj? with
            | some kvs => mapOut (fun (kv : String × Json) =>
                match readObj kv.2 with
                | .ok (.val v) => Out.ok (kv.1, v)
                | .ok _ => bad "a variable (not a value)"
                | .err k m => .err k m
                | .panic p => .panic p) kvs
            | none => .ok []
          match ptr, temps with
          | .ok p, .ok t =>
            .ok { ptr := p, inExpr := ((get? e "exp").bind Json.asBool?).getD false, temps := t, kind := kind,
                  evalHeightWhenPushed := 0, funcStartInOutput := 0 }
          | .err k m, _ => .err k m
          | .panic p, _ => .panic p
          | _, .err k m => .err k m
          | _, .panic p => .panic p
        | .err k m => .err k m
        | .panic p => .panic p) elToks
    match els with
    | .ok es =>
      let prev : Out Ptr := match (get? tok "previousContentObject").bind Json.asStr? with
        | some pp => pointerAtPath root (Path.parse pp.toList)
        | none => .ok Ptr.null
      match prev with
      | .ok pp => .ok { callstack := es, prevPtr := pp, index := ti.toNat }
      | .err k m => .err k m
      | .panic p => .panic p
    | .err k m => .err k m
    | .panic p => .panic p

/-- `CallStack::load_json` -/
def readCallStack (root : Obj) (tok : Json) : Out CallStack :=
  match (get? tok "threads").bind Json.asArr? with
  | none => bad "loading threads"
  | some ts =>
    if !ts.all (fun t => t.asObj?.isSome) then
      -- threads before the offending entry are parsed first; their errors win
      (match mapOut (readThread root) (ts.takeWhile (fun t => t.asObj?.isSome)) with
        | .ok _ => bad "loading a thread"
        | .err k m => .err k m
        | .panic p => .panic p)
    else
    match mapOut (readThread root) ts with
    | .ok threads =>
      if threads.isEmpty || threads.any (fun t => t.callstack.isEmpty) then bad "loading threads: empty call stack"
      else match (get? tok "threadCounter").bind Load.asU64 with
        | some tc => .ok { threads := threads, threadCounter := tc.toNat }
        | none => bad "loading threadCounter"
    | .err k m => .err k m
    | .panic p => .panic p

/-- `Flow::from_json` -/
def readFlow (root : Obj) (name : String) (tok : Json) : Out Flow :=
  match (get? tok "outputStream").bind Json.asArr? with
  | none => bad "outputStream not found."
  | some outToks =>
    match readObjs outToks with
    | .ok out =>
      match (get? tok "currentChoices").bind Json.asArr? with
      | none => bad "currentChoices not found."
      | some chToks =>
        match mapOut readChoice chToks with
        | .ok choices =>
          match (get? tok "callstack").bind (fun c => if c.asObj?.isSome then some c else none) with
          | none => bad "loading callstack"
          | some csTok =>
            match readCallStack root csTok with
            | .ok cs =>
              let jct := get? tok "choiceThreads"
              let withThreads : Out (List Choice) := mapOut (fun (c : Choice) =>
                match cs.getThreadWithIndex c.originalThreadIndex with
                | some t => Out.ok { c with thread := some t }
                | none =>
                  match (jct.bind (fun j => get? j (toString c.originalThreadIndex))).bind
                      (fun t => if t.asObj?.isSome then some t else none) with
                  | some tt => (match readThread root tt with
                    | .ok t =>
                      -- choosing the choice makes this thread the current one
                      if t.callstack.isEmpty then bad "loading choice threads: empty call stack"
                      else .ok { c with thread := some t }
                    | .err k m => .err k m
                    | .panic p => .panic p)
                  | none => bad "loading choice threads") choices
              match withThreads with
              | .ok chs => .ok { name := name, callstack := cs, output := out, choices := chs }
              | .err k m => .err k m
              | .panic p => .panic p
            | .err k m => .err k m
            | .panic p => .panic p
        | .err k m => .err k m
        | .panic p => .panic p
    | .err k m => .err k m
    | .panic p => .panic p

def readIntDict (tok : Json) (what : String) : Out (List (String × Int)) :=
  match tok.asObj? with
  | none => bad what
  | some kvs =>
    if kvs.all (fun kv => match Load.asI64 kv.2 with | some n => inI32 n | none => false) then
      .ok (kvs.map (fun kv => (kv.1, (Load.asI64 kv.2).getD 0)))
    else bad "a count"

/-- Sequencing helper: run `f` on the state so far; an error keeps the state reached. -/
def andThen (r : Out Unit × StoryState) (f : StoryState → Out Unit × StoryState) : Out Unit × StoryState :=
  match r with
  | (.ok (), s) => f s
  | other => other

def onCore (s : StoryState) (f : Core → Core) : StoryState := { s with core := f s.core }

/-- `StoryState::load_json_obj`.  A failing load leaves the state as far as it got. -/
def loadStateObj (root : Obj) (s : StoryState) (j : Json) : Out Unit × StoryState :=
  match get? j "inkSaveVersion" with
  | none => (bad "ink save format incorrect, can't load.", s)
  | some v =>
    let tooOld : Bool := match Load.asI64 v with
      | some n => decide (n < minCompatibleLoadVersion)
      | none => false
    if tooOld then
      (bad "Ink save format isn't compatible with the current version", s)
    else
      let flowsStep : Out Unit × StoryState :=
        match get? j "flows" with
        | some flowsTok =>
          match flowsTok.asObj? with
          | none => (bad "Invalid flows object", s)
          | some flows =>
            let single := flows.length == 1
            let s0 := { s with namedFlows := if single then none else some [] }
            -- load each flow in order; stop at the first failure
            let rec go : List (String × Json) → StoryState → Out Unit × StoryState
              | [], st => (.ok (), st)
              | (name, ftok) :: rest, st =>
                if ftok.asObj?.isNone then (bad "Invalid flow object", st)
                else match readFlow root name ftok with
                  | .ok fl =>
                    if single then go rest (onCore st (fun c => { c with flow := fl }))
                    else go rest { st with namedFlows := some (alSet (st.namedFlows.getD []) name fl) }
                  | .err k m => (.err k m, st)
                  | .panic p => (.panic p, st)
            andThen (go flows s0) (fun st =>
              match st.namedFlows with
              | some nf =>
                if nf.length > 1 then
                  match (get? j "currentFlowName").bind Json.asStr? with
                  | some cur =>
                    (match alGet nf cur with
                    | some fl => (.ok (), { (onCore st (fun c => { c with flow := fl })) with namedFlows := some (alRemove nf cur) })
                    | none => (.ok (), st))
                  | none => (.ok (), st)
                else (.ok (), st)
              | none => (.ok (), st))
        | none => (.err "Unsupported" "old save format without flows", s)
      andThen flowsStep (fun s1 =>
      andThen (match get? j "variablesState" with
        | some vtok =>
          (match vtok.asObj? with
          | none => (bad "Invalid variables state object", s1)
          | some _ =>
            match mapOut (fun (kv : String × Val) =>
                match get? vtok kv.1 with
                | some tok => (match readObj tok with
                  | .ok (.val v) => Out.ok (kv.1, v)
                  | .ok _ => bad "Variable is not a value"
                  | .err k m => .err k m
                  | .panic p => .panic p)
                | none => .ok kv) s1.core.defaultGlobals with
            | .ok gl => (.ok (), onCore s1 (fun c => { c with vars := c.vars.replaceGlobals gl }))
            -- `global_variables.clear()` happened before the failing entry
            | .err k m => (.err k m, onCore s1 (fun c => { c with vars := c.vars.replaceGlobals [] }))
            | .panic p => (.panic p, s1))
        | none => (.ok (), s1)) (fun s2 =>
      andThen (match get? j "evalStack" with
        | some etok =>
          (match etok.asArr? with
          | none => (bad "Invalid evaluation stack", s2)
          | some toks => match readObjs toks with
            | .ok objs => (.ok (), onCore s2 (fun c => { c with evalStack := objs.reverse }))
            | .err k m => (.err k m, s2)
            | .panic p => (.panic p, s2))
        | none => (.ok (), s2)) (fun s3 =>
      andThen (match get? j "currentDivertTarget" with
        | some dtok =>
          let path : Path := match dtok.asStr? with
            | some t => Path.parse t.toList
            | none => Path.empty
          (match pointerAtPath root path with
          | .ok p => (.ok (), onCore s3 (fun c => { c with divertedPtr := p }))
          | .err k m => (.err k m, s3)
          | .panic p => (.panic p, s3))
        | none => (.ok (), s3)) (fun s4 =>
      andThen (match get? j "visitCounts" with
        | some t => (match readIntDict t "Invalid visit counts object" with
          | .ok d => (.ok (), onCore s4 (fun c => { c with visitCounts := d }))
          | .err k m => (.err k m, s4)
          | .panic p => (.panic p, s4))
        | none => (.ok (), s4)) (fun s5 =>
      andThen (match get? j "turnIndices" with
        | some t => (match readIntDict t "Invalid turn indices object" with
          | .ok d => (.ok (), onCore s5 (fun c => { c with turnIndices := d }))
          | .err k m => (.err k m, s5)
          | .panic p => (.panic p, s5))
        | none => (.ok (), s5)) (fun s6 =>
      andThen (match get? j "turnIdx" with
        | some t => (match Load.asI64 t with
          | some n => (.ok (), onCore s6 (fun c => { c with turnIndex := wrapI32 n }))
          | none => (bad "Invalid current turn index", s6))
        | none => (.ok (), s6)) (fun s7 =>
      andThen (match get? j "storySeed" with
        | some t => (match Load.asI64 t with
          | some n => (.ok (), onCore s7 (fun c => { c with storySeed := wrapI32 n }))
          | none => (bad "Invalid story seed", s7))
        | none => (.ok (), s7)) (fun s8 =>
      match get? j "previousRandom" with
      | some t => (match Load.asI64 t with
        | some n => (.ok (), onCore s8 (fun c => { c with previousRandom := wrapI32 n }))
        | none => (bad "Invalid previous random value", s8))
      | none => (.ok (), onCore s8 (fun c => { c with previousRandom := 0 }))))))))))

/-- `Story::load_state` on an already parsed document (`none` = not JSON). -/
def loadState (st : Story) (doc : Option Json) : Out Unit × Story :=
  match st.ifAsyncWeCant "load a saved state" with
  | .err k m => (.err k m, st)
  | .panic p => (.panic p, st)
  | .ok () =>
    match doc with
    | none => (bad "State not in JSON format.", st)
    | some j =>
      match loadStateObj st.root st.state j with
      | (r, s') => (r, { st with state := s' })

end Save
end Ink
