/-
  Ink/Audit.lean — the model's side of the audit hook (`Story::verif_audit`):
  the same rows, computed from the model of the loader, of paths and of path
  resolution.  Row equality with the real code is the C19 / C14 / C06 tie.
-/
import Ink.Load
import Ink.Tree

namespace Ink
namespace Audit

open Json

def jstr (s : String) : Json := .str s
def jchars (s : List Char) : Json := .str (String.ofList s)
def jnat (n : Nat) : Json := .num n

def stepText : Step → String
  | .idx i => String.ofList (decimal i)
  | .named k => "n:" ++ k

def addrJson (a : Addr) : Json := .arr (a.map (fun s => jstr (stepText s)))

def compJson : Comp → Json
  | .idx n => jchars ('i' :: decimal n)
  | .name s => jchars ('n' :: s)

def compsJson (cs : List Comp) : Json := .arr (cs.map compJson)

def optStr : Option String → Json
  | some s => .str s
  | none => .null

/-- Raw facts about a path, as `path_facts` in the hook. -/
def pathFacts (pre : String) (p : Path) : List (String × Json) :=
  let s := p.toText
  let q := Path.parse s
  [ (pre ++ "c", compsJson p.comps), (pre ++ "r", .bool p.rel), (pre ++ "s", jchars s),
    (pre ++ "pc", compsJson q.comps), (pre ++ "pr", .bool q.rel), (pre ++ "ps", jchars q.toText),
    (pre ++ "eq", .bool (decide (p = q))), (pre ++ "heq", .bool (decide (p.hashKey = q.hashKey))) ]

def tripleLt (a b : String × String × Int) : Bool :=
  a.1 < b.1 || (a.1 == b.1 && (a.2.1 < b.2.1 || (a.2.1 == b.2.1 && a.2.2 < b.2.2)))

def insertBy {α : Type} (lt : α → α → Bool) (x : α) : List α → List α
  | [] => [x]
  | y :: ys => if lt x y then x :: y :: ys else y :: insertBy lt x ys

def sortBy {α : Type} (lt : α → α → Bool) (l : List α) : List α :=
  l.foldl (fun acc x => insertBy lt x acc) []

def pushTypeName : PushPop → String
  | .tunnel => "tunnel" | .function => "function" | .functionEvaluationFromGame => "game"

def describe : Obj → String × Json
  | .container _ _ _ _ => ("container", .null)   -- see describe'
  | .val (.bool b) => ("bool", .bool b)
  | .val (.int i) => ("int", .num i)
  | .val (.float f) => ("float", .num f.toBits.toNat)
  | .val (.str s) => ("str", .str s)
  | .val (.dtarget p) => ("dtarget", jchars p.toText)
  | .val (.varptr n ci) => ("varptr", .obj [("name", .str n), ("ci", .num ci)])
  | .val (.list l) =>
    let items := sortBy tripleLt (l.items.map (fun kv => (kv.1.origin.getD "", kv.1.name, kv.2)))
    let origins : Json :=
      if l.items.all (fun kv => kv.1.origin.isSome) then
        let names := if l.items.isEmpty then l.initialOrigins else l.items.map (fun kv => kv.1.origin.getD "")
        .arr ((sortBy (fun (a b : String) => a < b) names).map .str)
      else .null
    ("list", .obj [("items", .arr (items.map (fun t => .arr [.str t.1, .str t.2.1, .num t.2.2]))),
                   ("origins", origins)])
  | .cmd c => ("cmd", .str c.name)
  | .native op => ("native", .str op.name)
  | .divert d => ("divert", .obj [("push", .bool d.pushes), ("type", .str (pushTypeName d.pushType)),
      ("ext", .bool d.external), ("exargs", .num d.exArgs), ("cond", .bool d.conditional),
      ("var", optStr d.varName)])
  | .choicePoint flags _ => ("choice", .num (choiceFlags flags))
  | .varRef n c => ("varref", .obj [("name", .str n), ("count", match c with
      | some p => jchars p.toText | none => .null)])
  | .varAss n isNew isGlobal => ("varass", .obj [("name", .str n), ("global", .bool isGlobal), ("new", .bool isNew)])
  | .glue => ("glue", .null)
  | .void => ("void", .null)
  | .tag t => ("tag", .str t)

def describe' (o : Obj) : String × Json :=
  match o with
  | .container name _ _ _ => ("container", .obj [("name", optStr name), ("flags", .num o.countFlags)])
  | _ => describe o

/-- One `"t":"obj"` row; `none` = the hook panics (`get_path`). -/
def objRow (root : Obj) (a : Addr) (o : Obj) : Option Json :=
  match pathOf root a with
  | none => none
  | some p =>
    let (k, d) := describe' o
    let sr := contentAtPath root [] p.comps
    let ptr : String := match pointerAtPath root p with
      | .ok ptr => match ptr.resolve root with
        | some r => if r = a then "ok" else "diff"
        | none => "null"
      | _ => "err"
    some (.obj ([("t", .str "obj"), ("a", addrJson a), ("k", .str k), ("d", d)]
      ++ pathFacts "p" p
      ++ [("res", .bool (decide (sr.addr = a))), ("apx", .bool sr.approximate), ("ptr", .str ptr)]))

/-- The raw path carried by a reference object, with its row kind. -/
def refPath : Obj → Option (String × Path)
  | .divert d => if d.external then none else d.target.map (fun p => ("divert", p))
  | .choicePoint _ p => some ("choice", p)
  | .varRef _ (some p) => some ("count", p)
  | .val (.dtarget p) => some ("dtarget", p)
  | _ => none

/-- One `"t":"ref"` row; outer `none` = not a reference; inner `none` = the hook panics. -/
def refRow (root : Obj) (a : Addr) (o : Obj) : Option (Option Json) :=
  match refPath o with
  | none => none
  | some (kind, raw) =>
    some <|
    match resolvePath root a raw, pathOf root a with
    | some sr, some own =>
      match pathOf root sr.addr with
      | none => none
      | some tp =>
        let compact : Option Json :=
          if kind == "dtarget" then some .null
          else (Path.compact own raw).map jchars
        match compact with
        | none => none
        | some cj =>
          some (.obj ([("t", .str "ref"), ("a", addrJson a), ("k", .str kind)]
            ++ pathFacts "r" raw
            ++ [("apx", .bool sr.approximate), ("tgt", jchars tp.toText),
                ("tgtc", .bool (isContainerAt root sr.addr)), ("compact", cj)]))
    | _, _ => none

/-- One `"t":"pair"` row. -/
def pairRow (root : Obj) (aa ba : Addr) : Option Json :=
  match pathOf root aa, pathOf root ba with
  | some pa, some pb =>
    let rel := Path.toRelative pa pb
    let back : Option Path := if rel.rel then Path.appendPath pa rel else some rel
    match back, resolvePath root aa rel with
    | some back, some sr =>
      some (.obj ([("t", .str "pair"), ("a", addrJson aa), ("b", addrJson ba)]
        ++ pathFacts "l" rel
        ++ [("back", jchars back.toText), ("backeq", .bool (decide (back = pb))),
            ("res", .bool (decide (sr.addr = ba))), ("apx", .bool sr.approximate)]))
    | _, _ => none
  | _, _ => none

/-- All rows, or `none` when the hook would panic. -/
def rows (root : Obj) (fuel : Nat) : Option (List Json) := do
  let objs := walk fuel root []
  let objRows ← objs.mapM (fun ao => objRow root ao.1 ao.2)
  let refRows ← (objs.filterMap (fun ao => refRow root ao.1 ao.2)).mapM id
  let n := objs.length
  let arr := objs.toArray
  let mut pairs : List Json := []
  if n > 1 then
    for i in [0:n] do
      for j in [(i * 7 + 3) % n, (i + 1) % n, (i * 31 + 11) % n] do
        if i != j then
          match arr[i]?, arr[j]? with
          | some a, some b =>
            let r ← pairRow root a.1 b.1
            pairs := r :: pairs
          | _, _ => pure ()
  pure (objRows ++ refRows ++ pairs.reverse)

end Audit
end Ink
