/-
  Ink/Step.lean — one interpreter step.  Models story/progress.rs (step,
  next_content, increment_content_pointer, visit_container),
  story/navigation.rs (visit_changed_containers_due_to_divert),
  story/control_logic.rs, story/choices.rs, story/external_functions.rs
  (call_external_function) and the shuffle index of story/mod.rs.

  A step runs in the monad `M`: it threads the story state and the
  step-level auxiliaries (external bindings with their call counters, the
  callback event log, the "saw a look-ahead-unsafe function" flag) and keeps
  every mutation made before an error, as the Rust `?` does.
-/
import Ink.State
import Ink.Rng
import Ink.Json

namespace Ink

/-- A bound external function as the harness defines it. -/
structure ExtDef where
  id : String
  safe : Bool
  ret : Json
  calls : Nat
  deriving Inhabited

/-- Read-only surroundings of a step. -/
structure Env where
  root : Obj
  defs : ListDefs
  snapshotActive : Bool
  allowFallbacks : Bool
  /-- number of lines delivered to the host so far (logged with external calls) -/
  lines : Nat

/-- Mutable part threaded through a step. -/
structure St where
  s : Core
  externals : List (String × ExtDef)
  /-- callback events, newest first -/
  events : List Json
  sawUnsafe : Bool
  /-- warnings raised by this step, oldest first (a step never reads the warning list) -/
  newWarnings : List String

def M (α : Type) : Type := St → Out α × St

namespace M
@[inline] def pure' {α : Type} (a : α) : M α := fun st => (.ok a, st)
@[inline] def bind' {α β : Type} (x : M α) (f : α → M β) : M β := fun st =>
  match x st with
  | (.ok a, st') => f a st'
  | (.err k m, st') => (.err k m, st')
  | (.panic p, st') => (.panic p, st')
instance : Monad M where
  pure := pure'
  bind := bind'
def get : M Core := fun st => (.ok st.s, st)
def set (s : Core) : M Unit := fun st => (.ok (), { st with s := s })
def modify (f : Core → Core) : M Unit := fun st => (.ok (), { st with s := f st.s })
def getSt : M St := fun st => (.ok st, st)
def setSt (st' : St) : M Unit := fun _ => (.ok (), st')
def fail {α : Type} (kind msg : String) : M α := fun st => (.err kind msg, st)
def invalid {α : Type} (msg : String) : M α := fail "InvalidStoryState" msg
def crash {α : Type} (site : String) : M α := fun st => (.panic site, st)
def lift {α : Type} (o : Out α) : M α := fun st => (o, st)
/-- lift a state transformer that can fail -/
def liftS (f : Core → Out Core) : M Unit := fun st =>
  match f st.s with
  | .ok s' => (.ok (), { st with s := s' })
  | .err k m => (.err k m, st)
  | .panic p => (.panic p, st)
def unwrap {α : Type} (site : String) : Option α → M α
  | some a => pure a
  | none => crash site
end M

open M

/-- The text `Story::add_error` (story/errors.rs) records: the message with the current position. -/
def errorText (root : Obj) (s : Core) (message : String) (isWarning : Bool) : String :=
  let kind := if isWarning then "WARNING" else "ERROR"
  let p := s.currentPtr
  if !p.isNull then
    match p.path root with
    | some (some path) => "RUNTIME " ++ kind ++ ": (" ++ String.ofList path.toText ++ "): " ++ message
    | _ => "RUNTIME " ++ kind ++ ": " ++ message
  else "RUNTIME " ++ kind ++ ": " ++ message

/-- `Story::add_error(msg, false)`: record the error and end the story. -/
def addErrorCore (root : Obj) (s : Core) (message : String) : Core :=
  (s.addErrorMessage (errorText root s message false)).forceEnd

/-- `Story::add_error` inside a step: a warning goes to the step's writer channel. -/
def addErrorM (root : Obj) (message : String) (isWarning : Bool) : M Unit := fun st =>
  if isWarning then (.ok (), { st with newWarnings := st.newWarnings ++ [errorText root st.s message true] })
  else (.ok (), { st with s := addErrorCore root st.s message })

/-- `char::is_whitespace` (Unicode White_Space) -/
def isUnicodeWs (c : Char) : Bool :=
  let n := c.toNat
  (9 ≤ n && n ≤ 13) || n == 0x20 || n == 0x85 || n == 0xA0 || n == 0x1680 || (0x2000 ≤ n && n ≤ 0x200A)
  || n == 0x2028 || n == 0x2029 || n == 0x202F || n == 0x205F || n == 0x3000

/-- `str::trim` -/
def trimUnicode (s : String) : String :=
  String.ofList ((s.toList.dropWhile isUnicodeWs).reverse.dropWhile isUnicodeWs).reverse

def popEvalM : M Obj := fun st =>
  match st.s.popEval with
  | .ok (o, s') => (.ok o, { st with s := s' })
  | .err k m => (.err k m, st)
  | .panic p => (.panic p, st)

def pushEvalM (env : Env) (o : Obj) : M Unit := liftS (fun s => s.pushEval env.defs o)

/-- `Story::is_truthy` -/
def isTruthyObj (o : Obj) : Out Bool :=
  match o with
  | .val (.dtarget p) =>
    .invalid ("Shouldn't use a divert target (to " ++ String.ofList p.toText
      ++ ") as a conditional value. Did you intend a function call 'likeThis()' or a read count check 'likeThis'? (no arrows)")
  | .val v => v.isTruthy
  | _ => .ok false

/-- `visit_container` -/
def visitContainer (env : Env) (a : Addr) (atStart : Bool) : M Unit := do
  match nodeAt env.root a with
  | none => crash "progress.rs:visit_container"
  | some o =>
    if !o.countStartOnly || atStart then
      if o.visitsCounted then liftS (fun s => s.incrementVisitCount env.root a)
      if o.turnsCounted then liftS (fun s => s.recordTurnIndexVisit env.root a)

/-- ancestors of `a` (the container itself first, then upwards) -/
def selfAndAncestors : Addr → Nat → List Addr
  | _, 0 => []
  | a, fuel + 1 => if a.isEmpty then [a] else a :: selfAndAncestors a.dropLast fuel

/-- `visit_changed_containers_due_to_divert` -/
def visitChangedContainersDueToDivert (env : Env) : M Unit := do
  let s ← get
  let prev := s.prevPtr
  let ptr := s.currentPtr
  if ptr.isNull || ptr.index == -1 then return ()
  let prevContainers : List Addr :=
    if prev.isNull then []
    else
      let start : Option Addr :=
        match prev.resolve env.root with
        | some r => if isContainerAt env.root r then some r else prev.container
        | none => prev.container
      match start with
      | some a => selfAndAncestors a (a.length + 1)
      | none => []
  match ptr.resolve env.root with
  | none => return ()
  | some child =>
    let rec loop (fuel : Nat) (child : Addr) (allAtStart : Bool) : M Unit :=
      match fuel with
      | 0 => pure ()
      | fuel + 1 =>
        if child.isEmpty then pure ()      -- the root has no parent
        else
          let anc := child.dropLast
          match nodeAt env.root anc with
          | none => pure ()
          | some ao =>
            if !prevContainers.contains anc || ao.countStartOnly then do
              let isFirst : Bool := match child.getLast? with
                | some (.idx 0) => !ao.content.isEmpty
                | _ => false
              let enteringAtStart := isFirst && allAtStart
              visitContainer env anc enteringAtStart
              loop fuel anc (if !enteringAtStart then false else allAtStart)
            else pure ()
    loop (child.length + 1) child true

/-- `increment_content_pointer` -/
def incrementContentPointer (env : Env) : M Bool := do
  let s ← get
  let p := s.currentPtr
  match p.container with
  | none => crash "progress.rs:increment_content_pointer"
  | some a =>
    let rec climb (fuel : Nat) (a : Addr) (index : Int) (ok : Bool) : Ptr × Bool :=
      match fuel with
      | 0 => ({ container := some a, index := index }, ok)
      | fuel + 1 =>
        let len : Int := match nodeAt env.root a with
          | some o => o.content.length
          | none => 0
        if index ≥ len then
          match a.getLast? with
          | some (.idx i) => climb fuel a.dropLast ((i : Int) + 1) true
          | _ => ({ container := some a, index := index }, false)   -- root, or a named-only child
        else ({ container := some a, index := index }, ok)
    -- `pointer.index.saturating_add(1)`
    let next : Int := if p.index + 1 > i32Max then i32Max else p.index + 1
    let (np, ok) := climb (a.length + 2) a next true
    let np := if ok then np else Ptr.null
    modify (fun s => s.setCurrentPtr np)
    return ok

/-- The sequence shuffle index (`next_sequence_shuffle_index`). -/
def nextSequenceShuffleIndex (env : Env) : M Int := do
  let o ← popEvalM
  let numElements ← match o with
    | .val (.int n) => pure n
    | _ => invalid "Expected number of elements in sequence for shuffle index"
  let s ← get
  let seqContainer ← unwrap "story/mod.rs:shuffle_container" s.currentPtr.container
  let o2 ← popEvalM
  let seqCount ← match o2 with
    | .val (.int n) => pure n
    | _ => invalid "Expected sequence count value for shuffle index"
  -- `MAX_SHUFFLE_ELEMENTS`: the shuffle divides by the number and lists that many indices
  if numElements ≤ 0 || numElements > 10000 then
    invalid ("Expected between 1 and 10000 elements in sequence for shuffle index, but saw " ++ intToString numElements)
  let loopIndex := Int.tdiv seqCount numElements
  let iterationIndex := Int.tmod seqCount numElements
  let pathStr ← unwrap "object.rs:get_path" (pathOf env.root seqContainer)
  -- (`fold(0, wrapping_add)`: wrapping the total below is the same as wrapping every partial sum)
  let sequenceHash : Int := pathStr.toText.foldl (fun h c => h + (c.toNat : Int)) 0
  let randomSeed := wrapI32 (sequenceHash + loopIndex + s.storySeed)
  let rec pick (fuel : Nat) (i : Nat) (unpicked : List Int) : Option Int :=
    match fuel with
    | 0 => none
    | fuel + 1 =>
      if unpicked.isEmpty then none
      else
        let w : Int := wrapI32 (Rng.nthWord randomSeed i)     -- random::<i32>()
        let chosen := (w % (unpicked.length : Int)).toNat       -- rem_euclid
        match unpicked[chosen]? with
        | none => none
        | some ci =>
          if (i : Int) == iterationIndex then some ci
          else pick fuel (i + 1) (unpicked.filter (fun x => x != ci))
  match pick (numElements.toNat + 1) 0 ((List.range numElements.toNat).map Int.ofNat) with
  | some v => return v
  | none =>
    if iterationIndex < 0 then invalid "Should never reach here" else crash "story/mod.rs:shuffle_index"

/-- Value returned by a bound external function (the harness' `Ext`). -/
def extReturn (d : ExtDef) (args : List Val) : Option Val :=
  match d.ret with
  | .null => none
  | ret =>
    match Json.get? ret "arg" with
    | some (.num k) => args[k.toNat]?
    | _ =>
      if (Json.get? ret "sum").isSome then
        some (.int (args.foldl (fun acc a => match a with
          | .int i => wrapI32 (acc + i)
          | _ => acc) 0))
      else if (Json.get? ret "count").isSome then some (.int (d.calls + 1))
      else match Json.get? ret "b", Json.get? ret "i", Json.get? ret "s", Json.get? ret "f" with
        | some (.bool b), _, _, _ => some (.bool b)
        | _, some (.num i), _, _ => some (.int (wrapI32 i))
        | _, _, some (.str t), _ => some (.str t)
        | _, _, _, some (.num bits) => some (.float (Float32.ofBits bits.toNat.toUInt32))
        | _, _, _, _ => none

/-- canonical encoding of a value in events and transcripts (as the harness' `enc_value`) -/
def encVal : Val → Json
  | .bool b => .obj [("b", .bool b)]
  | .int i => .obj [("i", .num i)]
  | .float f => .obj [("f", .num f.toBits.toNat)]
  | .str s => .obj [("s", .str s)]
  | .list l =>
    let items := l.items.map (fun kv => (kv.2, kv.1.origin.getD "", kv.1.name))
    let lt (a b : Int × String × String) : Bool :=
      a.1 < b.1 || (a.1 == b.1 && (a.2.1 < b.2.1 || (a.2.1 == b.2.1 && a.2.2 < b.2.2)))
    let sorted := items.foldl (fun acc x =>
      let rec ins : List (Int × String × String) → List (Int × String × String)
        | [] => [x]
        | y :: ys => if lt x y then x :: y :: ys else y :: ins ys
      ins acc) []
    .obj [("l", .arr (sorted.map (fun t => .arr [.str t.2.1, .str t.2.2, .num t.1])))]
  | .dtarget p => .obj [("dt", .str (String.ofList p.toText))]
  | .varptr _ _ => .obj [("vp", .bool true)]

/-- `call_external_function` -/
def callExternalFunction (env : Env) (funcName : String) (nArgs : Nat) : M Unit := do
  let st ← getSt
  match alGet st.externals funcName with
  | some d =>
    if !d.safe && st.s.inStringEvaluation then
      addErrorM env.root ("External function " ++ funcName ++ " could not be called because 1) it wasn't marked as lookaheadSafe when BindExternalFunction was called and 2) the story is in the middle of string generation, either because choice text is being generated, or because you have ink like \"hello {func()}\". You can work around this by generating the result of your function into a temporary variable before the string or choice gets generated: ~ temp x = " ++ funcName ++ "()") false
      return ()
    if !d.safe && env.snapshotActive then
      setSt { st with sawUnsafe := true }
      return ()
    -- pop arguments (reversed back into call order)
    let rec popArgs (n : Nat) (acc : List Val) : M (List Val) :=
      match n with
      | 0 => pure acc
      | n + 1 => do
        let o ← popEvalM
        match o with
        | .val v => popArgs n (v :: acc)
        | _ => invalid ("Trying to call EXTERNAL function '" ++ funcName ++ "' with arguments which are not values.")
    let args ← popArgs nArgs []
    let st ← getSt
    let ev : Json := .arr [.str "ext", .str d.id, .str funcName, .arr (args.map encVal), .num env.lines]
    let ret := extReturn d args
    setSt { st with events := ev :: st.events,
                    externals := alSet st.externals funcName { d with calls := d.calls + 1 } }
    pushEvalM env (match ret with
      | some v => .val v
      | none => .void)
  | none =>
    if env.allowFallbacks then
      match env.root.lookupName funcName with
      | some stp =>
        let s ← get
        let cs ← unwrap "callstack.rs:push" (s.callstack.push .function 0 s.output.length)
        set { (s.setCallstack cs) with divertedPtr := Ptr.startOf [stp] }
      | none =>
        invalid ("Trying to call EXTERNAL function '" ++ funcName ++ "' which has not been bound, and fallback ink function could not be found.")
    else
      invalid ("Trying to call EXTERNAL function '" ++ funcName ++ "' which has not been bound (and ink fallbacks disabled).")

/-- `Divert::get_target_pointer` for the divert at `a` with target `target`
    (`Result<Pointer, StoryError>`; the cache of the Rust is not observable). -/
def targetPointerOf (root : Obj) (a : Addr) (target : Path) : Out Ptr :=
  -- the empty path is rejected before the path is resolved
  match target.lastComp with
  | none => .invalid "Divert target path is empty."
  | some last =>
    match resolvePath root a target with
    | none => .panic "object.rs:resolve_path"
    | some sr =>
      match last with
      | .idx i =>
        -- `index as i32`: the `usize` index is truncated to 32 bits
        .ok { container := if sr.addr.isEmpty then none else some sr.addr.dropLast, index := wrapI32 i }
      | .name _ =>
        if isContainerAt root sr.addr then .ok (Ptr.startOf sr.addr)
        else .invalid ("Divert target is not a container: " ++ String.ofList target.toText)

def divertTargetPointer (env : Env) (a : Addr) (target : Path) : M Ptr :=
  lift (targetPointerOf env.root a target)

/-- `Divert::get_target_path` for a divert with the (non-variable) target `target`: a relative
    path whose target pointer addresses an object is replaced by the path of that object; a
    target that cannot be resolved keeps its relative path (the error is swallowed). -/
def divertTargetPath (root : Obj) (a : Addr) (target : Path) : Out Path :=
  if target.rel then
    match targetPointerOf root a target with
    | .ok p =>
      (match p.resolve root with
      | some r => (match pathOf root r with
        | some rp => .ok rp
        | none => .panic "object.rs:get_path")
      | none => .ok target)
    | .err _ _ => .ok target
    | .panic s => .panic s
  else .ok target

def pointerAtPathM (env : Env) (p : Path) : M Ptr := lift (pointerAtPath env.root p)

/-- `pop_choice_string_and_tags`: returns the string, and the tags found under it
    prepended (each at the front) to `tags`. -/
def popChoiceStringAndTags (tags : List String) : M (String × List String) := do
  let o ← popEvalM
  let str ← match o with
    | .val (.str t) => pure t
    | _ => invalid "Expected the text of a choice on the evaluation stack."
  let rec popTags (fuel : Nat) (tags : List String) : M (List String) :=
    match fuel with
    | 0 => pure tags
    | fuel + 1 => do
      let s ← get
      match s.evalStack with
      | .tag t :: rest =>
        set { s with evalStack := rest }
        popTags fuel (t :: tags)
      | _ => pure tags
  let s ← get
  let tags ← popTags (s.evalStack.length + 1) tags
  return (str, tags)

/-- `process_choice` for the choice point at `a`. -/
def processChoice (env : Env) (a : Addr) (flags : Int) (pathOnChoice : Path) : M (Option Choice) := do
  let hasCondition := bitSet flags 0
  let hasStart := bitSet flags 1
  let hasChoiceOnly := bitSet flags 2
  let invisible := bitSet flags 3
  let onceOnly := bitSet flags 4
  let mut visible := true
  if hasCondition then
    let c ← popEvalM
    let t ← lift (isTruthyObj c)
    if !t then visible := false
  let mut tags : List String := []
  let mut choiceOnlyText := ""
  let mut startText := ""
  if hasChoiceOnly then
    let (t, tg) ← popChoiceStringAndTags tags
    choiceOnlyText := t
    tags := tg
  if hasStart then
    let (t, tg) ← popChoiceStringAndTags tags
    startText := t
    tags := tg
  let sr ← unwrap "object.rs:resolve_path" (resolvePath env.root a pathOnChoice)
  let targetIsContainer := isContainerAt env.root sr.addr
  if onceOnly then
    if !targetIsContainer then
      -- `Display for ChoicePoint`: the raw path on the choice (it is only rewritten when the target is a container)
      invalid ("Failed to find the target container of a once-only choice: Choice: -> "
        ++ String.ofList pathOnChoice.toText)
    let s ← get
    let vc ← lift (s.visitCountFor env.root sr.addr)
    if vc > 0 then visible := false
  if !visible then return none
  -- `get_path_on_choice`: a relative path is replaced by the target's own path
  let targetPath ←
    if pathOnChoice.rel && targetIsContainer then unwrap "object.rs:get_path" (pathOf env.root sr.addr)
    else pure pathOnChoice
  let own ← unwrap "object.rs:get_path" (pathOf env.root a)
  let s ← get
  let (cs, th) ← unwrap "callstack.rs:fork_thread" s.callstack.forkThread
  set (s.setCallstack cs)
  return some { text := trimUnicode (startText ++ choiceOnlyText), index := 0,
                sourcePath := String.ofList own.toText,
                targetPath := targetPath, isInvisibleDefault := invisible, tags := tags,
                thread := some th, originalThreadIndex := 0 }

/-- `set_chosen_path` + `visit_changed_containers_due_to_divert` (`choose_path`). -/
def choosePath (env : Env) (p : Path) (incrementTurn : Bool) : M Unit := do
  let ptr ← pointerAtPathM env p
  let ptr := if !ptr.isNull && ptr.index == -1 then { ptr with index := 0 } else ptr
  modify (fun s =>
    let s1 := { s with flow := { s.flow with choices := [] } }
    let s2 := s1.setCurrentPtr ptr
    if incrementTurn then { s2 with turnIndex := wrapI32 (s2.turnIndex + 1) } else s2)
  visitChangedContainersDueToDivert env

/-- `try_follow_default_invisible_choice` -/
def tryFollowDefaultInvisibleChoice (env : Env) : M Unit := do
  let s ← get
  if s.canContinue then return ()     -- get_current_choices() is None
  let all := s.flow.choices
  let invisible := all.filter (fun c => c.isInvisibleDefault)
  if invisible.isEmpty || all.length > invisible.length then return ()
  match invisible.head? with
  | none => return ()
  | some choice =>
    let th ← unwrap "choices.rs:thread_at_generation" choice.thread
    let s1 := s.mapCallstack (fun cs => cs.setCurrentThread th)
    let s2 ←
      if env.snapshotActive then
        match s1.callstack.forkThread with
        | some (cs, forked) => pure (s1.setCallstack (cs.setCurrentThread forked))
        | none => crash "callstack.rs:fork_thread"
      else pure s1
    set s2
    choosePath env choice.targetPath false

/-- `perform_logic_and_flow_control`; returns whether the object was logic / flow control. -/
def performLogicAndFlowControl (env : Env) (a : Addr) (obj : Obj) : M Bool := do
  match obj with
  | .divert d =>
    if d.conditional then
      let o ← popEvalM
      let t ← lift (isTruthyObj o)
      if !t then return true
    match d.varName with
    | some vn =>
      let s ← get
      match s.getVariable env.defs vn (-1) Core.maxPointerChain with
      | some (.dtarget target) =>
        let p ← pointerAtPathM env target
        modify (fun s => { s with divertedPtr := p })
      | some v =>
        let base := "Tried to divert to a target from a variable, but the variable (" ++ vn
          ++ ") didn't contain a divert target, it "
        match v with
        | .int 0 => invalid (base ++ "was empty/null (the value 0).")
        | .int _ => invalid (base ++ "contained '" ++ v.display ++ "'.")
        | _ => invalid base
      | none =>
        invalid ("Tried to divert using a target from a variable that could not be found (" ++ vn ++ ")")
    | none =>
      if d.external then
        let target ← unwrap "divert.rs:get_target_path_string" d.target
        let own ← unwrap "object.rs:get_path" (pathOf env.root a)
        -- `get_target_path_string`: the (resolved) target path, compacted against the divert's own path
        let target ← lift (divertTargetPath env.root a target)
        let name ← unwrap "path.rs:path_by_appending_path" (Path.compact own target)
        callExternalFunction env (String.ofList name) d.exArgs
        return true
      else
        let target ← match d.target with
          | some target => pure target
          | none => invalid "Divert has no target path."
        let p ← divertTargetPointer env a target
        modify (fun s => { s with divertedPtr := p })
    if d.pushes then
      let s ← get
      let cs ← unwrap "callstack.rs:push" (s.callstack.push d.pushType 0 s.output.length)
      set (s.setCallstack cs)
    return true
  | .cmd c =>
    match c with
    | .evalStart =>
      let s ← get
      if s.inExpr then invalid "Already in expression evaluation?"
      set (s.setInExpr true)
    | .evalOutput =>
      let s ← get
      if !s.evalStack.isEmpty then
        let o ← popEvalM
        match o with
        | .void => pure ()
        | other =>
          let text : String := match other with
            | .val v => v.display
            | .glue => "Glue"
            | .tag t => "# " ++ t
            | _ => ""
          modify (fun s => s.pushToOutput (.val (.str text)))
    | .evalEnd =>
      let s ← get
      if !s.inExpr then invalid "Not in expression evaluation mode"
      set (s.setInExpr false)
    | .duplicate =>
      let s ← get
      match s.evalStack.head? with
      | some o => pushEvalM env o
      | none => invalid "Evaluation stack is empty: nothing to duplicate."
    | .popEvaluatedValue => let _ ← popEvalM; pure ()
    | .popFunction | .popTunnel =>
      let popType : PushPop := if c == .popFunction then .function else .tunnel
      let mut overrideTarget : Option Path := none
      if popType == .tunnel then
        let popped ← popEvalM
        match popped with
        | .val (.dtarget p) => overrideTarget := some p
        | .void => pure ()
        | _ => invalid "Expected void if ->-> doesn't override target"
      let s ← get
      let (s1, exited) := s.tryExitFunctionEvaluationFromGame
      if exited then
        set s1
        return true
      let curKind : Option PushPop := s.callstack.currentElement.map (·.kind)
      if curKind != some popType || !s.callstack.canPop then
        let nameOf : PushPop → Option String
          | .function => some "function return statement (~ return)"
          | .tunnel => some "tunnel onwards statement (->->)"
          | .functionEvaluationFromGame => none
        let expected : Option String :=
          if !s.callstack.canPop then some "end of flow (-> END or choice)"
          else match curKind with
            | some k => nameOf k
            | none => none
        match nameOf popType, expected with
        | some f, some e => invalid ("Found " ++ f ++ ", when expected " ++ e)
        | _, _ => crash "control_logic.rs:pop_names_unwrap"
      else
        liftS (fun s => s.popCallstack none)
        match overrideTarget with
        | some t =>
          let p ← pointerAtPathM env t
          modify (fun s => { s with divertedPtr := p })
        | none => pure ()
    | .beginString =>
      modify (fun s => s.pushToOutput obj)
      let s ← get
      if !s.inExpr then invalid "Expected to be in an expression when evaluating a string"
      set (s.setInExpr false)
    | .endString =>
      let s ← get
      -- walk back to the matching BeginString
      let rev := s.output.reverse
      let rec collect : List Obj → Nat → List Obj → List Obj → Nat × List Obj × List Obj
        | [], n, strs, tags => (n, strs, tags)
        | o :: rest, n, strs, tags =>
          if o.isCmdOf .beginString then (n + 1, strs, tags)
          else
            let tags' := match o with
              | .tag _ => tags ++ [o]
              | _ => tags
            let strs' := match o with
              | .val (.str _) => strs ++ [o]
              | _ => strs
            collect rest (n + 1) strs' tags'
      let (consumed, strsRev, tagsRev) := collect rev 0 [] []
      -- `strsRev` / `tagsRev` are in backward (newest first) order; they are popped from the back
      let s1 := s.popFromOutput consumed
      let s2 := tagsRev.reverse.foldl (fun st t => st.pushToOutput t) s1
      let sb := String.join (strsRev.reverse.map (fun o => (o.asStr?).getD ""))
      set (s2.setInExpr true)
      pushEvalM env (.val (.str sb))
    | .noOp => pure ()
    | .choiceCount =>
      let s ← get
      pushEvalM env (.val (.int s.flow.choices.length))
    | .turns =>
      let s ← get
      pushEvalM env (.val (.int (wrapI32 (s.turnIndex + 1))))
    | .turnsSince | .readCount =>
      let target ← popEvalM
      match target with
      | .val (.dtarget p) =>
        let sr := contentAtPath env.root [] p.comps
        let container : Option Addr :=
          if !sr.approximate && isContainerAt env.root sr.addr then some sr.addr else none
        match container with
        | some ca =>
          let s ← get
          if c == .turnsSince then
            let o ← unwrap "tree" (nodeAt env.root ca)
            if !o.turnsCounted then
              match o with
              | .container (some n) _ _ _ => invalid ("TURNS_SINCE() for target (" ++ n ++ ") unknown.")
              | _ => invalid "TURNS_SINCE() for target (<no name>) unknown."
            let cp ← unwrap "object.rs:get_path" (pathOf env.root ca)
            let v : Int := match alGet s.turnIndices (String.ofList cp.toText) with
              | some idx => wrapI32 (s.turnIndex - idx)
              | none => -1
            pushEvalM env (.val (.int v))
          else
            let v ← lift (s.visitCountFor env.root ca)
            pushEvalM env (.val (.int v))
        | none =>
          let v : Int := if c == .turnsSince then -1 else 0
          let cmdName := if c == .turnsSince then "TurnsSince" else "ReadCount"
          addErrorM env.root ("Failed to find container for " ++ cmdName ++ " lookup at "
            ++ String.ofList p.toText) true
          pushEvalM env (.val (.int v))
      | other =>
        let extra := match other with
          | .val (.int _) => ". Did you accidentally pass a read count ('knot_name') instead of a target ('-> knot_name')?"
          | _ => ""
        let shown := match other with
          | .val v => v.display
          | .void => "Void"
          | .glue => "Glue"
          | .tag t => "# " ++ t
          | _ => ""
        invalid ("TURNS_SINCE expected a divert target (knot, stitch, label name), but saw " ++ shown ++ " " ++ extra)
    | .random =>
      let o ← popEvalM
      let maxInt : Option Int := match o with | .val (.int v) => some v | _ => none
      let o2 ← popEvalM
      let minInt : Option Int := match o2 with | .val (.int v) => some v | _ => none
      match minInt, maxInt with
      | none, _ => invalid "Invalid value for the minimum parameter of RANDOM(min, max)"
      | _, none => invalid "Invalid value for the maximum parameter of RANDOM(min, max)"
      | some mn, some mx =>
        let range := wrapI32 (wrapI32 (mx - mn) + 1)
        if range ≤ 0 then
          invalid ("RANDOM was called with minimum as " ++ intToString mn ++ " and maximum as " ++ intToString mx
            ++ ". The maximum must be larger")
        let s ← get
        let next : Int := Rng.firstWord (wrapI32 (s.storySeed + s.previousRandom))
        let chosen := wrapI32 (wrapI32 (next % range) + mn)
        pushEvalM env (.val (.int chosen))
        modify (fun s => { s with previousRandom := wrapI32 (s.previousRandom + 1) })
    | .seedRandom =>
      let o ← popEvalM
      match o with
      | .val (.int seed) =>
        modify (fun s => { s with storySeed := seed, previousRandom := 0 })
        pushEvalM env .void
      | _ => invalid "Invalid value passed to SEED_RANDOM"
    | .visitIndex =>
      let s ← get
      let cpc ← unwrap "control_logic.rs:visit_index_container" s.currentPtr.container
      let v ← lift (s.visitCountFor env.root cpc)
      pushEvalM env (.val (.int (wrapI32 (v - 1))))
    | .sequenceShuffleIndex =>
      let v ← nextSequenceShuffleIndex env
      pushEvalM env (.val (.int v))
    | .startThread => pure ()
    | .done =>
      let s ← get
      if s.callstack.canPopThread then
        liftS (fun s => match s.callstack.popThread with
          | .ok cs => .ok (s.setCallstack cs)
          | .err k m => .err k m
          | .panic p => .panic p)
      else
        set ({ s with didSafeExit := true }.setCurrentPtr Ptr.null)
    | .«end» => modify (fun s => s.forceEnd)
    | .listFromInt =>
      let o ← popEvalM
      let intVal : Option Int := match o with | .val (.int v) => some v | _ => none
      let o2 ← popEvalM
      let listName : Option String := match o2 with | .val (.str t) => some t | _ => none
      match intVal with
      | none => invalid "Passed non-integer when creating a list element from a numerical value."
      | some iv =>
        let ln ← match listName with
          | some ln => pure ln
          | none => invalid "Passed non-string as the list name when creating a list element from a numerical value."
        match env.defs.find ln with
        | none => invalid ("Failed to find List called " ++ ln)
        | some items =>
          let l : InkList := match ListDefs.itemWithValue items iv with
            | some nm => InkList.single { origin := some ln, name := nm } iv
            | none => InkList.empty
          pushEvalM env (.val (.list l))
    | .listRange =>
      let mx ← popEvalM
      let mn ← popEvalM
      let tl ← popEvalM
      match tl, mn, mx with
      | .val (.list l), .val mnv, .val mxv => pushEvalM env (.val (.list (l.subRange mnv mxv)))
      | _, _, _ => invalid "Expected List, minimum and maximum for LIST_RANGE"
    | .listRandom =>
      let o ← popEvalM
      match o with
      | .val (.list l) =>
        if l.items.isEmpty then pushEvalM env (.val (.list InkList.empty))
        else
          let s ← get
          let next := Rng.firstWord (wrapI32 (s.storySeed + s.previousRandom))
          let idx := next % l.items.length
          let sorted := l.ordered.reverse
          match sorted[idx]? with
          | none => crash "control_logic.rs:list_random_index"
          | some (item, v) =>
            let oname ← match item.origin with
              | some oname => pure oname
              | none => invalid ("LIST_RANDOM picked the item " ++ item.name ++ " which has no origin list")
            if (env.defs.find oname).isNone then
              invalid ("InkList origin could not be found in story when constructing new list: " ++ oname)
            let nl : InkList := { items := [(item, v)], origins := [oname], initialOrigins := [oname] }
            modify (fun s => { s with previousRandom := wrapI32 next })
            pushEvalM env (.val (.list nl))
      | _ => invalid "Expected list for LIST_RANDOM"
    | .beginTag => modify (fun s => s.pushToOutput obj)
    | .endTag =>
      let s ← get
      if s.inStringEvaluation then
        let rec collectTag : List Obj → Nat → List String → Option (Nat × List String)
          | [], n, strs => some (n, strs)
          | o :: rest, n, strs =>
            match o with
            | .cmd .beginTag => some (n + 1, strs)
            | .cmd _ => none
            | .val (.str t) => collectTag rest (n + 1) (strs ++ [t])
            | _ => collectTag rest (n + 1) strs
        match collectTag s.output.reverse 0 [] with
        | none => invalid "Unexpected ControlCommand while extracting tag from choice"
        | some (consumed, strsBackward) =>
          let s1 := s.popFromOutput consumed
          let sb := String.join strsBackward.reverse
          set s1
          pushEvalM env (.tag (Core.cleanOutputWhitespace sb))
      else modify (fun s => s.pushToOutput obj)
    return true
  | .varAss name isNew isGlobal =>
    let o ← popEvalM
    match o with
    | .val v => liftS (fun s => s.assign env.defs name isNew isGlobal v)
    | _ => invalid "Cannot assign a void value to a variable. Did you forget to 'return' a value from a function you called here?"
    return true
  | .varRef name count =>
    match count with
    | some p =>
      let sr ← unwrap "object.rs:resolve_path" (resolvePath env.root a p)
      if !isContainerAt env.root sr.addr then
        invalid ("Failed to find container for read count at " ++ String.ofList p.toText)
      let s ← get
      let v ← lift (s.visitCountFor env.root sr.addr)
      pushEvalM env (.val (.int v))
    | none =>
      let s ← get
      match s.getVariable env.defs name (-1) Core.maxPointerChain with
      | some v => pushEvalM env (.val v)
      | none =>
        addErrorM env.root ("Variable not found: '" ++ name ++ "'. Using default value of 0 (false). This can happen with temporary variables if the declaration hasn't yet been hit. Globals are always given a default value on load if a value doesn't exist in the save state.") true
        pushEvalM env (.val (.int 0))
    return true
  | .native op =>
    let st ← getSt
    match st.s.popEvalMultiple op.arity with
    | .ok (params, s') =>
      setSt { st with s := s' }
      let r ← lift (Native.call env.defs op params)
      pushEvalM env r
      return true
    | .err k m => fail k m
    | .panic p => panic p
  | _ => return false

/-- `next_content` -/
def nextContent (env : Env) : Nat → M Unit
  | 0 => pure ()
  | fuel + 1 => do
    modify (fun s => s.setPrevPtr s.currentPtr)
    let s ← get
    if !s.divertedPtr.isNull then
      set ({ s with divertedPtr := Ptr.null }.setCurrentPtr s.divertedPtr)
      visitChangedContainersDueToDivert env
      let s ← get
      if !s.currentPtr.isNull then return ()
    -- `increment_content_pointer` unwraps the container of the current pointer
    let s ← get
    if s.currentPtr.isNull then crash "progress.rs:increment_content_pointer"
    let ok ← incrementContentPointer env
    if !ok then
      let s ← get
      let mut didPop := false
      if s.callstack.canPopType (some .function) then
        liftS (fun s => s.popCallstack (some .function))
        let s ← get
        if s.inExpr then pushEvalM env .void
        didPop := true
      else if s.callstack.canPopThread then
        liftS (fun s => match s.callstack.popThread with
          | .ok cs => .ok (s.setCallstack cs)
          | .err k m => .err k m
          | .panic p => .panic p)
        didPop := true
      else
        modify (fun s => s.tryExitFunctionEvaluationFromGame.1)
      let s ← get
      if didPop && !s.currentPtr.isNull then nextContent env fuel

/-- `Story::step` -/
def step (env : Env) : M Unit := do
  let s ← get
  let pointer := s.currentPtr
  if pointer.isNull then return ()
  -- descend into containers, visiting each
  let rec descend (fuel : Nat) (pointer : Ptr) : M Ptr :=
    match fuel with
    | 0 => pure pointer
    | fuel + 1 =>
      match pointer.resolve env.root with
      | some r =>
        if isContainerAt env.root r then do
          visitContainer env r true
          match nodeAt env.root r with
          | some o => if o.content.isEmpty then pure pointer else descend fuel (Ptr.startOf r)
          | none => pure pointer
        else pure pointer
      | none => pure pointer
  -- the depth of the tree below the pointer bounds the descent
  let depthFuel : Nat := 10000
  let pointer ← descend depthFuel pointer
  modify (fun s => s.setCurrentPtr pointer)
  let cur : Option Addr := pointer.resolve env.root
  let curObj : Option Obj := cur.bind (nodeAt env.root)
  let isLogic ← match cur, curObj with
    | some a, some o => performLogicAndFlowControl env a o
    | _, _ => pure false
  let s ← get
  if s.currentPtr.isNull then return ()
  let mut shouldAdd := !isLogic
  let mut contentObj := curObj
  match cur, curObj with
  | some a, some o =>
    if o.isContainer then shouldAdd := false
    match o with
    | .choicePoint flags p =>
      let ch ← processChoice env a flags p
      match ch with
      | some c => modify (fun s => { s with flow := { s.flow with choices := s.flow.choices ++ [c] } })
      | none => pure ()
      contentObj := none
      shouldAdd := false
    | _ => pure ()
  | _, _ => pure ()
  if shouldAdd then
    let o ← match contentObj with
      | some o => pure o
      | none => invalid "The current content pointer does not address any content."
    let s ← get
    let o' : Obj := match o with
      | .val (.varptr n (-1)) => .val (.varptr n (s.callstack.contextForVariableNamed n))
      | other => other
    if s.inExpr then pushEvalM env o' else modify (fun s => s.pushToOutput o')
  let s ← get
  nextContent env (s.callstack.threads.length + (s.callstack.threads.foldl (fun n t => n + t.callstack.length) 0) + 4)
  match contentObj with
  | some (.cmd .startThread) => modify (fun s => s.mapCallstack CallStack.pushThread)
  | _ => pure ()

end Ink
