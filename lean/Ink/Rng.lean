/-
  Ink/Rng.lean — executable instance of the random source used by the runtime:
  `rand::rngs::StdRng::seed_from_u64(seed)` = ChaCha12 keyed by a PCG32
  expansion of the seed, then `random::<u32>()` = successive output words.
  Modelled, not verified: no theorem depends on its internals; it is validated
  against the `rand` crate by the correspondence check (`rt rng`).
-/
namespace Ink
namespace Rng

def pcgMul : UInt64 := 0x5851F42D4C957F2D
def pcgInc : UInt64 := 0xA17654E46FBE17F3

def rotr32 (x : UInt32) (r : UInt32) : UInt32 :=
  let r := r % 32
  if r == 0 then x else (x >>> r) ||| (x <<< (32 - r))

def rotl32 (x : UInt32) (r : UInt32) : UInt32 := (x <<< r) ||| (x >>> (32 - r))

/-- one PCG32 step: new state and output word -/
def pcg32 (state : UInt64) : UInt64 × UInt32 :=
  let st := state * pcgMul + pcgInc
  let xorshifted : UInt32 := (((st >>> 18) ^^^ st) >>> 27).toUInt32
  let rot : UInt32 := (st >>> 59).toUInt32
  (st, rotr32 xorshifted rot)

/-- the 8 key words of `seed_from_u64` -/
def keyWords (seed : UInt64) : Array UInt32 := Id.run do
  let mut st := seed
  let mut out : Array UInt32 := #[]
  for _ in [0:8] do
    let (st', w) := pcg32 st
    st := st'
    out := out.push w
  return out

def quarter (s : Array UInt32) (a b c d : Nat) : Array UInt32 :=
  let sa := s[a]!; let sb := s[b]!; let sc := s[c]!; let sd := s[d]!
  let sa := sa + sb; let sd := rotl32 (sd ^^^ sa) 16
  let sc := sc + sd; let sb := rotl32 (sb ^^^ sc) 12
  let sa := sa + sb; let sd := rotl32 (sd ^^^ sa) 8
  let sc := sc + sd; let sb := rotl32 (sb ^^^ sc) 7
  (((s.set! a sa).set! b sb).set! c sc).set! d sd

def doubleRound (s : Array UInt32) : Array UInt32 :=
  let s := quarter s 0 4 8 12
  let s := quarter s 1 5 9 13
  let s := quarter s 2 6 10 14
  let s := quarter s 3 7 11 15
  let s := quarter s 0 5 10 15
  let s := quarter s 1 6 11 12
  let s := quarter s 2 7 8 13
  quarter s 3 4 9 14

/-- ChaCha12 block number `ctr` for the given key. -/
def block (key : Array UInt32) (ctr : UInt64) : Array UInt32 :=
  let init : Array UInt32 :=
    (#[0x61707865, 0x3320646e, 0x79622d32, 0x6b206574] : Array UInt32) ++ key
      ++ (#[ctr.toUInt32, (ctr >>> 32).toUInt32, 0, 0] : Array UInt32)
  let w := (List.range 6).foldl (fun s _ => doubleRound s) init
  (Array.range 16).map (fun i => w[i]! + init[i]!)

/-- The `i`-th output word (0-based) of `StdRng::seed_from_u64(seed)`. -/
def word (seed : UInt64) (i : Nat) : UInt32 :=
  (block (keyWords seed) (UInt64.ofNat (i / 16)))[i % 16]!

/-- `(i32 as u64)`: sign extension. -/
def seedOfI32 (n : Int) : UInt64 :=
  if n ≥ 0 then UInt64.ofNat n.toNat else UInt64.ofNat (18446744073709551616 - n.natAbs)

/-- First word for an i32 seed, as a natural number. -/
def firstWord (seed : Int) : Nat := (word (seedOfI32 seed) 0).toNat

def nthWord (seed : Int) (i : Nat) : Nat := (word (seedOfI32 seed) i).toNat

end Rng
end Ink
