/-
  Ink/Tree.lean — positions in the content tree and path resolution.
  Models Object::get_path / resolve_path (object.rs), Container::content_at_path
  and content_with_path_component (container.rs), Pointer (pointer.rs),
  Story::pointer_at_path (story/navigation.rs).
  An object's identity is its position (`Addr`) in the immutable tree.
-/
import Ink.Value

namespace Ink

/-- One step down the tree: a content index or a named-only key. -/
inductive Step where
  | idx (i : Nat)
  | named (k : String)
  deriving DecidableEq, Repr, Inhabited

abbrev Addr := List Step

namespace Obj

def child (o : Obj) : Step → Option Obj
  | .idx i => o.content[i]?
  | .named k => (o.namedOnly.find? (fun kv => kv.1 == k)).map (·.2)

/-- Index of the last content child whose valid name is `n`. -/
def lastNamedIdx (cs : List Obj) (n : String) (i : Nat := 0) (best : Option Nat := none) : Option Nat :=
  match cs with
  | [] => best
  | c :: rest => lastNamedIdx rest n (i + 1) (if c.validName == some n then some i else best)

/-- `named_content.get(name)`: content children with a valid name are inserted
    after (and so override) the named-only ones; a later sibling overrides an earlier. -/
def lookupName (o : Obj) (n : String) : Option Step :=
  match lastNamedIdx o.content n with
  | some i => some (.idx i)
  | none => if o.namedOnly.any (fun kv => kv.1 == n) then some (.named n) else none

end Obj

def nodeAt (root : Obj) : Addr → Option Obj
  | [] => some root
  | s :: rest => match root.child s with
    | some c => nodeAt c rest
    | none => none

def isContainerAt (root : Obj) (a : Addr) : Bool :=
  match nodeAt root a with
  | some o => o.isContainer
  | none => false

/-- Component that `Object::get_path` emits for the child reached by step `s`.
    A named-only child without a valid name of its own (held under the key `""`,
    or with `"#n": ""`) is addressed by the key under which the parent's named
    content holds it, as a name component.  Never `none` (the `Option` is kept
    for the callers that were written against the panicking version). -/
def compOfChild (child : Obj) (s : Step) : Option Comp :=
  match child.validName with
  | some n => some (.name n.toList)
  | none => match s with
    | .idx i => some (.idx i)
    | .named k => some (.name k.toList)

/-- Components of `Object::get_path` for the object at `a`. -/
def compsOf (root : Obj) : Addr → Option (List Comp)
  | [] => some []
  | s :: rest =>
    match root.child s with
    | none => none
    | some c =>
      match compOfChild c s, compsOf c rest with
      | some k, some ks => some (k :: ks)
      | _, _ => none

/-- `Object::get_path` (absolute). -/
def pathOf (root : Obj) (a : Addr) : Option Path :=
  (compsOf root a).map (fun cs => { comps := cs, rel := false })

/-- `Container::content_with_path_component` for the container at `a`. -/
def withComponent (root : Obj) (a : Addr) (c : Comp) : Option Addr :=
  match nodeAt root a with
  | none => none
  | some o =>
    match c with
    | .idx i => if i < o.content.length then some (a ++ [.idx i]) else none
    | .name s =>
      if c.isParent then (if a.isEmpty then none else some a.dropLast)
      else (o.lookupName (String.ofList s)).map (fun st => a ++ [st])

structure SearchResult where
  addr : Addr
  approximate : Bool
  deriving Repr, Inhabited, DecidableEq

/-- The loop of `Container::content_at_path`, over the remaining components. -/
def contentLoop (root : Obj) (cur : Addr) (curIsContainer : Bool) : List Comp → SearchResult
  | [] => { addr := cur, approximate := false }
  | c :: rest =>
    if !curIsContainer then { addr := cur, approximate := true }
    else match withComponent root cur c with
      | none => { addr := cur, approximate := true }
      | some found =>
        let nextIsContainer := isContainerAt root found
        if !rest.isEmpty && !nextIsContainer then { addr := cur, approximate := true }
        else contentLoop root found nextIsContainer rest

/-- `container.content_at_path(path, 0, len)` started at the container `start`. -/
def contentAtPath (root : Obj) (start : Addr) (comps : List Comp) : SearchResult :=
  contentLoop root start true comps

/-- `pointer.rs: Pointer` -/
structure Ptr where
  container : Option Addr
  index : Int
  deriving Repr, Inhabited, DecidableEq

namespace Ptr
def null : Ptr := { container := none, index := -1 }
def isNull (p : Ptr) : Bool := p.container.isNone
def startOf (a : Addr) : Ptr := { container := some a, index := 0 }

/-- `Pointer::resolve` -/
def resolve (root : Obj) (p : Ptr) : Option Addr :=
  match p.container with
  | none => none
  | some a =>
    match nodeAt root a with
    | none => none
    | some o =>
      if p.index < 0 || o.content.isEmpty then some a
      else if p.index.toNat < o.content.length then some (a ++ [.idx p.index.toNat]) else none

/-- `Pointer::get_path` (`none` inner = panic of `get_path`). -/
def path (root : Obj) (p : Ptr) : Option (Option Path) :=
  match p.container with
  | none => some none
  | some a =>
    match pathOf root a with
    | none => none
    | some cp => if p.index ≥ 0 then some (some (cp.appendComp (.idx p.index.toNat))) else some (some cp)
end Ptr

/-- `Story::pointer_at_path` -/
def pointerAtPath (root : Obj) (path : Path) : Out Ptr :=
  match path.comps.getLast? with
  | none => .ok Ptr.null
  | some last =>
    let (res, ptr, lenToUse) : (SearchResult × Ptr × Nat) :=
      match last with
      | .idx i =>
        let r := contentAtPath root [] path.comps.dropLast
        -- `index as i32`: the `usize` index is truncated to 32 bits
        (r, { container := if isContainerAt root r.addr then some r.addr else none, index := wrapI32 i },
          path.comps.length - 1)
      | .name _ =>
        let r := contentAtPath root [] path.comps
        (r, { container := if isContainerAt root r.addr then some r.addr else none, index := -1 },
          path.comps.length)
    if res.addr.isEmpty && lenToUse > 0 then
      .invalid ("Failed to find content at path '" ++ String.ofList path.toText
        ++ "', and no approximation of it was possible.")
    else .ok ptr

/-- `Object::resolve_path(obj at a, path)`; `none` = panic (`nearest_container.unwrap()`). -/
def resolvePath (root : Obj) (a : Addr) (path : Path) : Option SearchResult :=
  if path.rel then
    if isContainerAt root a then some (contentAtPath root a path.comps)
    else if a.isEmpty then none
    else some (contentAtPath root a.dropLast path.tail.comps)
  else some (contentAtPath root [] path.comps)

/-! ### Enumeration in the order of the audit hook -/

def insertSorted (k : String) (v : Obj) : List (String × Obj) → List (String × Obj)
  | [] => [(k, v)]
  | (k', v') :: rest => if k < k' then (k, v) :: (k', v') :: rest else (k', v') :: insertSorted k v rest

def sortByKey (l : List (String × Obj)) : List (String × Obj) :=
  l.foldl (fun acc kv => insertSorted kv.1 kv.2 acc) []

/-- `Container::get_named_only_content`: named-only children not overridden
    by a content child of the same name. -/
def namedOnlyVisible (o : Obj) : List (String × Obj) :=
  o.namedOnly.filter (fun kv => !(o.content.any (fun c => c.validName == some kv.1)))

mutual
  def walk (fuel : Nat) (o : Obj) (a : Addr) : List (Addr × Obj) :=
    match fuel with
    | 0 => []
    | fuel + 1 =>
      if o.isContainer then
        (a, o) :: (walkContent fuel o.content a 0 ++ walkNamed fuel (sortByKey (namedOnlyVisible o)) a)
      else [(a, o)]
  def walkContent (fuel : Nat) (cs : List Obj) (a : Addr) (i : Nat) : List (Addr × Obj) :=
    match fuel with
    | 0 => []
    | fuel + 1 =>
      match cs with
      | [] => []
      | c :: rest => walk fuel c (a ++ [.idx i]) ++ walkContent fuel rest a (i + 1)
  def walkNamed (fuel : Nat) (ns : List (String × Obj)) (a : Addr) : List (Addr × Obj) :=
    match fuel with
    | 0 => []
    | fuel + 1 =>
      match ns with
      | [] => []
      | (k, c) :: rest => walk fuel c (a ++ [.named k]) ++ walkNamed fuel rest a
end

/-! ### Executable well-formedness check (the hypothesis of C19's `resolve_pathOf`) -/

def wfNodeB (o : Obj) : Bool :=
  (List.range o.content.length).all (fun i =>
    match o.content[i]? with
    | some c =>
      match c.validName with
      | some n => n.toList != Comp.parentId && Obj.lastNamedIdx o.content n == some i
      | none => true
    | none => true)
  && o.namedOnly.all (fun kv =>
      kv.2.validName == some kv.1 && kv.1.toList != Comp.parentId
      && Obj.lastNamedIdx o.content kv.1 == none
      && (o.namedOnly.filter (fun kv' => kv'.1 == kv.1)).length == 1)

mutual
  def wfTreeB (fuel : Nat) (o : Obj) : Bool :=
    match fuel with
    | 0 => false
    | fuel + 1 => wfNodeB o && wfListB fuel o.content && wfListB fuel (o.namedOnly.map (·.2))
  def wfListB (fuel : Nat) (l : List Obj) : Bool :=
    match fuel with
    | 0 => false
    | fuel + 1 =>
      match l with
      | [] => true
      | c :: rest => wfTreeB fuel c && wfListB fuel rest
end

/-- Executable form of `Comp.WF` / `Path.WF`. -/
def Comp.wfB : Comp → Bool
  | .idx n => n ≤ usizeMax
  | .name s => (parseUsize s).isNone && !(s.contains '.')

def Path.wfB (p : Path) : Bool :=
  p.comps.all Comp.wfB && (!p.rel || !p.comps.isEmpty) &&
  (p.rel || match p.comps.head? with
    | some c => !c.toText.isEmpty
    | none => true)

end Ink
