/-
  Ink/Native.lean — model of runtime/src/native_function_call.rs and the cast
  rules of value.rs.  Integers are mathematical `Int`s kept inside the i32
  range by `wrapI32` exactly where the Rust uses `wrapping_*`.
  Float arithmetic is Lean's `Float32` (IEEE single, same as Rust's f32 for
  + - * / floor ceil); `%` is the exact fmod on mantissas; `Display` is re-implemented.
-/
import Ink.InkList

namespace Ink

/-! ### f32 Display (shortest round-trip decimal, never scientific) -/

namespace F32

def pow10 (n : Nat) : Nat := 10 ^ n

/-- digits of a natural number -/
def natDigits (n : Nat) : String := String.ofList (decimal n)

/-- Decompose finite non-zero float bits into (mantissa, exponent) with value = m * 2^e,
    and whether the lower neighbour is closer (m is a power-of-two boundary). -/
def decompose (bits : UInt32) : Nat × Int × Bool :=
  let frac := (bits &&& 0x7FFFFF).toNat
  let ex := ((bits >>> 23) &&& 0xFF).toNat
  if ex == 0 then (frac, -149, false)
  else (frac + 0x800000, (ex : Int) - 150, frac == 0 && ex > 1)

/-- Digit generation of the shortest representation (Steele & White / Dragon4, as
    `core::num::flt2dec::strategy::dragon::format_shortest`): `r / s` is the remaining fraction,
    `mp` / `mm` the distances to the upper / lower neighbour's midpoint, all scaled alike;
    `incl`: the interval includes its end points (even mantissa).  Returns the digits (most significant
    first). -/
def genDigits (incl : Bool) : Nat → Nat → Nat → Nat → Nat → List Nat → List Nat
  | 0, _, _, _, _, acc => acc.reverse
  | fuel + 1, r, s, mp, mm, acc =>
    let d := (r * 10) / s
    let r := (r * 10) % s
    let mp := mp * 10
    let mm := mm * 10
    let down : Bool := if incl then r ≤ mm else r < mm
    let up : Bool := if incl then r + mp ≥ s else r + mp > s
    if !down && !up then genDigits incl fuel r s mp mm (d :: acc)
    else
      let roundUp : Bool := up && (!down || 2 * r ≥ s)
      ((if roundUp then d + 1 else d) :: acc).reverse

/-- Propagate a final digit of 10 (a round-up of 9); returns the digits and whether the number grew
    by one decimal position. -/
def carry (ds : List Nat) : List Nat × Bool :=
  let rec go : List Nat → Nat → List Nat × Nat
    | [], c => ([], c)
    | d :: rest, _ =>
      let (rest', c) := go rest 0
      let v := d + c
      if v ≥ 10 then ((v - 10) :: rest', 1) else (v :: rest', 0)
  match go ds 0 with
  | (ds', 1) => (1 :: ds', true)
  | (ds', _) => (ds', false)

/-- Shortest decimal (digits as a number, exponent k10 with value = digits * 10^k10) that round-trips. -/
def shortest (m : Nat) (e : Int) (lowerClose : Bool) : Nat × Int :=
  let incl := m % 2 == 0
  -- value = m * 2^e; r / s = value, mp / s = half the gap above, mm / s = half the gap below
  let (r0, s0, mp0, mm0) : Nat × Nat × Nat × Nat :=
    if e ≥ 0 then
      let be := 2 ^ e.toNat
      if lowerClose then (m * be * 4, 4, be * 2, be) else (m * be * 2, 2, be, be)
    else
      let den := 2 ^ (-e).toNat
      if lowerClose then (m * 4, den * 4, 2, 1) else (m * 2, den * 2, 1, 1)
  -- k = the smallest integer with (r + mp) / s ≤ 10^k (< when the interval is open)
  let fits (k : Int) : Bool :=
    let lhs := (r0 + mp0) * (if k < 0 then 10 ^ (-k).toNat else 1)
    let rhs := s0 * (if k ≥ 0 then 10 ^ k.toNat else 1)
    if incl then lhs < rhs else lhs ≤ rhs
  let k : Int := Id.run do
    let mut k : Int := 40
    for i in [0:90] do
      let kc : Int := 40 - (i : Int)
      if fits kc then k := kc
    return k
  -- scale so that the first generated digit is the one at 10^(k-1)
  let (r, s, mp, mm) : Nat × Nat × Nat × Nat :=
    if k ≥ 0 then (r0, s0 * 10 ^ k.toNat, mp0, mm0)
    else (r0 * 10 ^ (-k).toNat, s0, mp0 * 10 ^ (-k).toNat, mm0 * 10 ^ (-k).toNat)
  let ds0 := genDigits incl 60 r s mp mm []
  let (ds, grew) := carry ds0
  let n := ds.foldl (fun a d => a * 10 + d) 0
  -- value ≈ 0.d1 d2 … × 10^k  (one more position when the carry grew the number)
  (n, k + (if grew then 1 else 0) - (ds.length : Int))

def stripZeros (d : Nat) (k10 : Int) (fuel : Nat) : Nat × Int :=
  match fuel with
  | 0 => (d, k10)
  | fuel + 1 => if d ≠ 0 && d % 10 == 0 then stripZeros (d / 10) (k10 + 1) fuel else (d, k10)

/-- Rust's `Display for f32`. -/
def display (f : Float32) : String :=
  let bits := f.toBits
  let neg := (bits >>> 31) == 1
  let ex := ((bits >>> 23) &&& 0xFF).toNat
  let frac := (bits &&& 0x7FFFFF).toNat
  if ex == 255 then (if frac != 0 then "NaN" else if neg then "-inf" else "inf")
  else if ex == 0 && frac == 0 then (if neg then "-0" else "0")
  else
    let (m, e, lc) := decompose bits
    let (d0, k0) := shortest m e lc
    let (d, k10) := stripZeros d0 k0 40
    let ds := natDigits d
    let body :=
      if k10 ≥ 0 then ds ++ String.ofList (List.replicate k10.toNat '0')
      else
        let fracLen := (-k10).toNat
        if fracLen < ds.length then
          String.ofList (ds.toList.take (ds.length - fracLen)) ++ "." ++ String.ofList (ds.toList.drop (ds.length - fracLen))
        else "0." ++ String.ofList (List.replicate (fracLen - ds.length) '0') ++ ds
    (if neg then "-" else "") ++ body

/-- `f32 as i32` (saturating, NaN -> 0). -/
def toI32 (f : Float32) : Int := f.toInt32.toInt

/-- `i32 as f32` -/
def ofI32 (i : Int) : Float32 := (Float.ofInt i).toFloat32

/-- `f32 % f32` (C `fmodf`): exact remainder of the magnitudes with the sign of the dividend.
    Computed on the integer mantissas, so no rounding is involved. -/
def fmod (a b : Float32) : Float32 :=
  if a.isNaN || b.isNaN || a.isInf || b == 0.0 then (0.0 : Float32) / 0.0
  else if b.isInf || a == 0.0 then a
  else
    let (ma, ea, _) := decompose a.toBits
    let (mb, eb, _) := decompose b.toBits
    let e : Int := if ea ≤ eb then ea else eb
    let na : Nat := ma * 2 ^ (ea - e).toNat
    let nb : Nat := mb * 2 ^ (eb - e).toNat
    let r : Nat := na % nb
    let mag : Float32 := (Float32.ofNat r).scaleB e
    if (a.toBits >>> 31) == 1 then -mag else mag

/-- `f32::min` / `f32::max`: a NaN operand is ignored; between equal operands (+0 and -0) the first
    one is returned (what the x86-64 lowering of the runtime does in both build profiles; Rust leaves
    the sign of a zero result unspecified — recorded in the trusted base). -/
def fmin (a b : Float32) : Float32 := if a.isNaN then b else if b.isNaN then a else if b < a then b else a
def fmax (a b : Float32) : Float32 := if a.isNaN then b else if b.isNaN then a else if b > a then b else a

end F32

/-! ### Display of values -/

def intToString (i : Int) : String :=
  if i < 0 then "-" ++ String.ofList (decimal i.natAbs) else String.ofList (decimal i.toNat)

namespace Val

/-- `get_cast_ordinal` (declaration order of `ValueType`). -/
def castOrdinal : Val → Nat
  | .bool _ => 0 | .int _ => 1 | .float _ => 2 | .list _ => 3 | .str _ => 4 | .dtarget _ => 5 | .varptr _ _ => 6

/-- `Display for Value` -/
def display : Val → String
  | .bool b => if b then "true" else "false"
  | .int i => intToString i
  | .float f => F32.display f
  | .str s => s
  | .dtarget p => "DivertTargetValue(" ++ String.ofList p.toText ++ ")"
  | .varptr n _ => "VariablePointerValue(" ++ n ++ ")"
  | .list l => l.display

/-- `Value::is_truthy` -/
def isTruthy : Val → Out Bool
  | .bool b => .ok b
  | .int i => .ok (i != 0)
  | .float f => .ok (f != 0.0)
  | .str s => .ok (!s.isEmpty)
  | .dtarget _ => .invalid "Shouldn't be checking the truthiness of a divert target"
  | .varptr _ _ => .invalid "Shouldn't be checking the truthiness of a variable pointer"
  | .list l => .ok (!l.items.isEmpty)

/-- `Value::cast(dest)`; `none` = no cast needed. -/
def cast (v : Val) (dest : Nat) : Out (Option Val) :=
  match v with
  | .bool b =>
    if dest = 0 then .ok none
    else if dest = 1 then .ok (some (.int (if b then 1 else 0)))
    else if dest = 2 then .ok (some (.float (if b then 1.0 else 0.0)))
    else if dest = 4 then .ok (some (.str (if b then "true" else "false")))
    else .invalid "Cast not allowed for bool"
  | .int i =>
    if dest = 0 then .ok (some (.bool (i != 0)))
    else if dest = 1 then .ok none
    else if dest = 2 then .ok (some (.float (F32.ofI32 i)))
    else if dest = 4 then .ok (some (.str (intToString i)))
    else .invalid "Cast not allowed for int"
  | .float f =>
    if dest = 0 then .ok (some (.bool (f != 0.0)))
    else if dest = 1 then .ok (some (.int (F32.toI32 f)))
    else if dest = 2 then .ok none
    else if dest = 4 then .ok (some (.str (F32.display f)))
    else .invalid "Cast not allowed for float"
  | .str _ =>
    -- casts of a string to int/float (`parse().unwrap()`) are unreachable: a
    -- destination type is never below the string's own ordinal
    if dest = 4 then .ok none
    else if dest = 1 ∨ dest = 2 then .panic "value.rs:string_parse"
    else .invalid "Cast not allowed for string"
  | .list l =>
    if dest = 1 then .ok (some (.int l.maxVal))
    else if dest = 2 then .ok (some (.float (F32.ofI32 l.maxVal)))
    else if dest = 3 then .ok none
    else if dest = 4 then .ok (some (.str (match l.maxItem with
      | some (k, _) => k.fullName
      | none => "")))
    else .invalid "Cast not allowed for list"
  | .dtarget _ => if dest = 5 then .ok none else .invalid "Cast not allowed for divert"
  | .varptr _ _ => if dest = 6 then .ok none else .invalid "Cast not allowed for variable pointer"

end Val

/-- `str::contains` -/
def hasInfix (y : List Char) : List Char → Bool
  | [] => y.isEmpty
  | c :: cs => y.isPrefixOf (c :: cs) || hasInfix y cs

def strContains (x y : String) : Bool := hasInfix y.toList x.toList

namespace Native

def notAvailable {α : Type} : Out α := .invalid "Operation not available for type."

/-- `call_type` on two coerced values. -/
def binary (op : Op) (a b : Val) : Out Val :=
  match op, a, b with
  | .add, .int x, .int y => .ok (.int (wrapI32 (x + y)))
  | .add, .float x, .float y => .ok (.float (x + y))
  | .add, .str x, .str y => .ok (.str (x ++ y))
  | .add, .list x, .list y => .ok (.list (x.union y))
  | .subtract, .int x, .int y => .ok (.int (wrapI32 (x - y)))
  | .subtract, .float x, .float y => .ok (.float (x - y))
  | .subtract, .list x, .list y => .ok (.list (x.without y))
  | .multiply, .int x, .int y => .ok (.int (wrapI32 (x * y)))
  | .multiply, .float x, .float y => .ok (.float (x * y))
  | .divide, .int x, .int y =>
    if y = 0 ∨ (x = i32Min ∧ y = -1) then
      .invalid ("Integer division of " ++ intToString x ++ " by " ++ intToString y
        ++ " is not defined (division by zero or overflow).")
    else .ok (.int (Int.tdiv x y))
  | .divide, .float x, .float y => .ok (.float (x / y))
  | .mod, .int x, .int y =>
    if y = 0 ∨ (x = i32Min ∧ y = -1) then
      .invalid ("Integer remainder of " ++ intToString x ++ " by " ++ intToString y
        ++ " is not defined (division by zero or overflow).")
    else .ok (.int (Int.tmod x y))
  | .mod, .float x, .float y => .ok (.float (F32.fmod x y))
  | .pow, .int x, .int y => .ok (.float ((F32.ofI32 x).pow (F32.ofI32 y)))
  | .pow, .float x, .float y => .ok (.float (x.pow y))
  | .equal, .bool x, .bool y => .ok (.bool (x == y))
  | .equal, .int x, .int y => .ok (.bool (x == y))
  | .equal, .float x, .float y => .ok (.bool (x == y))
  | .equal, .str x, .str y => .ok (.bool (x == y))
  | .equal, .list x, .list y => .ok (.bool (x.eq y))
  | .equal, .dtarget x, .dtarget y => .ok (.bool (decide (x = y)))
  | .notEquals, .bool x, .bool y => .ok (.bool (x != y))
  | .notEquals, .int x, .int y => .ok (.bool (x != y))
  | .notEquals, .float x, .float y => .ok (.bool (x != y))
  | .notEquals, .str x, .str y => .ok (.bool (x != y))
  | .notEquals, .list x, .list y => .ok (.bool (!(x.eq y)))
  | .notEquals, .dtarget x, .dtarget y => .ok (.bool (!decide (x = y)))
  | .greater, .int x, .int y => .ok (.bool (x > y))
  | .greater, .float x, .float y => .ok (.bool (x > y))
  | .greater, .list x, .list y => .ok (.bool (x.greaterThan y))
  | .less, .int x, .int y => .ok (.bool (x < y))
  | .less, .float x, .float y => .ok (.bool (x < y))
  | .less, .list x, .list y => .ok (.bool (x.lessThan y))
  | .greaterEq, .int x, .int y => .ok (.bool (x ≥ y))
  | .greaterEq, .float x, .float y => .ok (.bool (x ≥ y))
  | .greaterEq, .list x, .list y => .ok (.bool (x.greaterThanOrEquals y))
  | .lessEq, .int x, .int y => .ok (.bool (x ≤ y))
  | .lessEq, .float x, .float y => .ok (.bool (x ≤ y))
  | .lessEq, .list x, .list y => .ok (.bool (x.lessThanOrEquals y))
  | .and, .bool x, .bool y => .ok (.bool (x && y))
  | .and, .int x, .int y => .ok (.bool (x != 0 && y != 0))
  | .and, .float x, .float y => .ok (.bool (x != 0.0 && y != 0.0))
  | .and, .list x, .list y => .ok (.bool (!x.items.isEmpty && !y.items.isEmpty))
  | .or, .bool x, .bool y => .ok (.bool (x || y))
  | .or, .int x, .int y => .ok (.bool (x != 0 || y != 0))
  | .or, .float x, .float y => .ok (.bool (x != 0.0 || y != 0.0))
  | .or, .list x, .list y => .ok (.bool (!x.items.isEmpty || !y.items.isEmpty))
  | .min, .int x, .int y => .ok (.int (if x ≤ y then x else y))
  | .min, .float x, .float y => .ok (.float (F32.fmin x y))
  | .max, .int x, .int y => .ok (.int (if x ≥ y then x else y))
  | .max, .float x, .float y => .ok (.float (F32.fmax x y))
  | .has, .str x, .str y => .ok (.bool (strContains x y))
  | .has, .list x, .list y => .ok (.bool (x.contains y))
  | .hasnt, .str x, .str y => .ok (.bool (!strContains x y))
  | .hasnt, .list x, .list y => .ok (.bool (!(x.contains y)))
  | .intersect, .list x, .list y => .ok (.list (x.intersect y))
  | _, _, _ => notAvailable

/-- `call_type` on one coerced value. -/
def unary (defs : ListDefs) (op : Op) (a : Val) : Out Val :=
  match op, a with
  | .negate, .int x => .ok (.int (wrapI32 (-x)))
  | .negate, .float x => .ok (.float (-x))
  | .not, .int x => .ok (.bool (x == 0))
  | .not, .float x => .ok (.bool (x == 0.0))
  | .not, .list x => .ok (.int (if x.items.isEmpty then 1 else 0))
  | .floor, .int x => .ok (.int x)
  | .floor, .float x => .ok (.float x.floor)
  | .ceiling, .int x => .ok (.int x)
  | .ceiling, .float x => .ok (.float x.ceil)
  | .int, .int x => .ok (.int x)
  | .int, .float x => .ok (.int (F32.toI32 x))
  | .float, .int x => .ok (.float (F32.ofI32 x))
  | .float, .float x => .ok (.float x)
  | .listMin, .list x => .ok (.list x.minAsList)
  | .listMax, .list x => .ok (.list x.maxAsList)
  | .all, .list x => .ok (.list (x.all defs))
  | .count, .list x => .ok (.int x.items.length)
  | .valueOfList, .list x => .ok (.int x.maxVal)
  | .invert, .list x => .ok (.list (x.inverse defs))
  | _, _ => notAvailable

def isList : Obj → Bool
  | .val (.list _) => true
  | _ => false

/-- `Display for CommandType` (strum: the variant name) -/
def cmdVariantName : Cmd → String
  | .evalStart => "EvalStart" | .evalOutput => "EvalOutput" | .evalEnd => "EvalEnd" | .duplicate => "Duplicate"
  | .popEvaluatedValue => "PopEvaluatedValue" | .popFunction => "PopFunction" | .popTunnel => "PopTunnel"
  | .beginString => "BeginString" | .endString => "EndString" | .noOp => "NoOp" | .choiceCount => "ChoiceCount"
  | .turns => "Turns" | .turnsSince => "TurnsSince" | .readCount => "ReadCount" | .random => "Random"
  | .seedRandom => "SeedRandom" | .visitIndex => "VisitIndex" | .sequenceShuffleIndex => "SequenceShuffleIndex"
  | .startThread => "StartThread" | .done => "Done" | .«end» => "End" | .listFromInt => "ListFromInt"
  | .listRange => "ListRange" | .listRandom => "ListRandom" | .beginTag => "BeginTag" | .endTag => "EndTag"

/-- `Debug for Op` (the variant name) -/
def opVariantName : Op → String
  | .add => "Add" | .subtract => "Subtract" | .divide => "Divide" | .multiply => "Multiply" | .mod => "Mod"
  | .negate => "Negate" | .equal => "Equal" | .greater => "Greater" | .less => "Less"
  | .greaterEq => "GreaterThanOrEquals" | .lessEq => "LessThanOrEquals" | .notEquals => "NotEquals" | .not => "Not"
  | .and => "And" | .or => "Or" | .min => "Min" | .max => "Max" | .pow => "Pow" | .floor => "Floor"
  | .ceiling => "Ceiling" | .int => "Int" | .float => "Float" | .has => "Has" | .hasnt => "Hasnt"
  | .intersect => "Intersect" | .listMin => "ListMin" | .listMax => "ListMax" | .all => "All" | .count => "Count"
  | .valueOfList => "ValueOfList" | .invert => "Invert"

/-- `Display` of a runtime object (`format!("{}", obj)` on an `Rc<dyn RTObject>`). -/
def describe : Obj → String
  | .val v => v.display
  | .glue => "Glue"
  | .void => "Void"
  | .tag t => "# " ++ t
  | .cmd c => cmdVariantName c
  | .native op => "Native '" ++ opVariantName op ++ "'"
  | .varAss n _ _ => "VarAssign to " ++ n
  | .varRef n count =>
    if !n.isEmpty then "var(" ++ n ++ ")"
    else (match count with
      | some p => "read_count(" ++ String.ofList p.toText ++ ")"
      | none => "read_count(null)")
  | .choicePoint _ p => "Choice: -> " ++ String.ofList p.toText
  | .container name _ _ _ => "Container (" ++ name.getD "<no name>" ++ ")"
  | .divert d =>
    match d.varName, d.target with
    | some vn, _ => "Divert(variable: " ++ vn ++ ")"
    | none, none => "Divert(null)"
    | none, some t =>
      "Divert" ++ (if d.conditional then "?" else "")
        ++ (if d.pushes then (if d.pushType == .function then " function" else " tunnel") else "")
        ++ " -> " ++ String.ofList t.toText ++ " (" ++ String.ofList t.toText ++ ")"

/-- Destination type of `coerce_values_to_single_type`. -/
def destType (params : List Obj) : Nat :=
  params.foldl (fun d o => match o with
    | .val v => if v.castOrdinal > d then v.castOrdinal else d
    | _ => d) 1

def coerceAll (dest : Nat) : List Obj → Out (List Val)
  | [] => .ok []
  | .val v :: rest =>
    match v.cast dest with
    | .ok c =>
      match coerceAll dest rest with
      | .ok vs => .ok ((c.getD v) :: vs)
      | .err k m => .err k m
      | .panic s => .panic s
    | .err k m => .err k m
    | .panic s => .panic s
  | o :: _ => .invalid ("RTObject of type Value expected: " ++ describe o)

/-- `call_binary_list_operation` -/
def binaryList (defs : ListDefs) (op : Op) (p0 p1 : Obj) : Out Val :=
  match op, p0, p1 with
  | .add, .val (.list l), .val (.int n) => .ok (.list (l.increment defs n true))
  | .subtract, .val (.list l), .val (.int n) => .ok (.list (l.increment defs n false))
  | _, .val v1, .val v2 =>
    if (op = .and ∨ op = .or) ∧ (!isList p0 || !isList p1) then
      match v1.isTruthy with
      | .ok t1 =>
        -- Rust evaluates `v1.is_truthy()? && v2.is_truthy()?` with short circuit
        if op = .and then
          (if t1 then (match v2.isTruthy with
            | .ok t2 => .ok (.bool t2)
            | .err k m => .err k m
            | .panic s => .panic s) else .ok (.bool false))
        else
          (if t1 then .ok (.bool true) else (match v2.isTruthy with
            | .ok t2 => .ok (.bool t2)
            | .err k m => .err k m
            | .panic s => .panic s))
      | .err k m => .err k m
      | .panic s => .panic s
    else if isList p0 && isList p1 then binary op v1 v2
    else .invalid ("Can not call use '" ++ op.name ++ "' operation on " ++ v1.display ++ " and " ++ v2.display)
  -- the other operand of a list may be any object of the evaluation stack: first operand first
  | _, .val _, o => .invalid ("RTObject of type Value expected: " ++ describe o)
  | _, o, _ => .invalid ("RTObject of type Value expected: " ++ describe o)

/-- `NativeFunctionCall::call` -/
def call (defs : ListDefs) (op : Op) (params : List Obj) : Out Obj :=
  if op.arity ≠ params.length then .invalid "Unexpected number of parameters"
  else if params.any (fun p => match p with | .void => true | _ => false) then
    .invalid ("Attempting to perform " ++ op.name
      ++ " on a void value. Did you forget to 'return' a value from a function you called here?")
  else
    match params with
    | [p0, p1] =>
      if isList p0 || isList p1 then
        match binaryList defs op p0 p1 with
        | .ok v => .ok (.val v)
        | .err k m => .err k m
        | .panic s => .panic s
      else
        match coerceAll (destType params) params with
        | .ok [a, b] =>
          (match binary op a b with
          | .ok v => .ok (.val v)
          | .err k m => .err k m
          | .panic s => .panic s)
        | .ok _ => .panic "unreachable"
        | .err k m => .err k m
        | .panic s => .panic s
    | [_] =>
      match coerceAll (destType params) params with
      | .ok [a] =>
        (match unary defs op a with
        | .ok v => .ok (.val v)
        | .err k m => .err k m
        | .panic s => .panic s)
      | .ok _ => .panic "unreachable"
      | .err k m => .err k m
      | .panic s => .panic s
    | _ => .invalid "Unexpected number of parameters"

end Native
end Ink
