/-
  Ink/Value.lean — values, list values, runtime objects (content tree).
  Models value.rs, value_type.rs, ink_list_item.rs, the data of ink_list.rs,
  control_command.rs (names), native_function_call.rs (names, arities),
  container.rs / divert.rs / choice_point.rs / variable_reference.rs (data).
-/
import Ink.Basic
import Ink.Path

namespace Ink

/-- `InkListItem` -/
structure ListItem where
  origin : Option String
  name : String
  deriving DecidableEq, Repr, Inhabited, BEq

namespace ListItem
/-- `InkListItem::from_full_name` : split at dots, origin = first piece if
    there is more than one piece, item = last piece. -/
def ofFullName (s : String) : ListItem :=
  let parts := (splitDot s.toList).map String.ofList
  { origin := if parts.length > 1 then parts.head? else none,
    name := parts.getLast?.getD "" }

def fullName (i : ListItem) : String := (i.origin.getD "?") ++ "." ++ i.name
end ListItem

/-- `InkList`: `items` is the `HashMap<InkListItem,i32>` as an association list
    whose order stands for the (arbitrary) hash iteration order; `origins` are
    the names of the resolved origin definitions; `initialOrigins` the names
    kept for an empty list. -/
structure InkList where
  items : List (ListItem × Int)
  origins : List String
  initialOrigins : List String
  deriving Repr, Inhabited, BEq

namespace InkList
def empty : InkList := { items := [], origins := [], initialOrigins := [] }
end InkList

inductive Val where
  | bool (b : Bool)
  | int (i : Int)
  | float (f : Float32)
  | list (l : InkList)
  | str (s : String)
  | dtarget (p : Path)
  | varptr (name : String) (ci : Int)
  deriving Repr, Inhabited

/-- Control commands, in the order of `CommandType`. -/
inductive Cmd where
  | evalStart | evalOutput | evalEnd | duplicate | popEvaluatedValue | popFunction | popTunnel
  | beginString | endString | noOp | choiceCount | turns | turnsSince | readCount | random
  | seedRandom | visitIndex | sequenceShuffleIndex | startThread | done | «end»
  | listFromInt | listRange | listRandom | beginTag | endTag
  deriving DecidableEq, Repr, Inhabited

namespace Cmd
def all : List Cmd :=
  [evalStart, evalOutput, evalEnd, duplicate, popEvaluatedValue, popFunction, popTunnel,
   beginString, endString, noOp, choiceCount, turns, turnsSince, readCount, random,
   seedRandom, visitIndex, sequenceShuffleIndex, startThread, done, «end»,
   listFromInt, listRange, listRandom, beginTag, endTag]

def name : Cmd → String
  | evalStart => "ev" | evalOutput => "out" | evalEnd => "/ev" | duplicate => "du"
  | popEvaluatedValue => "pop" | popFunction => "~ret" | popTunnel => "->->"
  | beginString => "str" | endString => "/str" | noOp => "nop" | choiceCount => "choiceCnt"
  | turns => "turn" | turnsSince => "turns" | readCount => "readc" | random => "rnd"
  | seedRandom => "srnd" | visitIndex => "visit" | sequenceShuffleIndex => "seq"
  | startThread => "thread" | done => "done" | «end» => "end" | listFromInt => "listInt"
  | listRange => "range" | listRandom => "lrnd" | beginTag => "#" | endTag => "/#"

def ofName (s : String) : Option Cmd := all.find? (fun c => c.name == s)
end Cmd

/-- Native operators, in the order of `Op`. -/
inductive Op where
  | add | subtract | divide | multiply | mod | negate
  | equal | greater | less | greaterEq | lessEq | notEquals | not
  | and | or | min | max | pow | floor | ceiling | int | float
  | has | hasnt | intersect | listMin | listMax | all | count | valueOfList | invert
  deriving DecidableEq, Repr, Inhabited

namespace Op
def allOps : List Op :=
  [add, subtract, divide, multiply, mod, negate, equal, greater, less, greaterEq, lessEq,
   notEquals, not, and, or, min, max, pow, floor, ceiling, int, float, has, hasnt, intersect,
   listMin, listMax, all, count, valueOfList, invert]

def name : Op → String
  | add => "+" | subtract => "-" | divide => "/" | multiply => "*" | mod => "%" | negate => "_"
  | equal => "==" | greater => ">" | less => "<" | greaterEq => ">=" | lessEq => "<="
  | notEquals => "!=" | not => "!" | and => "&&" | or => "||" | min => "MIN" | max => "MAX"
  | pow => "POW" | floor => "FLOOR" | ceiling => "CEILING" | int => "INT" | float => "FLOAT"
  | has => "?" | hasnt => "!?" | intersect => "^" | listMin => "LIST_MIN" | listMax => "LIST_MAX"
  | all => "LIST_ALL" | count => "LIST_COUNT" | valueOfList => "LIST_VALUE" | invert => "LIST_INVERT"

def arity : Op → Nat
  | negate | not | floor | ceiling | int | float | listMin | listMax | all | count
  | valueOfList | invert => 1
  | _ => 2

def ofName (s : String) : Option Op := allOps.find? (fun o => o.name == s)
end Op

inductive PushPop where
  | tunnel | function | functionEvaluationFromGame
  deriving DecidableEq, Repr, Inhabited

/-- `Divert` data. -/
structure DivertData where
  pushes : Bool
  pushType : PushPop
  external : Bool
  exArgs : Nat
  conditional : Bool
  varName : Option String
  target : Option Path
  deriving Repr, Inhabited

/-- Bit `k` of a two's-complement integer (`(v & (1<<k)) > 0` for k < 31). -/
def bitSet (n : Int) (k : Nat) : Bool := (n / (2 ^ k : Nat)) % 2 == 1

/-- Runtime objects. A container keeps its `content` and the *named-only*
    children (the keys of the terminating object), exactly what
    `jarray_to_container` builds; `named_content` of the Rust container is the
    union of the named-only children and the content children with a valid name. -/
inductive Obj where
  | container (name : Option String) (flags : Int) (content : List Obj) (namedOnly : List (String × Obj))
  | val (v : Val)
  | cmd (c : Cmd)
  | native (op : Op)
  | divert (d : DivertData)
  | choicePoint (flags : Int) (path : Path)
  | varRef (name : String) (count : Option Path)
  | varAss (name : String) (isNew : Bool) (isGlobal : Bool)
  | glue
  | void
  | tag (text : String)
  deriving Repr, Inhabited

namespace Obj

def isContainer : Obj → Bool
  | container .. => true
  | _ => false

/-- `Container::has_valid_name` (false for non-containers). -/
def validName : Obj → Option String
  | container (some n) _ _ _ => if n.isEmpty then none else some n
  | _ => none

def content : Obj → List Obj
  | container _ _ c _ => c
  | _ => []

def namedOnly : Obj → List (String × Obj)
  | container _ _ _ n => n
  | _ => []

def flags : Obj → Int
  | container _ f _ _ => f
  | _ => 0

def visitsCounted (o : Obj) : Bool := bitSet o.flags 0
def turnsCounted (o : Obj) : Bool := bitSet o.flags 1
def countStartOnly (o : Obj) : Bool := bitSet o.flags 2

/-- `Container::get_count_flags` -/
def countFlags (o : Obj) : Int :=
  let f : Int := (if o.visitsCounted then 1 else 0) + (if o.turnsCounted then 2 else 0)
    + (if o.countStartOnly then 4 else 0)
  if f = 4 then 0 else f

end Obj

/-- `ChoicePoint::get_flags` from the stored booleans. -/
def choiceFlags (flags : Int) : Int :=
  (if bitSet flags 0 then 1 else 0) + (if bitSet flags 1 then 2 else 0)
  + (if bitSet flags 2 then 4 else 0) + (if bitSet flags 3 then 8 else 0)
  + (if bitSet flags 4 then 16 else 0)

/-- List definitions: name ↦ (item name ↦ value), association lists. -/
abbrev ListDefs := List (String × List (String × Int))

end Ink
