/-
  Ink/Api.lean — the host API.  Models the public methods of `Story`
  (story/mod.rs, progress.rs, choices.rs, navigation.rs, flow.rs, state.rs,
  variable_observer.rs, external_functions.rs, errors.rs, tags.rs) and the flow
  operations of story_state.rs.  Every operation is a function
  `Story → args → Out result × Story` (the story returned with an error is the
  story after the failed call, which is what C09 is about).
-/
import Ink.Continue
import Ink.Load

namespace Ink
namespace Story

/-- Model fuel for one host call (steps). Stories that need more are reported as `ModelFuel`. -/
def callFuel : Nat := 200000

def ifAsyncWeCant (st : Story) (activity : String) : Out Unit :=
  if st.asyncActive then
    .invalid ("Can't " ++ activity ++ ". Story is in the middle of a continue_async(). Make more continue_async() calls or a single cont() call beforehand.")
  else .ok ()

/-! ### external bindings validation -/

mutual
  /-- names of external diverts found below the container at `a` -/
  def externalNames (fuel : Nat) (root : Obj) (o : Obj) (a : Addr) : List (Addr × Path) :=
    match fuel with
    | 0 => []
    | fuel + 1 =>
      match o with
      | .container _ _ content named =>
        externalNamesList fuel root content a 0 ++ externalNamesNamed fuel root named a
      | .divert d => if d.external then (match d.target with | some t => [(a, t)] | none => []) else []
      | _ => []
  def externalNamesList (fuel : Nat) (root : Obj) (cs : List Obj) (a : Addr) (i : Nat) : List (Addr × Path) :=
    match fuel with
    | 0 => []
    | fuel + 1 =>
      match cs with
      | [] => []
      | c :: rest => externalNames fuel root c (a ++ [.idx i]) ++ externalNamesList fuel root rest a (i + 1)
  def externalNamesNamed (fuel : Nat) (root : Obj) (ns : List (String × Obj)) (a : Addr) : List (Addr × Path) :=
    match fuel with
    | 0 => []
    | fuel + 1 =>
      match ns with
      | [] => []
      | (k, c) :: rest => externalNames fuel root c (a ++ [.named k]) ++ externalNamesNamed fuel root rest a
end

def insertSortedStr (x : String) : List String → List String
  | [] => [x]
  | y :: ys => if x < y then x :: y :: ys else if x == y then y :: ys else y :: insertSortedStr x ys

/-- `validate_external_bindings` -/
def validateExternalBindings (st : Story) : Out Unit × Story :=
  let exts := externalNames 100000 st.root st.root []
  let names : Option (List String) := exts.mapM (fun ap =>
    match pathOf st.root ap.1, divertTargetPath st.root ap.1 ap.2 with
    | some own, .ok target => (Path.compact own target).map String.ofList
    | _, _ => none)
  match names with
  | none => (.panic "external_functions.rs:get_target_path_string", st)
  | some names =>
    let missing := names.filter (fun n =>
      !alHas st.externals n && !(st.allowFallbacks && (st.root.lookupName n).isSome))
    let sorted := missing.foldl (fun acc n => insertSortedStr n acc) []
    if sorted.isEmpty then (.ok (), { st with validated := true })
    else
      (.invalid ("ERROR: Missing function binding for external" ++ (if sorted.length > 1 then "s" else "")
        ++ ": '" ++ ", ".intercalate sorted ++ "' "
        ++ (if st.allowFallbacks then ", and no fallback ink function found." else " (ink fallbacks disabled)")), st)

/-- `continue_async(millis)`; `budget = none` ⇔ `millis = 0`. -/
def continueAsync (st : Story) (budget : Option Nat) : Out Unit × Story :=
  let (v, st1) : Out Unit × Story := if !st.validated then st.validateExternalBindings else (.ok (), st)
  match v with
  | .ok () => st1.continueInternal budget callFuel
  | other => (other, st1)

def getCurrentText (st : Story) : Out String :=
  match st.ifAsyncWeCant "call currentText since it's a work in progress" with
  | .ok () => .ok st.state.currentText
  | .err k m => .err k m
  | .panic p => .panic p

def getCurrentTags (st : Story) : Out (List String) :=
  match st.ifAsyncWeCant "call currentTags since it's a work in progress" with
  | .ok () => .ok st.state.currentTags
  | .err k m => .err k m
  | .panic p => .panic p

/-- `cont()` -/
def cont (st : Story) : Out String × Story :=
  match st.continueAsync none with
  | (.ok (), st1) => (st1.getCurrentText, st1)
  | (.err k m, st1) => (.err k m, st1)
  | (.panic p, st1) => (.panic p, st1)

/-- `continue_maximally()` -/
def continueMaximally (st : Story) : Out String × Story :=
  match st.ifAsyncWeCant "continue_maximally" with
  | .err k m => (.err k m, st)
  | .panic p => (.panic p, st)
  | .ok () =>
    let rec loop : Nat → Story → String → Out String × Story
      | 0, st, _ => (.err "ModelFuel" "continue_maximally", st)
      | fuel + 1, st, acc =>
        if st.canContinue then
          match st.cont with
          | (.ok t, st1) => loop fuel st1 (acc ++ t)
          | other => other
        else (.ok acc, st)
    loop 100000 st ""

/-- `get_current_choices()`: the visible choices; rewrites their `index` (a side effect the saves show). -/
def currentChoices (st : Story) : List Choice × Story :=
  if st.state.canContinue then ([], st)
  else
    let rec renumber : List Choice → Nat → List Choice
      | [], _ => []
      | c :: rest, n => if c.isInvisibleDefault then c :: renumber rest n else { c with index := n } :: renumber rest (n + 1)
    let cs := renumber st.core.flow.choices 0
    (cs.filter (fun c => !c.isInvisibleDefault),
     st.mapCore (fun c => { c with flow := { c.flow with choices := cs } }))

/-- `choose_choice_index(i)` -/
def chooseChoiceIndex (st : Story) (i : Nat) : Out Unit × Story :=
  match st.ifAsyncWeCant "choose a choice" with
  | .err k m => (.err k m, st)
  | .panic p => (.panic p, st)
  | .ok () =>
    let (choices, st1) := st.currentChoices
    match choices[i]? with
    | none => (.badArg "choice out of range", st1)
    | some c =>
      match c.thread with
      | none => (.panic "choices.rs:thread_at_generation", st1)
      | some th =>
        let st2 := st1.mapCore (fun c => c.mapCallstack (fun cs => cs.setCurrentThread th))
        st2.runM (choosePath st2.env c.targetPath true)

/-- `StoryState::check_arguments` on already decoded arguments: `none` marks an unsupported kind. -/
def checkArguments (args : List (Option Val)) : Out (List Val) :=
  if args.all Option.isSome then .ok (args.filterMap id)
  else .invalid "ink arguments when calling EvaluateFunction / ChoosePathStringWithParameters must be int, float, string, bool or InkList."

def passArguments (st : Story) (args : List Val) : Out Unit × Story :=
  st.runM (args.forM (fun v => pushEvalM st.env (.val v)))

/-- `choose_path_string(path, reset_call_stack, args)` -/
def choosePathString (st : Story) (path : String) (resetCallStack : Bool) (args : List (Option Val)) : Out Unit × Story :=
  match st.ifAsyncWeCant "call ChoosePathString right now" with
  | .err k m => (.err k m, st)
  | .panic p => (.panic p, st)
  | .ok () =>
    match checkArguments args with
    | .err k m => (.err k m, st)
    | .panic p => (.panic p, st)
    | .ok argv =>
      let target := Path.parse path.toList
      match pointerAtPath st.root target with
      | .err k m => (.err k m, st)
      | .panic p => (.panic p, st)
      | .ok _ =>
        let pre : Out Unit × Story :=
          if resetCallStack then (.ok (), st.mapCore Core.forceEnd)
          else
            match st.core.callstack.currentElement with
            | some e =>
              if e.kind == .function then
                (.invalid ("Story was running a function when you called ChoosePathString(" ++ path
                  ++ ") - this is almost certainly not what you want!"), st)
              else (.ok (), st)
            | none => (.panic "callstack.rs:get_current_element", st)
        match pre with
        | (.ok (), st1) =>
          match st1.passArguments argv with
          | (.ok (), st2) => st2.runM (choosePath st2.env target true)
          | other => other
        | other => other

/-- `complete_function_evaluation_from_game`, after the output stream was put back. -/
def completeFunctionEvaluation (st : Story) (outputBefore : List Obj) (prevBefore : Ptr) (text : String) :
    Out (Option Val × String) × Story :=
  let s3 := (st.core.resetOutput (some outputBefore)).setPrevPtr prevBefore
  match s3.callstack.currentElement with
  | none => (.panic "callstack.rs:get_current_element", st)
  | some e =>
    if e.kind != .functionEvaluationFromGame then
      (.invalid "Expected external function evaluation to be complete.", st.setCore s3)
    else
      let h := e.evalHeightWhenPushed
      let extra := s3.evalStack.length - h
      let returned : Option Obj := if extra > 0 then s3.evalStack.head? else none
      let s4 := { s3 with evalStack := s3.evalStack.drop extra }
      match s4.callstack.pop (some .functionEvaluationFromGame) with
      | .err k m => (.err k m, st.setCore s4)
      | .panic p => (.panic p, st.setCore s4)
      | .ok cs' =>
        let rv : Option Val := match returned with
          | some (.val (.dtarget p)) => some (.str (String.ofList p.toText))
          | some (.val v) => some v
          | _ => none
        (.ok (rv, text), st.setCore (s4.setCallstack cs'))

/-- The loop of `evaluate_function`: continue while possible, collecting the text. -/
def evalLoop : Nat → Story → String → Out String × Story
  | 0, st, _ => (.err "ModelFuel" "evaluate_function", st)
  | fuel + 1, st, acc =>
    if st.canContinue then
      match st.cont with
      | (.ok t, st') => evalLoop fuel st' (acc ++ t)
      | other => other
    else (.ok acc, st)

/-- `evaluate_function(name, args)`: returns the value (if any) and the text. -/
def evaluateFunction (st : Story) (name : String) (args : List (Option Val)) :
    Out (Option Val × String) × Story :=
  match st.ifAsyncWeCant "evaluate a function" with
  | .err k m => (.err k m, st)
  | .panic p => (.panic p, st)
  | .ok () =>
    if (name.toList.dropWhile isUnicodeWs).isEmpty then (.invalid "Function is empty or white space.", st)
    else match st.root.lookupName name with
    | none => (.badArg ("Function doesn't exist: '" ++ name ++ "'"), st)
    | some stp =>
      match checkArguments args with
      | .err k m => (.err k m, st)
      | .panic p => (.panic p, st)
      | .ok argv =>
        let outputBefore := st.core.output
        let prevBefore := st.core.prevPtr
        let s1 := st.core.resetOutput none
        match s1.callstack.push .functionEvaluationFromGame s1.evalStack.length 0 with
        | none => (.panic "callstack.rs:push", st)
        | some cs =>
          let s2 := (s1.setCallstack cs).setCurrentPtr (Ptr.startOf [stp])
          let st1 := st.setCore s2
          match st1.passArguments argv with
          | (.err k m, st2) => (.err k m, st2)
          | (.panic p, st2) => (.panic p, st2)
          | (.ok (), st2) =>
            match evalLoop 100000 st2 "" with
            | (.err k m, st3) => (.err k m, st3)
            | (.panic p, st3) => (.panic p, st3)
            | (.ok text, st3) => st3.completeFunctionEvaluation outputBefore prevBefore text

/-! ### flows -/

def freshFlow (name : String) : Flow :=
  { name := name, callstack := CallStack.fresh, output := [], choices := [] }

/-- `switch_flow_internal` -/
def switchFlowInternal (s : StoryState) (name : String) : StoryState :=
  if name == s.core.flow.name then s
  else
    let nf := s.namedFlows.getD []
    let next := (alGet nf name).getD (freshFlow name)
    let nf1 := alRemove nf name
    { s with core := { s.core with flow := next }, namedFlows := some (alSet nf1 s.core.flow.name s.core.flow) }

def switchFlow (st : Story) (name : String) : Out Unit × Story :=
  match st.ifAsyncWeCant "switch flow" with
  | .ok () => (.ok (), { st with state := switchFlowInternal st.state name })
  | .err k m => (.err k m, st)
  | .panic p => (.panic p, st)

def switchToDefaultFlowInternal (s : StoryState) : StoryState :=
  if s.namedFlows.isSome then switchFlowInternal s defaultFlowName else s

def switchToDefaultFlow (st : Story) : Story :=
  if st.asyncActive then st else { st with state := switchToDefaultFlowInternal st.state }

def removeFlow (st : Story) (name : String) : Out Unit × Story :=
  match st.ifAsyncWeCant "remove a flow" with
  | .err k m => (.err k m, st)
  | .panic p => (.panic p, st)
  | .ok () =>
    if name == defaultFlowName then (.badArg "Cannot destroy default flow", st)
    else
      let s1 := if st.core.flow.name == name then switchToDefaultFlowInternal st.state else st.state
      (.ok (), { st with state := { s1 with namedFlows := s1.namedFlows.map (fun nf => alRemove nf name) } })

/-! ### variables and observers -/

def getVariableHost (st : Story) (name : String) : Option Val :=
  match st.core.vars.get name with
  | some v => some v
  | none => alGet st.core.defaultGlobals name

def setVariable (st : Story) (name : String) (v : Val) : Out Unit × Story :=
  match st.ifAsyncWeCant "set a variable" with
  | .err k m => (.err k m, st)
  | .panic p => (.panic p, st)
  | .ok () =>
    if !alHas st.core.defaultGlobals name then
      (.badArg ("Cannot assign to a variable " ++ name ++ " that hasn't been declared in the story"), st)
    else
      let (s1, notify) := st.core.setGlobal name v
      let st1 := st.setCore s1
      if notify then (.ok (), { st1 with events := (obsEvents st1 [(name, v)]).reverse ++ st1.events })
      else (.ok (), st1)

def observeVariable (st : Story) (name id : String) : Out Unit × Story :=
  match st.ifAsyncWeCant "observe a new variable" with
  | .err k m => (.err k m, st)
  | .panic p => (.panic p, st)
  | .ok () =>
    if !st.core.globalExists name then
      (.badArg ("Cannot observe variable '" ++ name ++ "' because it wasn't declared in the ink story."), st)
    else
      let cur := (alGet st.observers name).getD []
      (.ok (), { st with observers := alSet st.observers name (cur ++ [id]) })

/-- remove the first registration of `id` from a list of observers -/
def removeFirst (id : String) : List String → List String
  | [] => []
  | x :: xs => if x == id then xs else x :: removeFirst id xs

def removeVariableObserver (st : Story) (id : String) (name : Option String) : Out Unit × Story :=
  match st.ifAsyncWeCant "remove a variable observer" with
  | .err k m => (.err k m, st)
  | .panic p => (.panic p, st)
  | .ok () =>
    let obs := st.observers.map (fun kv =>
      if name.isNone || name == some kv.1 then (kv.1, removeFirst id kv.2) else kv)
    (.ok (), { st with observers := obs.filter (fun kv => !kv.2.isEmpty) })

def bindExternal (st : Story) (name : String) (d : ExtDef) : Out Unit × Story :=
  match st.ifAsyncWeCant "bind an external function" with
  | .err k m => (.err k m, st)
  | .panic p => (.panic p, st)
  | .ok () =>
    if alHas st.externals name then (.badArg ("Function '" ++ name ++ "' has already been bound."), st)
    else (.ok (), { st with externals := alSet st.externals name d })

def unbindExternal (st : Story) (name : String) : Out Unit × Story :=
  match st.ifAsyncWeCant "unbind an external a function" with
  | .err k m => (.err k m, st)
  | .panic p => (.panic p, st)
  | .ok () =>
    if !alHas st.externals name then (.badArg ("Function '" ++ name ++ "' has not been bound."), st)
    else (.ok (), { st with externals := alRemove st.externals name })

/-- `get_visit_count_at_path_string` -/
def visitCountAtPathString (st : Story) (path : String) : Out Int :=
  if st.state.patching then
    let sr := contentAtPath st.root [] (Path.parse path.toList).comps
    if !isContainerAt st.root sr.addr then .invalid ("Content at path not found: " ++ path)
    else .ok ((alGet st.core.visitCounts path).getD 0)
  else .ok ((alGet st.core.visitCounts path).getD 0)

def currentPath (st : Story) : Option (Option String) :=
  match st.core.currentPtr.path st.root with
  | some (some p) => some (some (String.ofList p.toText))
  | some none => some none
  | none => none

/-- `tags_at_start_of_flow_container_with_path_string` -/
def tagsAtPath (st : Story) (path : String) : Out (List String) :=
  let sr := contentAtPath st.root [] (Path.parse path.toList).comps
  let notContainer : Out (List String) := .badArg ("Content at path is not a knot or stitch: " ++ path)
  if !isContainerAt st.root sr.addr then notContainer
  else
    let rec descend : Nat → Obj → Obj
      | 0, o => o
      | fuel + 1, o =>
        match o.content.head? with
        | some c => if c.isContainer then descend fuel c else o
        | none => o
    match nodeAt st.root sr.addr with
    | none => notContainer
    | some c0 =>
      let flow := descend 10000 c0
      let rec scan : List Obj → Bool → List String → Out (List String)
        | [], _, acc => .ok acc.reverse
        | o :: rest, inTag, acc =>
          match o with
          | .cmd .beginTag => scan rest true acc
          | .cmd .endTag => scan rest false acc
          | .cmd _ => scan rest inTag acc
          | other =>
            if inTag then
              match other with
              | .val (.str t) => scan rest inTag (t :: acc)
              | _ => .invalid "Tag contained non-text content. Only plain text is allowed when using globalTags or TagsAtContentPath. If you want to evaluate dynamic content, you need to use story.Continue()"
            else .ok acc.reverse
      scan flow.content false []

/-! ### construction and reset -/

/-- `reset_globals` -/
def resetGlobals (st : Story) : Out Unit × Story :=
  let r : Out Unit × Story :=
    if (st.root.lookupName "global decl").isSome then
      let original := st.core.currentPtr
      match st.runM (choosePath st.env (Path.parse "global decl".toList) false) with
      | (.ok (), st1) =>
        match st1.continueInternal none callFuel with
        | (.ok (), st2) => (.ok (), st2.mapCore (fun c => c.setCurrentPtr original))
        | other => other
      | other => other
    else (.ok (), st)
  match r with
  | (.ok (), st1) =>
    -- snapshot_default_globals
    let defaults := st1.core.vars.globals.foldl (fun acc kv => alSet acc kv.1 kv.2) st1.core.defaultGlobals
    (.ok (), st1.mapCore (fun c => { c with defaultGlobals := defaults }))
  | other => other

def inkVersionWarning (version : Int) : String :=
  "WARNING: Version of ink used to build story (" ++ intToString version
  ++ ") doesn't match current version (21) of engine. Non-critical, but recommend synchronising."

/-- `Story::new` from a loaded document; `seed` stands for the random story seed. -/
def create (ld : Load.Loaded) (seed : Int) : Out Story :=
  let st : Story :=
    { root := ld.root, defs := ld.listDefs, state := StoryState.fresh seed, snapshot := none,
      recCount := 0, asyncActive := false, sawUnsafe := false, validated := false,
      allowFallbacks := false, handler := false, observers := [], externals := [], events := [],
      lines := 0, fuel := none, stepClock := false }
  match st.resetGlobals with
  | (.ok (), st1) =>
    .ok (if ld.version != 21 then st1.addError (inkVersionWarning ld.version) true else st1)
  | (.err k m, _) => .err k m
  | (.panic p, _) => .panic p

/-- `reset_state` -/
def resetState (st : Story) (seed : Int) : Out Unit × Story :=
  match st.ifAsyncWeCant "ResetState" with
  | .err k m => (.err k m, st)
  | .panic p => (.panic p, st)
  | .ok () => { st with state := StoryState.fresh seed }.resetGlobals

end Story
end Ink
