/-
  Ink/Continue.lean — the look-ahead loop.  Models story/progress.rs
  (continue_internal, continue_single_step, calculate_newline_output_state_change),
  story/state.rs (state_snapshot, restore_state_snapshot, discard_snapshot) and
  the delivery block of errors / warnings / observer notifications.
-/
import Ink.Step

namespace Ink

/-- The host-visible story object (`story/mod.rs: Story`). -/
structure Story where
  root : Obj
  defs : ListDefs
  state : StoryState
  snapshot : Option StoryState
  recCount : Nat
  asyncActive : Bool
  sawUnsafe : Bool
  validated : Bool
  allowFallbacks : Bool
  handler : Bool
  /-- variable name ↦ observer ids, in registration order -/
  observers : List (String × List String)
  externals : List (String × ExtDef)
  /-- callback events of the current host call, newest first -/
  events : List Json
  /-- lines delivered to the host so far (harness bookkeeping, logged with external calls) -/
  lines : Nat
  /-- verification hooks: step budget and virtual clock -/
  fuel : Option Nat
  stepClock : Bool

inductive OutputStateChange where
  | noChange | extendedBeyondNewline | newlineRemoved
  deriving DecidableEq, Repr

/-- `calculate_newline_output_state_change`, on UTF-8 bytes. -/
def calcNewlineChange (prevText currText : List UInt8) (prevTags currTags : Nat) : OutputStateChange :=
  let newlineStillExists : Bool :=
    currText.length ≥ prevText.length && !prevText.isEmpty
      && currText[prevText.length - 1]? == some 10
  if prevTags == currTags && prevText.length == currText.length && newlineStillExists then .noChange
  else if !newlineStillExists then .newlineRemoved
  else if currTags > prevTags then .extendedBeyondNewline
  else if (currText.drop prevText.length).any (fun c => c != 32 && c != 9) then .extendedBeyondNewline
  else .noChange

def utf8 (s : String) : List UInt8 := s.toUTF8.data.toList

namespace Story

def env (st : Story) : Env :=
  { root := st.root, defs := st.defs, snapshotActive := st.snapshot.isSome,
    allowFallbacks := st.allowFallbacks, lines := st.lines }

def canContinue (st : Story) : Bool := st.state.canContinue

def core (st : Story) : Core := st.state.core

def setCore (st : Story) (c : Core) : Story := { st with state := { st.state with core := c } }

def mapCore (st : Story) (f : Core → Core) : Story := st.setCore (f st.core)

/-- Run a step-level action on the story: the action sees the core, the
    external bindings, the event log and the unsafe flag; the warnings it
    raised are appended to the state's warning list afterwards. -/
def runM {α : Type} (st : Story) (m : M α) : Out α × Story :=
  let (r, st') := m { s := st.state.core, externals := st.externals, events := st.events,
                      sawUnsafe := st.sawUnsafe, newWarnings := [] }
  (r, { st with state := { st.state with core := st'.s, warnings := st.state.warnings ++ st'.newWarnings },
                externals := st'.externals, events := st'.events, sawUnsafe := st'.sawUnsafe })

/-- `state_snapshot` -/
def stateSnapshot (st : Story) : Story :=
  { st with snapshot := some st.state, state := { st.state with patching := true } }

/-- `restore_state_snapshot` -/
def restoreSnapshot (st : Story) : Story :=
  match st.snapshot with
  | some snap => { st with state := { snap with patching := false }, snapshot := none }
  | none => st

/-- `discard_snapshot` -/
def discardSnapshot (st : Story) : Story :=
  { st with state := { st.state with patching := false }, snapshot := none }

/-- `add_error` on the story -/
def addError (st : Story) (msg : String) (isWarning : Bool) : Story :=
  if isWarning then
    { st with state := { st.state with warnings := st.state.warnings ++ [errorText st.root st.core msg true] } }
  else st.setCore (addErrorCore st.root st.core msg)

/-- `continue_single_step`: `(ok endsInNewline | err | panic, story)` -/
def continueSingleStep (st : Story) : Out Bool × Story :=
  match st.runM (step st.env) with
  | (.err k m, st1) => (.err k m, st1)
  | (.panic p, st1) => (.panic p, st1)
  | (.ok (), st1) =>
    let r2 : Out Unit × Story :=
      if !st1.canContinue && !st1.core.callstack.elementIsEvaluateFromGame then
        st1.runM (tryFollowDefaultInvisibleChoice st1.env)
      else (.ok (), st1)
    match r2 with
    | (.err k m, st2) => (.err k m, st2)
    | (.panic p, st2) => (.panic p, st2)
    | (.ok (), st2) =>
      if st2.core.inStringEvaluation then (.ok false, st2)
      else
        -- were we double checking that a newline would not be removed by glue?
        let afterCheck : Option Story :=       -- `none` = finished (rewound to the snapshot)
          match st2.snapshot with
          | some snap =>
            let change := calcNewlineChange (utf8 snap.currentText) (utf8 st2.state.currentText)
              snap.currentTags.length st2.state.currentTags.length
            if change == .extendedBeyondNewline || st2.sawUnsafe then none
            else if change == .newlineRemoved then some st2.discardSnapshot
            else some st2
          | none => some st2
        match afterCheck with
        | none => (.ok true, st2.restoreSnapshot)
        | some st3 =>
          if st3.core.outputEndsInNewline then
            if st3.canContinue then
              (.ok false, if st3.snapshot.isNone then st3.stateSnapshot else st3)
            else (.ok false, st3.discardSnapshot)
          else (.ok false, st3)

/-- Why the stepping loop stopped. -/
inductive LoopEnd where
  | newline | cannotContinue | outOfTime | error | outOfFuel
  deriving DecidableEq, Repr

/-- The loop of `continue_internal`.  `budget = some n`: pause once `n` steps
    have been taken in this call (virtual clock); `fuel` bounds the recursion
    of the model (a story that loops forever exhausts it: `outOfFuel`). -/
def stepLoop (budget : Option Nat) : Nat → Nat → Story → Out LoopEnd × Story
  | 0, _, st => (.ok .outOfFuel, st)
  | fuel + 1, steps, st =>
    let steps := steps + 1
    -- verification step budget (hook H2)
    if st.fuel == some 0 then (.ok .error, st.addError "VERIF_FUEL" false)
    else
      let st := { st with fuel := st.fuel.map (· - 1) }
      match st.continueSingleStep with
      | (.panic p, st1) => (.panic p, st1)
      | (.err _ m, st1) => (.ok .error, st1.addError m false)
      | (.ok true, st1) => (.ok .newline, st1)
      | (.ok false, st1) =>
        let timeUp : Bool := match budget with
          | some n => st1.asyncActive && steps ≥ n
          | none => false
        if timeUp then (.ok .outOfTime, st1)
        else if !st1.canContinue then (.ok .cannotContinue, st1)
        else stepLoop budget fuel steps st1

def cannotContinueMsg : String := "Can't continue - should check can_continue before calling Continue"

/-- The "ran out of content" diagnostics at the end of a continue. -/
def endChecks (st : Story) : Story :=
  let st1 :=
    if st.core.callstack.canPopThread then
      st.addError "Thread available to pop, threads should always be flat by the end of evaluation?" false
    else st
  if st1.core.flow.choices.isEmpty && !st1.core.didSafeExit then
    let cs := st1.core.callstack
    if cs.canPopType (some .tunnel) then
      st1.addError "unexpectedly reached end of content. Do you need a '->->' to return from a tunnel?" false
    else if cs.canPopType (some .function) then
      st1.addError "unexpectedly reached end of content. Do you need a '~ return'?" false
    else if !cs.canPop then
      st1.addError "ran out of content. Do you need a '-> DONE' or '-> END'?" false
    else st1.addError "unexpectedly reached end of content for unknown reason. Please debug compiler!" false
  else st1

def pluralS (n : Nat) (word : String) : String := if n == 1 then word else word ++ "s"

def noHandlerMessage (s : StoryState) : String :=
  "Ink had " ++ toString s.core.errors.length ++ " " ++ pluralS s.core.errors.length "error"
  ++ (if s.hasWarning then " and " ++ toString s.warnings.length ++ " " ++ pluralS s.warnings.length "warning" else "")
  ++ ". It is strongly suggested that you assign an error handler to story.onError. The first issue was: "
  ++ s.core.errors.headD ""

/-- One notification event per (changed variable, registered observer). -/
def obsEvents (st : Story) (changed : List (String × Val)) : List Json :=
  changed.flatMap (fun nv =>
    ((alGet st.observers nv.1).getD []).map (fun id => Json.arr [.str "obs", .str id, .str nv.1, encVal nv.2]))

/-- Prologue of `continue_internal` (after the can-continue test). -/
def beginContinue (st : Story) (isAsync : Bool) : Story :=
  let st := { st with recCount := st.recCount + 1 }
  let st :=
    if !st.asyncActive then
      let c1 := ({ st.core with didSafeExit := false }).resetOutput none
      let c2 := if st.recCount == 1 then { c1 with vars := c1.vars.startObservation } else c1
      { (st.setCore c2) with asyncActive := isAsync }
    else if !isAsync then { st with asyncActive := false }
    else st
  { st with sawUnsafe := false }

/-- First half of the block executed when the line is finished or the story
    cannot go on: rewind to the snapshot, "ran out of content" diagnostics,
    clear the per-continue flags. -/
def prepareFinish (st : Story) : Story :=
  let st2 := if st.snapshot.isSome then st.restoreSnapshot else st
  let st3 := if !st2.canContinue then st2.endChecks else st2
  { (st3.mapCore (fun c => { c with didSafeExit := false })) with sawUnsafe := false }

/-- Second half: the outermost continue closes the observation batch and
    collects the changed variables with their current values (`none` = the Rust
    panic of `complete_variable_observation`); the async flag is cleared. -/
def closeObservation (st : Story) : Option (Story × List (String × Val)) :=
  if st.recCount == 1 then
    let (names, vars') := st.core.vars.completeObservation
    if names.all (fun n => (vars'.get n).isSome) then
      some ({ (st.mapCore (fun c => { c with vars := vars' })) with asyncActive := false },
            names.filterMap (fun n => (vars'.get n).map (fun v => (n, v))))
    else none
  else some ({ st with asyncActive := false }, [])

/-- The block executed when the line is finished or the story cannot go on. -/
def finishContinue (st : Story) : Option (Story × List (String × Val)) :=
  st.prepareFinish.closeObservation

/-- Delivery of errors and warnings at the end of `continue_internal`. -/
def deliver (st : Story) : Out Unit × Story :=
  if st.state.hasError || st.state.hasWarning then
    if st.handler then
      let evs := st.core.errors.map (fun m => Json.arr [.str "handler", .str "E", .str m])
        ++ st.state.warnings.map (fun m => Json.arr [.str "handler", .str "W", .str m])
      (.ok (), { st with events := evs.reverse ++ st.events,
                         state := { st.state with core := { st.core with errors := [] }, warnings := [] },
                         snapshot := st.snapshot.map (fun sn =>
                           { sn with core := { sn.core with errors := [] }, warnings := [] }) })
    else if st.state.hasError then (.invalid (noHandlerMessage st.state), st)
    else (.ok (), st)
  else (.ok (), st)

/-- Observer notifications, sent last. -/
def notify (st : Story) (changed : List (String × Val)) : Story :=
  { st with events := (obsEvents st changed).reverse ++ st.events }

/-- `continue_internal(millis)`.  `budget = none` is a blocking continue;
    `some n` a time-limited one on the virtual clock (n > 0). -/
def continueInternal (st : Story) (budget : Option Nat) (modelFuel : Nat) : Out Unit × Story :=
  if !st.asyncActive && !st.canContinue then (.invalid cannotContinueMsg, st)
  else
    let st0 := st.beginContinue budget.isSome
    match stepLoop (if st0.asyncActive then budget else none) modelFuel 0 st0 with
    | (.panic p, st1) => (.panic p, st1)
    | (.err k m, st1) => (.err k m, st1)
    | (.ok .outOfFuel, st1) => (.err "ModelFuel" "model fuel exhausted", st1)
    | (.ok why, st1) =>
      let fin : Option (Story × List (String × Val)) :=
        if why == .newline || !st1.canContinue then st1.finishContinue else some (st1, [])
      match fin with
      | none => (.panic "variables_state.rs:complete_variable_observation", st1)
      | some (st5, changed) =>
        match ({ st5 with recCount := st5.recCount - 1 }).deliver with
        | (.ok (), st7) => (.ok (), st7.notify changed)
        | other => other

end Story
end Ink
