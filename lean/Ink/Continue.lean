/-
  Ink/Continue.lean — the look-ahead loop.  Models story/progress.rs
  (continue_internal, continue_single_step, calculate_newline_output_state_change),
  story/state.rs (state_snapshot, restore_state_snapshot, discard_snapshot) and
  the delivery block of errors / warnings / observer notifications.
-/
import Ink.Step

namespace Ink

/-- The host-visible story object (`story/mod.rs: Story`). -/
structure Story where
  root : Obj
  defs : ListDefs
  state : StoryState
  snapshot : Option StoryState
  recCount : Nat
  asyncActive : Bool
  sawUnsafe : Bool
  validated : Bool
  allowFallbacks : Bool
  handler : Bool
  /-- variable name ↦ observer ids, in registration order -/
  observers : List (String × List String)
  externals : List (String × ExtDef)
  /-- callback events of the current host call, newest first -/
  events : List Json
  /-- lines delivered to the host so far (harness bookkeeping, logged with external calls) -/
  lines : Nat
  /-- verification hooks: step budget and virtual clock -/
  fuel : Option Nat
  stepClock : Bool
  deriving Inhabited

inductive OutputStateChange where
  | noChange | extendedBeyondNewline | newlineRemoved
  deriving DecidableEq, Repr

/-- `calculate_newline_output_state_change`, on UTF-8 bytes. -/
def calcNewlineChange (prevText currText : List UInt8) (prevTags currTags : Nat) : OutputStateChange :=
  let newlineStillExists : Bool :=
    currText.length ≥ prevText.length && !prevText.isEmpty
      && currText[prevText.length - 1]? == some 10
  if prevTags == currTags && prevText.length == currText.length && newlineStillExists then .noChange
  else if !newlineStillExists then .newlineRemoved
  else if currTags > prevTags then .extendedBeyondNewline
  else if (currText.drop prevText.length).any (fun c => c != 32 && c != 9) then .extendedBeyondNewline
  else .noChange

def utf8 (s : String) : List UInt8 := s.toUTF8.data.toList

namespace Story

def env (st : Story) : Env :=
  { root := st.root, defs := st.defs, snapshotActive := st.snapshot.isSome,
    allowFallbacks := st.allowFallbacks, lines := st.lines }

def canContinue (st : Story) : Bool := st.state.canContinue

/-- run a step-level action on the story -/
def runM {α : Type} (st : Story) (m : M α) : Out α × Story :=
  let (r, st') := m { s := st.state, externals := st.externals, events := st.events, sawUnsafe := st.sawUnsafe }
  (r, { st with state := st'.s, externals := st'.externals, events := st'.events, sawUnsafe := st'.sawUnsafe })

/-- `state_snapshot` -/
def stateSnapshot (st : Story) : Story :=
  { st with snapshot := some st.state, state := { st.state with patching := true } }

/-- `restore_state_snapshot` -/
def restoreSnapshot (st : Story) : Story :=
  match st.snapshot with
  | some snap => { st with state := { snap with patching := false }, snapshot := none }
  | none => st

/-- `discard_snapshot` -/
def discardSnapshot (st : Story) : Story :=
  { st with state := { st.state with patching := false }, snapshot := none }

/-- `add_error` on the story -/
def addError (st : Story) (msg : String) (isWarning : Bool) : Story :=
  { st with state := Ink.addError st.root st.state msg isWarning }

/-- `continue_single_step`: `(ok endsInNewline | err | panic, story)` -/
def continueSingleStep (st : Story) : Out Bool × Story :=
  match st.runM (step st.env) with
  | (.err k m, st1) => (.err k m, st1)
  | (.panic p, st1) => (.panic p, st1)
  | (.ok (), st1) =>
    let r2 : Out Unit × Story :=
      if !st1.canContinue && !st1.state.callstack.elementIsEvaluateFromGame then
        st1.runM (tryFollowDefaultInvisibleChoice st1.env)
      else (.ok (), st1)
    match r2 with
    | (.err k m, st2) => (.err k m, st2)
    | (.panic p, st2) => (.panic p, st2)
    | (.ok (), st2) =>
      if st2.state.inStringEvaluation then (.ok false, st2)
      else
        -- were we double checking that a newline would not be removed by glue?
        let afterCheck : Option Story :=       -- `none` = finished (rewound to the snapshot)
          match st2.snapshot with
          | some snap =>
            let change := calcNewlineChange (utf8 snap.currentText) (utf8 st2.state.currentText)
              snap.currentTags.length st2.state.currentTags.length
            if change == .extendedBeyondNewline || st2.sawUnsafe then none
            else if change == .newlineRemoved then some st2.discardSnapshot
            else some st2
          | none => some st2
        match afterCheck with
        | none => (.ok true, st2.restoreSnapshot)
        | some st3 =>
          if st3.state.outputEndsInNewline then
            if st3.canContinue then
              (.ok false, if st3.snapshot.isNone then st3.stateSnapshot else st3)
            else (.ok false, st3.discardSnapshot)
          else (.ok false, st3)

/-- Why the stepping loop stopped. -/
inductive LoopEnd where
  | newline | cannotContinue | outOfTime | error | outOfFuel
  deriving DecidableEq, Repr

/-- The loop of `continue_internal`.  `budget = some n`: pause once `n` steps
    have been taken in this call (virtual clock); `fuel` bounds the recursion
    of the model (a story that loops forever exhausts it: `outOfFuel`). -/
def stepLoop (budget : Option Nat) : Nat → Nat → Story → Out LoopEnd × Story
  | 0, _, st => (.ok .outOfFuel, st)
  | fuel + 1, steps, st =>
    let steps := steps + 1
    -- verification step budget (hook H2)
    let hookExhausted : Bool := st.fuel == some 0
    if hookExhausted then (.ok .error, st.addError "VERIF_FUEL" false)
    else
      let st := { st with fuel := st.fuel.map (· - 1) }
      match st.continueSingleStep with
      | (.panic p, st1) => (.panic p, st1)
      | (.err _ m, st1) => (.ok .error, st1.addError m false)
      | (.ok true, st1) => (.ok .newline, st1)
      | (.ok false, st1) =>
        let timeUp : Bool := match budget with
          | some n => st1.asyncActive && steps ≥ n
          | none => false
        if timeUp then (.ok .outOfTime, st1)
        else if !st1.canContinue then (.ok .cannotContinue, st1)
        else stepLoop budget fuel steps st1

def cannotContinueMsg : String := "Can't continue - should check can_continue before calling Continue"

/-- The "ran out of content" diagnostics at the end of a continue. -/
def endChecks (st : Story) : Story :=
  let st1 :=
    if st.state.callstack.canPopThread then
      st.addError "Thread available to pop, threads should always be flat by the end of evaluation?" false
    else st
  if st1.state.flow.choices.isEmpty && !st1.state.didSafeExit then
    let cs := st1.state.callstack
    if cs.canPopType (some .tunnel) then
      st1.addError "unexpectedly reached end of content. Do you need a '->->' to return from a tunnel?" false
    else if cs.canPopType (some .function) then
      st1.addError "unexpectedly reached end of content. Do you need a '~ return'?" false
    else if !cs.canPop then
      st1.addError "ran out of content. Do you need a '-> DONE' or '-> END'?" false
    else st1.addError "unexpectedly reached end of content for unknown reason. Please debug compiler!" false
  else st1

/-- `complete_variable_observation`: `none` = panic (a changed name without value). -/
def completeObservation (s : StoryState) : Option (StoryState × List (String × Val)) :=
  let names := s.changedVars.getD []
  if names.all (fun n => (alGet s.globals n).isSome) then
    some ({ s with batchObserving := false, changedVars := none },
          names.filterMap (fun n => (alGet s.globals n).map (fun v => (n, v))))
  else none

def pluralS (n : Nat) (word : String) : String := if n == 1 then word else word ++ "s"

def noHandlerMessage (s : StoryState) : String :=
  "Ink had " ++ toString s.errors.length ++ " " ++ pluralS s.errors.length "error"
  ++ (if s.hasWarning then " and " ++ toString s.warnings.length ++ " " ++ pluralS s.warnings.length "warning" else "")
  ++ ". It is strongly suggested that you assign an error handler to story.onError. The first issue was: "
  ++ s.errors.headD ""

def obsEvents (st : Story) (changed : List (String × Val)) : List Json :=
  changed.flatMap (fun nv =>
    ((alGet st.observers nv.1).getD []).map (fun id => Json.arr [.str "obs", .str id, .str nv.1, encVal nv.2]))

/-- `continue_internal(millis)`.  `budget = none` is a blocking continue;
    `some n` a time-limited one on the virtual clock (n > 0). -/
def continueInternal (st : Story) (budget : Option Nat) (modelFuel : Nat) : Out Unit × Story :=
  let isAsync := budget.isSome
  if !st.asyncActive && !st.canContinue then (.invalid cannotContinueMsg, st)
  else
    let st := { st with recCount := st.recCount + 1 }
    let st :=
      if !st.asyncActive then
        let s1 := ({ st.state with didSafeExit := false }).resetOutput none
        let s2 := if st.recCount == 1 then { s1 with batchObserving := true, changedVars := some [] } else s1
        { st with asyncActive := isAsync, state := s2 }
      else if !isAsync then { st with asyncActive := false }
      else st
    let st := { st with sawUnsafe := false }
    match stepLoop (if st.asyncActive then budget else none) modelFuel 0 st with
    | (.panic p, st1) => (.panic p, st1)
    | (.err k m, st1) => (.err k m, st1)
    | (.ok .outOfFuel, st1) => (.err "ModelFuel" "model fuel exhausted", st1)
    | (.ok why, st1) =>
      -- finished the line, or cannot go on (choices, end, error)
      let finished := why == .newline || !st1.canContinue
      let fin : Option (Story × Option (List (String × Val))) :=
        if finished then
          let st2 := if st1.snapshot.isSome then st1.restoreSnapshot else st1
          let st3 := if !st2.canContinue then st2.endChecks else st2
          let st4 := { st3 with state := { st3.state with didSafeExit := false }, sawUnsafe := false }
          if st4.recCount == 1 then
            match completeObservation st4.state with
            | some (s', changed) => some ({ st4 with state := s', asyncActive := false }, some changed)
            | none => none
          else some ({ st4 with asyncActive := false }, none)
        else some (st1, none)
      match fin with
      | none => (.panic "variables_state.rs:complete_variable_observation", st1)
      | some (st5, changed) =>
        let st6 := { st5 with recCount := st5.recCount - 1 }
        -- report errors / warnings
        let deliver : Out Unit × Story :=
          if st6.state.hasError || st6.state.hasWarning then
            if st6.handler then
              let evs := st6.state.errors.map (fun m => Json.arr [.str "handler", .str "E", .str m])
                ++ st6.state.warnings.map (fun m => Json.arr [.str "handler", .str "W", .str m])
              (.ok (), { st6 with events := evs.reverse ++ st6.events,
                                  state := { st6.state with errors := [], warnings := [] },
                                  snapshot := st6.snapshot.map (fun sn => { sn with errors := [], warnings := [] }) })
            else if st6.state.hasError then (.invalid (noHandlerMessage st6.state), st6)
            else (.ok (), st6)
          else (.ok (), st6)
        match deliver with
        | (.ok (), st7) =>
          let evs := obsEvents st7 (changed.getD [])
          (.ok (), { st7 with events := evs.reverse ++ st7.events })
        | other => other

end Story
end Ink
