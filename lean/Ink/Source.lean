/-
  Ink/Source.lean — SOURCE-LEVEL reference semantics of core Ink.

  This file is a specification: an abstract syntax for the core of the Ink
  language and a total interpreter (`play`) that says, for a program and a
  sequence of player choices, which lines of text (with tags), which choices,
  which end status, which final variable values and which visit counts Ink
  prescribes.  It does not look at compiled stories and shares nothing with
  the model of the runtime (`Ink.Step` etc.).

  There is no look-ahead in this semantics: a turn is executed to its end
  (choice point, end of story or error), producing ONE output stream; the
  lines of the turn are then read off that stream.  Every effect therefore
  happens exactly once, in source order.

  Core Lean only; every function is total (fuel).
-/
namespace Ink.Source

/-! ## Abstract syntax -/

inductive Val where
  | int (n : Int)
  | bool (b : Bool)
  | str (s : String)
  | void                      -- result of a function that returns nothing
  deriving Repr, BEq, Inhabited

inductive UnOp where
  | neg | not
  deriving Repr, BEq, Inhabited

inductive BinOp where
  | add | sub | mul | div | mod | eq | ne | lt | le | gt | ge | and | or
  deriving Repr, BEq, Inhabited

/-- Paths are absolute: `knot`, `knot.stitch`, `knot.label`, `knot.stitch.label`
    (`label` alone for a label of the top-level content). -/
abbrev Path := List String

inductive Expr where
  | lit (v : Val)
  | var (name : String)                 -- temporary / parameter / global variable
  | reads (p : Path)                    -- read count of a knot, stitch, labelled choice or gather
  | un (op : UnOp) (e : Expr)
  | bin (op : BinOp) (a b : Expr)
  | call (f : String) (args : List Expr)
  | turnsSince (p : Path)               -- TURNS_SINCE(-> p)
  | choiceCount                         -- CHOICE_COUNT()
  | turns                               -- TURNS()
  deriving Inhabited

inductive Target where
  | path (p : Path) (args : List Expr)  -- -> knot, -> knot.stitch, -> knot.label
  | done                                -- -> DONE
  | «end»                               -- -> END
  deriving Inhabited

inductive SeqKind where
  | stopping | cycle | once
  deriving Repr, BEq, Inhabited

/-- Pieces of one line of content. -/
inductive Inline where
  | text (s : String)                                   -- plain text (no line break inside)
  | print (e : Expr)                                    -- {e}
  | glue                                                -- <>
  | cond (c : Expr) (yes no : List Inline)              -- {c: yes | no}
  | seq (id : Nat) (kind : SeqKind) (alts : List (List Inline))   -- {a|b}, {&a|b}, {!a|b}
  | tag (s : String)                                    -- # tag
  | divert (t : Target)                                 -- -> target (ends the line)
  | tunnel (p : Path) (args : List Expr)                -- -> target -> (flow comes back)
  deriving Inhabited

inductive Stmt where
  | line (parts : List Inline)          -- one source line of content; a line break follows it
                                        --   unless the line consists of tags only
  | set (name : String) (e : Expr)      -- ~ x = e      (also x += e, x -= e after desugaring)
  | temp (name : String) (e : Expr)     -- ~ temp t = e
  | ret (e : Option Expr)               -- ~ return e
  | run (e : Expr)                      -- ~ f(x)
  | divert (t : Target)                 -- -> target      on a line of its own (no line break)
  | tunnel (p : Path) (args : List Expr)-- -> target ->   on a line of its own
  | tunnelReturn                        -- ->->
  | cond (branches : List (Expr × List Stmt)) (otherwise : List Stmt)
                                        -- { c1: ... - c2: ... - else: ... }
  | thread (p : Path)                   -- <- target
  deriving Inhabited

mutual
  /-- A weave is a list of sections.  A section is what one gather collects:
      the content after the gather and then the choices on offer.  The first
      section of a weave usually has no gather. -/
  inductive Section where
    | mk (label : Option String) (stmts : List Stmt) (choices : List Choice)
  inductive Choice where
    | mk (id : Nat) (sticky : Bool) (label : Option String) (cond : Option Expr)
         (start bracket finish : List Inline) (body : List Section)
end

instance : Inhabited Section := ⟨.mk none [] []⟩
instance : Inhabited Choice := ⟨.mk 0 false none none [] [] [] []⟩

def Section.label : Section → Option String | .mk l _ _ => l
def Section.stmts : Section → List Stmt | .mk _ s _ => s
def Section.choices : Section → List Choice | .mk _ _ c => c

def Choice.id : Choice → Nat | .mk i _ _ _ _ _ _ _ => i
def Choice.sticky : Choice → Bool | .mk _ s _ _ _ _ _ _ => s
def Choice.label : Choice → Option String | .mk _ _ l _ _ _ _ _ => l
def Choice.cond : Choice → Option Expr | .mk _ _ _ c _ _ _ _ => c
def Choice.start : Choice → List Inline | .mk _ _ _ _ s _ _ _ => s
def Choice.bracket : Choice → List Inline | .mk _ _ _ _ _ b _ _ => b
def Choice.finish : Choice → List Inline | .mk _ _ _ _ _ _ f _ => f
def Choice.body : Choice → List Section | .mk _ _ _ _ _ _ _ b => b
/-- `* -> target` / `* ->`: no text at all: taken by itself when nothing else is on offer. -/
def Choice.isFallback (c : Choice) : Bool := c.start.isEmpty && c.bracket.isEmpty

abbrev Weave := List Section

structure Stitch where
  name : String
  params : List String := []
  body : Weave := []
  deriving Inhabited

structure Knot where
  name : String
  params : List String := []
  isFunction : Bool := false
  body : Weave := []
  stitches : List Stitch := []
  deriving Inhabited

structure Program where
  globals : List (String × Val) := []
  root : Weave := []
  knots : List Knot := []
  deriving Inhabited

mutual
  /-- Does the expression call a function (built-in ones included)? -/
  def Expr.hasCall : Expr → Bool
    | .call _ _ => true
    | .turnsSince _ => true
    | .choiceCount => true
    | .turns => true
    | .un _ e => e.hasCall
    | .bin _ a b => a.hasCall || b.hasCall
    | _ => false
end

/-! ## Transcript -/

structure Line where
  text : String
  tags : List String
  deriving Repr, BEq, Inhabited

/-- One turn: everything printed by one "continue maximally", and the choices then on offer. -/
structure Turn where
  lines : List Line
  choices : List Line
  deriving Repr, BEq, Inhabited

inductive Status where
  | «end»        -- -> END
  | done         -- -> DONE, or no more content (then `errors` says so)
  | choice       -- stopped at a choice point (no more player input, or index out of range)
  | error        -- a story error ended the play
  | fuel         -- interpreter fuel exhausted (no verdict)
  deriving Repr, BEq, Inhabited

structure Transcript where
  turns : List Turn
  status : Status
  errors : List String            -- kinds: ran_out, tunnel_end, div_zero, type, ...
  globals : List (String × Val)
  visits : List (String × Nat)
  deriving Inhabited

/-! ## Values and operators -/

/-- 32-bit two's-complement wrap-around. -/
def wrap32 (n : Int) : Int := (n + 2147483648) % 4294967296 - 2147483648

def Val.show : Val → String
  | .int n => toString n
  | .bool true => "true"
  | .bool false => "false"
  | .str s => s
  | .void => ""

def Val.truthy : Val → Option Bool
  | .int n => some (n != 0)
  | .bool b => some b
  | .str s => some (s.length > 0)
  | .void => none

/-- In arithmetic and comparisons a boolean counts as 1 / 0. -/
def Val.toInt? : Val → Option Int
  | .int n => some n
  | .bool b => some (if b then 1 else 0)
  | _ => none

def intOp (op : BinOp) (x y : Int) : Except String Val :=
  match op with
  | .add => .ok (.int (wrap32 (x + y)))
  | .sub => .ok (.int (wrap32 (x - y)))
  | .mul => .ok (.int (wrap32 (x * y)))
  -- not defined: division by zero, and the one quotient that does not fit 32 bits
  | .div => if y == 0 || (x == -2147483648 && y == -1) then .error "div_zero" else .ok (.int (Int.tdiv x y))
  | .mod => if y == 0 || (x == -2147483648 && y == -1) then .error "div_zero" else .ok (.int (Int.tmod x y))
  | .eq => .ok (.bool (x == y))
  | .ne => .ok (.bool (x != y))
  | .lt => .ok (.bool (x < y))
  | .le => .ok (.bool (x ≤ y))
  | .gt => .ok (.bool (x > y))
  | .ge => .ok (.bool (x ≥ y))
  | .and => .ok (.bool (x != 0 && y != 0))
  | .or => .ok (.bool (x != 0 || y != 0))

def strOp (op : BinOp) (x y : String) : Except String Val :=
  match op with
  | .add => .ok (.str (x ++ y))
  | .eq => .ok (.bool (x == y))
  | .ne => .ok (.bool (x != y))
  | _ => .error "type"

/-- Both operands are always evaluated (no short circuit); a string operand makes
    the other one a string. -/
def evalBin (op : BinOp) (a b : Val) : Except String Val :=
  match a, b with
  | .void, _ => .error "type"
  | _, .void => .error "type"
  | .str x, y => strOp op x y.show
  | x, .str y => strOp op x.show y
  | x, y =>
    match x.toInt?, y.toInt? with
    | some m, some n => intOp op m n
    | _, _ => .error "type"

def evalUn (op : UnOp) (a : Val) : Except String Val :=
  match op, a.toInt? with
  | .neg, some n => .ok (.int (wrap32 (-n)))
  | .not, some n => .ok (.bool (n == 0))
  | _, none => .error "type"

/-! ## The output stream

  Text is not printed directly: it goes through a stream on which glue and
  the trimming of function output act.  The stream is kept newest-first. -/

inductive OutItem where
  | text (s : String)
  | nl
  | glue
  | tag (s : String)
  deriving Repr, BEq, Inhabited

def isBlankChar (c : Char) : Bool := c == ' ' || c == '\t'
def isBlank (s : String) : Bool := s.toList.all isBlankChar

def hasGlue (rs : List OutItem) : Bool := rs.any (· == .glue)
/-- Proper text uses up the glue before it (glue older than a tag stays). -/
def removeGlue : List OutItem → List OutItem
  | [] => []
  | .glue :: r => removeGlue r
  | .tag t :: r => .tag t :: r
  | x :: r => x :: removeGlue r

/-- Is the last thing printed (ignoring blanks and glue) a line break? -/
def endsInNewline : List OutItem → Bool
  | [] => false
  | .nl :: _ => true
  | .glue :: r => endsInNewline r
  | .tag _ :: _ => false
  | .text s :: r => if isBlank s then endsInNewline r else false

def containsContent (rs : List OutItem) : Bool :=
  rs.any (fun | .glue => false | _ => true)

/-- Glue removes the line breaks (and blanks after them) that end the text so far. -/
def trimNewlines (rs : List OutItem) : List OutItem :=
  -- newest-first: the run of blanks / line breaks / glue at the end of the output
  let run := rs.takeWhile (fun | .nl => true | .glue => true | .text s => isBlank s | .tag _ => false)
  let rest := rs.drop run.length
  -- position (newest-first) of the earliest line break of that run
  let idxs := (List.range run.length).filter (fun i => run[i]? == some .nl)
  match idxs.getLast? with
  | none => rs
  | some k =>
    let newer := (run.take (k + 1)).filter (· == .glue)
    newer ++ run.drop (k + 1) ++ rest

/-- Trailing blanks and line breaks printed since `start` (an old length of the stream) go. -/
def trimFunctionEnd (rs : List OutItem) (start : Nat) (inText : Bool := false) : List OutItem :=
  let n := rs.length - start
  -- (inside choice text a finished tag is taken out of the stream at once, so the blanks before
  --  it are trailing blanks too; in ordinary content a tag ends the run of trailing blanks)
  let rec go : Nat → List OutItem → List OutItem
    | 0, l => l
    | _, [] => []
    | k + 1, .glue :: r => .glue :: go k r
    | k + 1, .nl :: r => go k r
    | k + 1, .text s :: r => if isBlank s then go k r else .text s :: r
    | k + 1, .tag t :: r => if inText then .tag t :: go k r else .tag t :: r
  go n rs

/-- Collapse runs of blanks, drop blanks at both ends. -/
def cleanText (s : String) : String :=
  let rec go : List Char → Bool → List Char → List Char
    | [], _, acc => acc.reverse
    | c :: cs, pendingSpace, acc =>
      if isBlankChar c then go cs true acc
      else if pendingSpace && !acc.isEmpty then go cs false (c :: ' ' :: acc)
      else go cs false (c :: acc)
  String.ofList (go s.toList false [])

/-- Blanks at both ends go (choice texts; inner runs of blanks stay). -/
def trimBlanks (s : String) : String :=
  let l := (s.toList.dropWhile isBlankChar).reverse.dropWhile isBlankChar
  String.ofList l.reverse

/-- Read the lines off a stream (given oldest-first). -/
def linesOf (items : List OutItem) : List Line :=
  let finish (txt : String) (tags : List String) (acc : List Line) : List Line :=
    let t := cleanText txt
    if t == "" && tags.isEmpty then acc else { text := t, tags := tags.reverse } :: acc
  let rec go : List OutItem → String → List String → List Line → List Line
    | [], txt, tags, acc => (finish txt tags acc).reverse
    | .text s :: r, txt, tags, acc => go r (txt ++ s) tags acc
    | .glue :: r, txt, tags, acc => go r txt tags acc
    | .tag t :: r, txt, tags, acc => go r txt (cleanText t :: tags) acc
    | .nl :: r, txt, tags, acc => go r "" [] (finish txt tags acc)
  go items "" [] []

/-! ## Machine state -/

/-- Where the flow is: inside which knot and stitch ("" = none). -/
structure Flow where
  knot : String := ""
  stitch : String := ""
  deriving Repr, BEq, Inhabited

def Flow.key (f : Flow) : String :=
  if f.knot == "" then "" else if f.stitch == "" then f.knot else f.knot ++ "." ++ f.stitch

def Flow.sub (f : Flow) (name : String) : String :=
  if f.key == "" then name else f.key ++ "." ++ name

def pathKey (p : Path) : String := ".".intercalate p

/-- What remains to be done, innermost first. -/
inductive Frame where
  | inl (parts : List Inline)                       -- rest of a line
  | nl                                              -- the line break that ends a line
  | stmts (ss : List Stmt)                          -- rest of a block of statements
  | secs (ss : List Section) (top : Bool)           -- rest of a weave, about to enter a gather
  | choices (cs : List Choice) (rest : List Section) (any : Bool) (top : Bool)
                                                    -- choices of the current section still to offer
  -- `top`: this is the top-level content and no choices were offered in it so far
  | threadEnd                                       -- end of a thread: back to the forking flow
  deriving Inhabited

abbrev Kont := List Frame

/-- A suspended caller (tunnel or thread). -/
structure Saved where
  k : Kont
  temps : List (String × Val)
  flow : Flow
  isThread : Bool := false
  deriving Inhabited

/-- A choice on offer.  It remembers the flow as it was when the choice was made. -/
structure Pending where
  text : String
  tags : List String
  key : String
  invisible : Bool
  k : Kont
  temps : List (String × Val)
  flow : Flow
  stack : List Saved
  deriving Inhabited

structure St where
  globals : List (String × Val) := []
  visits : List (String × Nat) := []
  lastTurn : List (String × Nat) := []
  turn : Nat := 0
  out : List OutItem := []              -- newest first
  fnStarts : List (Option Nat) := []    -- running functions, innermost first: where their output starts
  inText : Bool := false                -- evaluating the text of a choice
  safeExit : Option (Nat × Nat) := none -- line breaks / content items printed when the flow last stopped at a DONE and went on by a fallback choice
  pending : List Pending := []          -- oldest first
  k : Kont := []
  temps : List (String × Val) := []
  flow : Flow := {}
  stack : List Saved := []
  deriving Inhabited

def lookup {α : Type} (k : String) : List (String × α) → Option α
  | [] => none
  | (k', v) :: r => if k' == k then some v else lookup k r

def update {α : Type} (k : String) (v : α) : List (String × α) → List (String × α)
  | [] => [(k, v)]
  | (k', v') :: r => if k' == k then (k, v) :: r else (k', v') :: update k v r

def St.visitCount (st : St) (key : String) : Nat := (lookup key st.visits).getD 0

/-- Count one visit (and remember in which turn). -/
def St.visit (st : St) (key : String) : St :=
  { st with visits := update key (st.visitCount key + 1) st.visits,
            lastTurn := update key st.turn st.lastTurn }

/-! ### Printing -/

def St.trimming (st : St) : Bool :=
  hasGlue st.out || (match st.fnStarts with | some _ :: _ => true | _ => false)

def St.pushText (st : St) (s : String) : St :=
  if st.trimming && !isBlank s then
    -- proper text ends the effect of glue and of "start of function" trimming
    { st with out := .text s :: removeGlue st.out, fnStarts := st.fnStarts.map (fun _ => none) }
  else { st with out := .text s :: st.out }

def St.pushNl (st : St) : St :=
  if st.trimming then st
  else if endsInNewline st.out || !containsContent st.out then st   -- no empty lines
  else { st with out := .nl :: st.out }

def St.pushGlue (st : St) : St := { st with out := .glue :: trimNewlines st.out }
def St.pushTag (st : St) (t : String) : St := { st with out := .tag t :: st.out }

/-! ### Results -/

inductive Res (α : Type) where
  | ok (a : α)
  | fail (kind : String) (st : St)      -- story error (or "fuel"); the state at that moment
  deriving Inhabited

@[inline] def Res.bind {α β : Type} (x : Res α) (f : α → Res β) : Res β :=
  match x with
  | .ok a => f a
  | .fail k s => .fail k s

instance : Monad Res where
  pure := .ok
  bind := Res.bind

def liftE {α : Type} (st : St) : Except String α → Res α
  | .ok a => .ok a
  | .error k => .fail k st

/-- Why a stretch of flow stopped. -/
inductive Stop where
  | «end» | done | outOfContent
  deriving Repr, BEq, Inhabited

inductive Signal where
  | next
  | ret (v : Val)
  | stop (why : Stop)
  deriving Inhabited

/-! ### Static lookups -/

def Program.knot? (p : Program) (name : String) : Option Knot := p.knots.find? (·.name == name)
def Knot.stitch? (k : Knot) (name : String) : Option Stitch := k.stitches.find? (·.name == name)

def weaveIsEmpty (w : Weave) : Bool := w.all (fun s => s.stmts.isEmpty && s.choices.isEmpty && s.label.isNone)

mutual
  /-- What follows the weave `w` when it is entered at the gather labelled `lab`:
      the sections from that gather on, then whatever follows the weave (`after`).
      Labels of choices are not divert targets in the core. -/
  def findLabel (fuel : Nat) (lab : String) (w : List Section) (after : Kont) (top : Bool) : Option Kont :=
    match fuel with
    | 0 => none
    | fuel + 1 =>
      match w with
      | [] => none
      | s :: rest =>
        if s.label == some lab then some (.secs (s :: rest) top :: after)
        else
          let looseEnd : Kont := if rest.isEmpty then after else .secs rest false :: after
          match findLabelInChoices fuel lab s.choices looseEnd with
          | some k => some k
          | none => findLabel fuel lab rest after (top && s.choices.isEmpty)
  def findLabelInChoices (fuel : Nat) (lab : String) (cs : List Choice) (looseEnd : Kont) : Option Kont :=
    match fuel with
    | 0 => none
    | fuel + 1 =>
      match cs with
      | [] => none
      | c :: more =>
        match findLabel fuel lab c.body looseEnd false with
        | some k => some k
        | none => findLabelInChoices fuel lab more looseEnd
end

/-- The top-level content ends with an implicit `-> DONE`. -/
def rootAfter : Kont := [.stmts [.divert .done]]

/-- A resolved divert target. -/
structure Dest where
  flow : Flow
  k : Kont
  params : List String := []
  viaKnot : Bool := false       -- a knot without content of its own: its first stitch is entered
  deriving Inhabited

def resolve (prog : Program) (p : Path) : Option Dest :=
  let big := 1000000
  match p with
  | [a] =>
    match prog.knot? a with
    | some k =>
      if weaveIsEmpty k.body then
        match k.stitches with
        | s :: _ => some { flow := { knot := a, stitch := s.name }, k := [.secs s.body false], params := k.params, viaKnot := true }
        | [] => some { flow := { knot := a }, k := [.secs k.body false], params := k.params }
      else some { flow := { knot := a }, k := [.secs k.body false], params := k.params }
    | none => (findLabel big a prog.root rootAfter true).map (fun k => { flow := {}, k := k })
  | [a, b] =>
    match prog.knot? a with
    | none => none
    | some k =>
      match k.stitch? b with
      | some s => some { flow := { knot := a, stitch := b }, k := [.secs s.body false], params := s.params }
      | none => (findLabel big b k.body [] false).map (fun kk => { flow := { knot := a }, k := kk })
  | [a, b, c] =>
    match prog.knot? a with
    | none => none
    | some k =>
      match k.stitch? b with
      | none => none
      | some s => (findLabel big c s.body [] false).map (fun kk => { flow := { knot := a, stitch := b }, k := kk })
  | _ => none

/-- Visit counting when the flow moves to `d` (divert, tunnel, function call):
    a knot / stitch is visited when the flow comes into it from outside;
    a stitch entered through its knot's name is always visited. -/
def St.enter (st : St) (d : Dest) : St :=
  let st1 := if d.flow.knot != "" && d.flow.knot != st.flow.knot then st.visit d.flow.knot else st
  let stitchKey := d.flow.knot ++ "." ++ d.flow.stitch
  let st2 :=
    if d.flow.stitch != "" && (d.viaKnot || !(d.flow.knot == st.flow.knot && d.flow.stitch == st.flow.stitch))
    then st1.visit stitchKey else st1
  { st2 with flow := d.flow }

def bindParams : List String → List Val → List (String × Val) → List (String × Val)
  | p :: ps, v :: vs, t => bindParams ps vs (update p v t)
  | _, _, t => t

/-! ## The interpreter -/

mutual
  def eval (prog : Program) (fuel : Nat) (e : Expr) (st : St) : Res (Val × St) :=
    match fuel with
    | 0 => .fail "fuel" st
    | fuel + 1 =>
      match e with
      | .lit v => .ok (v, st)
      | .var x =>
        match lookup x st.temps with
        | some v => .ok (v, st)
        | none =>
          match lookup x st.globals with
          | some v => .ok (v, st)
          | none => .fail "unknown_variable" st
      | .reads p => .ok (.int (st.visitCount (pathKey p)), st)
      | .turnsSince p =>
        match lookup (pathKey p) st.lastTurn with
        | some t => .ok (.int (st.turn - t), st)
        | none => .ok (.int (-1), st)
      | .choiceCount => .ok (.int st.pending.length, st)
      | .turns => .ok (.int st.turn, st)
      | .un op a => do
        let (v, st) ← eval prog fuel a st
        let r ← liftE st (evalUn op v)
        pure (r, st)
      | .bin op a b => do
        let (x, st) ← eval prog fuel a st
        let (y, st) ← eval prog fuel b st
        let r ← liftE st (evalBin op x y)
        pure (r, st)
      | .call f args => do
        let (vals, st) ← evalArgs prog fuel args st
        match prog.knot? f with
        | none => .fail "unknown_function" st
        | some fn =>
          let body : List Stmt := match fn.body with | s :: _ => s.stmts | [] => []
          let callerK := st.k
          let callerTemps := st.temps
          let callerFlow := st.flow
          let st := if st.flow.knot != f then st.visit f else st
          let st := { st with k := [.stmts body], temps := bindParams fn.params vals [],
                              flow := { knot := f }, fnStarts := some st.out.length :: st.fnStarts }
          let (v, st) ← runSub prog fuel st
          -- what the function printed loses its leading and trailing blanks and line breaks
          let start := match st.fnStarts with | some n :: _ => n | _ => 0
          let st := { st with out := trimFunctionEnd st.out start st.inText, fnStarts := st.fnStarts.drop 1,
                              k := callerK, temps := callerTemps, flow := callerFlow }
          pure (v, st)

  def evalArgs (prog : Program) (fuel : Nat) (args : List Expr) (st : St) : Res (List Val × St) :=
    match fuel with
    | 0 => .fail "fuel" st
    | fuel + 1 =>
      match args with
      | [] => .ok ([], st)
      | a :: rest => do
        let (v, st) ← eval prog fuel a st
        let (vs, st) ← evalArgs prog fuel rest st
        pure (v :: vs, st)

  /-- Run the current continuation to its end (function body, or text evaluated as a string).
      Flow may not leave it. -/
  def runSub (prog : Program) (fuel : Nat) (st : St) : Res (Val × St) :=
    match fuel with
    | 0 => .fail "fuel" st
    | fuel + 1 =>
      if st.k.isEmpty then .ok (.void, st)
      else do
        let (sig, st) ← step prog fuel true st
        match sig with
        | .next => runSub prog fuel st
        | .ret v => pure (v, st)
        | .stop _ => .fail "flow_left_function" st

  /-- Evaluate a piece of choice text: its text and its tags. -/
  def evalText (prog : Program) (fuel : Nat) (parts : List Inline) (st : St) : Res ((String × List String) × St) :=
    match fuel with
    | 0 => .fail "fuel" st
    | fuel + 1 =>
      if parts.isEmpty then .ok (("", []), st) else do
      let k0 := st.k
      let out0 := st.out
      let fn0 := st.fnStarts
      let inText0 := st.inText
      let st := { st with k := [.inl parts], out := [], fnStarts := [], inText := true }
      match runSub prog fuel st with
      -- (an error inside the text: what was printed so far stays in the output)
      | .fail kind st' => .fail kind { st' with out := st'.out ++ out0, inText := inText0 }
      | .ok (_, st) =>
      let st := { st with inText := inText0 }
      let items := st.out.reverse
      let txt := items.foldl (fun acc it => match it with | .text s => acc ++ s | .nl => acc ++ "\n" | _ => acc) ""
      let tags := items.filterMap (fun it => match it with | .tag t => some (cleanText t) | _ => none)
      pure ((txt, tags), { st with k := k0, out := out0, fnStarts := fn0 })

  /-- Move the flow to a target (divert). -/
  def goto (prog : Program) (fuel : Nat) (t : Target) (st : St) : Res (Signal × St) :=
    match fuel with
    | 0 => .fail "fuel" st
    | fuel + 1 =>
      match t with
      | .done => .ok (.stop .done, { st with k := [] })
      | .end => .ok (.stop .end, { st with k := [] })
      | .path p args => do
        let (vals, st) ← evalArgs prog fuel args st
        match resolve prog p with
        | none => .fail "unknown_target" st
        | some d =>
          let st := st.enter d
          .ok (.next, { st with k := d.k, temps := bindParams d.params vals st.temps })

  def call (prog : Program) (fuel : Nat) (p : Path) (args : List Expr) (rest : Kont) (st : St) : Res (Signal × St) :=
    match fuel with
    | 0 => .fail "fuel" st
    | fuel + 1 => do
      let (vals, st) ← evalArgs prog fuel args st
      match resolve prog p with
      | none => .fail "unknown_target" st
      | some d =>
        let saved : Saved := { k := rest, temps := st.temps, flow := st.flow }
        let st := st.enter d
        .ok (.next, { st with k := d.k, temps := bindParams d.params vals [], stack := saved :: st.stack })

  /-- One step: the first frame of the continuation.  `sub`: inside a function or string. -/
  def step (prog : Program) (fuel : Nat) (sub : Bool) (st : St) : Res (Signal × St) :=
    match fuel with
    | 0 => .fail "fuel" st
    | fuel + 1 =>
      match st.k with
      | [] => .ok (.stop .outOfContent, st)
      | .nl :: k => .ok (.next, { st.pushNl with k := k })
      | .threadEnd :: _ =>
        match st.stack with
        | s :: more =>
          if s.isThread then .ok (.next, { st with k := s.k, temps := s.temps, flow := s.flow, stack := more })
          else .ok (.stop .outOfContent, { st with k := [] })
        | [] => .ok (.stop .outOfContent, { st with k := [] })
      | .inl [] :: k => .ok (.next, { st with k := k })
      | .inl (part :: parts) :: k =>
        let k' := .inl parts :: k
        match part with
        | .text s => .ok (.next, { st.pushText s with k := k' })
        | .glue => .ok (.next, { st.pushGlue with k := k' })
        | .tag t => .ok (.next, { st.pushTag t with k := k' })
        | .print e => do
          let (v, st) ← eval prog fuel e { st with k := k' }
          match v with
          | .void => pure (.next, st)
          | v => pure (.next, st.pushText v.show)
        | .cond c yes no => do
          let (v, st) ← eval prog fuel c { st with k := k' }
          match v.truthy with
          | none => .fail "type" st
          | some b => pure (.next, { st with k := .inl (if b then yes else no) :: k' })
        | .seq id kind alts =>
          let key := "#" ++ toString id
          let st := st.visit key
          let i := st.visitCount key - 1      -- how often it was seen before
          let n := alts.length
          let pick : List Inline :=
            match kind with
            | .stopping => alts.getD (min i (n - 1)) []
            | .cycle => alts.getD (i % n) []
            | .once => alts.getD i []
          .ok (.next, { st with k := .inl pick :: k' })
        | .divert t => if sub then .fail "divert_in_function" st else goto prog fuel t st
        | .tunnel p args => if sub then .fail "divert_in_function" st else call prog fuel p args k' st
      | .stmts [] :: k => .ok (.next, { st with k := k })
      | .stmts (s :: ss) :: k =>
        let k' := .stmts ss :: k
        match s with
        | .line parts =>
          let pureTags := !parts.isEmpty && parts.all (fun | .tag _ => true | _ => false)
          .ok (.next, { st with k := if pureTags then .inl parts :: k' else .inl parts :: .nl :: k' })
        | .set x e => do
          -- a logic line that calls a function may print: a line break follows it
          let k' := if e.hasCall then .nl :: k' else k'
          let (v, st) ← eval prog fuel e { st with k := k' }
          match lookup x st.temps with
          | some _ => pure (.next, { st with temps := update x v st.temps })
          | none =>
            match lookup x st.globals with
            | some _ => pure (.next, { st with globals := update x v st.globals })
            | none => .fail "unknown_variable" st
        | .temp x e => do
          let k' := if e.hasCall then .nl :: k' else k'
          let (v, st) ← eval prog fuel e { st with k := k' }
          pure (.next, { st with temps := update x v st.temps })
        | .run e => do
          let k' := if e.hasCall then .nl :: k' else k'
          let (_, st) ← eval prog fuel e { st with k := k' }
          pure (.next, st)
        | .ret none => if sub then .ok (.ret .void, { st with k := [] }) else .fail "return_outside_function" st
        | .ret (some e) => do
          let (v, st) ← eval prog fuel e { st with k := k' }
          if sub then pure (.ret v, { st with k := [] }) else .fail "return_outside_function" st
        | .divert t => if sub then .fail "divert_in_function" st else goto prog fuel t st
        | .tunnel p args => if sub then .fail "divert_in_function" st else call prog fuel p args k' st
        | .tunnelReturn =>
          match st.stack with
          | sv :: more =>
            if sv.isThread then .fail "tunnel_return_in_thread" st
            else .ok (.next, { st with k := sv.k, temps := sv.temps, flow := sv.flow, stack := more })
          | [] => .fail "no_tunnel_to_return_from" st
        | .cond branches otherwise =>
          -- a block is a piece of a content line: the chosen branch starts on a new line,
          -- and a line break follows the block
          match branches with
          | [] =>
            if otherwise.isEmpty then .ok (.next, { st with k := .nl :: k' })
            else .ok (.next, { st with k := .nl :: .stmts otherwise :: .nl :: k' })
          | (c, body) :: more => do
            let (v, st) ← eval prog fuel c { st with k := k' }
            match v.truthy with
            | none => .fail "type" st
            | some true => pure (.next, { st with k := .nl :: .stmts body :: .nl :: k' })
            | some false => pure (.next, { st with k := .stmts [.cond more otherwise] :: k' })
        | .thread p =>
          if sub then .fail "divert_in_function" st else
          match resolve prog p with
          | none => .fail "unknown_target" st
          | some d =>
            let saved : Saved := { k := k', temps := st.temps, flow := st.flow, isThread := true }
            let st := st.enter d
            -- the thread is a copy of the flow (temporaries included) that goes off to the target
            .ok (.next, { st with k := d.k ++ [.threadEnd], stack := saved :: st.stack })
      | .secs [] _ :: k => .ok (.next, { st with k := k })
      | .secs (s :: rest) top :: k =>
        -- entering a gather: a labelled one counts the visit
        let st := match s.label with | some l => st.visit (st.flow.sub l) | none => st
        .ok (.next, { st with k := .stmts s.stmts :: .choices s.choices rest (!s.choices.isEmpty) top :: k })
      | .choices [] rest any top :: k =>
        -- without choices the flow runs on into the next gather; after offering choices it stops
        -- here (in the top-level content, before any gather was bypassed: with the implicit DONE)
        if !any then .ok (.next, { st with k := .secs rest top :: k })
        else if top then .ok (.next, { st with k := rootAfter })
        else .ok (.next, { st with k := [] })
      | .choices (c :: cs) rest any top :: k =>
        if sub then .fail "choice_in_function" st else do
        let key := match c.label with | some l => st.flow.sub l | none => "#" ++ toString c.id
        let st := { st with k := .choices cs rest any top :: k }
        -- text first (start, then the part in brackets), then the condition
        let ((t1, tags1), st) ← evalText prog fuel c.start st
        let ((t2, tags2), st) ← evalText prog fuel c.bracket st
        let (shown, st) ← (match c.cond with
          | none => (pure (true, st) : Res (Bool × St))
          | some e => do
            let (v, st) ← eval prog fuel e st
            match v.truthy with
            | none => .fail "type" st
            | some b => pure (b, st))
        let shown := shown && (c.sticky || st.visitCount key == 0)
        if !shown then pure (.next, st) else
        -- where the flow goes when the choice's own content is over: the next gather
        let looseEnd : Kont := if rest.isEmpty then k else .secs rest false :: k
        let p : Pending := {
          text := trimBlanks (t1 ++ t2), tags := tags1 ++ tags2, key := key,
          invisible := c.isFallback,
          k := .inl (c.start ++ c.finish) :: .nl :: .secs c.body false :: looseEnd,
          -- (a choice made in a thread does not come back to the flow that forked the thread)
          temps := st.temps, flow := st.flow, stack := st.stack.filter (!·.isThread) }
        pure (.next, { st with pending := st.pending ++ [p] })
end

/-- Take a choice on offer. -/
def St.choose (st : St) (p : Pending) (countTurn : Bool) : St :=
  let st := { st with pending := [], k := p.k, temps := p.temps, flow := p.flow, stack := p.stack,
                      turn := if countTurn then st.turn + 1 else st.turn }
  st.visit p.key

inductive TurnEnd where
  | stopped (why : Stop)
  | failed (kind : String)
  deriving Inhabited

/-- When the flow stops (not by `-> END`) and only fallback choices are on offer,
    the first of them is taken by itself (this is not a turn). -/
def followFallback (st : St) : Option St :=
  match st.pending with
  | p :: _ => if st.pending.all (·.invisible) then some (st.choose p false) else none
  | [] => none

def nlCount (rs : List OutItem) : Nat := (rs.filter (· == .nl)).length

/-- What makes the engine see that a line has gone on: proper text or a tag. -/
def isContent : OutItem → Bool
  | .text s => !isBlank s
  | .tag _ => true
  | _ => false

def contentCount (rs : List OutItem) : Nat := (rs.filter isContent).length

/-- (stream newest-first) is there text or a tag after the last line break? -/
def contentAfterLastNl (rs : List OutItem) : Bool := (rs.takeWhile (· != .nl)).any isContent

/-- The number of the `continue` call in which the flow stops with this output: a call ends with a
    line break, and what runs after the last line break without printing belongs to that call. -/
def lastCall (rs : List OutItem) : Nat :=
  nlCount rs + (if contentAfterLastNl rs || nlCount rs == 0 then 1 else 0)

/-- (stream oldest-first) line breaks before the first content item after the first `c0` ones. -/
def nlsBeforeNewContent : List OutItem → Nat → Nat → Nat
  | [], _, n => n
  | x :: r, c0, n =>
    if isContent x then (match c0 with | 0 => n | c + 1 => nlsBeforeNewContent r c n)
    else if x == .nl then nlsBeforeNewContent r c0 (n + 1)
    else nlsBeforeNewContent r c0 n

/-- The engine notes that the flow stopped at a DONE ("safe exit") and forgets it only when the
    `continue` call in which that happened is over.  If the flow goes on from there by a fallback
    choice and then runs out of content while that note still stands, the end of content is not
    reported (the reference engine behaves the same).  Noted: the line breaks and the content
    items printed when the flow stopped. -/
def markSafeExit (why : Stop) (before after : St) : St :=
  match why with
  | .done => { after with safeExit := some (nlCount before.out, contentCount before.out) }
  | _ => after

/-- Does the note of a DONE still stand when the flow stops with this output?  If nothing was printed
    since, it does.  Otherwise the DONE was (re-)run in the call that produced the first new content,
    and the note stands iff that is the last call. -/
def St.safeExitStands (st : St) : Bool :=
  match st.safeExit with
  | none => false
  | some (a, c0) =>
    if contentCount st.out ≤ c0 then true
    else 1 + min a (nlsBeforeNewContent st.out.reverse c0 0) == lastCall st.out

/-- Run until the flow stops. -/
def runTurn (prog : Program) (fuel : Nat) (st : St) : TurnEnd × St :=
  match fuel with
  | 0 => (.failed "fuel", st)
  | fuel + 1 =>
    match step prog fuel false st with
    | .fail kind st' => (.failed kind, st')
    | .ok (.next, st') => runTurn prog fuel st'
    | .ok (.ret _, st') => (.failed "return_outside_function", st')
    | .ok (.stop .end, st') => (.stopped .end, { st' with pending := [], stack := [] })
    | .ok (.stop why, st') =>
      -- the end of a thread gives the flow back to where it was forked
      match st'.stack with
      | sv :: more =>
        if sv.isThread then runTurn prog fuel { st' with k := sv.k, temps := sv.temps, flow := sv.flow, stack := more }
        else
          match followFallback st' with
          | some st'' => runTurn prog fuel (markSafeExit why st' st'')
          | none => (.stopped why, st')
      | [] =>
        match followFallback st' with
        | some st'' => runTurn prog fuel (markSafeExit why st' st'')
        | none => (.stopped why, st')

def allVisitKeys (prog : Program) : List String :=
  prog.knots.foldr (fun k acc => k.name :: (k.stitches.map (fun s => k.name ++ "." ++ s.name)) ++ acc) []

def initial (prog : Program) : St :=
  { globals := prog.globals, k := [.secs prog.root true] ++ rootAfter }

/-- Play from the start along `choices`. -/
def play (prog : Program) (choices : List Nat) (fuel : Nat) : Transcript :=
  let rec loop (n : Nat) (st : St) (todo : List Nat) (turns : List Turn) : Transcript :=
    let (why, st1) := runTurn prog fuel st
    let lines := linesOf st1.out.reverse
    let visible := st1.pending.filter (!·.invisible)
    let offered := visible.map (fun p => ({ text := p.text, tags := p.tags } : Line))
    let masked := st1.safeExitStands
    let st2 := { st1 with out := [], fnStarts := [], safeExit := none }
    let report (status : Status) (errors : List String) (turn : Turn) : Transcript :=
      { turns := (turn :: turns).reverse, status := status, errors := errors, globals := st2.globals,
        visits := (allVisitKeys prog).map (fun k => (k, st2.visitCount k)) }
    match why with
    | .failed "fuel" => report .fuel [] { lines := lines, choices := [] }
    | .failed kind => report .error [kind] { lines := lines, choices := [] }
    | .stopped stop =>
      let turn : Turn := { lines := lines, choices := offered }
      if visible.isEmpty then
        match stop with
        | .end => report .end [] turn
        | .done => report .done [] turn
        | .outOfContent =>
          if !st2.pending.isEmpty then report .done [] turn
          else if masked then report .done [] turn
          else if st2.stack.any (!·.isThread) then report .done ["tunnel_end"] turn
          else report .done ["ran_out"] turn
      else
        match n, todo with
        | n + 1, i :: rest =>
          match visible[i]? with
          | some p => loop n (st2.choose p true) rest (turn :: turns)
          | none => report .choice [] turn
        | _, _ => report .choice [] turn
  loop (choices.length + 1) (initial prog) choices []

end Ink.Source
