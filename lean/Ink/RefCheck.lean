/-
  Ink/RefCheck.lean — C06: every reference in a compiled story resolves exactly.
  `refOk` is the condition for one object (a divert with a static target, a choice point's
  target, a read-count reference, a divert-target value): its path resolves from the object's
  position to existing content WITHOUT approximation (`Container::content_at_path` reports
  "approximate" when it had to stop early).  `refsOkTree` checks every object of the tree.
  Soundness (Proofs/C06.lean): if the check passes, every object reachable from the root
  satisfies `refOk`.
  Core Lean only.
-/
import Ink.Audit

namespace Ink
namespace RefCheck

/-- The reference carried by `o` at position `a` resolves exactly. -/
def refOk (root : Obj) (a : Addr) (o : Obj) : Bool :=
  match Audit.refPath o with
  | none => true
  | some (_, p) =>
    match resolvePath root a p with
    | some sr => !sr.approximate && (nodeAt root sr.addr).isSome
    | none => false

mutual
  /-- Check `o` (at position `a`) and everything below it; `false` when the fuel runs out. -/
  def refsOkTree (root : Obj) (fuel : Nat) (o : Obj) (a : Addr) : Bool :=
    match fuel with
    | 0 => false
    | fuel + 1 =>
      refOk root a o && refsOkContent root fuel o.content a 0 && refsOkNamed root fuel o.namedOnly a
  def refsOkContent (root : Obj) (fuel : Nat) (cs : List Obj) (a : Addr) (i : Nat) : Bool :=
    match fuel with
    | 0 => false
    | fuel + 1 =>
      match cs with
      | [] => true
      | c :: rest => refsOkTree root fuel c (a ++ [.idx i]) && refsOkContent root fuel rest a (i + 1)
  def refsOkNamed (root : Obj) (fuel : Nat) (ns : List (String × Obj)) (a : Addr) : Bool :=
    match fuel with
    | 0 => false
    | fuel + 1 =>
      match ns with
      | [] => true
      | (k, c) :: rest => refsOkTree root fuel c (a ++ [.named k]) && refsOkNamed root fuel rest a
end

/-- The whole story. -/
def storyOk (root : Obj) (fuel : Nat) : Bool := refsOkTree root fuel root []

/-- The offending references, for reports: (position, kind, path text). -/
def badRefs (root : Obj) (fuel : Nat) : List (Addr × String × String) :=
  (walk fuel root []).filterMap (fun ao =>
    if refOk root ao.1 ao.2 then none
    else match Audit.refPath ao.2 with
      | some (k, p) => some (ao.1, k, String.ofList p.toText)
      | none => none)

end RefCheck
end Ink
