/-
  Ink/Basic.lean — outcome type shared by all models.  Rust partiality is kept
  visible: every transliterated `unwrap` / index / arithmetic site that can
  panic yields `panic site`.
-/
namespace Ink

inductive Out (α : Type) where
  | ok (a : α)
  | err (kind : String) (msg : String)
  | panic (site : String)
  deriving Repr, Inhabited

namespace Out

@[inline] def bind {α β : Type} (x : Out α) (f : α → Out β) : Out β :=
  match x with
  | ok a => f a
  | err k m => err k m
  | panic s => panic s

instance : Monad Out where
  pure := ok
  bind := bind

def isPanic {α : Type} : Out α → Bool
  | panic _ => true
  | _ => false

def isOk {α : Type} : Out α → Bool
  | ok _ => true
  | _ => false

def badJson {α : Type} (m : String) : Out α := err "BadJson" m
def invalid {α : Type} (m : String) : Out α := err "InvalidStoryState" m
def badArg {α : Type} (m : String) : Out α := err "BadArgument" m

/-- `Option::unwrap` -/
def unwrap {α : Type} (site : String) : Option α → Out α
  | some a => ok a
  | none => panic site

/-- `Option::ok_or(err)` -/
def okOr {α : Type} (kind msg : String) : Option α → Out α
  | some a => ok a
  | none => err kind msg

end Out

def i32Min : Int := -2147483648
def i32Max : Int := 2147483647
def inI32 (n : Int) : Bool := i32Min ≤ n && n ≤ i32Max
def i64Min : Int := -9223372036854775808
def i64Max : Int := 9223372036854775807
def inI64 (n : Int) : Bool := i64Min ≤ n && n ≤ i64Max
def u64Max : Int := 18446744073709551615

/-- Two's-complement wrap to 32 bits (`as i32`, `wrapping_*`). -/
def wrapI32 (n : Int) : Int := (n + 2147483648) % 4294967296 - 2147483648

end Ink
