/-
  Ink/Stream.lean — model of the string reader of the streaming JSON tokenizer
  (runtime/src/json/json_tokenizer.rs: read_string_content, read_escape, read_hex4), written
  the way the Rust is: one `read` per character, helper per escape kind.  C14 proves it equal to
  the reference string parser of Ink/Json.lean (the model of the serde_json based loader) on
  every input, and that it inverts both the compact escaping and the all-ASCII (\uXXXX) escaping.
  Core Lean only.
-/
import Ink.Json

namespace Ink
namespace Stream

/-- `char::to_digit(16)` -/
def toDigit16 (c : Char) : Option Nat :=
  if '0' ≤ c ∧ c ≤ '9' then some (c.toNat - 48)
  else if 'a' ≤ c ∧ c ≤ 'f' then some (c.toNat - 87)
  else if 'A' ≤ c ∧ c ≤ 'F' then some (c.toNat - 55)
  else none

/-- `read_hex4`: four reads, `code = code * 16 + digit`. -/
def readHexN : Nat → Nat → List Char → Option (Nat × List Char)
  | 0, code, r => some (code, r)
  | _ + 1, _, [] => none
  | n + 1, code, c :: r =>
    match toDigit16 c with
    | some d => readHexN n (code * 16 + d) r
    | none => none

def readHex4 (inp : List Char) : Option (Nat × List Char) := readHexN 4 0 inp

/-- `read_escape`: the character after a backslash has been requested. -/
def readEscape (inp : List Char) : Option (Char × List Char) :=
  match inp with
  | [] => none
  | c :: r =>
    if c = '"' then some ('"', r)
    else if c = '\\' then some ('\\', r)
    else if c = '/' then some ('/', r)
    else if c = 'b' then some (Char.ofNat 8, r)
    else if c = 'f' then some (Char.ofNat 12, r)
    else if c = 'n' then some ('\n', r)
    else if c = 'r' then some ('\r', r)
    else if c = 't' then some ('\t', r)
    else if c = 'u' then
      match readHex4 r with
      | none => none
      | some (code, r1) =>
        if 0xD800 ≤ code ∧ code ≤ 0xDBFF then
          -- a high surrogate: the next two characters must be `\` `u`, then a low surrogate
          match r1 with
          | c1 :: c2 :: r2 =>
            if c1 = '\\' ∧ c2 = 'u' then
              match readHex4 r2 with
              | some (low, r3) =>
                if 0xDC00 ≤ low ∧ low ≤ 0xDFFF then
                  some (Char.ofNat (0x10000 + ((code - 0xD800) <<< 10) + (low - 0xDC00)), r3)
                else none
              | none => none
            else none
          | _ => none
        else if 0xDC00 ≤ code ∧ code ≤ 0xDFFF then none       -- `char::from_u32` fails
        else some (Char.ofNat code, r1)
    else none

/-- `read_string_content`: up to and including the closing quote. -/
def readStringContent (fuel : Nat) (inp : List Char) (acc : List Char) : Option (List Char × List Char) :=
  match fuel with
  | 0 => none
  | fuel + 1 =>
    match inp with
    | [] => none
    | c :: r =>
      if c = '"' then some (acc.reverse, r)
      else if c = '\\' then
        match readEscape r with
        | some (d, r') => readStringContent fuel r' (d :: acc)
        | none => none
      else if c.toNat < 0x20 then none
      else readStringContent fuel r (c :: acc)

/-! ### the all-ASCII serialisation (`\uXXXX` for everything outside printable ASCII) -/

def hex4Digits (n : Nat) : List Char :=
  [Json.hexDigit (n / 4096 % 16), Json.hexDigit (n / 256 % 16), Json.hexDigit (n / 16 % 16), Json.hexDigit (n % 16)]

def escapeCharAscii (c : Char) : List Char :=
  if c = '"' then ['\\', '"']
  else if c = '\\' then ['\\', '\\']
  else if 0x20 ≤ c.toNat ∧ c.toNat < 0x7F then [c]
  else if c.toNat < 0x10000 then '\\' :: 'u' :: hex4Digits c.toNat
  else
    let v := c.toNat - 0x10000
    ('\\' :: 'u' :: hex4Digits (0xD800 + v / 0x400)) ++ ('\\' :: 'u' :: hex4Digits (0xDC00 + v % 0x400))

def escapeAscii (s : List Char) : List Char := s.flatMap escapeCharAscii

end Stream
end Ink
