/-
  Ink/Load.lean — model of runtime/src/json/json_read.rs (the default loader):
  JSON value -> content tree + list definitions.  Every Rust `unwrap`, index
  and `try_into().unwrap()` is an explicit `panic` outcome tagged with its site.
-/
import Ink.Json
import Ink.Value

namespace Ink

open Json (get?)

namespace Load

def inkVersionCurrent : Int := 21
def inkVersionMinimum : Int := 18

/-- serde's `Value::as_i64`: integer literal within `i64`. -/
def asI64 : Json → Option Int
  | .num n => if inI64 n then some n else none
  | _ => none

/-- serde's `Value::as_u64`. -/
def asU64 : Json → Option Int
  | .num n => if 0 ≤ n && n ≤ u64Max then some n else none
  | _ => none

def isNumber : Json → Bool
  | .num _ => true
  | .flt _ => true
  | _ => false

/-- Decimal text of a JSON number to `Float32` via `f64` (`as_f64() as f32`). -/
def floatOfRaw (raw : String) : Float32 :=
  let cs := raw.toList
  let (neg, cs) := match cs with
    | '-' :: r => (true, r)
    | r => (false, r)
  let (ip, r1) := Json.takeDigits cs
  let (fp, r2) : (List Char × List Char) := match r1 with
    | '.' :: r => Json.takeDigits r
    | r => ([], r)
  let (eneg, ed) : (Bool × List Char) := match r2 with
    | _ :: '-' :: r => (true, (Json.takeDigits r).1)
    | _ :: '+' :: r => (false, (Json.takeDigits r).1)
    | _ :: r => (false, (Json.takeDigits r).1)
    | [] => (false, [])
  let m := Json.digitsToNat (ip ++ fp)
  let e : Int := (if eneg then -(Json.digitsToNat ed : Int) else (Json.digitsToNat ed : Int)) - fp.length
  let f : Float := if e < 0 then Float.ofScientific m true e.natAbs else Float.ofScientific m false e.natAbs
  let f := if neg then -f else f
  f.toFloat32

def floatOfInt (n : Int) : Float32 := (Float.ofInt n).toFloat32

def mkStr (s : String) : Obj := .val (.str s)

mutual
  /-- `jtoken_to_runtime_object` -/
  def tokenToObj (fuel : Nat) (tok : Json) (name : Option String) : Out Obj :=
    match fuel with
    | 0 => .err "Fuel" "loader fuel"
    | fuel + 1 =>
    match tok with
    | .null => .badJson "Failed to convert token to runtime RTObject: null"
    | .bool b => .ok (.val (.bool b))
    | .num n =>
      if inI64 n then
        if inI32 n then .ok (.val (.int n)) else .badJson "Unexpected value (int_try_into)"
      else .ok (.val (.float (floatOfInt n)))
    | .flt raw => .ok (.val (.float (floatOfRaw raw)))
    | .str s =>
      match s.toList with
      | [] => .badJson "Unexpected value (empty_string)"
      | c :: rest =>
        if c = '^' then .ok (mkStr (String.ofList rest))
        else if s == "\n" then .ok (mkStr "\n")
        else if s == "<>" then .ok .glue
        else match Cmd.ofName s with
          | some c => .ok (.cmd c)
          | none =>
            let callStr := if s == "L^" then "^" else s
            match Op.ofName callStr with
            | some op => .ok (.native op)
            | none =>
              if s == "void" then .ok .void
              else .badJson ("Failed to convert token to runtime RTObject: " ++ Json.quote s)
    | .arr xs => arrayToContainer fuel xs name
    | .obj _ =>
      match get? tok "^->" with
      | some pv =>
        .ok (.val (.dtarget (match pv.asStr? with
          | some s => Path.parse s.toList
          | none => Path.empty)))
      | none =>
      match get? tok "^var" with
      | some v =>
        match v.asStr? with
        | none => .badJson "Unexpected value (varptr_name)"
        | some vn =>
          match get? tok "ci" with
          | some civ =>
            match asI64 civ with
            | some ci => .ok (.val (.varptr vn (wrapI32 ci)))
            | none => .badJson "Unexpected value (varptr_ci)"
          | none => .ok (.val (.varptr vn (-1)))
      | none =>
      -- Divert
      let dv : Option (Json × Bool × PushPop × Bool) :=
        match get? tok "->" with
        | some v => some (v, false, .function, false)
        | none => match get? tok "f()" with
          | some v => some (v, true, .function, false)
          | none => match get? tok "->t->" with
            | some v => some (v, true, .tunnel, false)
            | none => match get? tok "x()" with
              | some v => some (v, false, .function, true)
              | none => none
      match dv with
      | some (v, pushes, ptype, ext) =>
        match v.asStr? with
        | none => .badJson "Unexpected value (divert_target)"
        | some target =>
          let isVar := (get? tok "var").isSome
          let cond := (get? tok "c").isSome
          let exArgs : Out Nat :=
            if ext then
              match get? tok "exArgs" with
              | some av => match asU64 av with
                | some n => .ok n.toNat
                | none => .badJson "Unexpected value (exArgs)"
              | none => .ok 0
            else .ok 0
          match exArgs with
          | .ok n =>
            .ok (.divert { pushes := pushes, pushType := ptype, external := ext, exArgs := n,
                           conditional := cond,
                           varName := if isVar then some target else none,
                           target := if isVar then none else some (Path.parse target.toList) })
          | .err k m => .err k m
          | .panic s => .panic s
      | none =>
      match get? tok "*" with
      | some cp =>
        match cp.asStr? with
        | none => .badJson "Unexpected value (choice_path)"
        | some ps =>
          match get? tok "flg" with
          | some f => match asU64 f with
            | some n => .ok (.choicePoint (wrapI32 n) (Path.parse ps.toList))
            | none => .badJson "Unexpected value (choice_flg)"
          | none => .ok (.choicePoint 0 (Path.parse ps.toList))
      | none =>
      match get? tok "VAR?" with
      | some n => match n.asStr? with
        | some s => .ok (.varRef s none)
        | none => .badJson "Unexpected value (varref_name)"
      | none =>
      match get? tok "CNT?" with
      | some n => match n.asStr? with
        | some s => .ok (.varRef "" (some (Path.parse s.toList)))
        | none => .badJson "Unexpected value (cnt_path)"
      | none =>
      let va : Option (Json × Bool) := match get? tok "VAR=" with
        | some v => some (v, true)
        | none => match get? tok "temp=" with
          | some v => some (v, false)
          | none => none
      match va with
      | some (v, isGlobal) =>
        match v.asStr? with
        | some s => .ok (.varAss s (get? tok "re").isNone isGlobal)
        | none => .badJson "Unexpected value (varass_name)"
      | none =>
      match get? tok "#" with
      | some v => match v.asStr? with
        | some s => .ok (.tag s)
        | none => .badJson "Unexpected value (tag_text)"
      | none =>
      match get? tok "list" with
      | some lv =>
        match lv.asObj? with
        | none => .badJson "Unexpected value (list_content)"
        | some content =>
          let origins : Out (List String) := match get? tok "origins" with
            | some o => match o.asArr? with
              | none => .badJson "Unexpected value (list_origins)"
              | some arr =>
                if arr.all (fun e => e.asStr?.isSome) then .ok (arr.filterMap Json.asStr?)
                else .badJson "Unexpected value (list_origin_name)"
            | none => .ok []
          match origins with
          | .ok names =>
            if content.all (fun kv => (asI64 kv.2).isSome) then
              let items := content.map (fun kv => (ListItem.ofFullName kv.1, wrapI32 ((asI64 kv.2).getD 0)))
              .ok (.val (.list { items := items, origins := [], initialOrigins := names }))
            else .badJson "Unexpected value (list_item_value)"
          | .err k m => .err k m
          | .panic s => .panic s
      | none =>
      if (get? tok "originalChoicePath").isSome then .err "Unsupported" "choice object in content"
      else .badJson "Failed to convert token to runtime RTObject: object"

  /-- `jarray_to_container` -/
  def arrayToContainer (fuel : Nat) (xs : List Json) (name : Option String) : Out Obj :=
    match fuel with
    | 0 => .err "Fuel" "loader fuel"
    | fuel + 1 =>
    match xs.getLast? with
    | none => .badJson "Unexpected value (empty_array)"
    | some last =>
      match termObj fuel (last.asObj?.getD []) name 0 [] with
      | .ok (name', flags, named) =>
        match objList fuel xs.dropLast with
        | .ok content => .ok (.container name' flags content named)
        | .err k m => .err k m
        | .panic s => .panic s
      | .err k m => .err k m
      | .panic s => .panic s

  /-- The loop over the terminating object. -/
  def termObj (fuel : Nat) (kvs : List (String × Json)) (name : Option String) (flags : Int)
      (named : List (String × Obj)) : Out (Option String × Int × List (String × Obj)) :=
    match fuel with
    | 0 => .err "Fuel" "loader fuel"
    | fuel + 1 =>
    match kvs with
    | [] => .ok (name, flags, named.reverse)
    | (k, v) :: rest =>
      if k == "#f" then
        match asI64 v with
        | some n => if inI32 n then termObj fuel rest name n named else .badJson "Unexpected value (count_flags_range)"
        | none => .badJson "Unexpected value (count_flags)"
      else if k == "#n" then
        match v.asStr? with
        | some s => termObj fuel rest (some s) flags named
        | none => .badJson "Unexpected value (container_name)"
      else
        match tokenToObj fuel v (some k) with
        | .ok o =>
          if o.isContainer then termObj fuel rest name flags ((k, o) :: named)
          else .badJson "Unexpected value (named_not_container)"
        | .err k m => .err k m
        | .panic s => .panic s

  /-- `jarray_to_runtime_obj_list` -/
  def objList (fuel : Nat) (xs : List Json) : Out (List Obj) :=
    match fuel with
    | 0 => .err "Fuel" "loader fuel"
    | fuel + 1 =>
    match xs with
    | [] => .ok []
    | x :: rest =>
      match tokenToObj fuel x none with
      | .ok o =>
        match objList fuel rest with
        | .ok os => .ok (o :: os)
        | .err k m => .err k m
        | .panic s => .panic s
      | .err k m => .err k m
      | .panic s => .panic s
end

/-- Size of a JSON value, used as loader fuel. -/
partial def jsonSizeAux : Json → Nat
  | .arr xs => xs.foldl (fun n x => n + jsonSizeAux x) 1
  | .obj kvs => kvs.foldl (fun n kv => n + jsonSizeAux kv.2) 1
  | _ => 1

/-- `jtoken_to_list_definitions` -/
def listDefs (d : Json) : Out ListDefs :=
  match d.asObj? with
  | none => .badJson "Unexpected value (listdefs_object)"
  | some lists =>
    let rec go : List (String × Json) → List (String × List (String × Int)) → Out ListDefs
      | [], acc => .ok acc.reverse
      | (name, lj) :: rest, acc =>
        match lj.asObj? with
        | none => .badJson "Unexpected value (listdef_object)"
        | some items =>
          if items.all (fun kv => match asI64 kv.2 with | some n => inI32 n | none => false) then
            go rest ((name, items.map (fun kv => (kv.1, (asI64 kv.2).getD 0))) :: acc)
          else .badJson "Unexpected value (listdef_item_value)"
    go lists []

structure Loaded where
  version : Int
  root : Obj
  listDefs : ListDefs
  deriving Inhabited

/-- `load_from_string` on an already parsed document (`none` = not JSON). -/
def loadStory (fuel : Nat) (doc : Option Json) : Out Loaded :=
  match doc with
  | none => .badJson "Story not in JSON format."
  | some json =>
    match get? json "inkVersion" with
    | none => .badJson "ink version number not found. Are you sure it's a valid .ink.json file?"
    | some v =>
      if !isNumber v then .badJson "ink version number not found. Are you sure it's a valid .ink.json file?"
      else match asI64 v with
      | none => .badJson "Unexpected value (version_as_i64)"
      | some version =>
        if !inI32 version then .badJson "Unexpected value (version_try_into)"
        else if version > inkVersionCurrent then
          .badJson "Version of ink used to build story was newer than the current version of the engine"
        else if version < inkVersionMinimum then
          .badJson "Version of ink used to build story is too old to be loaded by this version of the engine"
        else match get? json "root" with
        | none => .badJson "Root node for ink not found. Are you sure it's a valid .ink.json file?"
        | some root =>
          match get? json "listDefs" with
          | none => .badJson "List Definitions node for ink not found. Are you sure it's a valid .ink.json file?"
          | some ld =>
            match listDefs ld with
            | .ok defs =>
              match tokenToObj fuel root none with
              | .ok o =>
                if o.isContainer then .ok { version := version, root := o, listDefs := defs }
                else .badJson "Root node for ink is not a container?"
              | .err k m => .err k m
              | .panic s => .panic s
            | .err k m => .err k m
            | .panic s => .panic s

end Load
end Ink
