/-
  Ink/Expr.lean — source-level semantics of Ink expressions: an expression
  TREE is evaluated directly with the operators of Ink/Native.lean, without the
  compiler and without the interpreter loop.  This is the "independent
  evaluator" of C07: the real code compiles the rendered expression and plays
  it; this file says what value the tree denotes.
  Core Lean only.
-/
import Ink.Native

namespace Ink

/-- Expression trees.  `fromInt` is `ListName(n)`, `range` is `LIST_RANGE(l, lo, hi)`. -/
inductive Expr where
  | lit (v : Val)
  | var (name : String)
  | un (op : Op) (e : Expr)
  | bin (op : Op) (l r : Expr)
  | fromInt (listName : String) (e : Expr)
  | range (l lo hi : Expr)
  deriving Repr, Inhabited

namespace Expr

/-- What happens to a value when it is pushed on the evaluation stack: a list
    gets its origins from its items (or its initial origin names). -/
def pushNorm (defs : ListDefs) (v : Val) : Out Val :=
  match v with
  | .list l =>
    match l.originNames with
    | none => .panic "ink_list.rs:get_origin_names"
    | some names => .ok (.list { l with origins := names.filter (fun n => (defs.find n).isSome) })
  | v => .ok v

def nativeVal (defs : ListDefs) (op : Op) (args : List Val) : Out Val :=
  match Native.call defs op (args.map Obj.val) with
  | .ok (.val v) => pushNorm defs v
  | .ok _ => .panic "unreachable"
  | .err k m => .err k m
  | .panic s => .panic s

/-- The value an expression denotes in an environment of global variables. -/
def eval (defs : ListDefs) (env : List (String × Val)) : Expr → Out Val
  | .lit v => pushNorm defs v
  | .var n =>
    match (env.find? (fun kv => kv.1 == n)).map (·.2) with
    | some v => pushNorm defs v
    | none => .invalid ("Variable not found: '" ++ n ++ "'")
  | .un op e =>
    match eval defs env e with
    | .ok v => nativeVal defs op [v]
    | o => o
  | .bin op l r =>
    match eval defs env l with
    | .ok a =>
      (match eval defs env r with
      | .ok b => nativeVal defs op [a, b]
      | o => o)
    | o => o
  | .fromInt ln e =>
    match eval defs env e with
    | .ok (.int iv) =>
      (match defs.find ln with
      | none => .invalid ("Failed to find List called " ++ ln)
      | some items =>
        pushNorm defs (.list (match ListDefs.itemWithValue items iv with
          | some nm => InkList.single { origin := some ln, name := nm } iv
          | none => InkList.empty)))
    | .ok _ => .invalid "Passed non-integer when creating a list element from a numerical value."
    | o => o
  | .range l lo hi =>
    match eval defs env l with
    | .ok lv =>
      (match eval defs env lo with
      | .ok lov =>
        (match eval defs env hi with
        | .ok hiv =>
          (match lv with
          | .list ll => pushNorm defs (.list (ll.subRange lov hiv))
          | _ => .invalid "Expected List, minimum and maximum for LIST_RANGE")
        | o => o)
      | o => o)
    | o => o

end Expr
end Ink
