/-
  Ink/Explore.lean — exhaustive exploration of a story's choice tree on the model (C05):
  every line (text + tags), every offered choice (text + tags), the end status and the final
  global values along EVERY sequence of choices, down to a depth bound; `complete` tells whether
  the bound cut any path (if not, the exploration covers all choice paths of the story).
  Core Lean only.
-/
import Ink.Api

namespace Ink
namespace Explore

/-- Lines of one turn: continue until the story stops; each line with its tags.  An error ends the
    turn (its kind is recorded). -/
def turnLines : Nat → Story → List String → List String × Story
  | 0, st, acc => (acc ++ ["<fuel>"], st)
  | fuel + 1, st, acc =>
    if st.canContinue then
      match st.cont with
      | (.ok t, st1) =>
        let tags := st1.state.currentTags
        turnLines fuel st1 (acc ++ [t ++ " #" ++ " #".intercalate tags])
      | (.err k _, st1) => (acc ++ ["<error " ++ k ++ ">"], st1)
      | (.panic _, st1) => (acc ++ ["<panic>"], st1)
    else (acc, st)

/-- Names of the globals, sorted (the declaration order of two compilers may differ). -/
def insertSorted (x : String) : List String → List String
  | [] => [x]
  | y :: ys => if x < y then x :: y :: ys else y :: insertSorted x ys

def globalsOf (st : Story) (names : List String) : List String :=
  (names.foldl (fun acc n => insertSorted n acc) []).map (fun n =>
    n ++ "=" ++ (match st.getVariableHost n with
      | some v => v.display
      | none => "<none>"))

/-- Depth-first exploration; returns the observation log (pre-order) and whether it is complete. -/
def go (names : List String) (lineFuel : Nat) : Nat → Story → List Nat → List String × Bool
  | 0, _, path => (["@" ++ toString path ++ " <depth>"], false)
  | depth + 1, st, path =>
    let (lines, st1) := turnLines lineFuel st []
    let (choices, st2) := st1.currentChoices
    let here := ["@" ++ toString path] ++ lines ++
      choices.map (fun c => "* " ++ c.text ++ " #" ++ " #".intercalate c.tags)
    if choices.isEmpty || lines.any (fun l => l.startsWith "<") then
      (here ++ ["= " ++ "; ".intercalate (globalsOf st2 names)], !(lines.any (fun l => l == "<fuel>")))
    else
      (List.range choices.length).foldl (fun (acc : List String × Bool) i =>
        match st2.chooseChoiceIndex i with
        | (.ok (), st3) =>
          let (log, c) := go names lineFuel depth st3 (path ++ [i])
          (acc.1 ++ log, acc.2 && c)
        | _ => (acc.1 ++ ["@" ++ toString (path ++ [i]) ++ " <choose failed>"], acc.2)) (here, true)

/-- Load a story document and explore it. -/
def exploreDoc (text : String) (names : List String) (depth : Nat) (seed : Int) : List String × Bool :=
  let cs := text.toList
  match Load.loadStory (2 * cs.length + 16) (Json.parse cs) with
  | .ok ld =>
    match Story.create ld seed with
    | .ok st => go names 400 depth { st with fuel := some 200000 } []
    | _ => (["<create failed>"], true)
  | _ => (["<load failed>"], true)

/-- Two story documents behave identically along every choice path down to `depth`; the second
    component says whether that is ALL choice paths. -/
def agree (a b : String) (names : List String) (depth : Nat) : Bool × Bool :=
  let (la, ca) := exploreDoc a names depth 1
  let (lb, cb) := exploreDoc b names depth 1
  (la == lb, ca && cb)

end Explore
end Ink
