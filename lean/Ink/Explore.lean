/-
  Ink/Explore.lean — exhaustive exploration of a story's choice tree on the model (C05):
  every line (text + tags), every offered choice (text + tags), the end status and the final
  global values along EVERY sequence of choices, down to a depth bound; `complete` tells whether
  the bound cut any path (if not, the exploration covers all choice paths of the story).
  Log entries are JSON values so that the same log can be produced from the real runtime.
  Core Lean only.
-/
import Ink.Api

namespace Ink
namespace Explore

def jpath (p : List Nat) : Json := .arr (p.map (fun n => Json.num (Int.ofNat n)))
def jtags (t : List String) : Json := .arr (t.map .str)

/-- Lines of one turn: continue until the story stops; each line with its tags.  An error ends the
    turn (its kind is recorded).  `shuffle = true` blanks the text of the lines (stories whose text
    depends on the shuffle order are compared modulo the shuffle). -/
def turnLines (shuffle : Bool) : Nat → Story → List Json → List Json × Story × Bool
  | 0, st, acc => (acc ++ [.arr [.str "e", .str "fuel"]], st, true)
  | fuel + 1, st, acc =>
    if st.canContinue then
      match st.cont with
      | (.ok t, st1) =>
        turnLines shuffle fuel st1 (acc ++ [.arr [.str "l", .str (if shuffle then "" else t), jtags st1.state.currentTags]])
      | (.err k _, st1) => (acc ++ [.arr [.str "e", .str k]], st1, true)
      | (.panic _, st1) => (acc ++ [.arr [.str "e", .str "panic"]], st1, true)
    else (acc, st, false)

def insertSorted (x : String) : List String → List String
  | [] => [x]
  | y :: ys => if x < y then x :: y :: ys else y :: insertSorted x ys

def globalsOf (st : Story) (names : List String) : Json :=
  .arr ((names.foldl (fun acc n => insertSorted n acc) []).map (fun n =>
    .arr [.str n, (match st.getVariableHost n with
      | some v => encVal v
      | none => .null)]))

/-- Depth-first exploration; returns the observation log (pre-order) and whether it is complete. -/
def go (names : List String) (shuffle : Bool) (lineFuel : Nat) : Nat → Story → List Nat → List Json × Bool
  | 0, _, path => ([.arr [.str "cut", jpath path]], false)
  | depth + 1, st, path =>
    let (lines, st1, stopped) := turnLines shuffle lineFuel st []
    let (choices, st2) := st1.currentChoices
    let here := [.arr [.str "@", jpath path]] ++ lines ++
      choices.map (fun c => .arr [.str "c", .str c.text, jtags c.tags])
    if choices.isEmpty || stopped then
      (here ++ [.arr [.str "g", globalsOf st2 names]], true)
    else
      (List.range choices.length).foldl (fun (acc : List Json × Bool) i =>
        match st2.chooseChoiceIndex i with
        | (.ok (), st3) =>
          let (log, c) := go names shuffle lineFuel depth st3 (path ++ [i])
          (acc.1 ++ log, acc.2 && c)
        | _ => (acc.1 ++ [.arr [.str "e", .str "choose", jpath (path ++ [i])]], acc.2)) (here, true)

/-- Load a story document and explore it. -/
def exploreDoc (text : String) (names : List String) (shuffle : Bool) (depth : Nat) (seed : Int) : List Json × Bool :=
  let cs := text.toList
  match Load.loadStory (2 * cs.length + 16) (Json.parse cs) with
  | .ok ld =>
    match Story.create ld seed with
    | .ok st => go names shuffle 400 depth { st with fuel := some 200000 } []
    | _ => ([.str "create failed"], true)
  | _ => ([.str "load failed"], true)

/-- Two story documents behave identically along every choice path down to `depth`; the second
    component says whether that is ALL choice paths of both. -/
def agree (a b : String) (names : List String) (shuffle : Bool) (depth : Nat) : Bool × Bool :=
  let (la, ca) := exploreDoc a names shuffle depth 1
  let (lb, cb) := exploreDoc b names shuffle depth 1
  (la == lb, ca && cb)

end Explore
end Ink
