/-
  Ink/Cli.lean — model of rinklecate's player (rinklecate/src/player.rs): what it prints for a
  story and a sequence of input lines, in JSON mode and in plain mode.  The story itself is the
  interpreter model (Ink/Api.lean), so "the tool matches the library" is the statement that the
  tool's output is this function of the library's results.
  Core Lean only.
-/
import Ink.Api

namespace Ink
namespace Cli

/-- `escape_json_string` -/
def escChar (c : Char) : List Char :=
  if c = '"' then ['\\', '"']
  else if c = '\\' then ['\\', '\\']
  else if c = '\n' then ['\\', 'n']
  else if c = '\r' then ['\\', 'r']
  else if c = '\t' then ['\\', 't']
  else if c.toNat < 0x20 then
    ['\\', 'u', '0', '0', Json.hexDigit (c.toNat / 16), Json.hexDigit (c.toNat % 16)]
  else [c]

def esc (s : List Char) : List Char := s.flatMap escChar

/-- a quoted JSON string -/
def q (s : String) : String := String.ofList ('"' :: esc s.toList ++ ['"'])

def commaSep (l : List String) : String := ", ".intercalate l

def fmtText (t : String) : String := "{\"text\": " ++ q t ++ "}"
def fmtTags (ts : List String) : String := "{\"tags\": [" ++ commaSep (ts.map q) ++ "]}"
def fmtChoice (text : String) (tags : List String) : String :=
  if tags.isEmpty then "{\"text\": " ++ q text ++ "}"
  else "{\"text\": " ++ q text ++ ", \"tags\": [" ++ commaSep (tags.map q) ++ "], \"tag_count\": " ++ toString tags.length ++ "}"
def fmtChoices (cs : List (String × List String)) : String :=
  "{\"choices\": [" ++ commaSep (cs.map (fun c => fmtChoice c.1 c.2)) ++ "]}"
def fmtIssues (ms : List String) : String := "{\"issues\": [" ++ commaSep (ms.map q) ++ "]}"
def fmtCmdOutput (m : String) : String := "{\"cmdOutput\": " ++ q m ++ "}"
def needInput : String := "{\"needInput\": true}"
def endOfStory : String := "{\"end\": true}"
def closed : String := "{\"close\": true}"

def helpMsg : String := "Type a choice number or a divert (e.g. '-> myKnot'), 'quit' to exit"

/-- `Display for StoryError` -/
def errorDisplay (kind msg : String) : String :=
  if kind == "InvalidStoryState" then "Invalid story state: " ++ msg
  else if kind == "BadJson" then "Error parsing JSON: " ++ msg
  else "Bad argument: " ++ msg

/-! ### input -/

inductive Input where
  | choice (idx : Nat)
  | divert (path : String)
  | help
  | exit
  | unknown
  deriving Repr, DecidableEq

def isWs (c : Char) : Bool := c = ' ' || c = '\t' || c = '\n' || c = '\r' || c.toNat = 11 || c.toNat = 12

/-- `split_whitespace` (ASCII white space; the harness sends ASCII white space only) -/
def words (s : List Char) : List (List Char) :=
  let rec go : List Char → List Char → List (List Char) → List (List Char)
    | [], cur, acc => (if cur.isEmpty then acc else cur.reverse :: acc).reverse
    | c :: r, cur, acc =>
      if isWs c then go r [] (if cur.isEmpty then acc else cur.reverse :: acc) else go r (c :: cur) acc
  go s [] []

def trim (s : List Char) : List Char := ((s.dropWhile isWs).reverse.dropWhile isWs).reverse

/-- `str::parse::<usize>()`: digits with an optional leading `+`. -/
def parseUsizeCli (s : List Char) : Option Nat :=
  let body := match s with
    | '+' :: r => r
    | r => r
  if body.isEmpty || !(body.all Json.isDigit) then none
  else
    -- (a number that does not fit `usize`, 64 bits, is a parse error)
    let n := Json.digitsToNat body
    if n < 18446744073709551616 then some n else none

def lowerAscii (s : List Char) : List Char := s.map (fun c => if 'A' ≤ c ∧ c ≤ 'Z' then Char.ofNat (c.toNat + 32) else c)

/-- `parse_input` (on the trimmed line) -/
def parseInput (input : List Char) : Input :=
  let lower := lowerAscii input
  if lower = "quit".toList || lower = "exit".toList then .exit
  else if lower = "help".toList then .help
  else
    match words input with
    | [a, b] =>
      if a = "->".toList then .divert (String.ofList b)
      else (match parseUsizeCli (trim input) with
        | some n => if n ≥ 1 then .choice (n - 1) else .unknown
        | none => .unknown)
    | _ =>
      match parseUsizeCli (trim input) with
      | some n => if n ≥ 1 then .choice (n - 1) else .unknown
      | none => .unknown

/-! ### the session -/

/-- One piece of output: `out` goes to standard output, `err` to standard error.  In JSON mode every
    `out` piece is one JSON object. -/
inductive Piece where
  | out (s : String)
  | err (s : String)
  deriving Repr

structure Opts where
  json : Bool
  keepOpen : Bool

/-- How a session ends: normally (exit status 0) or with an error message (status 1). -/
inductive Ending where
  | ok
  | failed (msg : String)
  deriving Repr

def handlerMsgs (evs : List Json) (kind : String) : List String :=
  evs.filterMap (fun e => match e with
    | .arr [.str "handler", .str k, .str m] => if k == kind then some m else none
    | _ => none)

/-- `evaluate_story`: lines, tags and issues until the story stops. -/
def evaluate (o : Opts) : Nat → Story → List Piece → Except String (Story × List Piece)
  | 0, _, _ => .error "model fuel"
  | fuel + 1, st, acc =>
    if st.canContinue then
      match st.cont with
      | (.ok text, st1) =>
        let evs := st1.events.reverse
        let st2 := { st1 with events := [] }
        let tags := st2.state.currentTags
        let p1 := if o.json then [Piece.out (fmtText text)] else [Piece.out text]
        let p2 := if tags.isEmpty then []
          else if o.json then [Piece.out (fmtTags tags)] else [Piece.out ("# tags: " ++ commaSep tags ++ "\n")]
        let ws := handlerMsgs evs "W"
        let es := handlerMsgs evs "E"
        let p3 := if ws.isEmpty && es.isEmpty then []
          else if o.json then [Piece.out (fmtIssues (ws ++ es))]
          else (ws ++ es).map (fun m => Piece.err (m ++ "\n"))
        evaluate o fuel st2 (acc ++ p1 ++ p2 ++ p3)
      | (.err k m, _) => .error (errorDisplay k m)
      | (.panic s, _) => .error ("panic " ++ s)
    else .ok (st, acc)

/-- The input loop at a choice point; returns the story after a choice / divert, or the end. -/
def inputLoop (o : Opts) (nChoices : Nat) : Nat → Story → List String → List Piece →
    Except String (Option (Story × List String) × List Piece)
  | 0, _, _, _ => .error "model fuel"
  | fuel + 1, st, inputs, acc =>
    let prompt := if o.json then Piece.out needInput else Piece.out "?> "
    match inputs with
    | [] => .ok (none, acc ++ [prompt, if o.json then Piece.out closed else Piece.out "<User input stream closed.>\n"])
    | raw :: rest =>
      let t := trim raw.toList
      if t.isEmpty then inputLoop o nChoices fuel st rest (acc ++ [prompt])
      else match parseInput t with
        | .choice idx =>
          if idx ≥ nChoices then
            inputLoop o nChoices fuel st rest (acc ++ [prompt] ++ (if o.json then [] else [Piece.err "Choice out of range\n"]))
          else
            match st.chooseChoiceIndex idx with
            | (.ok (), st1) => .ok (some (st1, rest), acc ++ [prompt])
            | (.err k m, _) => .error (errorDisplay k m)
            | (.panic s, _) => .error ("panic " ++ s)
        | .divert path =>
          match st.choosePathString path true [] with
          | (.ok (), st1) => .ok (some (st1, rest), acc ++ [prompt])
          | (.err k m, st1) =>
            let msg := "Error diverting to '" ++ path ++ "': " ++ errorDisplay k m
            .ok (some (st1, rest), acc ++ [prompt,
              if o.json then Piece.out (fmtIssues [msg])
              else Piece.err ("<error diverting to '" ++ path ++ "': " ++ errorDisplay k m ++ ">\n")])
          | (.panic s, _) => .error ("panic " ++ s)
        | .help =>
          inputLoop o nChoices fuel st rest (acc ++ [prompt, if o.json then Piece.out (fmtCmdOutput helpMsg) else Piece.out (helpMsg ++ "\n")])
        | .exit => .ok (none, acc ++ [prompt])
        | .unknown =>
          inputLoop o nChoices fuel st rest (acc ++ [prompt] ++
            (if o.json then [] else [Piece.err "Unexpected input. Type 'help' or a choice number.\n"]))

/-- `play`: the whole session. -/
def play (o : Opts) : Nat → Story → List String → List Piece → List Piece × Ending
  | 0, _, _, acc => (acc, .failed "model fuel")
  | fuel + 1, st, inputs, acc =>
    match evaluate o 100000 st [] with
    | .error m => (acc, .failed m)
    | .ok (st1, ps) =>
      let (choices, st2) := st1.currentChoices
      if choices.isEmpty then
        (acc ++ ps ++ (if o.keepOpen then [if o.json then Piece.out endOfStory else Piece.out "--- End of story ---\n"] else []), .ok)
      else
        let shown := if o.json then [Piece.out (fmtChoices (choices.map (fun c => (c.text, c.tags))))]
          else [Piece.out "\n"] ++ (List.range choices.length).flatMap (fun i =>
            match choices[i]? with
            | some c => [Piece.out (toString (i + 1) ++ ": " ++ c.text ++ "\n")] ++
                (if c.tags.isEmpty then [] else [Piece.out ("# tags: " ++ commaSep c.tags ++ "\n")])
            | none => [])
        match inputLoop o choices.length (inputs.length + 2) st2 inputs [] with
        | .error m => (acc ++ ps ++ shown, .failed m)
        | .ok (none, ps2) => (acc ++ ps ++ shown ++ ps2, .ok)
        | .ok (some (st3, rest), ps2) => play o fuel st3 rest (acc ++ ps ++ shown ++ ps2)

/-- Start a session on a story document, as `play_from_json` / `main` do. -/
def session (o : Opts) (doc : String) (inputs : List String) : List Piece × Ending :=
  let cs := doc.toList
  match Load.loadStory (2 * cs.length + 16) (Json.parse cs) with
  | .ok ld =>
    match Story.create ld 0 with
    | .ok st => play o (inputs.length + 2) { st with handler := true, allowFallbacks := true } inputs []
    | .err k m => ([], .failed ("Failed to load story: " ++ errorDisplay k m))
    | .panic s => ([], .failed ("panic " ++ s))
  | .err k m => ([], .failed ("Failed to load story: " ++ errorDisplay k m))
  | .panic s => ([], .failed ("panic " ++ s))

end Cli
end Ink
