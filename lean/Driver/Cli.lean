/-
  Driver/Cli.lean — `inkmodel cli <story.json> <json|plain> <keep|nokeep> <inputs-file>`: the
  model of rinklecate's player; prints one JSON row per output piece and the ending.
-/
import Ink.Cli

namespace Ink

def cliCmd (path mode keep inputsPath : String) : IO Unit := do
  let doc ← IO.FS.readFile path
  let doc := if doc.startsWith "﻿" then (doc.drop 1).toString else doc
  let inputsText ← IO.FS.readFile inputsPath
  let inputs := (inputsText.splitOn "\n")
  let inputs := if inputs.getLast? == some "" then inputs.dropLast else inputs
  let out ← IO.getStdout
  let o : Cli.Opts := { json := mode == "json", keepOpen := keep == "keep" }
  let (pieces, ending) := Cli.session o doc inputs
  for p in pieces do
    match p with
    | .out s => out.putStrLn (Json.arr [.str "out", .str s]).render
    | .err s => out.putStrLn (Json.arr [.str "err", .str s]).render
  match ending with
  | .ok => out.putStrLn (Json.arr [.str "end", .str "ok"]).render
  | .failed m => out.putStrLn (Json.arr [.str "end", .str "failed", .str m]).render

end Ink
