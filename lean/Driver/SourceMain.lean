/-
  Driver/SourceMain.lean — `inkmodel source <file>`.

  The file holds one JSON document per line:  {"program": AST, "choices": [i, ...]}
  and one transcript (JSON) is printed per line.

  AST as JSON (paths are dotted strings, "a.b"):
    value    {"i": n} | {"b": bool} | {"s": str}
    expr     ["lit", value] | ["var", name] | ["reads", path] | ["un", "neg"|"not", e]
           | ["bin", op, a, b]   op: add sub mul div mod eq ne lt le gt ge and or
           | ["call", f, [e...]] | ["turnsSince", path] | ["choiceCount"] | ["turns"]
    target   "DONE" | "END" | path            (with arguments: third element of "->")
    inline   ["t", str] | ["p", e] | ["glue"] | ["if", e, [inline...], [inline...]]
           | ["seq", id, "stopping"|"cycle"|"once", [[inline...]...]] | ["tag", str]
           | ["->", target, [e...]] | ["tunnel", path, [e...]]
    stmt     ["line", [inline...]] | ["set", name, e] | ["set", name, e, "+="|"-="] (same meaning; how it
             is written: `~ x += e2` for e = x + e2) | ["temp", name, e] | ["ret", e|null]
           | ["run", e] | ["->", target, [e...]] | ["tunnel", path, [e...]] | ["->->"]
           | ["cond", [[e, [stmt...]]...], [stmt...]] | ["thread", path]
    section  {"label": str|null, "stmts": [stmt...], "choices": [choice...]}
    choice   {"id": n, "sticky": bool, "label": str|null, "cond": e|null,
              "start": [inline...], "bracket": [inline...], "end": [inline...], "body": [section...]}
    knot     {"name": str, "params": [str...], "function": bool, "body": [section...],
              "stitches": [{"name": str, "params": [str...], "body": [section...]}...]}
    program  {"globals": [[name, value]...], "root": [section...], "knots": [knot...]}

  Transcript:
    {"turns": [{"lines": [{"text": str, "tags": [str...]}...], "choices": [{"text": str, "tags": [...]}...]}...],
     "status": "end"|"done"|"choice"|"error"|"fuel", "errors": [kind...],
     "globals": {name: value}, "visits": {"knot" | "knot.stitch": n}}
  One turn per "continue maximally"; the last turn carries the choices on offer when the play stopped.
-/
import Ink.Json
import Ink.Source

namespace Ink.Source.Driver
open Ink (Json)

def splitPath (s : String) : Path := s.splitOn "."

def decVal (j : Json) : Option Val :=
  match j with
  | .obj [("i", .num n)] => some (.int n)
  | .obj [("b", .bool b)] => some (.bool b)
  | .obj [("s", .str s)] => some (.str s)
  | _ => none

def decUn : String → Option UnOp
  | "neg" => some .neg | "not" => some .not | _ => none

def decBin : String → Option BinOp
  | "add" => some .add | "sub" => some .sub | "mul" => some .mul | "div" => some .div | "mod" => some .mod
  | "eq" => some .eq | "ne" => some .ne | "lt" => some .lt | "le" => some .le | "gt" => some .gt
  | "ge" => some .ge | "and" => some .and | "or" => some .or | _ => none

def decKind : String → Option SeqKind
  | "stopping" => some .stopping | "cycle" => some .cycle | "once" => some .once | _ => none

mutual
  def decExpr (fuel : Nat) (j : Json) : Option Expr :=
    match fuel with
    | 0 => none
    | fuel + 1 =>
      match j with
      | .arr [.str "lit", v] => (decVal v).map .lit
      | .arr [.str "var", .str x] => some (.var x)
      | .arr [.str "reads", .str p] => some (.reads (splitPath p))
      | .arr [.str "turnsSince", .str p] => some (.turnsSince (splitPath p))
      | .arr [.str "choiceCount"] => some .choiceCount
      | .arr [.str "turns"] => some .turns
      | .arr [.str "un", .str op, a] => do
        let o ← decUn op
        let a ← decExpr fuel a
        pure (.un o a)
      | .arr [.str "bin", .str op, a, b] => do
        let o ← decBin op
        let a ← decExpr fuel a
        let b ← decExpr fuel b
        pure (.bin o a b)
      | .arr [.str "call", .str f, .arr args] => do
        let as ← decExprs fuel args
        pure (.call f as)
      | _ => none
  def decExprs (fuel : Nat) (js : List Json) : Option (List Expr) :=
    match fuel with
    | 0 => none
    | fuel + 1 =>
      match js with
      | [] => some []
      | j :: r => do
        let e ← decExpr fuel j
        let es ← decExprs fuel r
        pure (e :: es)
end

def bigFuel : Nat := 100000

def decTarget (t : Json) (args : List Json) : Option Target :=
  match t with
  | .str "DONE" => some .done
  | .str "END" => some .end
  | .str p => do
    let as ← decExprs bigFuel args
    pure (.path (splitPath p) as)
  | _ => none

mutual
  def decInline (fuel : Nat) (j : Json) : Option Inline :=
    match fuel with
    | 0 => none
    | fuel + 1 =>
      match j with
      | .arr [.str "t", .str s] => some (.text s)
      | .arr [.str "p", e] => (decExpr bigFuel e).map .print
      | .arr [.str "glue"] => some .glue
      | .arr [.str "tag", .str s] => some (.tag s)
      | .arr [.str "->", t, .arr args] => (decTarget t args).map .divert
      | .arr [.str "->", t] => (decTarget t []).map .divert
      | .arr [.str "tunnel", .str p, .arr args] => do
        let as ← decExprs bigFuel args
        pure (.tunnel (splitPath p) as)
      | .arr [.str "if", c, .arr yes, .arr no] => do
        let c ← decExpr bigFuel c
        let y ← decInlines fuel yes
        let n ← decInlines fuel no
        pure (.cond c y n)
      | .arr [.str "seq", .num id, .str kind, .arr alts] => do
        let k ← decKind kind
        let as ← decAlts fuel alts
        pure (.seq id.toNat k as)
      | _ => none
  def decInlines (fuel : Nat) (js : List Json) : Option (List Inline) :=
    match fuel with
    | 0 => none
    | fuel + 1 =>
      match js with
      | [] => some []
      | j :: r => do
        let e ← decInline fuel j
        let es ← decInlines fuel r
        pure (e :: es)
  def decAlts (fuel : Nat) (js : List Json) : Option (List (List Inline)) :=
    match fuel with
    | 0 => none
    | fuel + 1 =>
      match js with
      | [] => some []
      | .arr a :: r => do
        let e ← decInlines fuel a
        let es ← decAlts fuel r
        pure (e :: es)
      | _ => none
end

mutual
  def decStmt (fuel : Nat) (j : Json) : Option Stmt :=
    match fuel with
    | 0 => none
    | fuel + 1 =>
      match j with
      | .arr [.str "line", .arr parts] => (decInlines bigFuel parts).map .line
      | .arr [.str "set", .str x, e] => (decExpr bigFuel e).map (.set x)
      | .arr [.str "set", .str x, e, _] => (decExpr bigFuel e).map (.set x)   -- 4th: how it was written (+=)
      | .arr [.str "temp", .str x, e] => (decExpr bigFuel e).map (.temp x)
      | .arr [.str "ret", .null] => some (.ret none)
      | .arr [.str "ret", e] => (decExpr bigFuel e).map (fun e => .ret (some e))
      | .arr [.str "run", e] => (decExpr bigFuel e).map .run
      | .arr [.str "->", t, .arr args] => (decTarget t args).map .divert
      | .arr [.str "->", t] => (decTarget t []).map .divert
      | .arr [.str "tunnel", .str p, .arr args] => do
        let as ← decExprs bigFuel args
        pure (.tunnel (splitPath p) as)
      | .arr [.str "->->"] => some .tunnelReturn
      | .arr [.str "thread", .str p] => some (.thread (splitPath p))
      | .arr [.str "cond", .arr branches, .arr otherwise] => do
        let bs ← decBranches fuel branches
        let o ← decStmts fuel otherwise
        pure (.cond bs o)
      | _ => none
  def decStmts (fuel : Nat) (js : List Json) : Option (List Stmt) :=
    match fuel with
    | 0 => none
    | fuel + 1 =>
      match js with
      | [] => some []
      | j :: r => do
        let e ← decStmt fuel j
        let es ← decStmts fuel r
        pure (e :: es)
  def decBranches (fuel : Nat) (js : List Json) : Option (List (Expr × List Stmt)) :=
    match fuel with
    | 0 => none
    | fuel + 1 =>
      match js with
      | [] => some []
      | .arr [c, .arr body] :: r => do
        let c ← decExpr bigFuel c
        let b ← decStmts fuel body
        let rest ← decBranches fuel r
        pure ((c, b) :: rest)
      | _ => none
end

def optStr (j : Option Json) : Option String :=
  match j with
  | some (.str s) => some s
  | _ => none

def arrOf (j : Json) (k : String) : List Json :=
  match j.get? k with
  | some (.arr a) => a
  | _ => []

mutual
  def decSection (fuel : Nat) (j : Json) : Option Section :=
    match fuel with
    | 0 => none
    | fuel + 1 => do
      let stmts ← decStmts bigFuel (arrOf j "stmts")
      let cs ← decChoices fuel (arrOf j "choices")
      pure (.mk (optStr (j.get? "label")) stmts cs)
  def decSections (fuel : Nat) (js : List Json) : Option (List Section) :=
    match fuel with
    | 0 => none
    | fuel + 1 =>
      match js with
      | [] => some []
      | j :: r => do
        let e ← decSection fuel j
        let es ← decSections fuel r
        pure (e :: es)
  def decChoice (fuel : Nat) (j : Json) : Option Choice :=
    match fuel with
    | 0 => none
    | fuel + 1 => do
      let id ← (j.get? "id").bind Json.asInt?
      let sticky := ((j.get? "sticky").bind Json.asBool?).getD false
      let cond ← (match j.get? "cond" with
        | none => some none
        | some .null => some none
        | some e => (decExpr bigFuel e).map some)
      let start ← decInlines bigFuel (arrOf j "start")
      let bracket ← decInlines bigFuel (arrOf j "bracket")
      let finish ← decInlines bigFuel (arrOf j "end")
      let body ← decSections fuel (arrOf j "body")
      pure (.mk id.toNat sticky (optStr (j.get? "label")) cond start bracket finish body)
  def decChoices (fuel : Nat) (js : List Json) : Option (List Choice) :=
    match fuel with
    | 0 => none
    | fuel + 1 =>
      match js with
      | [] => some []
      | j :: r => do
        let e ← decChoice fuel j
        let es ← decChoices fuel r
        pure (e :: es)
end

def strsOf (j : Json) (k : String) : List String :=
  (arrOf j k).filterMap Json.asStr?

def decStitch (j : Json) : Option Stitch := do
  let name ← (j.get? "name").bind Json.asStr?
  let body ← decSections bigFuel (arrOf j "body")
  pure { name := name, params := strsOf j "params", body := body }

def decKnot (j : Json) : Option Knot := do
  let name ← (j.get? "name").bind Json.asStr?
  let body ← decSections bigFuel (arrOf j "body")
  let stitches ← (arrOf j "stitches").mapM decStitch
  pure { name := name, params := strsOf j "params",
         isFunction := ((j.get? "function").bind Json.asBool?).getD false,
         body := body, stitches := stitches }

def decProgram (j : Json) : Option Program := do
  let globals ← (arrOf j "globals").mapM (fun g =>
    match g with
    | .arr [.str n, v] => (decVal v).map (fun v => (n, v))
    | _ => none)
  let root ← decSections bigFuel (arrOf j "root")
  let knots ← (arrOf j "knots").mapM decKnot
  pure { globals := globals, root := root, knots := knots }

/-! ### Transcript to JSON -/

def encVal : Val → Json
  | .int n => .obj [("i", .num n)]
  | .bool b => .obj [("b", .bool b)]
  | .str s => .obj [("s", .str s)]
  | .void => .null

def encLine (l : Line) : Json := .obj [("text", .str l.text), ("tags", Json.ofStrs l.tags)]

def encStatus : Status → String
  | .end => "end" | .done => "done" | .choice => "choice" | .error => "error" | .fuel => "fuel"

def encTranscript (t : Transcript) : Json :=
  .obj [
    ("turns", .arr (t.turns.map (fun u =>
      .obj [("lines", .arr (u.lines.map encLine)), ("choices", .arr (u.choices.map encLine))]))),
    ("status", .str (encStatus t.status)),
    ("errors", Json.ofStrs t.errors),
    ("globals", .obj (t.globals.map (fun (n, v) => (n, encVal v)))),
    ("visits", .obj (t.visits.map (fun (n, c) => (n, .num c))))]

def runLine (line : String) : Json :=
  match Json.parse line.toList with
  | none => .obj [("bad", .str "json")]
  | some doc =>
    match (doc.get? "program").bind decProgram with
    | none => .obj [("bad", .str "program")]
    | some prog =>
      let choices := (arrOf doc "choices").filterMap (fun j => j.asInt?.map Int.toNat)
      let fuel := (((doc.get? "fuel").bind Json.asInt?).map Int.toNat).getD 200000
      encTranscript (play prog choices fuel)

end Ink.Source.Driver

def sourceCmd (path : String) : IO Unit := do
  let text ← IO.FS.readFile path
  let out ← IO.getStdout
  for l in text.splitOn "\n" do
    if !l.trimAscii.isEmpty then
      out.putStrLn (Ink.Source.Driver.runLine l).render
