/-
  Driver/Main.lean — command-line driver of the executable model (`inkmodel`).
    inkmodel audit <story.json>     audit rows of the model (C19 / C14 / C06 tie)
    inkmodel saudit <story.json>    the same rows, tree built by the model of the streaming loader (Ink/StreamLoad.lean)
    inkmodel pathprobe              path texts (JSON strings) on stdin
-/
import Ink.Audit
import Ink.StreamLoad
import Driver.Play
import Driver.Expr
import Ink.Explore
import Ink.RefCheck
import Driver.Cli
import Driver.SourceMain

open Ink

def readFileChars (path : String) : IO (List Char) := do
  let s ← IO.FS.readFile path
  pure s.toList

def auditCmd (path : String) : IO Unit := do
  let cs ← readFileChars path
  let doc := Json.parse cs
  let out ← IO.getStdout
  match Load.loadStory (2 * cs.length + 16) doc with
  | .ok ld =>
    match Audit.rows ld.root (2 * cs.length + 16) with
    | some rows =>
      for r in rows do out.putStrLn r.render
      out.putStrLn (Json.obj [("t", .str "wf"), ("tree", .bool (wfTreeB (2 * cs.length + 16) ld.root))]).render
    | none => out.putStrLn (Json.obj [("t", .str "panic")]).render
  | .err k m => out.putStrLn (Json.obj [("t", .str "loaderr"), ("k", .str k), ("m", .str m)]).render
  | .panic s => out.putStrLn (Json.obj [("t", .str "panic"), ("site", .str s)]).render

/-- `saudit <file>`: the rows of `audit`, the tree being built by the model of the streaming loader. -/
def sauditCmd (path : String) : IO Unit := do
  let cs ← readFileChars path
  let out ← IO.getStdout
  match StreamLoad.load cs with
  | .ok ld =>
    match Audit.rows ld.root (2 * cs.length + 16) with
    | some rows =>
      for r in rows do out.putStrLn r.render
      out.putStrLn (Json.obj [("t", .str "wf"), ("tree", .bool (wfTreeB (2 * cs.length + 16) ld.root))]).render
    | none => out.putStrLn (Json.obj [("t", .str "panic")]).render
  | .err k m => out.putStrLn (Json.obj [("t", .str "loaderr"), ("k", .str k), ("m", .str m)]).render
  | .panic s => out.putStrLn (Json.obj [("t", .str "panic"), ("site", .str s)]).render

def pathProbe (t : String) : Json :=
  let p := Path.parse t.toList
  let built : Path := { comps := p.comps, rel := p.rel }
  .obj (Audit.pathFacts "p" p ++
    [("bs", Audit.jchars built.toText), ("beq", .bool (decide (built = p))),
     ("bheq", .bool (decide (built.hashKey = p.hashKey)))])

partial def pathProbeLoop (h : IO.FS.Stream) (out : IO.FS.Stream) : IO Unit := do
  let line ← h.getLine
  if line.isEmpty then return ()
  match Json.parse line.toList with
  | some (.str t) => out.putStrLn (pathProbe t).render
  | _ => out.putStrLn "null"
  pathProbeLoop h out

/-- `play <script>`: run the op script on the model. Files named by `new` ops are read up front. -/
def playCmd (script : String) : IO Unit := do
  let text ← IO.FS.readFile script
  let out ← IO.getStdout
  let lines := (text.splitOn "\n").filter (fun l => !l.trimAscii.isEmpty)
  let ops := lines.map (fun l => (Json.parse l.toList).getD .null)
  -- preload story files
  let mut files : List (String × List Char) := []
  for op in ops do
    match op with
    | .arr (.str "new" :: .str path :: _) =>
      if !(files.any (fun f => f.1 == path)) then
        let cs ← (try readFileChars path catch _ => pure [])
        files := (path, cs) :: files
    | _ => pure ()
  let readFile := fun (p : String) => (files.find? (fun f => f.1 == p)).map (·.2)
  let mut player : Player := {}
  for op in ops do
    let (res, p') := player.run op readFile
    player := p'
    out.putStrLn res.render

def exploreCmd (path : String) (depth : Nat) (shuffle : Bool) (names : List String) : IO Unit := do
  let text ← IO.FS.readFile path
  let out ← IO.getStdout
  let (log, complete) := Explore.exploreDoc text names shuffle depth 1
  for l in log do out.putStrLn l.render
  out.putStrLn (Json.obj [("complete", .bool complete)]).render

def refcheckCmd (path : String) : IO Unit := do
  let cs ← readFileChars path
  let out ← IO.getStdout
  let fuel := 2 * cs.length + 16
  match Load.loadStory fuel (Json.parse cs) with
  | .ok ld =>
    let bad := RefCheck.badRefs ld.root fuel
    out.putStrLn (Json.obj [("t", .str "refcheck"), ("ok", .bool (RefCheck.storyOk ld.root fuel)),
      ("wf", .bool (wfTreeB fuel ld.root)),
      ("bad", .arr (bad.map (fun b => .arr [Audit.addrJson b.1, .str b.2.1, .str b.2.2])))]).render
  | .err k m => out.putStrLn (Json.obj [("t", .str "loaderr"), ("k", .str k), ("m", .str m)]).render
  | .panic s => out.putStrLn (Json.obj [("t", .str "panic"), ("site", .str s)]).render

/-- `f32 <file>`: one u32 bit pattern per line -> Rust's `Display` of that f32 (validation of Ink/Native F32.display). -/
def f32Cmd (path : String) : IO Unit := do
  let text ← IO.FS.readFile path
  let out ← IO.getStdout
  for l in text.splitOn "\n" do
    match l.trimAscii.toString.toNat? with
    | some n => out.putStrLn (F32.display (Float32.ofBits n.toUInt32))
    | none => pure ()

def main (args : List String) : IO UInt32 := do
  match args with
  | ["play", script] => playCmd script; pure 0
  | ["audit", path] => auditCmd path; pure 0
  | ["saudit", path] => sauditCmd path; pure 0
  | ["expr", path] => exprCmd path; pure 0
  | ["refcheck", path] => refcheckCmd path; pure 0
  | ["source", path] => sourceCmd path; pure 0
  | ["f32", path] => f32Cmd path; pure 0
  | ["cli", path, mode, keep, inputs] => cliCmd path mode keep inputs; pure 0
  | "explore" :: path :: depth :: shuffle :: names => exploreCmd path depth.toNat! (shuffle == "shuffle") names; pure 0
  | ["pathprobe"] => pathProbeLoop (← IO.getStdin) (← IO.getStdout); pure 0
  | _ => IO.eprintln "usage: inkmodel audit <story.json> | pathprobe"; pure 2
