/-
  Driver/Play.lean — the line protocol on the model: one JSON array per line
  (the same script that `rt play` executes on the real code), one JSON result
  per line.  Mirrors harness/src/lib.rs `Player::exec`.
-/
import Ink.Api
import Ink.Save

open Ink

structure Player where
  story : Option Story := none
  slots : List (String × String) := []
  globals : List String := []
  counted : List String := []
  seed : Int := 0
  /-- names that have (had) an observer, polled around story-running calls -/
  observed : List String := []
  /-- values polled when the last story-running call started outside a sliced continue -/
  polled : List (String × Json) := []

namespace Player

def resOk (v : Json) : Json := .obj [("r", .str "ok"), ("v", v)]
def resErr (k m : String) : Json := .obj [("r", .str "err"), ("k", .str k), ("m", .str m)]
def resPanic (site : String) : Json := .obj [("r", .str "panic"), ("m", .str site)]
def resUnsupported : Json := .obj [("r", .str "unsupported")]

def ofOut {α : Type} (f : α → Json) : Out α → Json
  | .ok a => resOk (f a)
  | .err k m => resErr k m
  | .panic p => resPanic p

def jStrs (l : List String) : Json := .arr (l.map .str)

def choicesJson (cs : List Choice) : Json :=
  .arr (cs.map (fun c => .obj [("text", .str c.text), ("tags", jStrs c.tags), ("index", .num c.index)]))

/-- decode a harness value; `none` = not a supported kind -/
def decVal (j : Json) : Option Val :=
  match Json.get? j "b", Json.get? j "i", Json.get? j "f", Json.get? j "s" with
  | some (.bool b), _, _, _ => some (.bool b)
  | _, some (.num i), _, _ => some (.int (wrapI32 i))
  | _, _, some (.num bits), _ => some (.float (Float32.ofBits bits.toNat.toUInt32))
  | _, _, _, some (.str t) => some (.str t)
  | _, _, _, _ => none

def optValJson : Option Val → Json
  | some v => encVal v
  | none => .null

def optStrJson : Option String → Json
  | some s => .str s
  | none => .null

/-- everything a host can observe without changing the story -/
def observe (p : Player) (st : Story) : Json :=
  let text : Json := match st.getCurrentText with | .ok t => .str t | _ => .null
  let tags : Json := match st.getCurrentTags with | .ok t => jStrs t | _ => .null
  let (cs, _) := st.currentChoices
  .obj [("can", .bool st.canContinue), ("text", text), ("tags", tags), ("choices", choicesJson cs),
        ("vars", .obj (p.globals.map (fun g => (g, optValJson (st.getVariableHost g))))),
        ("counts", .obj (p.counted.map (fun c => (c, match st.visitCountAtPathString c with
          | .ok n => .num n
          | _ => .num (-999))))),
        ("errors", jStrs st.core.errors), ("warnings", jStrs st.state.warnings),
        ("async", .bool st.asyncActive),
        ("path", match st.currentPath with | some (some s) => .str s | _ => .null)]

def newStory (p : Player) (text : List Char) : Json × Player :=
  let doc := Json.parse text
  match Load.loadStory (2 * text.length + 16) doc with
  | .ok ld =>
    match Story.create ld p.seed with
    | .ok st => (resOk .null, { p with story := some st })
    | .err k m => (resErr k m, { p with story := none })
    | .panic s => (resPanic s, { p with story := none })
  | .err k m => (resErr k m, { p with story := none })
  | .panic s => (resPanic s, { p with story := none })

def argStr (a : List Json) (i : Nat) : String := match a[i]? with | some (.str s) => s | _ => ""
def argInt (a : List Json) (i : Nat) : Int := match a[i]? with | some (.num n) => n | _ => 0
def argBool (a : List Json) (i : Nat) : Bool := match a[i]? with | some (.bool b) => b | _ => false
def argVals (a : List Json) (i : Nat) : List (Option Val) :=
  match a[i]? with
  | some (.arr xs) => (xs.filterMap decVal).map some
  | _ => []

/-- attach the events of the call (oldest first) and clear them -/
def finish (p : Player) (res : Json) (st : Story) : Json × Player :=
  let evs := st.events.reverse
  let res' := match res, evs with
    | .obj kvs, _ :: _ => Json.obj (kvs ++ [("ev", .arr evs)])
    | r, _ => r
  (res', { p with story := some { st with events := [] } })

/-- execute one op (see `run` for the event filter applied around it) -/
def exec (p : Player) (op : Json) (readFile : String → Option (List Char)) : Json × Player :=
  let a : List Json := match op with | .arr xs => xs | _ => []
  let name := argStr a 0
  if name == "new" then
    match readFile (argStr a 1) with
    | some cs => p.newStory cs
    | none => p.newStory []
  else if name == "newtext" then p.newStory (argStr a 1).toList
  else if name == "globals" then (resOk .null, { p with globals := (a.drop 1).filterMap Json.asStr? })
  else if name == "counted" then (resOk .null, { p with counted := (a.drop 1).filterMap Json.asStr? })
  else match p.story with
  | none => (.obj [("r", .str "nostory")], p)
  | some st =>
    if name == "observe_all" then
      -- reading the choices renumbers them in the story (as `get_current_choices` does)
      (resOk (p.observe st), { p with story := some (st.currentChoices).2 })
    else if name == "handler" then p.finish (resOk .null) { st with handler := true }
    else if name == "fallbacks" then p.finish (resOk .null) { st with allowFallbacks := argBool a 1 }
    else if name == "seed" then
      let sd := wrapI32 (argInt a 1)
      let pr := wrapI32 (argInt a 2)
      p.finish (resOk .null) (st.mapCore (fun c => { c with storySeed := sd, previousRandom := pr }))
    else if name == "getseed" then (resOk (.arr [.num st.core.storySeed, .num st.core.previousRandom]), p)
    else if name == "fuel" then
      p.finish (resOk .null) { st with fuel := if argInt a 1 < 0 then none else some (argInt a 1).toNat }
    else if name == "stepclock" then p.finish (resOk .null) { st with stepClock := argBool a 1 }
    else if name == "can" then (resOk (.bool st.canContinue), p)
    else if name == "cont" then
      match st.cont with
      | (.ok t, st1) => p.finish (resOk (.str t)) { st1 with lines := st1.lines + 1 }
      | (.err k m, st1) => p.finish (resErr k m) st1
      | (.panic s, st1) => p.finish (resPanic s) st1
    else if name == "contasync" then
      let n := argInt a 1
      match st.continueAsync (if n > 0 then some n.toNat else none) with
      | (.ok (), st1) =>
        let done := !st1.asyncActive
        p.finish (resOk (.bool done)) (if done then { st1 with lines := st1.lines + 1 } else st1)
      | (.err k m, st1) => p.finish (resErr k m) st1
      | (.panic s, st1) => p.finish (resPanic s) st1
    else if name == "maximally" then
      match st.continueMaximally with
      | (r, st1) => p.finish (ofOut Json.str r) st1
    else if name == "text" then (ofOut Json.str st.getCurrentText, p)
    else if name == "tags" then (ofOut jStrs st.getCurrentTags, p)
    else if name == "choices" then
      let (cs, st1) := st.currentChoices
      p.finish (resOk (choicesJson cs)) st1
    else if name == "choose" then
      if argInt a 1 < 0 then (.obj [("r", .str "badop")], p) else
      match st.chooseChoiceIndex (argInt a 1).toNat with
      | (r, st1) => p.finish (ofOut (fun _ => Json.null) r) st1
    else if name == "path" then
      match st.choosePathString (argStr a 1) (argBool a 2) (argVals a 3) with
      | (r, st1) => p.finish (ofOut (fun _ => Json.null) r) st1
    else if name == "getvar" then (resOk (optValJson (st.getVariableHost (argStr a 1))), p)
    else if name == "setvar" then
      match (a[2]?).bind decVal with
      | some v => match st.setVariable (argStr a 1) v with
        | (r, st1) => p.finish (ofOut (fun _ => Json.null) r) st1
      | none => (.obj [("r", .str "badop")], p)
    else if name == "visit" then (ofOut Json.num (st.visitCountAtPathString (argStr a 1)), p)
    else if name == "curpath" then
      match st.currentPath with
      | some r => (resOk (optStrJson r), p)
      | none => (resPanic "object.rs:get_path", p)
    else if name == "save" then
      match Save.saveState st with
      | .ok j => (resOk .null, { p with slots := alSet p.slots (argStr a 1) j.render })
      | .err k m => (resErr k m, p)
      | .panic s => (resPanic s, p)
    else if name == "savejson" then (ofOut id (Save.saveState st), p)
    else if name == "load" then
      match alGet p.slots (argStr a 1) with
      | none => (.obj [("r", .str "badop")], p)
      | some text =>
        match Save.loadState st (Json.parse text.toList) with
        | (r, st1) => p.finish (ofOut (fun _ => Json.null) r) st1
    else if name == "loadbad" then
      match alGet p.slots (argStr a 1) with
      | none => (.obj [("r", .str "badop")], p)
      | some text =>
        let k := argStr a 2
        let bad := text.replace ("\"" ++ k ++ "\":") ("\"" ++ k ++ "\":\"zero\",\"x-" ++ k ++ "\":")
        match Save.loadState st (Json.parse bad.toList) with
        | (r, st1) => p.finish (ofOut (fun _ => Json.null) r) st1
    else if name == "loadtext" then
      match Save.loadState st (Json.parse (argStr a 1).toList) with
      | (r, st1) => p.finish (ofOut (fun _ => Json.null) r) st1
    else if name == "reset" then
      match st.resetState p.seed with
      | (r, st1) => p.finish (ofOut (fun _ => Json.null) r) st1
    else if name == "switch" then
      match st.switchFlow (argStr a 1) with
      | (r, st1) => p.finish (ofOut (fun _ => Json.null) r) st1
    else if name == "default" then p.finish (resOk .null) st.switchToDefaultFlow
    else if name == "remove" then
      match st.removeFlow (argStr a 1) with
      | (r, st1) => p.finish (ofOut (fun _ => Json.null) r) st1
    else if name == "eval" then
      match st.evaluateFunction (argStr a 1) (argVals a 2) with
      | (r, st1) => p.finish (ofOut (fun (rv : Option Val × String) =>
          Json.obj [("ret", optValJson rv.1), ("text", .str rv.2)]) r) st1
    else if name == "observe" then
      match st.observeVariable (argStr a 1) (argStr a 2) with
      | (r, st1) =>
        let p' := match r with
          | .ok _ => { p with observed := if p.observed.contains (argStr a 1) then p.observed else p.observed ++ [argStr a 1] }
          | _ => p
        p'.finish (ofOut (fun _ => Json.null) r) st1
    else if name == "unobserve" then
      let var : Option String := match a[2]? with | some (Json.str s) => some s | _ => none
      match st.removeVariableObserver (argStr a 1) var with
      | (r, st1) => p.finish (ofOut (fun _ => Json.null) r) st1
    else if name == "bind" then
      let d : ExtDef := { id := argStr a 2, safe := argBool a 3, ret := (a[4]?).getD .null, calls := 0 }
      match st.bindExternal (argStr a 1) d with
      | (r, st1) => p.finish (ofOut (fun _ => Json.null) r) st1
    else if name == "unbind" then
      match st.unbindExternal (argStr a 1) with
      | (r, st1) => p.finish (ofOut (fun _ => Json.null) r) st1
    else if name == "errors" then (resOk (jStrs st.core.errors), p)
    else if name == "warnings" then (resOk (jStrs st.state.warnings), p)
    else if name == "haserror" then (resOk (.bool st.state.hasError), p)
    else if name == "gtags" then (ofOut jStrs (st.tagsAtPath ""), p)
    else if name == "tagsat" then (ofOut jStrs (st.tagsAtPath (argStr a 1)), p)
    else if name == "quiescence" then
      (resOk (.obj [("rec", .num st.recCount), ("async", .bool st.asyncActive),
                    ("snapshot", .bool st.snapshot.isSome), ("unsafe", .bool st.sawUnsafe),
                    ("tmp", .bool false)]), p)
    else (.obj [("r", .str "badop")], p)

/-- Execute one op as the harness does: observer notifications of a
    story-running call whose value equals the value polled before the call are
    dropped (the engine records "changed" by `Rc` identity, which the model does
    not have; the property only speaks about values that differ). -/
def run (p : Player) (op : Json) (readFile : String → Option (List Char)) : Json × Player :=
  let name := match op with | .arr (.str n :: _) => n | _ => ""
  let runsStory := ["cont", "contasync", "maximally", "eval", "reset", "path", "choose"].contains name
  let p : Player := match p.story with
    | some st =>
      if runsStory && !st.asyncActive then
        { p with polled := p.observed.map (fun v => (v, optValJson (st.getVariableHost v))) }
      else p
    | none => p
  let before := p.polled
  let (res, p') := p.exec op readFile
  if !runsStory then (res, p')
  else
    let keep (e : Json) : Bool := match e with
      | .arr [.str "obs", _, .str n, v] =>
        (match alGet before n with
        | some b => !(b == v)
        | none => true)
      | _ => true
    let res' := match res with
      | .obj kvs =>
        let kvs' := kvs.filterMap (fun kv =>
          if kv.1 == "ev" then
            (match kv.2 with
            | .arr evs =>
              let evs' := evs.filter keep
              if evs'.isEmpty then none else some ("ev", Json.arr evs')
            | other => some ("ev", other))
          else some kv)
        Json.obj kvs'
      | r => r
    (res', p')

end Player
