/-
  Driver/Expr.lean — `inkmodel expr <file>`: first line = declarations
  {"defs":[[list,[[item,value],..]],..],"vars":[[name,ast],..]}, every further line
  one expression tree; prints the value each denotes (Ink/Expr.lean).
-/
import Ink.Expr
import Ink.Step

namespace Ink

def jsonToExpr (fuel : Nat) (j : Json) : Option Expr :=
  match fuel with
  | 0 => none
  | fuel + 1 =>
    match j with
    | .arr [.str "i", .num n] => some (.lit (.int n))
    | .arr [.str "f", .num bits] => some (.lit (.float (Float32.ofBits bits.toNat.toUInt32)))
    | .arr [.str "b", .bool b] => some (.lit (.bool b))
    | .arr [.str "s", .str s] => some (.lit (.str s))
    | .arr [.str "var", .str n] => some (.var n)
    | .arr [.str "list", .arr items, .arr inits] =>
      let its := items.filterMap (fun it => match it with
        | .arr [.str o, .str n, .num v] => some (({ origin := some o, name := n } : ListItem), v)
        | _ => none)
      let ins := inits.filterMap (fun x => match x with | .str s => some s | _ => none)
      some (.lit (.list { items := its, origins := [], initialOrigins := ins }))
    | .arr [.str "un", .str op, e] => do
      let o ← Op.ofName op
      let e' ← jsonToExpr fuel e
      some (.un o e')
    | .arr [.str "bin", .str op, l, r] => do
      let o ← Op.ofName op
      let l' ← jsonToExpr fuel l
      let r' ← jsonToExpr fuel r
      some (.bin o l' r')
    | .arr [.str "fromint", .str ln, e] => do
      let e' ← jsonToExpr fuel e
      some (.fromInt ln e')
    | .arr [.str "range", l, a, b] => do
      let l' ← jsonToExpr fuel l
      let a' ← jsonToExpr fuel a
      let b' ← jsonToExpr fuel b
      some (.range l' a' b')
    | _ => none

def parseDefs (j : Json) : ListDefs :=
  match j with
  | .arr ds => ds.filterMap (fun d => match d with
    | .arr [.str name, .arr items] =>
      some (name, items.filterMap (fun it => match it with
        | .arr [.str n, .num v] => some (n, v)
        | _ => none))
    | _ => none)
  | _ => []

def outJson (o : Out Val) : Json :=
  match o with
  | .ok v => .obj [("r", .str "ok"), ("v", encVal v), ("t", .str v.display)]
  | .err k m => .obj [("r", .str "err"), ("k", .str k), ("m", .str m)]
  | .panic s => .obj [("r", .str "panic"), ("site", .str s)]

def exprCmd (path : String) : IO Unit := do
  let text ← IO.FS.readFile path
  let out ← IO.getStdout
  let lines := (text.splitOn "\n").filter (fun l => !l.trimAscii.isEmpty)
  match lines with
  | [] => pure ()
  | h :: rest =>
    let hj := (Json.parse h.toList).getD .null
    let defs := parseDefs ((hj.get? "defs").getD .null)
    let mut env : List (String × Val) := []
    match (hj.get? "vars").getD .null with
    | .arr vs =>
      for v in vs do
        match v with
        | .arr [.str n, e] =>
          match (jsonToExpr 1000 e).map (Expr.eval defs env) with
          | some (.ok val) => env := env ++ [(n, val)]
          | _ => pure ()
        | _ => pure ()
    | _ => pure ()
    for l in rest do
      match (Json.parse l.toList).bind (jsonToExpr 1000) with
      | some e => out.putStrLn (outJson (Expr.eval defs env e)).render
      | none => out.putStrLn "{\"r\":\"badexpr\"}"

end Ink
