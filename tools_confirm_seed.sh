#!/bin/bash
# tools_confirm_seed.sh <seed-dir>: confirm a seeded change in a scratch worktree of /repo:
#  it applies, the workspace builds, both test commands pass with it, the demo fails with it and passes without it.
# Appends the commands / results to <seed-dir>/confirmed.txt. Removes the worktree afterwards.
set -u
d=$(readlink -f "$1"); id=$(basename "$d"); W=/tmp/confirm-$id
export CARGO_NET_OFFLINE=true CARGO_TARGET_DIR=$W/target
out=$d/confirmed.txt; : > $out
git -C /repo worktree add --detach $W >/dev/null 2>&1 || { echo "worktree failed"; exit 2; }
cd $W
git apply $d/patch.diff && echo "git apply patch.diff: ok" >> $out || { echo "patch does not apply" >> $out; git -C /repo worktree remove --force $W; exit 1; }
mkdir -p SEED && cp -r $d/demo SEED/demo && cp Cargo.lock SEED/demo/Cargo.lock 2>/dev/null
t=$(cargo test --workspace --no-fail-fast --offline 2>&1 | grep -E "^test result" | awk '{p+=$4; f+=$6} END {print p" passed, "f" failed"}')
echo "with patch: cargo test --workspace --no-fail-fast --offline: $t" >> $out
t2=$(cargo test -p bladeink --features stream-json-parser --offline 2>&1 | grep -E "^test result" | awk '{p+=$4; f+=$6} END {print p" passed, "f" failed"}')
echo "with patch: cargo test -p bladeink --features stream-json-parser --offline: $t2" >> $out
(cd SEED/demo && cargo run --offline -q > $W/demo1.out 2>&1; echo "with patch: demo exit status $? ; $(tail -c 300 $W/demo1.out | tr '\n' ' ')" >> $out)
git apply -R $d/patch.diff
(cd SEED/demo && cargo run --offline -q > $W/demo2.out 2>&1; echo "without patch: demo exit status $? ; $(tail -c 200 $W/demo2.out | tr '\n' ' ')" >> $out)
cd /; git -C /repo worktree remove --force $W
cat $out
