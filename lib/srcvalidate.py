#!/usr/bin/env python3
"""validate.py [--n N] [--depth D] [--seed S] [--size Z] [--breadth B] [--max-paths P]
               [--on shape,...] [--off shape,...] [--no-shrink] [--corpus] [--show-compile]

For N generated programs: render, compile with the repo compiler (`rt compile`), then for
all choice sequences up to depth D (at most B choices tried per choice point, at most P
paths per program) play on the real runtime (`rt play`) and on the source-level reference
interpreter (`inkmodel source`), bring both to the same transcript shape and compare.

Prints a summary (programs, paths, agreeing paths) and, for each program with a disagreement,
a minimised reproducer with both transcripts.  `--corpus` replays the regression corpus
(corpus/*.json: minimised ASTs of past disagreements and hand-written cases) instead of
generating.
"""
import argparse
import copy
import glob
import json
import os
import subprocess
import sys
import time

from lib import common
from lib import srcplay as realplay
from gen import srcgen

HERE = os.path.join(common.ROOT, "corpus", "c01")
INKMODEL = common.INKMODEL
TMP = realplay.TMP


# ---------------------------------------------------------------------------- both sides

def run_model(ast, paths):
    """Transcripts of the reference interpreter for the given choice sequences."""
    job = os.path.join(TMP, f"job_{os.getpid()}.jsonl")
    with open(job, "w") as f:
        for p in paths:
            f.write(json.dumps({"program": ast, "choices": p}) + "\n")
    lines = []
    for attempt in range(3):
        # (a run that gives fewer lines than jobs is repeated: the driver is deterministic, so this only
        #  absorbs a process that was killed or could not start on a loaded machine)
        try:
            r = subprocess.run([INKMODEL, "source", job], capture_output=True, text=True, timeout=600)
            lines = [l for l in r.stdout.split("\n") if l.strip()]
        except (subprocess.TimeoutExpired, OSError):
            lines = []
        if len(lines) >= len(paths):
            break
        time.sleep(1 + attempt)
    out = []
    for i in range(len(paths)):
        try:
            out.append(json.loads(lines[i]))
        except Exception:
            out.append({"bad": "no output"})
    return out


def canon_model(t):
    """Model transcript -> the comparison shape."""
    if "bad" in t:
        return {"status": "bad:" + str(t["bad"])}
    status = {"end": "end", "done": "end"}.get(t["status"], t["status"])
    return {"turns": t["turns"], "status": status, "errors": t["errors"],
            "globals": t["globals"], "visits": t["visits"]}


def canon_real(t):
    return {"turns": t["turns"], "status": t["status"], "errors": t["errors"],
            "globals": t["globals"], "visits": t["visits"]}


def explore_real(rp, story, meta, depth, breadth, max_paths):
    """All choice sequences up to `depth` (bounded), with the real transcripts."""
    out = []
    stack = [[]]
    while stack and len(out) < max_paths:
        path = stack.pop()
        t = rp.play(story, path, meta["globals"], meta["counted"])
        out.append((path, t))
        if t["status"] == "choice" and len(path) < depth:
            n = len(t["turns"][-1]["choices"])
            for i in reversed(range(min(n, breadth))):
                stack.append(path + [i])
    return out


def diff(a, b):
    """First difference between two canonical transcripts, as text (or None)."""
    if a.get("status") == "fuel" or b.get("status") == "fuel":
        return None
    for key in ("turns", "status", "errors", "globals", "visits"):
        if a.get(key) != b.get(key):
            if key == "turns":
                ta, tb = a.get("turns") or [], b.get("turns") or []
                for i in range(max(len(ta), len(tb))):
                    x = ta[i] if i < len(ta) else None
                    y = tb[i] if i < len(tb) else None
                    if x != y:
                        return f"turn {i}: real={json.dumps(x)} model={json.dumps(y)}"
            return f"{key}: real={json.dumps(a.get(key))} model={json.dumps(b.get(key))}"
    return None


class Checker:
    def __init__(self, depth=4, breadth=3, max_paths=60):
        self.rp = realplay.RealPlayer()
        self.depth, self.breadth, self.max_paths = depth, breadth, max_paths

    def close(self):
        self.rp.close()

    def check(self, ast, only_paths=None):
        """-> {"compile": err|None, "paths": n, "agree": n, "fuel": n, "bad": [(path, real, model, why)]}"""
        src = srcgen.render(ast)
        story, err = realplay.compile_ink(src)
        res = {"compile": err, "paths": 0, "agree": 0, "fuel": 0, "bad": [], "src": src}
        if err:
            return res
        meta = srcgen.meta(ast)
        if only_paths is not None:
            reals = [(p, self.rp.play(story, p, meta["globals"], meta["counted"])) for p in only_paths]
        else:
            reals = explore_real(self.rp, story, meta, self.depth, self.breadth, self.max_paths)
        models = run_model(ast, [p for p, _ in reals])
        for (path, rt), mt in zip(reals, models):
            a, b = canon_real(rt), canon_model(mt)
            res["paths"] += 1
            if a["status"] == "fuel" or b["status"] == "fuel":
                res["fuel"] += 1
                continue
            why = diff(a, b)
            if why is None:
                res["agree"] += 1
            else:
                res["bad"].append((path, a, b, why))
        return res


# ---------------------------------------------------------------------------- shrinking

def _lists_of_stmts(ast):
    """Yield every statement list in the program (mutable references)."""
    def from_stmts(ss):
        yield ss
        for s in ss:
            if s[0] == "cond":
                for br in s[1]:
                    yield from from_stmts(br[1])
                yield from from_stmts(s[2])

    def from_weave(w):
        for sec in w:
            yield from from_stmts(sec["stmts"])
            for c in sec["choices"]:
                yield from from_weave(c["body"])

    yield from from_weave(ast["root"])
    for k in ast["knots"]:
        yield from from_weave(k["body"])
        for st in k.get("stitches", []):
            yield from from_weave(st["body"])


def _weaves(ast):
    def from_weave(w):
        yield w
        for sec in w:
            for c in sec["choices"]:
                yield from from_weave(c["body"])
    yield from from_weave(ast["root"])
    for k in ast["knots"]:
        yield from from_weave(k["body"])
        for st in k.get("stitches", []):
            yield from from_weave(st["body"])


def _inline_lists(ast):
    def from_inl(parts):
        yield parts
        for p in parts:
            if p[0] == "if":
                yield from from_inl(p[2])
                yield from from_inl(p[3])
            elif p[0] == "seq":
                for a in p[3]:
                    yield from from_inl(a)
    for ss in _lists_of_stmts(ast):
        for s in ss:
            if s[0] == "line":
                yield from from_inl(s[1])
    for w in _weaves(ast):
        for sec in w:
            for c in sec["choices"]:
                for key in ("start", "bracket", "end"):
                    yield from from_inl(c[key])


def candidates(ast):
    """Smaller variants of the program, roughly biggest cuts first (generated lazily)."""
    # drop a knot / stitch
    for i in range(len(ast["knots"])):
        a = copy.deepcopy(ast)
        del a["knots"][i]
        yield a
    for i, k in enumerate(ast["knots"]):
        for j in range(len(k.get("stitches", []))):
            a = copy.deepcopy(ast)
            del a["knots"][i]["stitches"][j]
            yield a
    # drop a choice / empty a choice body / drop a section
    n = len(list(_weaves(ast)))
    for wi in range(n):
        w = list(_weaves(ast))[wi]
        for si, sec in enumerate(w):
            for ci in range(len(sec["choices"])):
                a = copy.deepcopy(ast)
                del list(_weaves(a))[wi][si]["choices"][ci]
                yield a
                if sec["choices"][ci]["body"]:
                    a = copy.deepcopy(ast)
                    list(_weaves(a))[wi][si]["choices"][ci]["body"] = []
                    yield a
                c = sec["choices"][ci]
                for key in ("cond", "label"):
                    if c.get(key) is not None:
                        a = copy.deepcopy(ast)
                        list(_weaves(a))[wi][si]["choices"][ci][key] = None
                        yield a
            if len(w) > 1:
                a = copy.deepcopy(ast)
                del list(_weaves(a))[wi][si]
                yield a
            if sec.get("label") and si > 0:
                a = copy.deepcopy(ast)
                list(_weaves(a))[wi][si]["label"] = None
                yield a
    # drop a statement / replace a conditional by one of its bodies
    n = len(list(_lists_of_stmts(ast)))
    for li in range(n):
        ss = list(_lists_of_stmts(ast))[li]
        for si in range(len(ss)):
            a = copy.deepcopy(ast)
            del list(_lists_of_stmts(a))[li][si]
            yield a
            if ss[si][0] == "cond":
                for body in [br[1] for br in ss[si][1]] + [ss[si][2]]:
                    a = copy.deepcopy(ast)
                    l = list(_lists_of_stmts(a))[li]
                    l[si:si + 1] = copy.deepcopy(body)
                    yield a
    # drop / simplify inline parts
    n = len(list(_inline_lists(ast)))
    for li in range(n):
        parts = list(_inline_lists(ast))[li]
        for pi in range(len(parts)):
            a = copy.deepcopy(ast)
            del list(_inline_lists(a))[li][pi]
            yield a
            if parts[pi][0] == "if":
                for repl in (parts[pi][2], parts[pi][3]):
                    a = copy.deepcopy(ast)
                    l = list(_inline_lists(a))[li]
                    l[pi:pi + 1] = copy.deepcopy(repl)
                    yield a
            if parts[pi][0] == "seq":
                for alt in parts[pi][3]:
                    a = copy.deepcopy(ast)
                    l = list(_inline_lists(a))[li]
                    l[pi:pi + 1] = copy.deepcopy(alt)
                    yield a
            if parts[pi][0] == "t" and " " in parts[pi][1].strip():
                a = copy.deepcopy(ast)
                t = parts[pi][1]
                lead = t[:len(t) - len(t.lstrip(" "))]
                trail = t[len(t.rstrip(" ")):]
                list(_inline_lists(a))[li][pi] = ["t", lead + t.strip().split(" ")[0] + trail]
                yield a
    # drop a global
    for i in range(len(ast["globals"])):
        a = copy.deepcopy(ast)
        del a["globals"][i]
        yield a


def category(why):
    return why.split(":")[0].split(" ")[0]


def shrink(checker, ast, path, why, budget=600):
    """Greedy minimisation: keep any smaller variant that still compiles and still disagrees
    (in the same part of the transcript)."""
    cur = ast
    cur_path = path
    cat = category(why)
    tries = 0
    improved = True
    while improved and tries < budget:
        improved = False
        for cand in candidates(cur):
            if not srcgen.wellformed(cand):
                continue
            tries += 1
            if tries > budget:
                break
            r = checker.check(cand, only_paths=[cur_path])
            if r["compile"]:
                continue
            bad = [b for b in r["bad"] if category(b[3]) == cat]
            if not bad:
                # the path may have shifted: look at all paths of the smaller program
                r = checker.check(cand)
                bad = [b for b in r["bad"] if category(b[3]) == cat]
                if r["compile"] or not bad:
                    continue
            cur = cand
            cur_path = bad[0][0]
            improved = True
            break
    return cur, cur_path


def report_bad(ast, res, out=sys.stdout):
    path, a, b, why = res["bad"][0]
    print("  choices:", path, file=out)
    print("  first difference:", why, file=out)
    print("  --- source", file=out)
    for l in srcgen.render(ast).splitlines():
        print("  | " + l, file=out)
    print("  --- real pipeline", file=out)
    print(realplay.show(a), file=out)
    print("  --- reference interpreter", file=out)
    print(realplay.show(b), file=out)


def main():
    ap = argparse.ArgumentParser()
    ap.add_argument("--n", type=int, default=50)
    ap.add_argument("--depth", type=int, default=4)
    ap.add_argument("--seed", type=int, default=1)
    ap.add_argument("--size", type=int, default=0, help="0: sizes 1..4 in turn")
    ap.add_argument("--breadth", type=int, default=3)
    ap.add_argument("--max-paths", type=int, default=60)
    ap.add_argument("--on", default="")
    ap.add_argument("--off", default="")
    ap.add_argument("--no-shrink", action="store_true")
    ap.add_argument("--corpus", action="store_true")
    ap.add_argument("--show-compile", action="store_true")
    ap.add_argument("--max-report", type=int, default=8)
    ap.add_argument("--shrink-budget", type=int, default=600)
    ap.add_argument("--save", default="", help="directory to save minimised disagreements (AST json)")
    args = ap.parse_args()
    on = [x for x in args.on.split(",") if x]
    off = [x for x in args.off.split(",") if x]
    ck = Checker(args.depth, args.breadth, args.max_paths)
    t0 = time.time()
    tot = {"programs": 0, "compile_fail": 0, "paths": 0, "agree": 0, "fuel": 0, "bad_programs": 0, "bad_paths": 0}
    compile_errors = {}
    reported = 0
    if args.corpus:
        items = []
        for f in sorted(glob.glob(os.path.join(HERE, "corpus", "*.json"))):
            doc = json.load(open(f))
            items.append((os.path.basename(f), doc["program"], doc.get("expect", "agree")))
    else:
        items = []
        for i in range(args.n):
            seed = args.seed + i
            size = args.size or (1 + i % 4)
            items.append((f"seed={seed} size={size}", None, "agree"))
    for name, ast, expect in items:
        if ast is None:
            seed = int(name.split()[0].split("=")[1])
            size = int(name.split()[1].split("=")[1])
            try:
                ast = srcgen.generate(seed, size, on=on, off=off)
            except Exception as e:  # generator bug
                print("GENERATOR EXCEPTION", name, repr(e))
                continue
        tot["programs"] += 1
        res = ck.check(ast)
        if res["compile"]:
            tot["compile_fail"] += 1
            key = res["compile"][:80]
            compile_errors.setdefault(key, []).append(name)
            if args.show_compile:
                print("COMPILE FAIL", name, res["compile"])
            continue
        tot["paths"] += res["paths"]
        tot["agree"] += res["agree"]
        tot["fuel"] += res["fuel"]
        if res["bad"]:
            tot["bad_programs"] += 1
            tot["bad_paths"] += len(res["bad"])
            if args.corpus and expect != "agree":
                print(f"[known deviation: {expect}] {name}: {len(res['bad'])}/{res['paths']} paths differ")
                continue
            if reported < args.max_report:
                reported += 1
                print(f"DISAGREEMENT {name}: {len(res['bad'])} of {res['paths']} paths")
                if args.no_shrink:
                    report_bad(ast, res)
                else:
                    small, p = shrink(ck, ast, res["bad"][0][0], res["bad"][0][3], args.shrink_budget)
                    r2 = ck.check(small, only_paths=[p])
                    if not r2["bad"]:
                        r2 = ck.check(small)
                    if r2["bad"]:
                        print("  minimised reproducer:")
                        report_bad(small, r2)
                        if args.save:
                            os.makedirs(args.save, exist_ok=True)
                            fn = os.path.join(args.save, name.replace(" ", "_").replace("=", "") + ".json")
                            json.dump({"program": small, "choices": r2["bad"][0][0], "why": r2["bad"][0][3]},
                                      open(fn, "w"))
                    else:
                        report_bad(ast, res)
            else:
                print(f"DISAGREEMENT {name}: {len(res['bad'])} of {res['paths']} paths (not shown): {res['bad'][0][3][:160]}")
        elif args.corpus and expect != "agree":
            print(f"[expected deviation no longer seen: {expect}] {name}")
    ck.close()
    print("=" * 70)
    print(f"programs: {tot['programs']}  (did not compile: {tot['compile_fail']})")
    print(f"paths played: {tot['paths']}  agreeing: {tot['agree']}  disagreeing: {tot['bad_paths']}  "
          f"undecided (fuel): {tot['fuel']}")
    print(f"programs with a disagreement: {tot['bad_programs']}")
    if compile_errors:
        print("compile failures by message:")
        for k, v in sorted(compile_errors.items(), key=lambda kv: -len(kv[1])):
            print(f"  {len(v):4d}  {k}   e.g. {v[0]}")
    print(f"time: {time.time() - t0:.1f}s")


if __name__ == "__main__":
    main()
