"""Driving the REAL pipeline (repo compiler + runtime through the harness binary `rt`).

    compile_ink(src)                      -> (story_json_path | None, error | None)
    RealPlayer().play(story, choices, globals, counted) -> transcript (canonical shape)

The canonical transcript shape (shared with the Lean reference interpreter, see
Ink/Source.lean `Transcript`):

    {"turns":  [{"lines": [{"text": str, "tags": [str]}], "choices": [{"text": str, "tags": [str]}]}],
     "status": "end" | "choice" | "error" | "fuel",
     "errors": [kind],          kinds: ran_out | div_zero | tunnel_end | other:<msg>
     "globals": {name: {"i": n} | {"b": bool} | {"s": str}},
     "visits": {path: n}}

One turn = one "continue maximally"; the last turn has the choices that were on
offer when the play stopped (empty when the story ended).
"""
import hashlib
import json
import os
import re
import subprocess

from lib import common

RT = common.rt_bin()
TMP = os.path.join(common.CACHE, "c01tmp")
os.makedirs(TMP, exist_ok=True)

MAX_LINES_PER_TURN = 400


def compile_ink(src, tag=None):
    """Compile Ink text with the repo compiler. Returns (json_path, None) or (None, error-text)."""
    h = tag or hashlib.sha1(src.encode()).hexdigest()[:16]
    ink = os.path.join(TMP, f"p_{h}.ink")
    out = os.path.join(TMP, f"p_{h}.json")
    with open(ink, "w") as f:
        f.write(src)
    r = subprocess.run([RT, "compile", ink], capture_output=True, text=True, timeout=60)
    text = r.stdout.strip()
    try:
        doc = json.loads(text)
    except Exception:
        return None, "unparsable compiler output: " + text[:200] + r.stderr[:200]
    if "err" in doc and "root" not in doc:
        return None, "err: " + str(doc["err"])
    if "panic" in doc and "root" not in doc:
        return None, "panic: " + str(doc["panic"])
    with open(out, "w") as f:
        f.write(text)
    return out, None


def classify_error(msg):
    m = msg.lower()
    if "ran out of content" in m:
        return "ran_out"
    if "divi" in m and "zero" in m:
        return "div_zero"
    if "unexpectedly reached end of content" in m and "tunnel" in m:
        return "tunnel_end"
    return "other:" + msg[:120]


class RealPlayer:
    def __init__(self):
        self.p = None
        self._start()

    def _start(self):
        self.p = subprocess.Popen([RT, "play", "-"], stdin=subprocess.PIPE, stdout=subprocess.PIPE,
                                  text=True, bufsize=1)

    def send(self, op):
        try:
            self.p.stdin.write(json.dumps(op, ensure_ascii=False) + "\n")
            self.p.stdin.flush()
            line = self.p.stdout.readline()
        except BrokenPipeError:
            line = ""
        if not line:
            self.close()
            self._start()
            return {"r": "abort"}
        try:
            return json.loads(line)
        except Exception:
            return {"r": "unparsable", "line": line[:200]}

    def close(self):
        try:
            self.p.stdin.close()
        except Exception:
            pass
        try:
            self.p.wait(timeout=5)
        except Exception:
            self.p.kill()

    def play(self, story_path, choices, globals_=(), counted=(), fuel=20000):
        """Play one path. Returns the canonical transcript."""
        t = {"turns": [], "status": None, "errors": [], "globals": {}, "visits": {}}
        r = self.send(["new", story_path])
        if r.get("r") != "ok":
            t["status"] = "loaderr"
            t["errors"].append("other:" + json.dumps(r)[:200])
            return t
        self.send(["seed", 1, 0])
        self.send(["fuel", fuel])
        self.send(["handler"])
        self.send(["globals"] + list(globals_))
        self.send(["counted"] + list(counted))
        todo = list(choices)
        status = None

        def events(r):
            fatal = False
            for e in r.get("ev") or []:
                if e and e[0] == "handler":
                    if "VERIF_FUEL" in e[2]:
                        return "fuel"
                    kind = classify_error(e[2])
                    t["errors"].append(kind)
                    if e[1] == "E" and kind not in ("ran_out", "tunnel_end"):
                        fatal = True
            return "error" if fatal else None

        while status is None:
            turn = {"lines": [], "choices": []}
            t["turns"].append(turn)
            n = 0
            while status is None:
                r = self.send(["can"])
                if r.get("r") != "ok" or not r.get("v"):
                    break
                r = self.send(["cont"])
                if "VERIF_FUEL" in json.dumps(r):
                    status = "fuel"
                    break
                if r.get("r") == "panic" or r.get("r") == "abort":
                    status = "error"
                    t["errors"].append("other:panic " + str(r.get("loc") or r.get("m") or ""))
                    break
                ev = events(r)
                if r.get("r") == "err":
                    status = "error"
                    t["errors"].append(classify_error(r.get("m", "")))
                    break
                text = r.get("v") or ""
                tags = (self.send(["tags"]).get("v")) or []
                if text.endswith("\n"):
                    text = text[:-1]
                if text != "" or tags:
                    turn["lines"].append({"text": text, "tags": tags})
                if ev == "fuel":
                    status = "fuel"
                elif ev == "error":
                    status = "error"
                n += 1
                if n > MAX_LINES_PER_TURN:
                    status = "fuel"
            if status is not None:
                break
            cs = self.send(["choices"]).get("v") or []
            turn["choices"] = [{"text": c["text"], "tags": c.get("tags") or []} for c in cs]
            if not cs:
                status = "end"
            elif not todo or todo[0] >= len(cs):
                status = "choice"
            else:
                i = todo.pop(0)
                r = self.send(["choose", i])
                if r.get("r") != "ok":
                    status = "error"
                    t["errors"].append("other:choose " + json.dumps(r)[:100])
        t["status"] = status
        if status != "fuel":
            r = self.send(["observe_all"]).get("v") or {}
            t["globals"] = r.get("vars") or {}
            t["visits"] = r.get("counts") or {}
        return t


def show(t):
    out = []
    for i, turn in enumerate(t["turns"]):
        for l in turn["lines"]:
            out.append(f"  {l['text']!r}" + (f"  #{l['tags']}" if l["tags"] else ""))
        for j, c in enumerate(turn["choices"]):
            out.append(f"    [{j}] {c['text']!r}" + (f"  #{c['tags']}" if c["tags"] else ""))
        out.append("  --")
    out.append(f"  status={t['status']} errors={t['errors']}")
    out.append(f"  globals={json.dumps(t['globals'])} visits={json.dumps(t['visits'])}")
    return "\n".join(out)


if __name__ == "__main__":
    import sys
    src = open(sys.argv[1]).read()
    choices = [int(x) for x in sys.argv[2].split(",")] if len(sys.argv) > 2 and sys.argv[2] else []
    path, err = compile_ink(src)
    if err:
        print("COMPILE:", err)
        sys.exit(1)
    from lib.src_meta import meta_from_json
    g, c = meta_from_json(path)
    rp = RealPlayer()
    print(show(rp.play(path, choices, g, c)))
    rp.close()
