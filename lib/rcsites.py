"""Inventory of the reference-counted (Rc / Weak) fields of the runtime's data structures, regenerated
from /repo's source on every C18 run and compared with the reviewed list c18_edges.json.  A field whose type
mentions `Rc<`, `Weak<` or a struct that (transitively) holds an `Rc` is an ownership edge of the heap graph
the no-leak theorem (Proofs/C18.lean) talks about."""
import os
import re

from lib import common

STRUCT = re.compile(r"\b(?:pub(?:\([a-z]+\))?\s+)?struct\s+(\w+)(?:<[^>{]*>)?\s*\{")
ENUMV = re.compile(r"\b(?:pub(?:\([a-z]+\))?\s+)?enum\s+(\w+)(?:<[^>{]*>)?\s*\{")


def strip_comments(text):
    text = re.sub(r"//[^\n]*", "", text)
    return re.sub(r"/\*.*?\*/", "", text, flags=re.S)


def body_at(text, i):
    depth = 0
    j = i
    while j < len(text):
        if text[j] == "{":
            depth += 1
        elif text[j] == "}":
            depth -= 1
            if depth == 0:
                return text[i + 1:j]
        j += 1
    return text[i + 1:]


def split_fields(body):
    out, depth, cur = [], 0, []
    for ch in body:
        if ch in "<([{":
            depth += 1
        elif ch in ">)]}":
            depth -= 1
        if ch == "," and depth == 0:
            out.append("".join(cur)); cur = []
        else:
            cur.append(ch)
    if "".join(cur).strip():
        out.append("".join(cur))
    return out


def structs(root=None):
    root = root or common.REPO
    found = {}
    for dp, dn, fns in os.walk(os.path.join(root, "runtime", "src")):
        dn.sort()
        for fn in sorted(fns):
            if not fn.endswith(".rs") or fn == "verif.rs":
                continue
            path = os.path.join(dp, fn)
            rel = os.path.relpath(path, root)
            text = strip_comments(open(path, encoding="utf-8", errors="replace").read())
            # drop test modules
            t = text.find("#[cfg(test)]")
            if t >= 0:
                text = text[:t]
            for pat in (STRUCT, ENUMV):
                for m in pat.finditer(text):
                    body = body_at(text, m.end() - 1)
                    fields = []
                    for f in split_fields(body):
                        f = " ".join(f.split())
                        f = re.sub(r"#\[[^\]]*\]\s*", "", f)
                        mm = re.match(r"(?:pub(?:\([a-z]+\))?\s+)?(\w+)\s*:\s*(.+)$", f)
                        if mm:
                            fields.append((mm.group(1), mm.group(2)))
                        elif pat is ENUMV and "(" in f:
                            nm = f.split("(")[0].strip()
                            fields.append((nm, f[f.index("("):]))
                    found[m.group(1)] = (rel, fields)
    return found


def strong_part(ty):
    """The type with every `Weak<...>` removed (a weak reference owns nothing)."""
    out, i = [], 0
    while i < len(ty):
        if ty.startswith("Weak<", i):
            depth, j = 0, i + 4
            while j < len(ty):
                if ty[j] == "<":
                    depth += 1
                elif ty[j] == ">":
                    depth -= 1
                    if depth == 0:
                        break
                j += 1
            i = j + 1
        else:
            out.append(ty[i]); i += 1
    return "".join(out)


def scan(root=None):
    st = structs(root)
    carriers = set()
    changed = True
    while changed:
        changed = False
        for name, (rel, fields) in st.items():
            if name in carriers:
                continue
            for fn, ty in fields:
                sp = strong_part(ty)
                if "Rc<" in sp or any(re.search(r"\b%s\b" % c, sp) for c in carriers):
                    carriers.add(name); changed = True
                    break
    out = []
    for name, (rel, fields) in sorted(st.items()):
        for fn, ty in fields:
            sp = strong_part(ty)
            if "Rc<" in sp or "Weak<" in ty or any(re.search(r"\b%s\b" % c, sp) for c in carriers):
                out.append({"file": rel, "struct": name, "field": fn, "type": ty})
    return out


def key(s):
    return f"{s['file']}::{s['struct']}.{s['field']}: {s['type']}"


if __name__ == "__main__":
    for s in scan():
        print(key(s))
