"""Driving the real code (rt, interactively) and the model (inkmodel, on the
recorded script), and comparing transcripts after canonicalisation."""
import json
import os
import struct
import subprocess

from lib import common


class RtSession:
    """One `rt play -` process; `send(op)` returns the result of the op."""

    def __init__(self, features=(), release=False, bin_name="rt"):
        env = dict(os.environ)
        # a story document whose global declarations never terminate must not hang the session
        env.setdefault("VERIF_NEW_FUEL", "2000000")
        self.p = subprocess.Popen([common.rt_bin(features, release, bin_name), "play", "-"],
                                  stdin=subprocess.PIPE, stdout=subprocess.PIPE, text=True, bufsize=1, env=env)
        self.ops = []
        self.results = []

    def send(self, op):
        self.ops.append(op)
        try:
            self.p.stdin.write(json.dumps(op, ensure_ascii=False) + "\n")
            self.p.stdin.flush()
            line = self.p.stdout.readline()
        except BrokenPipeError:
            line = ""
        if not line:
            r = {"r": "abort", "rc": self.p.poll()}
        else:
            try:
                r = json.loads(line)
            except Exception:
                r = {"r": "unparsable", "line": line[:200]}
        self.results.append(r)
        return r

    def close(self):
        try:
            self.p.stdin.close()
        except Exception:
            pass
        try:
            self.p.wait(timeout=5)
        except Exception:
            self.p.kill()


def run_model(ops, scratch, tag="m", timeout=300):
    path = os.path.join(scratch, f"script-{tag}-{os.getpid()}.jsonl")
    with open(path, "w") as f:
        for op in ops:
            f.write(json.dumps(op, ensure_ascii=False) + "\n")
    try:
        r = subprocess.run([common.INKMODEL, "play", path], capture_output=True, text=True, timeout=timeout)
        lines = r.stdout.split("\n")
    except subprocess.TimeoutExpired:
        lines = []
    os.remove(path)
    return common.parse_json_lines(lines)


def run_rt_script(ops, scratch, features=(), release=False, tag="r", timeout=300):
    path = os.path.join(scratch, f"script-{tag}-{os.getpid()}.jsonl")
    with open(path, "w") as f:
        for op in ops:
            f.write(json.dumps(op, ensure_ascii=False) + "\n")
    try:
        env = dict(os.environ)
        env.setdefault("VERIF_NEW_FUEL", "2000000")
        r = subprocess.run([common.rt_bin(features, release), "play", path], capture_output=True, text=True,
                           timeout=timeout, env=env)
        lines = r.stdout.split("\n")
    except subprocess.TimeoutExpired:
        lines = []
    os.remove(path)
    return common.parse_json_lines(lines)


# --------------------------------------------------------------------------- canonicalisation

def f32(x):
    try:
        return struct.unpack("<I", struct.pack("<f", float(x)))[0]
    except (OverflowError, ValueError):
        return str(x)


def canon_save(j, drop_choice_index=False):
    """Save documents: keys sorted, every number that is not an int mapped to its f32 bits.
    `drop_choice_index`: the `index` stored with each pending choice is cosmetic (it is
    rewritten whenever the host reads the choices) and is ignored in lockstep comparisons."""
    if isinstance(j, dict):
        if drop_choice_index and "originalChoicePath" in j and "index" in j:
            j = dict(j, index=0)
        return {k: canon_save(j[k], drop_choice_index) for k in sorted(j)}
    if isinstance(j, list):
        return [canon_save(x, drop_choice_index) for x in j]
    if isinstance(j, float):
        return {"f32": f32(j)}
    return j


def canon_nan(v):
    """{"f": bits}: every NaN is one value (sign and payload of a NaN are not observable in Ink;
    Lean's `toBits` canonicalises them)."""
    if isinstance(v, dict):
        if set(v) == {"f"} and isinstance(v["f"], int) and (v["f"] & 0x7F800000) == 0x7F800000 and (v["f"] & 0x7FFFFF):
            return {"f": "nan"}
        return {k: canon_nan(x) for k, x in v.items()}
    if isinstance(v, list):
        return [canon_nan(x) for x in v]
    return v


def canon_events(evs):
    """Observer notifications of one call come out in hash order in the real code: sort them.
    Handler and external-call events keep their order."""
    if not evs:
        return []
    obs = sorted([e for e in evs if e and e[0] == "obs"], key=lambda e: json.dumps(e, sort_keys=True))
    rest = [e for e in evs if not (e and e[0] == "obs")]
    return rest + obs


def canon_result(op, r, messages=True, lockstep=False):
    """Canonical form of one result for comparison between code and model
    (`lockstep=True`: between two runs of the code; cosmetic choice indices dropped)."""
    if not isinstance(r, dict):
        return r
    out = {"r": r.get("r")}
    if r.get("r") == "ok":
        v = r.get("v")
        if op and op[0] == "savejson":
            v = canon_save(v, drop_choice_index=lockstep)
        out["v"] = canon_nan(v)
    elif r.get("r") == "err":
        out["k"] = r.get("k")
        if messages and r.get("k") != "BadJson":
            m = r.get("m")
            if isinstance(m, str) and m.startswith("Story was running a function"):
                # the real message appends the function's name and a call-stack trace (diagnostic text)
                m = "Story was running a function when you called ChoosePathString"
            out["m"] = m
    elif r.get("r") == "panic":
        pass  # site names differ (file:line vs model tag); class only
    ev = canon_events(r.get("ev"))
    if ev:
        out["ev"] = ev
    return out


def json_diff(a, b, path="", limit=6):
    """Paths at which two JSON values differ (first few), for replays and debugging."""
    out = []

    def go(x, y, p):
        if len(out) >= limit:
            return
        if type(x) != type(y):
            out.append((p, x, y)); return
        if isinstance(x, dict):
            for k in sorted(set(x) | set(y)):
                if k not in x:
                    out.append((p + "/" + k, "<absent>", y[k]))
                elif k not in y:
                    out.append((p + "/" + k, x[k], "<absent>"))
                else:
                    go(x[k], y[k], p + "/" + k)
        elif isinstance(x, list):
            if len(x) != len(y):
                out.append((p + "#len", len(x), len(y))); return
            for i, (u, v) in enumerate(zip(x, y)):
                go(u, v, f"{p}[{i}]")
        elif x != y:
            out.append((p, x, y))

    go(a, b, path)
    return out[:limit]


def first_diff(ops, ra, rb, messages=True):
    """Index and canonical forms of the first differing result (or None)."""
    n = min(len(ra), len(rb))
    for i in range(n):
        if isinstance(rb[i], dict) and rb[i].get("r") == "unsupported":
            continue
        if isinstance(rb[i], dict) and rb[i].get("r") == "err" and rb[i].get("k") in ("Unsupported", "ModelFuel"):
            return None  # the model declines this case from here on
        a = canon_result(ops[i], ra[i], messages)
        b = canon_result(ops[i], rb[i], messages)
        if a != b:
            return i, a, b
    if len(ra) != len(rb):
        return n, {"len": len(ra)}, {"len": len(rb)}
    return None


# --------------------------------------------------------------------------- walks

def is_fuel(r):
    return isinstance(r, dict) and "VERIF_FUEL" in json.dumps(r)


def walk(sess, rng, story_path, seed=7, max_turns=12, fuel=20000, setup=(), per_line=(), per_turn=(),
         observe=True, choose=None):
    """Standard random walk: new, seed, fuel, then continue / choose.
    `per_line` / `per_turn` are lists of callables(sess, rng) run after each line / before each choice.
    Returns 'end' | 'fuel' | 'error' | 'turns' | 'loaderr'."""
    r = sess.send(["new", story_path])
    if r.get("r") != "ok":
        return "loaderr"
    sess.send(["seed", seed, 0])
    sess.send(["fuel", fuel])
    for op in setup:
        sess.send(op)
    for turn in range(max_turns):
        lines = 0
        while True:
            r = sess.send(["can"])
            if r.get("r") != "ok" or not r.get("v"):
                break
            r = sess.send(["cont"])
            if is_fuel(r):
                return "fuel"
            if r.get("r") != "ok":
                if observe:
                    sess.send(["observe_all"])
                return "error"
            sess.send(["tags"])
            for f in per_line:
                f(sess, rng)
            lines += 1
            if lines > 400:
                return "fuel"
        if observe:
            r = sess.send(["observe_all"])
            if is_fuel(r):
                return "fuel"
        r = sess.send(["choices"])
        cs = r.get("v") or []
        for f in per_turn:
            f(sess, rng)
        if not cs:
            return "end"
        i = choose(cs, rng) if choose else rng.randrange(len(cs))
        r = sess.send(["choose", i])
        if r.get("r") != "ok":
            return "error"
    return "turns"
