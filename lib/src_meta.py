"""Globals and knots / stitches read off a compiled story JSON (for ad-hoc probes)."""
import json


def meta_from_json(path):
    doc = json.load(open(path))
    root = doc.get("root")
    globs, counted = [], []
    term = root[-1] if isinstance(root, list) and root and isinstance(root[-1], dict) else {}

    def scan(node):
        if isinstance(node, list):
            for x in node:
                scan(x)
        elif isinstance(node, dict):
            if "VAR=" in node and "re" not in node and isinstance(node["VAR="], str):
                if node["VAR="] not in globs:
                    globs.append(node["VAR="])
            for v in node.values():
                if isinstance(v, list):
                    scan(v)

    scan(term.get("global decl"))
    for k, v in term.items():
        if k.startswith("#") or k == "global decl" or not isinstance(v, list):
            continue
        counted.append(k)
        t = v[-1] if v and isinstance(v[-1], dict) else {}
        for sk, sv in t.items():
            if sk.startswith("#") or not isinstance(sv, list) or sk.startswith("c-") or sk.startswith("g-"):
                continue
            counted.append(f"{k}.{sk}")
    return globs, counted
