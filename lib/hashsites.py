"""Inventory of the places where /repo's runtime and compiler iterate over a hash-ordered collection
(the only source of run-to-run variation besides the story seed).  Regenerated from the source on
every C03 run and compared with the reviewed list in c03_sites.json."""
import json
import os
import re

from lib import common

FIELDS = ["named_flows", "visit_counts", "turn_indices", "globals", "changed_variables", "variable_observers",
          "externals", "named_content", "only_named", "temporary_variables", "lists",
          "all_unambiguous_list_value_cache", "items", "global_variables", "default_global_variables",
          "changed_variables_for_batch_obs", "item_name_to_values", "missing_externals", "names", "origins_map",
          "get_items", "get_named_only_content", "changed", "observers"]
FIELDS += ["map", "dict", "consts"]
ALT = "|".join(FIELDS)
FOR = re.compile(r"for\s+[^;{]*?\s+in\s+&?(?:mut\s+)?[\w\.\(\)&\*\s]*?\b(?:" + ALT + r")\b[\w\.\(\)\s]*?\{")
CALL = re.compile(r"\b(?:" + ALT + r")\b(?:\s*\.\s*(?:as_ref|unwrap|borrow|borrow_mut|clone|as_mut)\(\))*\s*\.\s*"
                  r"(?:iter|keys|values|iter_mut|values_mut|drain|into_iter|into_keys|into_values)\(")
FN = re.compile(r"(?:pub(?:\([a-z]+\))?\s+)?fn\s+(\w+)")


def strip_comments(text):
    text = re.sub(r"//[^\n]*", "", text)
    return re.sub(r"/\*.*?\*/", "", text, flags=re.S)


def scan(root=None, subdirs=("runtime/src", "compiler/src")):
    root = root or common.REPO
    sites = []
    for sd in subdirs:
        for dp, dn, fns in os.walk(os.path.join(root, sd)):
            dn.sort()
            for fn in sorted(fns):
                if not fn.endswith(".rs") or fn == "verif.rs":
                    continue
                path = os.path.join(dp, fn)
                rel = os.path.relpath(path, root)
                text = strip_comments(open(path, encoding="utf-8", errors="replace").read())
                fn_pos = [(m.start(), m.group(1)) for m in FN.finditer(text)]
                found = {}
                for pat in (FOR, CALL):
                    for m in pat.finditer(text):
                        found.setdefault(m.start(), " ".join(m.group(0).split()))
                # a `for` match contains the call match that follows `in`: keep the outermost
                starts = sorted(found)
                kept = []
                last_end = -1
                for st in starts:
                    if st < last_end:
                        continue
                    kept.append(st)
                    last_end = st + len(found[st])
                for st in kept:
                    cur = "?"
                    for pos, name in fn_pos:
                        if pos <= st:
                            cur = name
                        else:
                            break
                    sites.append({"file": rel, "fn": cur, "code": found[st]})
    return sites


def key(s):
    return f"{s['file']}::{s['fn']}::{s['code']}"


if __name__ == "__main__":
    for s in scan():
        print(key(s))
