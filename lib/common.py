"""Shared machinery of the checks: builds, proof obligations, evidence, verdicts."""
import fcntl
import glob
import hashlib
import json
import os
import re
import shutil
import subprocess
import sys
import time

ROOT = os.path.dirname(os.path.dirname(os.path.abspath(__file__)))
REPO = os.environ.get("VERIF_REPO", "/repo")   # the override exists for trying seeded changes on a scratch worktree
CACHE = os.path.join(ROOT, ".cache")
LEAN = os.path.join(ROOT, "lean")
HARNESS = os.path.join(ROOT, "harness")
INKMODEL = os.path.join(LEAN, ".lake", "build", "bin", "inkmodel")
CORPUS = os.path.join(REPO, "conformance-tests", "inkfiles")
ALLOWED_AXIOMS = {"propext", "Classical.choice", "Quot.sound"}

TRUSTED_BASE = [
    "Lean 4.33 kernel (lake build; leanchecker re-check in the thorough tier)",
    "axioms: subset of {propext, Classical.choice, Quot.sound} (audited with #print axioms on every property theorem)",
    "correspondence machinery: Rust harness (rt), Lean driver (inkmodel), check.py canonicalisation, generators",
    "hooks behind cargo feature verif-hooks (read-only probes, seed, step budget, virtual clock)",
    "modelled, not verified: serde_json (RFC 8259 parser/printer), HashMap/HashSet (finite maps, arbitrary order), Rc/Weak, f32 arithmetic and Display, rand StdRng, OS/allocator, the whole compiler",
]


class Broken(Exception):
    pass


def target_dir(features):
    return os.path.join(CACHE, "target" + ("-" + "-".join(features) if features else ""))


def rt_bin(features=(), release=False, name="rt"):
    return os.path.join(target_dir(list(features)), "release" if release else "debug", name)


def run(cmd, **kw):
    kw.setdefault("capture_output", True)
    kw.setdefault("text", True)
    return subprocess.run(cmd, **kw)


class Ctx:
    def __init__(self, prop, tier, seed):
        self.prop = prop
        self.tier = tier
        self.seed = seed
        self.scratch = os.path.join(CACHE, f"run-{os.getpid()}")
        os.makedirs(self.scratch, exist_ok=True)
        self.violations = []      # (kind, replay dict, found_input, signature)
        self.corr_diffs = []      # correspondence disagreements (model vs code)
        self.obligations = None
        self.evaluations = 0
        self.nontrivial = set()
        self.samples = []
        self.counters = {}
        self.notes = []
        self.programs = 0
        self.traces_validated = 0

    def count(self, key, n=1):
        self.counters[key] = self.counters.get(key, 0) + n

    def case(self, digest, nontrivial=True):
        """Record one explored case; `digest` identifies it for distinctness."""
        self.evaluations += 1
        if nontrivial:
            self.nontrivial.add(hashlib.sha1(str(digest).encode()).hexdigest()[:16])

    def sample(self, s, limit=6):
        if len(self.samples) < limit:
            self.samples.append(s)

    def violation(self, kind, replay, found_input=True, signature=None):
        self.violations.append((kind, replay, found_input, signature or {}))

    def corr_diff(self, name, detail):
        self.corr_diffs.append({"correspondence": name, "detail": detail})

    def path(self, name):
        return os.path.join(self.scratch, name)

    def cleanup(self):
        shutil.rmtree(self.scratch, ignore_errors=True)


# --------------------------------------------------------------------------- builds

class BuildLock:
    def __enter__(self):
        os.makedirs(CACHE, exist_ok=True)
        self.f = open(os.path.join(CACHE, "build.lock"), "w")
        fcntl.flock(self.f, fcntl.LOCK_EX)
        return self

    def __exit__(self, *a):
        fcntl.flock(self.f, fcntl.LOCK_UN)
        self.f.close()


def cargo_env():
    env = dict(os.environ)
    env["CARGO_NET_OFFLINE"] = "true"
    return env


def build_harness(features, release=False):
    lock_src = os.path.join(REPO, "Cargo.lock")
    lock_dst = os.path.join(HARNESS, "Cargo.lock")
    if os.path.exists(lock_src):
        if not os.path.exists(lock_dst) or open(lock_src).read() != open(lock_dst).read():
            shutil.copy(lock_src, lock_dst)
    cmd = ["cargo", "build", "--offline", "--bins"]
    if release:
        cmd.append("--release")
    if features:
        cmd += ["--features", ",".join(features)]
    env = cargo_env()
    env["CARGO_TARGET_DIR"] = target_dir(features)
    r = run(cmd, cwd=HARNESS, env=env)
    if r.returncode != 0:
        raise Broken("harness build failed (does /repo still compile with --features verif-hooks?):\n"
                     + r.stderr[-3000:])


RTONLY = os.path.join(ROOT, "harness-rtonly")


def rtonly_bin(stream):
    return os.path.join(CACHE, "target-rtonly" + ("-stream" if stream else ""), "debug", "verif-harness-rtonly")


def build_rtonly(stream):
    """A host that links the runtime crate alone (C14: feature unification must not matter)."""
    lock_src = os.path.join(REPO, "Cargo.lock")
    lock_dst = os.path.join(RTONLY, "Cargo.lock")
    if os.path.exists(lock_src):
        if not os.path.exists(lock_dst) or open(lock_src).read() != open(lock_dst).read():
            shutil.copy(lock_src, lock_dst)
    toml = os.path.join(RTONLY, "Cargo.toml")
    want = open(toml).read()
    fixed = re.sub(r'bladeink = \{ path = "[^"]*"', 'bladeink = { path = "%s"' % os.path.join(REPO, "runtime"), want)
    if fixed != want:
        open(toml, "w").write(fixed)
    cmd = ["cargo", "build", "--offline"] + (["--features", "stream"] if stream else [])
    env = cargo_env()
    env["CARGO_TARGET_DIR"] = os.path.dirname(os.path.dirname(rtonly_bin(stream)))
    r = run(cmd, cwd=RTONLY, env=env)
    if r.returncode != 0:
        raise Broken("runtime-only harness build failed:\n" + r.stderr[-3000:])


CLI_TARGET = os.path.join(CACHE, "target-cli")


def cli_bin():
    return os.path.join(CLI_TARGET, "debug", "rinklecate")


def build_cli():
    """The command-line tool of /repo's working tree (C20)."""
    env = cargo_env()
    env["CARGO_TARGET_DIR"] = CLI_TARGET
    r = run(["cargo", "build", "--offline", "-p", "rinklecate"], cwd=REPO, env=env)
    if r.returncode != 0:
        raise Broken("rinklecate build failed:\n" + r.stderr[-3000:])


def build_lean(targets=("Ink", "inkmodel")):
    r = run(["lake", "build", *targets], cwd=LEAN)
    if r.returncode != 0:
        raise Broken("lean model build failed:\n" + (r.stdout + r.stderr)[-3000:])


def run_translators(ctx):
    tdir = os.path.join(ROOT, "translators")
    for t in sorted(glob.glob(os.path.join(tdir, "*.py"))):
        r = run([sys.executable, t])
        if r.returncode != 0:
            raise Broken(f"translator {os.path.basename(t)} failed:\n" + (r.stdout + r.stderr)[-2000:])


def build_all(ctx, features=((),), release=False, cli=False):
    with BuildLock():
        if cli:
            build_cli()
        for f in features:
            build_harness(list(f), release=False)
            if release:
                build_harness(list(f), release=True)
        run_translators(ctx)
        build_lean()


# --------------------------------------------------------------------------- proofs

FORBIDDEN = re.compile(r"\b(sorry|admit|native_decide|bv_decide|implemented_by|unsafe)\b|^\s*axiom\s|maxHeartbeats\s+0",
                       re.M)


def strip_lean_comments(text):
    # remove /- ... -/ (nested once is enough for our files) and -- comments
    out = []
    i = 0
    depth = 0
    n = len(text)
    while i < n:
        if text.startswith("/-", i):
            depth += 1
            i += 2
        elif depth and text.startswith("-/", i):
            depth -= 1
            i += 2
        elif depth:
            i += 1
        elif text.startswith("--", i):
            while i < n and text[i] != "\n":
                i += 1
        else:
            out.append(text[i])
            i += 1
    return "".join(out)


# the only file that may use native_decide (C05's generated per-pair theorems; declared in its trusted base).
# The axiom audit of every other property's theorems would still expose any dependency on it.
NATIVE_DECIDE_FILES = ("Generated/C05",)


def scan_forbidden(allow_native_in=()):
    hits = []
    for d in ("Ink", "Proofs", "Spec", "Generated", "Driver"):
        for f in glob.glob(os.path.join(LEAN, d, "**", "*.lean"), recursive=True):
            txt = strip_lean_comments(open(f).read())
            for m in FORBIDDEN.finditer(txt):
                tok = m.group(0).strip()
                if tok == "native_decide" and any(a in f for a in tuple(allow_native_in) + NATIVE_DECIDE_FILES):
                    continue
                if tok == "unsafe" and d == "Driver":
                    continue
                hits.append(f"{os.path.relpath(f, LEAN)}: {tok}")
    return hits


def proof_obligations(ctx, modules, required, extra_allowed=(), allow_native_in=()):
    """Build the theorem modules, audit axioms of every required theorem.
    Returns dict(obligations, discharged, failures, axioms)."""
    failures = []
    with BuildLock():
        r = run(["lake", "build", *modules], cwd=LEAN)
    build_ok = r.returncode == 0
    if not build_ok:
        errs = [l for l in (r.stdout + r.stderr).splitlines() if "error" in l][:20]
        failures.append({"theorem": ",".join(modules), "why": "lake build failed", "log": errs})
    hits = scan_forbidden(allow_native_in)
    for h in hits:
        failures.append({"theorem": h, "why": "forbidden token"})
    axioms = {}
    discharged = 0
    if build_ok:
        os.makedirs(os.path.join(CACHE, "audit"), exist_ok=True)
        af = os.path.join(CACHE, "audit", f"{ctx.prop}-{os.getpid()}.lean")
        with open(af, "w") as f:
            for m in modules:
                f.write(f"import {m}\n")
            for t in required:
                f.write(f"#print axioms {t}\n")
        r = run(["lake", "env", "lean", af], cwd=LEAN)
        out = r.stdout + r.stderr
        os.remove(af)
        for t in required:
            m = re.search(r"'" + re.escape(t) + r"' depends on axioms: \[([^\]]*)\]", out)
            if m:
                ax = {a.strip() for a in m.group(1).replace("\n", " ").split(",") if a.strip()}
            elif re.search(r"'" + re.escape(t) + r"' does not depend on any axioms", out):
                ax = set()
            else:
                failures.append({"theorem": t, "why": "theorem missing or does not check"})
                continue
            axioms[t] = sorted(ax)
            bad = {a for a in ax - ALLOWED_AXIOMS - set(extra_allowed)
                   if not any(x.startswith("re:") and re.fullmatch(x[3:], a) for x in extra_allowed)}
            if bad:
                failures.append({"theorem": t, "why": "disallowed axioms " + ",".join(sorted(bad))})
            else:
                discharged += 1
    if ctx.tier == "thorough" and build_ok:
        for m in modules:
            r = run(["lake", "env", "leanchecker", m], cwd=LEAN)
            if r.returncode != 0:
                failures.append({"theorem": m, "why": "leanchecker rejected", "log": (r.stdout + r.stderr)[-500:]})
    return {"obligations": len(required), "discharged": discharged, "failures": failures,
            "axioms": axioms,
            "checker_cmd": "cd /verif/lean && lake build " + " ".join(modules)
                           + "  # then #print axioms on each property theorem"}


# --------------------------------------------------------------------------- running both sides

def run_lines(cmd, stdin=None, timeout=120):
    try:
        r = subprocess.run(cmd, input=stdin, capture_output=True, text=True, timeout=timeout)
    except subprocess.TimeoutExpired:
        return -9, ['{"t":"timeout"}'], "timeout"
    return r.returncode, r.stdout.split("\n"), r.stderr


def parse_json_lines(lines):
    out = []
    for l in lines:
        l = l.strip()
        if not l:
            continue
        try:
            out.append(json.loads(l))
        except Exception:
            out.append({"unparsable": l[:200]})
    return out


def corpus_json():
    return sorted(glob.glob(os.path.join(CORPUS, "**", "*.json"), recursive=True))


def corpus_ink():
    return sorted(glob.glob(os.path.join(CORPUS, "**", "*.ink"), recursive=True))


def compile_ink(ctx, ink_path, out_path, features=()):
    """Compile with the repo's compiler through rt; returns ('ok'|'err'|'panic', detail)."""
    rc, lines, err = run_lines([rt_bin(features), "compile", ink_path])
    if not lines:
        return "panic", err[-300:]
    txt = "\n".join(lines)
    try:
        j = json.loads(txt)
    except Exception:
        return "panic", txt[:300]
    if isinstance(j, dict) and "err" in j and "root" not in j:
        return "err", j["err"]
    if isinstance(j, dict) and "panic" in j and "root" not in j:
        return "panic", j["panic"]
    with open(out_path, "w") as f:
        f.write(txt)
    return "ok", ""


# --------------------------------------------------------------------------- verdicts

def load_known():
    p = os.path.join(ROOT, "known_findings.json")
    if not os.path.exists(p):
        return []
    return json.load(open(p))


def matches(entry, prop, signature):
    if entry.get("status") != "known" or entry.get("property") != prop:
        return False
    m = entry.get("match", {})
    if not m:
        return False
    for k, v in m.items():
        sv = signature.get(k)
        if isinstance(v, str) and isinstance(sv, str):
            if v not in sv:
                return False
        elif sv != v:
            return False
    return True


def finish(ctx, mod, wall):
    known = load_known()
    os.makedirs(os.path.join(ROOT, "replays"), exist_ok=True)
    os.makedirs(os.path.join(ROOT, "evidence"), exist_ok=True)
    lines = []
    new_violations = 0
    known_hits = {}
    reported = set()
    for kind, replay, found, sig in ctx.violations:
        hit = None
        if found:
            for e in known:
                if matches(e, ctx.prop, sig):
                    hit = e
                    break
        if hit:
            known_hits.setdefault(hit["id"], hit)
            continue
        body = {"property": ctx.prop, "tier": ctx.tier, "seed": ctx.seed, "kind": kind,
                "signature": sig, "replay": replay,
                "rerun": f"python3 /verif/check.py {ctx.prop} --replay <this file>"}
        h = hashlib.sha1(json.dumps(body, sort_keys=True, default=str).encode()).hexdigest()[:12]
        if h in reported:
            continue
        reported.add(h)
        if new_violations >= 5:
            new_violations += 1
            continue
        path = os.path.join(ROOT, "replays", f"{ctx.prop}-{h}.json")
        json.dump(body, open(path, "w"), indent=1, default=str)
        lines.append(f"VIOLATION property={ctx.prop} replay={path}" + ("" if found else " no-failing-input-found"))
        new_violations += 1
    for e in known_hits.values():
        print(f"KNOWN-FINDING: property={ctx.prop} {e['id']}: {e['description']}")

    ob = ctx.obligations or {"obligations": 0, "discharged": 0, "failures": [], "axioms": {}, "checker_cmd": ""}
    unexplained = []
    for f in ob["failures"]:
        unexplained.append({"kind": "proof-obligation", **f})
    for d in ctx.corr_diffs[:10]:
        unexplained.append({"kind": "correspondence", **d})
    if unexplained and new_violations == 0:
        body = {"property": ctx.prop, "tier": ctx.tier, "seed": ctx.seed, "kind": "no-failing-input-found",
                "broken": unexplained,
                "note": "a theorem or the model/code correspondence no longer checks; the direct oracle "
                        "found no input on which the property itself fails"}
        h = hashlib.sha1(json.dumps(body, sort_keys=True, default=str).encode()).hexdigest()[:12]
        path = os.path.join(ROOT, "replays", f"{ctx.prop}-{h}.json")
        json.dump(body, open(path, "w"), indent=1, default=str)
        lines.append(f"VIOLATION property={ctx.prop} replay={path} no-failing-input-found")
        new_violations += 1

    json.dump({"corr_diffs": ctx.corr_diffs[:50], "proof_failures": ob["failures"]},
              open(os.path.join(CACHE, f"last-{ctx.prop}-debug.json"), "w"), indent=1, default=str)
    level = getattr(mod, "LEVEL", "proof")
    cov = {
        "obligations": ob["obligations"],
        "discharged": ob["discharged"],
        "checker_cmd": ob["checker_cmd"],
        "trusted_base": TRUSTED_BASE + getattr(mod, "EXTRA_TRUST", []),
        "theorems": ob["axioms"],
        "proof_failures": ob["failures"],
        "evaluations": ctx.evaluations,
        "distinct_nontrivial": len(ctx.nontrivial),
        "rule": getattr(mod, "RULE", ""),
        "samples": ctx.samples or ["(none)"],
        "programs": ctx.programs,
        "disagreements_checked": ctx.evaluations,
        "traces_validated_against_impl": ctx.traces_validated,
        "correspondence_disagreements": len(ctx.corr_diffs),
        "oracle_violations": sum(1 for v in ctx.violations if v[2]),
        "known_findings_hit": sorted(known_hits.keys()),
        "counters": ctx.counters,
        "notes": ctx.notes,
        "explanation": getattr(mod, "EXPLANATION", ""),
    }
    ev = {
        "property_id": ctx.prop, "tier": ctx.tier, "seed": ctx.seed, "level": level,
        "coverage": cov,
        "assumptions": getattr(mod, "ASSUMPTIONS", []),
        "wall_s": round(wall, 2),
        "violations": new_violations,
    }
    json.dump(ev, open(os.path.join(ROOT, "evidence", f"{ctx.prop}.json"), "w"), indent=1, default=str)
    for l in lines:
        print(l)
    print(f"{ctx.prop} tier={ctx.tier} seed={ctx.seed} evaluations={ctx.evaluations} "
          f"nontrivial={len(ctx.nontrivial)} obligations={ob['discharged']}/{ob['obligations']} "
          f"corr_diffs={len(ctx.corr_diffs)} violations={new_violations} wall={wall:.1f}s")
    return 1 if new_violations else 0
