"""Story pools for the checks: corpus documents (reference compiler and repo
compiler) and generated programs, with the facts the oracles need (globals,
counted containers, functions, externals)."""
import json
import os

from lib import common


def story_meta_from_json(path):
    """Globals and counted containers (knots / stitches) read off a compiled story."""
    try:
        doc = json.load(open(path))
    except Exception:
        return {"globals": [], "counted": [], "knots": [], "functions": []}
    root = doc.get("root")
    globs, counted, knots = [], [], []
    if not isinstance(root, list) or not root:
        return {"globals": [], "counted": [], "knots": [], "functions": []}
    term = root[-1] if isinstance(root[-1], dict) else {}

    def scan_globals(node):
        if isinstance(node, list):
            for x in node:
                scan_globals(x)
        elif isinstance(node, dict):
            if "VAR=" in node and "re" not in node and isinstance(node["VAR="], str):
                globs.append(node["VAR="])
            for k, v in node.items():
                if isinstance(v, list):
                    scan_globals(v)

    if isinstance(term.get("global decl"), list):
        scan_globals(term["global decl"])
    for k, v in term.items():
        if k.startswith("#") or k == "global decl" or not isinstance(v, list):
            continue
        knots.append(k)
        t = v[-1] if v and isinstance(v[-1], dict) else {}
        if isinstance(t.get("#f"), int) and t["#f"] & 1:
            counted.append(k)
        for sk, sv in t.items():
            if sk.startswith("#") or not isinstance(sv, list):
                continue
            st = sv[-1] if sv and isinstance(sv[-1], dict) else {}
            if isinstance(st.get("#f"), int) and st["#f"] & 1:
                counted.append(f"{k}.{sk}")
    seen = []
    for g in globs:
        if g not in seen:
            seen.append(g)
    return {"globals": seen, "counted": counted, "knots": knots, "functions": []}


def corpus_pool(ctx, compiled=True, reference=True, limit=None):
    out = []
    if reference:
        for f in common.corpus_json():
            out.append({"path": f, "origin": "corpus-reference", "ink": None, "seed": None})
    if compiled:
        for ink in common.corpus_ink():
            dst = ctx.path("c_" + os.path.basename(ink) + ".json")
            if not os.path.exists(dst):
                st, _ = common.compile_ink(ctx, ink, dst)
                if st != "ok":
                    continue
            out.append({"path": dst, "origin": "corpus-compiled", "ink": ink, "seed": None})
    if limit:
        out = out[:limit]
    for s in out:
        s["meta"] = story_meta_from_json(s["path"])
    return out


def probe_pool(ctx, sub):
    """Hand-written probe stories under corpus/<sub>/ (with an optional <name>.meta.json sidecar naming
    functions / externals / flows the oracles need)."""
    import glob
    out = []
    for ink in sorted(glob.glob(os.path.join(common.ROOT, "corpus", sub, "*.ink"))):
        dst = ctx.path(f"probe_{sub.replace('/', '_')}_" + os.path.basename(ink) + ".json")
        st, detail = common.compile_ink(ctx, ink, dst)
        if st != "ok":
            ctx.corr_diff("probe story does not compile", {"file": ink, "detail": str(detail)[:300]})
            continue
        m = story_meta_from_json(dst)
        side = ink[:-4] + ".meta.json"
        if os.path.exists(side):
            m.update(json.load(open(side)))
        out.append({"path": dst, "origin": "probe", "ink": ink, "seed": None, "meta": m, "probe": True})
    # compiled documents kept as they were when they were found (the compiler may have changed since)
    for js in sorted(glob.glob(os.path.join(common.ROOT, "corpus", sub, "*.json"))):
        if js.endswith(".meta.json"):
            continue
        m = story_meta_from_json(js)
        out.append({"path": js, "origin": "probe", "ink": None, "seed": None, "meta": m, "probe": True})
    return out


def generated_pool(ctx, profile, n, size=3, base=0):
    """n generated programs of a profile that compile; returns story dicts (with the ink source)."""
    from gen import inkgen
    out = []
    i = 0
    tries = 0
    while len(out) < n and tries < 3 * n + 10:
        seed = ctx.seed * 1000003 + base + i
        i += 1
        tries += 1
        try:
            src = inkgen.generate(seed, profile, size)
            meta = inkgen.meta(seed, profile, size)
        except Exception as e:  # generator bug: count, never a verdict
            ctx.count("generator_exceptions")
            continue
        p = ctx.path(f"gen_{profile}_{seed}.ink")
        open(p, "w").write(src)
        dst = ctx.path(f"gen_{profile}_{seed}.json")
        st, detail = common.compile_ink(ctx, p, dst)
        if st != "ok":
            ctx.count(f"gen_{profile}_compile_{st}")
            continue
        jm = story_meta_from_json(dst)
        m = dict(meta)
        m["globals"] = jm["globals"] or meta.get("globals", [])
        m["counted"] = jm["counted"]
        out.append({"path": dst, "origin": f"generated-{profile}", "ink": src, "seed": seed, "meta": m})
    return out


def describe(story):
    """What goes into a replay file for a story."""
    if story.get("ink") and story["origin"].startswith("generated"):
        return {"origin": story["origin"], "ink": story["ink"], "gen_seed": story["seed"]}
    if story.get("ink"):
        return {"origin": story["origin"], "ink_file": story["ink"]}
    return {"origin": story["origin"], "file": story["path"]}


def materialise(ctx, desc):
    """Inverse of `describe` for --replay: returns a story JSON path."""
    if "file" in desc:
        return desc["file"]
    src = ctx.path("replay.ink")
    if "ink" in desc:
        open(src, "w").write(desc["ink"])
    else:
        src = desc["ink_file"]
    dst = ctx.path("replay.json")
    st, detail = common.compile_ink(ctx, src, dst)
    if st != "ok":
        raise common.Broken(f"replay story does not compile: {st} {detail}")
    return dst


def setup_ops(story):
    m = story.get("meta", {})
    ops = []
    if m.get("globals"):
        ops.append(["globals"] + list(m["globals"]))
    if m.get("counted"):
        ops.append(["counted"] + list(m["counted"]))
    return ops
