#!/bin/bash
# tools_seed.sh <patch.diff> <Cxx> [more props...] : apply a seeded change to /repo, run the quick checks, undo it.
set -u
patch="$1"; shift
git -C /repo apply "$patch" || { echo "patch does not apply"; exit 2; }
for p in "$@"; do
  echo "== $p with $(basename $(dirname $patch))"
  (cd /verif && python3 check.py "$p" --tier quick 2>&1 | grep -E "VIOLATION|tier=" | head -8)
done
git -C /repo checkout -- .
# rebuild the harness against the clean tree
(cd /verif && python3 -c "
import sys; sys.path.insert(0,'/verif')
from lib import common
with common.BuildLock():
    common.build_harness([])
")
