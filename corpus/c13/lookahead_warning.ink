// A warning ("variable not found": `t` is only declared on the branch not taken) raised INSIDE the look-ahead that follows
// "First line.": a time-limited continue that pauses there hands it to the handler, the look-ahead is rewound, and the
// next continue runs the same content again.
VAR x = 0
VAR y = 0
-> start
== start
First line.
{ x > 5:
    ~ temp t = 3
}
~ x = t
~ y = y + 1
Second line: {y}.
~ x = t
Third line: {y}.
-> END
