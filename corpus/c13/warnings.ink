VAR score = 1
Start {score}.
Your score is {score}.
* One
  Second score {score}.
  More text.
  Glued {score} <>
  and {score} done.
  -> END
* Two
  Last {score}.
  -> END
