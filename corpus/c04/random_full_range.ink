VAR lo = -2147483647
VAR hi = 2147483647
Before.
~ lo = lo - 1
Roll: {RANDOM(lo, hi)}.
After.
-> END
