VAR x = 2
{ stopping:
    - First {x > 1: big | small} one.
    - Second.
}
Done.
-> END
