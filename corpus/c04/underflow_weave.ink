-> k.s
== k ==
= s
+ start [bracket] end
+ other [b] e
-
Done.
-> END
