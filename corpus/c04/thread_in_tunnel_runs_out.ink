Before.
-> corridor ->
Back.
-> END
=== corridor ===
<- side
In the corridor.
=== side ===
Side.
-> DONE
