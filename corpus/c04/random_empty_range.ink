VAR lo = 1
VAR hi = 3
-> top
=== top ===
Roll {lo} to {hi}: {RANDOM(lo, hi)}.
~ hi = hi - 1
{hi > -2: -> top}
-> END
