VAR x = 2
-> k
== k ==
{ cycle:
    - A {x>1:yes|no}.
    - B
}
+ again -> k
+ stop -> END
