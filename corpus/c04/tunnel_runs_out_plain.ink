Before.
-> corridor ->
Back.
-> END
=== corridor ===
In the corridor.
