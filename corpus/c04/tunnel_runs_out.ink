VAR x = 1
Before.
-> corridor ->
Back.
-> END
=== corridor ===
In the corridor {x}.
* [go] Gone.
* [stay] Stayed.
    ->->
