VAR g = 1
Start.
~ temp x = f()
~ g = f()
After {g}.
-> END
== function f() ==
~ g = g + 1
