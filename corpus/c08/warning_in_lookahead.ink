// A warning ("variable not found": `t` is only declared on the branch not taken) is raised inside the look-ahead that
// follows "First line.", next to assignments to observed globals and a call of a look-ahead-safe external.
// With an error handler installed, a time-limited continue that pauses there hands the warning over early; that must
// not commit the look-ahead: lines, notifications per line and external calls stay those of the blocking run.
EXTERNAL tick()
VAR x = 0
VAR y = 0
VAR z = 0
-> start
== start
First line.
{ x > 5:
    ~ temp t = 3
}
~ x = t
~ y = y + 1
~ temp v = tick()
~ z = z + v
Second line: {y} {z}.
~ y = y + 10
~ x = t
Third line: {y}.
* [on]
  ~ x = t
  ~ y = y + 100
  Fourth line: {y}.
  -> END

== function tick ==
~ return 1
