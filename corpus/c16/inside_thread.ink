VAR n = 0
Start.
<- side
Main after {n}.
* [Walk] Walking.
    <- side
    More.
- Done.
-> END

== side ==
Side one. # s1
~ n = n + 1
Side two.
Side three {n}.
-> DONE

== function double(x) ==
~ return x * 2

== function greet(who) ==
Hello {who}!
~ return 1
