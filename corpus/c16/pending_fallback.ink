VAR n = 0
Start.
<- t
Line two.
~ n = n + 1
Line three {n}.
Line four.
* [Walk] Walking.
* [Run] Running.
- Done.
-> END

== t ==
* ->
    With nothing else to do, you leave.
    It is raining outside.
    -> DONE

== function double(x) ==
~ return x * 2

== function greet(who) ==
Hello {who}!
~ return 1
