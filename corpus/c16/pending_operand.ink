VAR total = 0
VAR acc = 3
Start.
~ total = 10 + lines() * 2
Total is {total}.
~ acc = acc + (total - lines())
Acc {acc}.
* One
  Picked one {acc + lines()}.
* Two
  Picked two.
- After.
-> END

== function lines() ==
first line
second line
~ return 5

== function double(x) ==
~ return x * 2

== function greet(who) ==
Hello {who}!
~ return 1
