VAR x = 0
Start.
<- side
Main one.
Main two.
* [go] Gone.
    <- side
    After.
    -> END
=== side ===
Side one.
Side two.
~ x = x + 1
<- inner
Side three.
-> DONE
=== inner ===
Inner one.
Inner two.
-> DONE
