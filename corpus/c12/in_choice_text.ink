EXTERNAL f()
Line one
* Pick {check()}
  Done
  -> END

=== function check()
~ temp ok = f() + 1
{ ok > 1:
    ~ return "yes"
}
~ return "no"
