EXTERNAL f()
Line one
~ temp t = "{check()}"
Result {t}
Line three
-> END

=== function check()
~ temp ok = f()
{ ok:
    ~ return "yes"
}
~ return "no"
