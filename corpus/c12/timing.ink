EXTERNAL f()
Line one.
{f()} second.
Line three.
~ f()
Line four {f()}.
Line five. <>
{f()} glued.
Line six.
# {f()}mark
Line seven.
Line eight. # tail {f()}
Line nine.
-> END

=== function f() ===
~ return 0
