EXTERNAL f()
Line one.
{f()} second.
Line three.
~ f()
Line four {f()}.
Line five. <>
{f()} glued.
-> END

=== function f() ===
~ return 0
