-> Cellar
=== Cellar ===
The Upper-Case Cellar. # Deep
+ [look] Looking. -> Cellar
+ [leave] -> cellar
=== cellar ===
the lower-case cellar.
+ [again] -> cellar
+ [up] -> Attic.Window
=== Attic ===
= Window
A Window. # Élan
+ [stay] -> Attic.Window
+ [down] -> Cellar
=== Éclair ===
Pâtisserie.
+ [back] -> Cellar
