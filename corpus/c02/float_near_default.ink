VAR warmth = 0.0
VAR unit = 1.0
~ warmth = 1.0
-> cool
=== cool ===
~ warmth = warmth / 10
~ unit = unit - 0.00000006
Warmth {warmth} unit {unit}.
{warmth > 0.000000001: -> cool}
* [stop] Final {warmth} {unit}.
-> END
