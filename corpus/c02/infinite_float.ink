VAR x = 0.0
VAR y = 1.0
~ y = y / x
Value {y}.
* go
  After {y}.
  -> END
