T�rnL {TURNS()}
-()}
- Turn: {TURNS()}
* [Next]
-�Is �hows.feels...
-> END
