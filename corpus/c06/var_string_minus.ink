VAR x = "a" - 1
{x}
