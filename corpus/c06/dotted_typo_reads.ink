-> hall
=== hall ===
= door
Seen {hall..door}.
-> END
