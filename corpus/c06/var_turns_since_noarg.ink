VAR owned = TURNS_SINCE()
{owned}
