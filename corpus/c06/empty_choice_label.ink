Start
* () Hello there
* (two words) Hi
- () Done
-> END
