-> k(-> hall..door)
=== k(-> x) ===
-> x
=== hall ===
= door
Door.
-> END
