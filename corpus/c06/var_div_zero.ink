VAR x = 1 / 0
{x}
