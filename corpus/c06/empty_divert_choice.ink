Start
* [x] ->
Next
