-> hall
=== hall ===
= door
Seen {READ_COUNT(-> hall..door)} {TURNS_SINCE(-> hall.)}.
-> END
