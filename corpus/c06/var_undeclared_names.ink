VAR lamp_lit = f^lse
{lamp_lit}
