LIST l = a = 4294967295, b
{l}
