~ temp t = -> hall.
-> hall
=== hall ===
= door
Door {t}.
-> END
