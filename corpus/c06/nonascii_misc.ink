VAR x = 1
{x > 0 and x < 3: é -> END}
~ x = x + 1 // ü
* [日本] -> END
