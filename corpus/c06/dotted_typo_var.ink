VAR v = -> hall..door
-> hall
=== hall ===
= door
Door.
-> END
