VAR mood = -> happy
VAR greeting = "ありがとう"
~ mood = react("ありがとう", -> happy)
~ mood = react("é", -> sad)
{ react("日本語の文字列", -> sad) == -> sad: same | other }
~ temp t = pick("ñandú", -> happy, "😀😀", -> sad)
-> mood
=== function react(word, where) ===
~ return where
=== function pick(a, x, b, y) ===
{ a == b:
    ~ return x
}
~ return y
=== happy ===
Good. -> END
=== sad ===
Bad. -> END
