Start
<- 
Next
