VAR f = false
- (g5)
Garden
- (g6)
+ {f} Paper
    x
- (g7)
Letter
