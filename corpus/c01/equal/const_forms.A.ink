// A: constants in every position (defined by other constants, in divert / thread / tunnel arguments, conditions,
// assignments, tags); B: the same program with the values written out. Ink defines a CONST as its value.
CONST BASE = 3
CONST STEP = BASE + 2
CONST LIMIT = STEP * 2
CONST TOP = LIMIT - BASE
CONST NAME = "Ada"
VAR score = TOP
Score {score}, top {TOP}, limit {LIMIT}, hello {NAME}. # level {STEP}
{ score == TOP: as expected | odd }
-> k(TOP)
== k(n)
got {n}
<- th(STEP)
-> tun(LIMIT) ->
* {n > BASE} [more than {BASE}]
  ~ score = score + STEP
  now {score}
  -> END
* [other]
  ~ score = score - BASE
  now {score}
  -> END
== th(m)
thread {m}
-> DONE
== tun(q)
tunnel {q}
->->
