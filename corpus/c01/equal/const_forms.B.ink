VAR score = 7
Score {score}, top {7}, limit {10}, hello {"Ada"}. # level {5}
{ score == 7: as expected | odd }
-> k(7)
== k(n)
got {n}
<- th(5)
-> tun(10) ->
* {n > 3} [more than {3}]
  ~ score = score + 5
  now {score}
  -> END
* [other]
  ~ score = score - 3
  now {score}
  -> END
== th(m)
thread {m}
-> DONE
== tun(q)
tunnel {q}
->->
