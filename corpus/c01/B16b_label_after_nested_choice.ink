~ v0 = k0.c1
=== k0(p0) ===
- (g0)
    + + Apple captain signal
* (c1) {(8 - k0) != v0} Silver captain [] captain winter # letter
