LIST weapons = sword, (axe), bow
LIST relics = chalice, sword, (crown)
LIST tools = (hammer), saw, sword
VAR held = sword
VAR other = axe
Held {held}.
All {LIST_ALL(held)}.
Inverse {LIST_INVERT(held)}.
~ other = other + held
Other {other} min {LIST_MIN(other)} max {LIST_MAX(other)}.
* Take {held}
  ~ held = saw
  Now {held} of {LIST_ALL(held)}.
* Drop
  ~ held = ()
  Nothing {held}.
- Count {LIST_COUNT(LIST_ALL(other))}.
-> END
