LIST weapons = sword, (axe), bow
LIST relics = chalice, sword, (crown)
LIST tools = (hammer), saw, sword
VAR held = sword
VAR other = axe
VAR seen = (sword)
VAR pair = (sword, saw)
VAR mix = (weapons.axe, relics.sword, tools.saw)
Held {held}.
All {LIST_ALL(held)}.
Inverse {LIST_INVERT(held)}.
~ other = other + held
Other {other} min {LIST_MIN(other)} max {LIST_MAX(other)}.
* Take {held}
  ~ held = saw
  Now {held} of {LIST_ALL(held)}.
* Drop
  ~ held = ()
  Nothing {held}.
- Count {LIST_COUNT(LIST_ALL(other))}.
~ seen += (sword, crown)
~ pair -= (saw)
Seen {seen} of {LIST_ALL(seen)} value {LIST_VALUE(LIST_MIN(seen))}.
Pair {pair} {pair ? (sword)} {(sword) == held}.
Mix {mix} max {LIST_MAX(mix)} min {LIST_MIN(mix)}.
~ mix -= LIST_MAX(mix)
Left {mix} then {LIST_MIN(mix)}.
~ mix -= LIST_MIN(mix)
Last {mix}.
-> END
