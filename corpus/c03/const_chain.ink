// constants defined by other constants, in a chain of four and a diamond: whatever the compiler makes of them,
// it has to make the same of them every time (C03: byte-identical output, same play)
CONST BASE = 3
CONST STEP = BASE + 2
CONST LIMIT = STEP * 2
CONST TOP = LIMIT - BASE
CONST LEFT = BASE + 1
CONST RIGHT = BASE + 2
CONST BOTH = LEFT + RIGHT
VAR score = 0
~ score = TOP
Score: {score}. Top {TOP}, limit {LIMIT}, step {STEP}, both {BOTH}.
* [more]
  ~ score = score + BOTH
  Now {score}.
  -> END
* [less]
  ~ score = score - STEP
  Now {score}.
  -> END
