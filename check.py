#!/usr/bin/env python3
"""Orchestrator: check.py <Cxx> [--tier quick|thorough] [--replay FILE]

For one property it
  1. rebuilds the code under test (harness linked against /repo's working tree),
  2. regenerates translator output (lean/Generated),
  3. discharges the proof obligations (lake build of the property's theorem
     module, axiom audit, textual scan for sorry/axiom/...),
  4. runs the correspondence check (real code vs executable Lean model),
  5. runs the direct property oracle on the implementation (also the search
     for a concrete failing input when 3 or 4 break),
  6. writes evidence/<id>.json, prints KNOWN-FINDING / VIOLATION lines.
Exit 0 = property held on everything explored; 1 = violation.
"""
import argparse
import importlib
import json
import os
import sys
import time

ROOT = os.path.dirname(os.path.abspath(__file__))
sys.path.insert(0, ROOT)

from lib import common  # noqa: E402


def main():
    ap = argparse.ArgumentParser()
    ap.add_argument("prop")
    ap.add_argument("--tier", default=os.environ.get("VERIF_TIER", "quick"))
    ap.add_argument("--replay", default=None)
    ap.add_argument("--no-build", action="store_true")
    args = ap.parse_args()
    prop = args.prop.upper()
    tier = args.tier if args.tier in ("quick", "thorough") else "quick"
    seed = int(os.environ.get("VERIF_SEED", "1") or "1")
    t0 = time.time()

    ctx = common.Ctx(prop, tier, seed)
    if not args.replay:
        # replays of earlier runs of this property are stale
        import glob
        for f in glob.glob(os.path.join(ROOT, "replays", f"{prop}-*.json")):
            os.remove(f)
    try:
        mod = importlib.import_module(f"checks.{prop.lower()}")
    except ModuleNotFoundError:
        print(f"no check for {prop}")
        return 2

    try:
        if not args.no_build:
            common.build_all(ctx, features=getattr(mod, "HARNESS_FEATURES", [[]]),
                             release=(tier == "thorough" and getattr(mod, "WANT_RELEASE", False))
                             or getattr(mod, "ALWAYS_RELEASE", False),
                             cli=getattr(mod, "NEEDS_CLI", False))
        if args.replay:
            rc = mod.replay(ctx, args.replay)
            return rc
        # translator step of this property, if any (regenerates Lean sources from /repo)
        if hasattr(mod, "prepare"):
            mod.prepare(ctx)
        # proof obligations
        ob = common.proof_obligations(ctx, mod.THEOREM_MODULES, mod.REQUIRED_THEOREMS,
                                      extra_allowed=getattr(mod, "EXTRA_AXIOMS", []),
                                      allow_native_in=getattr(mod, "ALLOW_NATIVE_IN", ()))
        ctx.obligations = ob
        # correspondence + oracle
        mod.run(ctx)
    except common.Broken as e:
        # machinery failure that is not a property verdict (build failure of /repo etc.)
        ctx.violation("build", {"what": str(e)}, found_input=False)
    finally:
        ctx.cleanup()

    return common.finish(ctx, mod, time.time() - t0)


if __name__ == "__main__":
    sys.exit(main())
