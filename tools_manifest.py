#!/usr/bin/env python3
"""Regenerates MANIFEST.json from the table below (keeps the manifest valid at all times)."""
import json, os, subprocess
ROOT = os.path.dirname(os.path.abspath(__file__))
ALL = [f"C{i:02d}" for i in range(1, 21)]

CLAIMS = {
 "C19": dict(
    category="proof",
    text=("Lean theorems over the Path/Tree models, for all trees, positions and paths: parse(toText p)=p for "
          "well-formed paths (relative flag kept), equal paths hash equally, relative round-trip, and in a well-formed "
          "tree the path of every position resolves to that position without approximation. The models (loader, path, "
          "resolution) are tied to the code on every run: the audit hook's rows for every object / reference / sampled "
          "pair of every corpus story (both compilers), generated programs and random trees must equal the rows the "
          "Lean model computes; the same rows are the direct oracle of the property on the real code."),
    design_ref="DESIGN.md section 5 C19",
    note=("Trusted: Lean kernel; axioms propext/Classical.choice/Quot.sound only; harness+driver+check.py; audit hook; "
          "object identity = tree position; SipHash collisions ignored; hypotheses WFTree/Path.WF are evaluated by an "
          "executable checker on every audited story (not yet proved equivalent to the Prop)."),
    technique="Lean 4 proof over hand-written model + differential correspondence (audit rows) against the real code"),
}

REASONS_PENDING = "check not built yet in this revision of /verif (see DESIGN.md section 9.1 for the order of work)"


def main():
    try:
        commits = subprocess.run(["git", "-C", "/repo", "log", "--format=%H %s"], capture_output=True, text=True).stdout.splitlines()
    except Exception:
        commits = []
    hook_commits = [c.split()[0] for c in commits if " verif-hooks:" in c]
    checks = []
    for pid in ALL:
        if pid not in CLAIMS:
            continue
        c = CLAIMS[pid]
        checks.append({
            "property_id": pid,
            "quick_cmd": f"python3 check.py {pid} --tier quick",
            "thorough_cmd": f"python3 check.py {pid} --tier thorough",
            "evidence_file": f"/verif/evidence/{pid}.json",
            "replay_cmd_template": f"python3 check.py {pid} --replay {{path}}",
            "engine": "lean-proof+correspondence",
            "level_claimed": {"category": c["category"], "text": c["text"], "design_ref": c["design_ref"]},
            "level_note": c["note"],
            "technique": c["technique"],
        })
    man = {
        "version": 1,
        "setup_cmd": "python3 setup.py",
        "hooks": {
            "guard": "cargo feature verif-hooks on the bladeink crate",
            "enable": "the harness crate depends on bladeink with features=[\"verif-hooks\"]",
            "baseline_off_cmd": "cd /repo && cargo test --workspace --no-fail-fast --offline",
            "source_commits": hook_commits,
            "add_only": True,
        },
        "engines": [{
            "name": "lean-proof+correspondence", "path": "/verif/check.py",
            "serves_properties": sorted(CLAIMS.keys()),
            "kind_free_text": "Lean 4 theorems over executable models (lean/Ink, lean/Proofs); models tied to /repo on every run "
                              "by a differential correspondence check (harness/rt vs lean driver inkmodel); direct oracles on the real code give replays",
        }],
        "checks": checks,
        "notes": "All checks rebuild the harness against /repo's working tree and rebuild the Lean project; VERIF_SEED seeds every generator.",
        "not_applicable": [{"property_id": p, "reason": REASONS_PENDING} for p in ALL if p not in CLAIMS],
    }
    json.dump(man, open(os.path.join(ROOT, "MANIFEST.json"), "w"), indent=1)


if __name__ == "__main__":
    main()
